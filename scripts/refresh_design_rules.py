#!/usr/bin/env python3
"""Rewrite the '*Rules run (as built):*' line of every property section of DESIGN.md from `mqttverif list`."""
import re, subprocess
lst = subprocess.run(['/verif/bin/mqttverif', 'list'], capture_output=True, text=True).stdout
m = {}
for l in lst.splitlines():
    if ':' in l:
        k, v = l.split(':', 1)
        m[k.strip()] = v.split()
lines = open('/verif/DESIGN.md').read().split('\n')
cur = None
for i, l in enumerate(lines):
    h = re.match(r'^#+\s*(C\d\d)\b', l)
    if h:
        cur = h.group(1)
    if l.startswith('*Rules run (as built):*') and cur:
        lines[i] = '*Rules run (as built):* ' + ', '.join(m[cur]) + '.'
# the "Third round" paragraph of each property section mirrors the explanation the checker writes into the evidence
import json, os
out = []
cur = None
skip = False
for l in lines:
    h = re.match(r'^#+\s*(C\d\d)\b', l)
    if h:
        cur = h.group(1)
    if l.startswith('*Third round:*'):
        skip = True
        continue
    if skip:
        if l.strip() == '':
            skip = False
        continue
    out.append(l)
    if l.startswith('*Rules run (as built):*') and cur:
        ev = '/verif/evidence/%s.json' % cur
        if os.path.exists(ev):
            ex = json.load(open(ev)).get('coverage', {}).get('explanation', '')
            m3 = re.search(r'(Third round: .*?) Not decided:', ex)
            if m3:
                out.append('')
                out.append('*Third round:* ' + m3.group(1)[len('Third round: '):])
open('/verif/DESIGN.md', 'w').write('\n'.join(out))
