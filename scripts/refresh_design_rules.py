#!/usr/bin/env python3
"""Rewrite the '*Rules run (as built):*' line of every property section of DESIGN.md from `mqttverif list`."""
import re, subprocess
lst = subprocess.run(['/verif/bin/mqttverif', 'list'], capture_output=True, text=True).stdout
m = {}
for l in lst.splitlines():
    if ':' in l:
        k, v = l.split(':', 1)
        m[k.strip()] = v.split()
lines = open('/verif/DESIGN.md').read().split('\n')
cur = None
for i, l in enumerate(lines):
    h = re.match(r'^#+\s*(C\d\d)\b', l)
    if h:
        cur = h.group(1)
    if l.startswith('*Rules run (as built):*') and cur:
        lines[i] = '*Rules run (as built):* ' + ', '.join(m[cur]) + '.'
open('/verif/DESIGN.md', 'w').write('\n'.join(lines))
