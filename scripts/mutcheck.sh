#!/bin/bash
# usage: mutcheck.sh <patch.diff> [props...]  — apply to /repo, run checks, revert.
set -u
patch=$1; shift
props=${*:-$(/verif/bin/mqttverif list | cut -d: -f1)}
cd /repo || exit 2
if [ -n "$(git status --porcelain)" ]; then echo "/repo not clean" >&2; exit 2; fi
git apply "$patch" || { echo "patch does not apply" >&2; exit 2; }
trap 'git -C /repo checkout -- . ' EXIT
export GOFLAGS=-mod=mod GOPROXY=off GOSUMDB=off GOTOOLCHAIN=local
go build ./... || { echo "BUILD FAILS"; exit 3; }
caught=""
for p in $props; do
  out=$(/verif/bin/mqttverif check -p $p -no-evidence 2>&1)
  if echo "$out" | grep -q '^VIOLATION'; then
    caught="$caught $p"
    echo "== $p fires:"; echo "$out" | grep -E '^  (rule|construct|reason)' | paste - - - | cut -c1-400 | head -8
  fi
done
echo "CAUGHT-BY:${caught:- none}"
