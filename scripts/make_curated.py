#!/usr/bin/env python3
"""Builds the curated variants of /verif/selftest/patches from construct-anchored edits
(applied in a scratch worktree of /repo, never in /repo itself). Each variant must compile;
whether the existing suite still passes is recorded in the case list."""
import json, os, subprocess, sys, tempfile, shutil
ENV = dict(os.environ, GOFLAGS="-mod=mod", GOPROXY="off", GOSUMDB="off", GOTOOLCHAIN="local", GOWORK="off")
def sh(cmd, cwd):
    p = subprocess.run(cmd, cwd=cwd, env=ENV, shell=True, capture_output=True, text=True)
    return p.returncode, p.stdout + p.stderr

EDITS = [
 ("F4-read-routine-waits", "C10", "RCH-1", "", "client.go",
  "\terr = c.writeNoWait(c.pendingAck)\n\tif err != nil {\n\t\treturn err // causes resubmission of PUBCOMP",
  "\terr = c.write(nil, c.pendingAck)\n\tif err != nil {\n\t\treturn err // causes resubmission of PUBCOMP",
  "F4 reintroduced: onPUBREL writes PUBCOMP through the waiting write"),
 ("F2-sequence-not-continued", "C02", "ADP-1", "", "request.go",
  "\trugged.seqNo.Store(storeOrderMax)\n", "",
  "F2 reintroduced: the adopted client restarts the storage sequence"),
 ("errmax-after-save", "C17", "ORD-1", "", "request.go",
  "\tif cap(out.queue) == len(out.queue) {\n\t\treturn nil, fmt.Errorf(\"%w; PUBLISH unavailable\", ErrMax)\n\t}\n\n\t// apply sequence number to packet",
  "\t// apply sequence number to packet",
  None),
 ("resend-skips-missing", "C01", "ORD-2", "", "client.go",
  "\t\tif packet == nil {\n\t\t\treturn fmt.Errorf(\"mqtt: persistence key %#04x gone missing 👻\", key)\n\t\t}",
  "\t\tif packet == nil {\n\t\t\tcontinue\n\t\t}",
  "resend skips a missing record instead of failing the connect"),
 ("received-before-save", "C03", "ORD-3", "", "request.go",
  "\terr := c.persistence.Save(packetID, net.Buffers{c.pendingAck})\n\tif err != nil {\n\t\tc.pendingAck = c.pendingAck[:0]\n\t\treturn err // causes resubmission of PUBLISH (from persistence)\n\t}\n\tc.orderedTxs.Received++\n",
  "\tc.orderedTxs.Received++\n\terr := c.persistence.Save(packetID, net.Buffers{c.pendingAck})\n\tif err != nil {\n\t\tc.pendingAck = c.pendingAck[:0]\n\t\treturn err // causes resubmission of PUBLISH (from persistence)\n\t}\n",
  "onPUBREC counts the PUBREC before the PUBREL is saved"),
 ("redeposit-after-failed-write", "C08", "TOK-4", "", "client.go",
  "\t\tif !nonNilIsAny(err, connClosedErrors) {\n\t\t\tconn.Close() // signal read routine\n\t\t}\n\t\tc.writeSem <- connPending // unlock write; pending connect\n\t\treturn errors.Join(ErrSubmit, err)",
  "\t\tc.writeSem <- conn // unlock write\n\t\treturn errors.Join(ErrSubmit, err)",
  "write puts the connection back after a failed write"),
 ("close-without-signal-test", "C12", "PAN-2", "", "client.go",
  "\tcase conn = <-c.writeSem:\n\t\tswitch conn {\n\t\tcase connPending, connDown:\n\t\t\treturn nil // already offline\n\t\t}\n\t\treturn conn.Close()",
  "\tcase conn = <-c.writeSem:\n\t\treturn conn.Close()",
  "Close calls Close on whatever writeSem holds, including the signals"),
 ("tooffline-keeps-readconn", "C10", "ORD-6", "", "client.go",
  "\tc.readConn = nil\n\tc.bigMessage = nil // lost", "\tc.bigMessage = nil // lost",
  "toOffline leaves readConn set: no redial"),
 ("subscribe-quit-leaks-slot", "C11", "TOK-9", "", "request.go",
  "\tcase <-quit:\n\t\tc.unorderedTxs.endTx(packetID) // releases slot\n\t\treturn fmt.Errorf(\"%w; SUBSCRIBE not confirmed\", ErrAbandoned)",
  "\tcase <-quit:\n\t\treturn fmt.Errorf(\"%w; SUBSCRIBE not confirmed\", ErrAbandoned)",
  "Subscribe abandons without releasing its slot"),
 ("unbuffered-callback", "C11", "TOK-11", "", "request.go",
  "\tch := make(chan error, 1)\n", "\tch := make(chan error)\n",
  "startTx makes an unbuffered callback: the read routine blocks in breakAll/onSUBACK"),
 ("quit-gives-abandoned", "C14", "ERR-3", "", "client.go",
  "\t\tcase <-quit:\n\t\t\treturn nil, ErrCanceled", "\t\tcase <-quit:\n\t\t\treturn nil, ErrAbandoned",
  "lockWrite maps quit to ErrAbandoned although nothing was sent"),
 ("hash-excludes-seqno", "C15", "COD-8", "", "mqtt.go",
  "\tdigest.Write(buf[:len(buf)-4])", "\tdigest.Write(buf[:len(buf)-12])",
  "decodeValue hashes the packet only"),
 ("idspace-overlap", "C17", "COD-1", "", "request.go",
  "\tunsubscribeIDSpace = 0x4000", "\tunsubscribeIDSpace = 0x6000",
  "subscribe and unsubscribe identifier spaces coincide"),
 ("connack-any-flags", "C18", "ORD-7", "", "client.go",
  "\tdefault:\n\t\treturn nil, fmt.Errorf(\"%w: CONNACK with reserved flags %#b\",\n\t\t\terrProtoReset, flags)\n", "",
  "handshake accepts reserved CONNACK flags"),
 ("rename-before-sync", "C19", "ORD-9", "", "mqtt.go",
  "\tif err == nil {\n\t\terr = f.Sync()\n\t}\n\tf.Close()\n\tif err == nil {\n\t\terr = os.Rename(f.Name(), dir.file(key))\n\t}",
  "\tf.Close()\n\tif err == nil {\n\t\terr = os.Rename(f.Name(), dir.file(key))\n\t}",
  "Save renames without flushing"),
 ("list-accepts-spool", "C19", "COD-10", "", "mqtt.go",
  "\t\tif len(name) != 5 {\n\t\t\tcontinue\n\t\t}\n\t\tu, err := strconv.ParseUint(name, 16, 17)",
  "\t\tif len(name) < 5 {\n\t\t\tcontinue\n\t\t}\n\t\tu, err := strconv.ParseUint(name[:5], 16, 17)",
  "List reports spool files as keys"),
 ("pingreq-dispatched", "C13", "COD-2", "", "client.go",
  "\t\tcase typePINGREQ:\n\t\t\terr = errGotPINGREQ", "\t\tcase typePINGREQ:\n\t\t\terr = c.onPINGRESP()",
  "an inbound PINGREQ is handled instead of rejected"),
 ("puback-out-of-order", "C13", "COD-3", "", "request.go",
  "\tcase expect != packetID:\n\t\treturn fmt.Errorf(\"%w: PUBACK %#04x while %#04x next in line\", errProtoReset, packetID, expect)\n", "",
  "onPUBACK accepts any identifier of its space"),
 ("offline-before-online-blocked", "C12", "TOK-8", "", "client.go",
  "\tblockSignalChan(c.onlineSig)\n\tclearSignalChan(c.offlineSig)\n\tc.writeSem <- connPending",
  "\tclearSignalChan(c.offlineSig)\n\tblockSignalChan(c.onlineSig)\n\tc.writeSem <- connPending",
  "toOffline releases Offline before blocking Online"),
 ("no-termcallbacks", "C12", "ORD-8", "", "client.go",
  "\tcase errors.Is(err, ErrClosed):\n\t\tc.termCallbacks()\n", "\tcase errors.Is(err, ErrClosed):\n\t\tbreak\n",
  "ReadSlices no longer terminates the callbacks on ErrClosed"),
 ("dup-on-first-transmission", "C05", "OWN-6", "", "request.go",
  "\tpacket, err := publishPacket(buf, message, topic, atLeastOnceIDSpace, typePUBLISH<<4|atLeastOnceLevel<<1)\n",
  "\tpacket, err := publishPacket(buf, message, topic, atLeastOnceIDSpace, typePUBLISH<<4|atLeastOnceLevel<<1|dupeFlag)\n",
  "PublishAtLeastOnce sets DUP on the first transmission"),
 ("password-unbounded", "C09", "COD-7", "", "client.go",
  "\tif len(c.Password) > stringMax {\n\t\treturn fmt.Errorf(\"%w; illegal password\", errStringMax)\n\t}\n", "",
  "Config.valid no longer bounds the password"),
 ("unsubscribe-size-short", "C09", "COD-6", "", "request.go",
  "\tsize := 2 + len(topicFilters)*2\n", "\tsize := 2 + len(topicFilters)\n",
  "UNSUBSCRIBE remaining length misses one byte per filter"),
 ("puback-written-directly", "C07", "ORD-4", "", "client.go",
  "\t\tc.pendingAck = append(c.pendingAck, typePUBACK<<4, 2, byte(packetID>>8), byte(packetID))\n",
  "\t\tc.pendingAck = append(c.pendingAck, typePUBACK<<4, 2, byte(packetID>>8), byte(packetID))\n\t\tif err := c.writeNoWait(c.pendingAck); err != nil {\n\t\t\treturn nil, nil, err\n\t\t}\n\t\tc.pendingAck = c.pendingAck[:0]\n",
  "onPUBLISH acknowledges before the application took ownership"),
 ("marker-key-without-flag", "C04", "COD-11", "", "client.go",
  "\terr := c.persistence.Delete(packetID | remoteIDKeyFlag)", "\terr := c.persistence.Delete(packetID)",
  "onPUBREL deletes under the outbound key space"),
 ("seq-token-released-early", "C05", "TOK-1", "", "request.go",
  "\tdefer func() {\n\t\tout.seqSem <- seq // unlock with updated\n\t}()\n\n\thasBacklog := seq.submitN < seq.acceptN\n\n\t// persist\n\tdone, err := c.applySeqNoAndEnqueue(packet, seq.acceptN, out)\n\tif err != nil {\n\t\treturn nil, err\n\t}\n\tseq.acceptN++\n",
  "\thasBacklog := seq.submitN < seq.acceptN\n\n\t// persist\n\tdone, err := c.applySeqNoAndEnqueue(packet, seq.acceptN, out)\n\tif err != nil {\n\t\tout.seqSem <- seq\n\t\treturn nil, err\n\t}\n\tseq.acceptN++\n\tdefer func() {\n\t\tout.seqSem <- seq // unlock with updated\n\t}()\n\tif hasBacklog && false {\n\t\treturn done, nil\n\t}\n",
  None),
 ("discard-unbounded", "C06", "ORD-12", "", "client.go",
  "\t\t\tbeforeMessage := len(c.peek) - len(partialMessage)\n", "\t\t\tbeforeMessage := readBufSize - len(partialMessage)\n",
  "the BigMessage hand-over skips by the configured buffer size again (F5 arithmetic)"),
]

def main():
    wt = tempfile.mkdtemp(prefix="curated-"); os.rmdir(wt)
    sh("git -C /repo worktree add -q --detach %s HEAD" % wt, "/")
    cases = []
    try:
        for (cid, prop, rule, cons, file, old, new, what) in EDITS:
            if what is None:
                continue
            sh("git checkout -- .", wt)
            p = os.path.join(wt, file)
            s = open(p).read()
            if s.count(old) != 1:
                print("ANCHOR", cid, s.count(old)); continue
            open(p, "w").write(s.replace(old, new))
            sh("gofmt -w %s" % file, wt)
            rc, out = sh("go build ./... && go vet ./...", wt)
            if rc:
                print("NOBUILD", cid, out[-300:]); continue
            rc, out = sh("go test -vet=off -count=1 ./...", wt)
            suite = rc == 0
            rc, d = sh("git diff", wt)
            open("/verif/selftest/patches/%s.diff" % cid, "w").write(d)
            cases.append({"id": cid, "kind": "patch", "patch": "selftest/patches/%s.diff" % cid, "property": prop, "rule": rule, "what": what, "suite_passes": suite})
            print("ok", cid, "suite" if suite else "SUITE-FAILS")
    finally:
        sh("git -C /repo worktree remove --force %s" % wt, "/"); shutil.rmtree(wt, ignore_errors=True)
    json.dump(cases, open("/verif/out/curated_cases.json", "w"), indent=1)
main()
