#!/usr/bin/env python3
"""Re-runs every registered check against each seeded change (scratch worktree) and refreshes
caught_by in seeded/<id>/meta.json. The build/suite/demo verification is not repeated."""
import json, os, subprocess, sys, tempfile, shutil, glob
from concurrent.futures import ThreadPoolExecutor
ENV = dict(os.environ, GOFLAGS="-mod=mod", GOPROXY="off", GOSUMDB="off", GOTOOLCHAIN="local", GOWORK="off")
def run(cmd, cwd):
    p = subprocess.run(cmd, cwd=cwd, env=ENV, capture_output=True, text=True)
    return p.returncode, p.stdout + p.stderr
rc, out = run(["/verif/bin/mqttverif", "list"], "/verif")
PROPS = [l.split(":")[0] for l in out.splitlines() if l.strip()]
def one(d):
    meta = json.load(open(os.path.join(d, "meta.json")))
    wt = tempfile.mkdtemp(prefix="seedrf-"); os.rmdir(wt)
    run(["git", "-C", "/repo", "worktree", "add", "-q", "--detach", wt, "HEAD"], "/")
    try:
        rc, out = run(["git", "apply", os.path.join(d, "patch.diff")], wt)
        if rc:
            return meta["id"], "patch no longer applies: " + out[:200]
        caught = {}
        for p in PROPS:
            rc, out = run(["/verif/bin/mqttverif", "check", "-p", p, "-repo", wt, "-no-evidence"], "/verif")
            if "VIOLATION" in out:
                caught[p] = [l.split("construct", 1)[1].strip() for l in out.splitlines() if l.strip().startswith("construct")][:6]
        meta["caught_by"] = caught
        meta["caught_by_own_property"] = meta["breaks_property"] in caught
        json.dump(meta, open(os.path.join(d, "meta.json"), "w"), indent=1)
        return meta["id"], "own" if meta["caught_by_own_property"] else "MISS own; by " + ",".join(caught)
    finally:
        run(["git", "-C", "/repo", "worktree", "remove", "--force", wt], "/"); shutil.rmtree(wt, ignore_errors=True)
dirs = sorted(glob.glob(os.environ.get("SEED_GLOB", "/verif/seeded/*/")))
with ThreadPoolExecutor(6) as ex:
    for sid, r in ex.map(one, dirs):
        if r != "own":
            print(sid, r)
print("refreshed", len(dirs))
