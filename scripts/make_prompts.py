#!/usr/bin/env python3
"""Generates the prompts for a round of independent sub-agents (seeded changes or refactorings) and their scratch worktrees.

usage: make_prompts.py seed <base-dir> <focus-file> [props...]     one worktree + prompt per property
       make_prompts.py refactor <base-dir> <kinds-file>            ten worktrees + prompts, one per code region
Nothing from /verif is given to an agent except the text of the property (seed) or the region (refactor) and the
one-line titles of the changes already taken for that property."""
import json, os, subprocess, sys, glob
V = "/verif"
REGIONS = [
    "client.go — Config, (*Config).valid, (*Config).newCONNREQ, newClient, NewDialer/NewTLSDialer and the constants at the top of the file",
    "client.go — Close, Disconnect, termCallbacks, toOffline, the Online/Offline signal helpers (blockSignalChan, clearSignalChan, …)",
    "client.go — lockWrite, write, writeNoWait, writeBuffers, writeBuffersNoWait, writeTo, writeBuffersTo",
    "client.go — peekPacket, discard, BigMessage (ReadAll), ReadSlices and readSlices (the main read loop, not the packet handlers)",
    "client.go — connect, dialAndConnect, handshake, resend",
    "client.go — the inbound packet handlers onPUBLISH, onPUBACK, onPUBREC, onPUBREL, onPUBCOMP, onSUBACK, onUNSUBACK, onPINGRESP",
    "request.go — Ping, unorderedTxs (startTx, endTx, breakAll), Subscribe*, subscribeLevel, Unsubscribe",
    "request.go — Publish, PublishRetained, publish, the four persisted publish methods, publishPacket, submitPersisted, applySeqNoAndEnqueue, orderedTxs/outbound/seq",
    "request.go — InitSession/VolatileSession/initSession, AdoptSession, cleanSequence; mqtt.go — ruggedPersistence, encodeValue, decodeValue",
    "mqtt.go — error values and predicates (IsDeny, IsEnd, IsConnectionRefused, nonNilIsAny), Backoff/ReadBackoff helpers wherever they live, volatile and fileSystem persistence; mqtttest/mqtttest.go — all stubs and mocks",
]
def sh(*a, **k): return subprocess.run(a, capture_output=True, text=True, **k)
def main():
    mode, base, extra = sys.argv[1], sys.argv[2], open(sys.argv[3]).read().strip()
    os.makedirs(base + "/out", exist_ok=True)
    if mode == "seed":
        props = {json.loads(l)["id"]: json.loads(l) for l in open(V + "/properties.jsonl")}
        ids = sys.argv[4:] or sorted(props)
        tmpl = open(V + "/scripts/prompts/seed.tmpl").read()
        for pid in ids:
            wt, out = "%s/%s" % (base, pid), "%s/out/%s" % (base, pid)
            os.makedirs(out, exist_ok=True)
            if not os.path.exists(wt):
                sh("git", "-C", "/repo", "worktree", "add", "-q", "--detach", wt, "HEAD")
            taken = []
            for d in sorted(glob.glob("%s/seeded/%s-*/" % (V, pid))):
                n = os.path.join(d, "notes.md")
                t = open(n).readline().strip().lstrip("# ").strip() if os.path.exists(n) else ""
                taken.append("  - " + (t or "(untitled)")[:220])
            p = props[pid]
            text = (p.get("title", "") + "\n\n" + (p.get("statement") or p.get("text") or "")).strip()
            open(out + "/property.txt", "w").write(text + "\n")
            parts = extra.split("\n===STYLE===\n")
            focus, style = parts[0], (parts[1] if len(parts) > 1 else "")
            open(out + "/prompt.txt", "w").write(tmpl.format(WT=wt, OUT=out, BASE=base, PROP=text, TAKEN="\n".join(taken) or "  (none)", FOCUS=focus, STYLE=style))
            print(pid, len(taken), "taken")
    else:
        tmpl = open(V + "/scripts/prompts/refactor.tmpl").read()
        for i, region in enumerate(REGIONS, 1):
            rid = "%02d" % i
            wt, out = "%s/R%s" % (base, rid), "%s/out/R%s" % (base, rid)
            os.makedirs(out, exist_ok=True)
            if not os.path.exists(wt):
                sh("git", "-C", "/repo", "worktree", "add", "-q", "--detach", wt, "HEAD")
            open(out + "/prompt.txt", "w").write(tmpl.format(WT=wt, OUT=out, BASE=base, REGION=region, KINDS=extra))
            print(rid, region[:60])
main()
