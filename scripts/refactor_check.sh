#!/bin/bash
# usage: refactor_check.sh <patch.diff> — apply a behaviour-preserving refactoring in a scratch worktree; any alarm is a false alarm.
wt=$(mktemp -d -u /tmp/rfwt-XXXXXX)
git -C /repo worktree add -q --detach $wt HEAD || exit 2
trap 'git -C /repo worktree remove --force '$wt' >/dev/null 2>&1; rm -rf '$wt EXIT
cd $wt
git apply "$1" || { echo "PATCH-DOES-NOT-APPLY"; exit 3; }
export GOFLAGS=-mod=mod GOPROXY=off GOSUMDB=off GOTOOLCHAIN=local
go build ./... || { echo "BUILD-FAILS"; exit 3; }
n=0
for p in ${PROPS:-$(${BIN:-/verif/bin/mqttverif} list | cut -d: -f1)}; do
  out=$(${BIN:-/verif/bin/mqttverif} check -p $p -repo $wt -no-evidence 2>&1)
  if echo "$out" | grep -q '^VIOLATION'; then
    n=$((n+1))
    echo "$out" | grep -q 'replay=analyser-panic' && echo "$p	PANIC	-	-	the analyser panicked (see mqttverif check -p $p -repo <tree>)"
    echo "$out" | awk -v P=$p '/^(VIOLATED|UNDECIDED)/{st=$1} /^  rule/{r=$2} /^  construct/{sub(/^  construct /,""); c=$0} /^  reason/{sub(/^  reason +/,""); print P"\t"st"\t"r"\t"c"\t"substr($0,1,160)}'
  fi
done
[ $n -eq 0 ] && echo "SILENT"
