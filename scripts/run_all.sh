#!/bin/bash
# Runs every registered check (tier $1, default quick) and summarises.
tier=${1:-quick}
cd /verif || exit 2
rc=0
for p in $(./bin/mqttverif list | cut -d: -f1); do
  out=$(./bin/mqttverif check -p $p -tier $tier 2>&1); r=$?
  echo "$out" | grep -E "^mqttverif|^VIOLATION|^KNOWN-FINDING" | cut -c1-230
  [ $r -ne 0 ] && rc=1
done
exit $rc
