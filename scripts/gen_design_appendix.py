#!/usr/bin/env python3
"""Regenerates Appendix A (selftest variants) and Appendix B (seeded changes and the
checks that catch them) of DESIGN.md from selftest/cases.jsonl and seeded/*/meta.json."""
import json, glob, os, re
D='/verif/DESIGN.md'
s=open(D).read()
i=s.index("## Appendix A")
head=s[:i]
out=[]
out.append("## Appendix A — selftest variants (reverts of fixes and curated patches)\n")
out.append("`mqttverif selftest` applies each variant to a scratch worktree and requires the named rule to fire for the named property; the unmodified tree must stay silent (it does: every quick check exits 0). Variants marked † do not pass the existing suite and serve only as firing controls for their rule; all others compile and pass the 47 tests.\n")
out.append("| variant | kind | property | rule that must fire | what the variant does |\n|---|---|---|---|---|")
for l in open('/verif/selftest/cases.jsonl'):
    l=l.strip()
    if not l or l.startswith('#'): continue
    c=json.loads(l)
    mark='' if c.get('suite_passes',True) else ' †'
    kind='revert of '+c['commit'][:7] if c['kind']=='revert' else 'curated patch'
    out.append("| %s%s | %s | %s | %s | %s |"%(c['id'],mark,kind,c['property'],c.get('rule',''),c.get('what','')))
out.append("")
out.append("## Appendix B — independently seeded changes and the checks that catch them\n")
out.append("Each change was produced by a fresh sub-agent that was given only the text of one property and its own scratch worktree (nothing from /verif). Each was then confirmed here in a scratch worktree: the change builds, the whole existing suite passes with it, its demonstration test fails with it and passes without it (`scripts/seed_verify.py`; details in `seeded/<id>/meta.json`). 'Own property' lists the rules of the property the change was aimed at that fire on it; 'also' lists other properties whose checks fire.\n")
out.append("| id | change (from the agent's notes) | caught by its own property's check (rules) | also fires in |\n|---|---|---|---|")
n=own=0
for m in sorted(glob.glob('/verif/seeded/*/meta.json')):
    meta=json.load(open(m)); d=os.path.dirname(m)
    first=open(os.path.join(d,'notes.md')).read().splitlines()[0].lstrip('# ').strip()
    first=re.sub(r'^C\d+\s*/?\s*(mutant|defect|change)?\s*[AB]\s*[—-]\s*','',first).replace('|','/')
    p=meta['breaks_property']; cb=meta.get('caught_by',{})
    rules=sorted({c.split('|')[0] for c in cb.get(p,[])})
    n+=1; own+= 1 if rules else 0
    others=sorted(k for k in cb if k!=p)
    out.append("| %s | %s | %s | %s |"%(meta['id'], first, ', '.join(rules) if rules else '**not caught**', ' '.join(others)))
out.append("")
out.append("%d of %d seeded changes are caught by the check of the property they were aimed at."%(own,n))
out.append("")
out.append("""**First-pass misses and what they led to.** The table shows the state after strengthening. When the first round (ids ending in -a/-b) arrived, these were *not* yet caught by the rules that existed and led to new clauses, not to special cases: C07-b → ORD-4 "no acknowledgement left queued on an error return"; C02-b → ORD-4 "a packet is kept for retry only after a durable record change"; C06-b → ORD-11 "a parked BigMessage is served, cleared or dropped on every path"; C11-a → TOK-12 (registry discipline); C11-b → ORD-6 "requests released after the write token was exchanged"; C12-a → ORD-8 "cancel before waiting for connSem"; C05-b was at first reported by ORD-2 for the wrong reason (an unrecognised comparison form) → comparisons are normalised and the clause "submitN advances only behind a nil write" was added; C10-b and C12-b were caught by rules that were not yet listed under their own property (TOK-1 added to C10, ORD-7 to C12). A second round (ids ending in -c/-d; each agent was told which changes were already taken for its property and asked for a different mechanism) produced 40 more. Not caught at first: C19-c (failure cleanup removes the final file) → ORD-9 "cleanup removes the spool file only"; C09-d (validator and encoder disagree on when the Will is enabled) → COD-7 guard agreement; C20-c (early return before the filter comparison) → MCK-1 "an expectation that was taken is compared"; C14-d (ReadBackoff case order) → ERR-5 converse clauses; C06-d (deadline re-armed only when the buffer is empty) → ORD-14 requires the buffered amount to cover the amount read; C10-c (progress baseline hoisted out of the retry loop) → ORD-13 clause for the payload retry; C04-d (marker saved for every non-PUBACK) → ORD-4 "marker Save only for PUBREC"; C11-c (callback removed but not answered) → TOK-13 "a removed callback is answered on every return"; C08-d (Ping returns another answer after its write failed) → ERR-7; C01-d/C05-d (volatile store keeps the caller's buffer) → OWN-9; C03-d (continuity test without the roll-over case) → ADP-8 sibling predicate; C16-d (gap test on the uncleaned list) → ADP-4 extended to every read after cleaning; C01-c, C02-d, C05-c, C06-c, C11-d, C12-c, C13-c, C16-c were caught by rules not yet listed under their own property (lists extended). The sub-agents also reported two genuine defects of the unchanged tree that they had to steer around (F17, F18; §5). A third round (ids ending in -e/-f) asked for *subtle* changes in the functions that had received least attention (an equivalent-looking condition that differs on one boundary value, a clean-up moved across a statement it depended on, an error path that returns the right error but skips one duty, two sites that must agree and no longer do). 15 of its 40 were not caught at first: C09-e (Will Retain bit outside the Will guard) → COD-7 flags-describe-the-payload; C09-f (`IndexByte(s,0) > 0`) → COD-13; C06-e (length guard moved to the loop head) → COD-4 exact loop evaluation; C18-f (deferred close watching the wrong `err`) → ORD-7 failure-closes-the-connection; C16-e (Max checks before the gaps are dropped) → ADP-5 final-list clause; C16-f and C02-f (`List` filter) → COD-10 listed under C02/C16; C14-f (`nonNilIsAny` stops at a nil Unwrap) → ERR-4 tree walk; C02-e and C03-f (accept count off by one / from the first PUBREL) → ADP-9; C10-e (ramp-up state unbounded) → ERR-5; C10-f (toOffline waits before it interrupts) → ORD-6/TOK-14; C04-f (stale parked BigMessage) → ORD-11 listed under C04/C07; C08-f (Disconnect swallows a closed-connection write error) → ERR-7 covers Disconnect; C07-f (handshake clears pendingAck) → OWN-3 no longer lets a known function inherit the ownership of its callers. A syntactic mutation sweep (`mutation/`, 1 982 mutants of the four source files; 830 pass the pinned suite) was then used to look for what no agent had thought of: 438 of the 830 were caught when the sweep was first run, 631 after the clauses it led to (the third-round list in §3); the 199 that remain were read one by one and are listed with the reason in `mutation/survivors.tsv` (no-ops, independent statement order, capacity hints, message texts, defaults and tuning, misuse checks of the doubles, checks that are dead under a proven invariant). The sweep was repeated on the repaired tree (fb09025: 1 984 mutants, 832 pass the suite, 645 caught, 199 survivors in the same categories, 187 after the clauses of the later rounds; the two mutants it showed to have been caught by accident before led to ADP-9 sorted-before-cleaned and PAN-5, §3). A fourth round (ids ending in -g/-h; asked for semantic rather than syntactic changes) and a fifth (ids ending in -i/-j; asked for defects that need two cooperating edits, state carried across API calls, or a boundary configuration) followed; what each led to is listed in §3. Of the fifth round 13 of 40 were not caught by their own property at first: C14-i (ErrSubmit tagging moved into the writers, the deadline failure left untagged) → ERR-1 per alternative; C15-i (rugged Load rejects a record "ahead of sequence") → COD-8 intact-served; C03-i (early return forgets the PUBREL list) → ADP-9 coverage needs the proof of emptiness; C06-j (BigMessage announced after less than a full buffer) → COD-4 Peek amount; C18-j (IsConnectionRefused by a list of named codes) → ERR-9; C09-j (ErrMax shortcut ahead of validation) → ORD-10 deny-before-validation; C08-i (second Put of the pooled buffer) → OWN-11; C20-i (mock edits the expectation slice in place) → MCK-8; C17-j (identifier counter stepped back) → TOK-12 counter clauses; C03-j, C05-i, C08-j, C14-j, C17-i were caught by rules not yet listed under their own property (lists extended). Of the sixth round (ids ending in -k/-l; declarations, synchronisation, rare branches, removed defensive checks) 21 of 40 were not caught by their own property at first: C03-l (sequence numbers kept as uint32) and C07-k (volatile map keyed by uint16) → COD-14; C04-k/C06-k (read buffer of 64 KiB) → COD-4 buffer size; C10-l (maximum raised before the minimum gets its default) → ERR-5 defaults on concrete pairs; C11-l (lockWrite without the ticker) → RCH-2; C13-k (errProtoReset wraps net.ErrClosed) → ERR-11; C16-l (cleanSequence takes the warnings by value) → ADP-8 warning reaches the caller; C18-k (refusal codes reordered) → ERR-9 wire values; C20-k (exchange goroutine shares the constructor's scratch variable) → MCK-9; C20-l (mock returns the expectation's slice) → MCK-8 returned slices; C09-l (pool release moved into publishPacket) → OWN-11 follows append and aggregates; C01-k, C01-l, C02-l, C05-l, C08-l, C09-k, C12-k, C13-l, C15-k, C16-k, C18-l were caught by rules not yet listed under their own property (lists extended). Of the seventh round (ids ending in -m/-n; boundary arithmetic, state-machine edges, resource lifecycle, API edges) 19 of 40 were not caught by their own property at first: C06-m (topic offset computed in uint16) → COD-14 narrow arithmetic; C10-n (Ping withdraws its callback with a blocking receive; masked by the known finding F7 under TOK-10's ordinal keys) → TOK-16; C12-m (connection dropped unclosed when Close lands during a dial that still succeeds) → ORD-7 unknown dial error; C15-n (rugged Save retries the delegate with a consumed value) → COD-8 one delegate Save; C04-n (ReadSlices after Close returns before the marker is saved) → ORD-4 ownership clause; C01-m, C02-n, C05-m, C05-n, C07-m, C07-n, C08-n, C09-n, C10-m, C11-n, C14-m, C16-n, C17-m, C17-n were caught by rules not yet listed under their own property (lists extended). The eighth round (ids ending in -o/-p) asked for feature-sized changes (15–60 lines: a cache, a retry, a fast path, a new option, state in a struct): all 40 were caught by some check at once and 34 by their own property; C15-p (record re-packed in a pooled buffer sized without the trailer) → COD-8 Save receives exactly the encoded value; C03-p, C05-o, C09-p, C10-o, C14-o were caught by rules not yet listed under their own property (lists extended). The ninth round (ids ending in -q/-r) asked for classic small slips (a shadowed `err`, the wrong one of two similar variables or constants, a duty skipped by an early return, a condition wrong on one boundary, the wrong slice in a loop); 14 of 40 were not caught by their own property at first: C05-r (DUP decided from the batch offset instead of the packet's sequence number) → ORD-2 per-iteration comparison; C08-q (resend composes its DUP copy in pendingAck) → OWN-12; C09-q (Config.valid returns before the Will checks) → COD-13 accepting paths; C10-r/C18-r (handshake arms the write deadline for its read) → ORD-14 direction, listed under C18; C14-r (Backoff matches *SubscribeError) → ERR-13; C16-q (List returns the parse error of the last stray name) → COD-10 returned error; C17-q (placeholder loop over the wrong list) → ADP-9 placeholders; C07-r (marker key parsed little-endian) → COD-11 big-endian, listed under C07; C20-q (exchange stub sends its own result variable) → MCK-6 entry clause; C03-r, C04-r, C13-r were caught by rules not yet listed under their own property (lists extended). A second, type-aware mutation sweep (`mutgen2`: same-type identifier, sibling constant, sibling field, exchanged arguments; 1 619 mutants, 734 pass the suite) ran alongside; what it led to is in §3 and `mutation/README.md`. The tenth round (ids ending in -s/-t) asked for values that flow to the wrong place while every type still fits (buffers and aliasing, the wrong duration or deadline, errors.Is/As and %v/%w, mask and wrap arithmetic, sibling constants and fields); 17 of 40 were not caught by their own property at first: C05-s (the buffer vector of an empty-payload PUBLISH shortened to one element with capacity two: the trailer of the rugged Save lands in the caller's array and the store's WriteTo wipes the packet before it is written) and C08-s (trailer appended to the last buffer, i.e. behind the caller's message) → OWN-13; C11-s/C13-s (writeTo clears with SetDeadline, which also clears the read deadline of the read routine) → RCH-3 direction clause; C16-s (the junction drops the PUBLISH list where the warning names the PUBREL list) → ADP-9 junction drop; C18-s (lockWrite's ticker replaced by a one-shot timer) → RCH-2 re-armed timer; C09-t (size refusal formatted with %v) → ERR-4 validators refuse with deny errors; C17-t (ErrMax wrapped with %v in Unsubscribe) → ERR-1 under C17; C01-s, C01-t, C02-t, C04-s, C10-s, C12-t, C14-s, C16-t, C18-t were caught by rules not yet listed under their own property (lists extended). The eleventh round (ids ending in -u/-v) asked for concurrency, lifecycle and bookkeeping slips (tokens and lock order, lost or added default arms, goroutine and resource lifecycle, callback queues, order of effects across a failure); 17 of 40 were not caught by their own property at first: C01-v (writeBuffersNoWait probes the write token and answers ErrDown when another goroutine holds it) → TOK-17; C11-v (ping slot with capacity two) → TOK-9 capacity clause; C19-v (a new package-level semaphore in fileSystem.Save, not released on one exit) → TOK-18; C03-u, C04-v, C11-u, C13-u, C16-u (five independent inversions of the lock order in connect, all caught by TOK-5), C07-v, C10-u, C12-u, C16-v, C02-v, C09-v, C13-v, C15-v, C17-v were caught by rules not yet listed under their own property (lists extended). The twelfth round (ids ending in -w/-x) asked each agent to break one sentence of a doc comment in a corner the tests do not reach; 19 of 40 were not caught by their own property at first: C01-w (handshake tests the client's configured CleanSession instead of the attempt's) → ORD-7 reads the attempt's Config; C18-w (password presence decided by length) → COD-7 nil-not-length; C03-x, C07-w, C07-x, C11-x caught by rules not yet listed under their own property; C09-x (newClient keeps a "private copy" of the password: an empty password becomes none) → OWN-14; C06-x (ReadAll reuses a client-level buffer) → OWN-12 fresh result; C15-x (fatal returns of AdoptSession drop the warnings) → ADP-8 every return carries them; C17-w (connect takes the sequence tokens before the dial: publishes block instead of getting ErrMax) → ORD-2 tokens behind the dial; C02-w, C10-w, C04-w, C04-x, C12-w, C14-x, C15-w, C17-x were caught by rules not yet listed under their own property (lists extended).""")
out.append("")
# Appendix C: rule index, from the sources and the recorded results
import subprocess, collections
titles={}
for f in sorted(glob.glob('/verif/tool/internal/rules/*.go')):
    for l in open(f):
        mm=re.match(r'^// ---- ((?:[A-Z]+-\d+)(?:\s*/\s*[A-Z]+-\d+)*(?:/\d+)*)\s*:?\s*(.*?)\s*-*$', l)
        if mm:
            ids=re.findall(r'[A-Z]+-\d+', mm.group(1))
            for rid in ids:
                titles.setdefault(rid, mm.group(2).strip() or '(see §3)')
# rules whose sources carry no title line of that form (their description is in §3)
fallback={
 "ADP-1":"the adopted client continues the storage sequence from the running maximum",
 "ADP-2":"damaged records are deleted, warned about and not adopted; markers are not filed; the identifier record is left alone",
 "ADP-3":"every listed key is integrity-checked",
 "ADP-4":"counters and placeholders are computed from what cleanSequence returned",
 "ADP-5":"the Max checks look at the cleaned lists",
 "ADP-6":"which failures of adoption are fatal and which are warnings",
 "ADP-7":"the wrap adjustments add exactly publishIDMask+1",
 "ADP-8":"cleanSequence: gap ⇒ warn, drop the prefix, rescan; the warning reaches the caller",
 "ADP-10":"the client identifier record is integrity-checked at adoption (known finding F21)",
 "COD-5":"remaining-length encoders, the size that is tested is the size that is encoded, head bytes and identifier spaces",
 "COD-6":"remaining length equals the bytes appended after it (symbolic, per option path and iteration)",
 "COD-7":"CONNECT flags describe the payload; validator and encoder agree on when the Will is enabled",
 "COD-9":"every record type and key space the Save sites use is classified at adoption",
 "COD-10":"file name format and List filter agree; List's error and scan exit",
 "COD-11":"the inbound marker key expressions agree (big-endian identifier | remoteIDKeyFlag)",
 "MCK-1":"the publish and subscribe mocks report exactly the deviations",
 "MCK-2":"expectation lists are indexed by an atomic counter; the cleanup reports what is left",
 "MCK-3":"surplus calls are reported and answered without an expectation",
 "MCK-4":"a double with a quit parameter answers ErrCanceled before anything else",
 "MCK-5":"the ReadSlices stub hands out private copies",
 "MCK-6":"the exchange stub plays its script: sends, blocks, close",
 "ORD-4":"inbound QoS 1/2: the acknowledgement owed, the marker, duplicates, the flush at the next ReadSlices",
 "OWN-1":"who may write to the wire",
 "OWN-2":"who may set DUP and compose packets in place",
 "OWN-3":"who may write the counters, pendingAck, readConn and the settings",
 "OWN-4":"who may Save and Delete records",
 "OWN-5":"who may close which channel",
 "OWN-6":"the DUP copy keeps every other bit and byte of the stored packet",
 "OWN-7":"read-routine state is reachable from the read routine only",
 "PAN-1":"every bounds check the compiler cannot prove has a reasoned table row",
 "TOK-1":"token balance per function and path, against verified summaries",
 "TOK-2":"send to or close of a token channel only while holding it",
 "TOK-3":"no use of a token channel after its close",
 "TOK-4":"what goes back into writeSem and connSem",
 "TOK-5":"the lock order graph is acyclic",
 "TOK-6":"no blocking operation a held token's counterpart needs",
 "TOK-8":"Online/Offline signals flip in pairs",
 "TOK-16":"Ping withdraws its callback without waiting",
}
for k,v in fallback.items():
    if titles.get(k) in (None,'(see §3)'): titles[k]=v
lst=subprocess.run(['/verif/bin/mqttverif','list'],capture_output=True,text=True).stdout
props=collections.defaultdict(list)
for l in lst.splitlines():
    if ':' in l:
        k,v=l.split(':',1)
        for r in v.split(): props[r].append(k.strip())
kills=collections.Counter()
for m in glob.glob('/verif/seeded/*/meta.json'):
    meta=json.load(open(m)); p=meta['breaks_property']
    for r in {c.split('|')[0] for c in meta.get('caught_by',{}).get(p,[])}: kills[r]+=1
out.append("## Appendix C — rule index\n")
out.append("Generated from the rule sources (`tool/internal/rules`), `mqttverif list` and the recorded results: every rule, the one-line title its source carries, the properties whose check runs it, and the number of independently seeded changes (of %d) for which it is among the rules that fire under the change's own property. Rules without a title line in the sources are described in §3 under their family.\n"%n)
out.append("| rule | title | run for | seeded changes it fires on |\n|---|---|---|---|")
def key(r):
    a,b=r.split('-'); return (a,int(b))
for r in sorted(props, key=key):
    out.append("| %s | %s | %s | %d |"%(r, titles.get(r,'(§3)').replace('|','/'), ' '.join(sorted(props[r])), kills[r]))
out.append("")
open(D,'w').write(head+"\n".join(out)+"\n")
print(n,own)
