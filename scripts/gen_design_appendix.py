#!/usr/bin/env python3
"""Regenerates Appendix A (selftest variants) and Appendix B (seeded changes and the
checks that catch them) of DESIGN.md from selftest/cases.jsonl and seeded/*/meta.json."""
import json, glob, os, re
D='/verif/DESIGN.md'
s=open(D).read()
i=s.index("## Appendix A")
head=s[:i]
out=[]
out.append("## Appendix A — selftest variants (reverts of fixes and curated patches)\n")
out.append("`mqttverif selftest` applies each variant to a scratch worktree and requires the named rule to fire for the named property; the unmodified tree must stay silent (it does: every quick check exits 0). Variants marked † do not pass the existing suite and serve only as firing controls for their rule; all others compile and pass the 47 tests.\n")
out.append("| variant | kind | property | rule that must fire | what the variant does |\n|---|---|---|---|---|")
for l in open('/verif/selftest/cases.jsonl'):
    l=l.strip()
    if not l or l.startswith('#'): continue
    c=json.loads(l)
    mark='' if c.get('suite_passes',True) else ' †'
    kind='revert of '+c['commit'][:7] if c['kind']=='revert' else 'curated patch'
    out.append("| %s%s | %s | %s | %s | %s |"%(c['id'],mark,kind,c['property'],c.get('rule',''),c.get('what','')))
out.append("")
out.append("## Appendix B — independently seeded changes and the checks that catch them\n")
out.append("Each change was produced by a fresh sub-agent that was given only the text of one property and its own scratch worktree (nothing from /verif). Each was then confirmed here in a scratch worktree: the change builds, the whole existing suite passes with it, its demonstration test fails with it and passes without it (`scripts/seed_verify.py`; details in `seeded/<id>/meta.json`). 'Own property' lists the rules of the property the change was aimed at that fire on it; 'also' lists other properties whose checks fire.\n")
out.append("| id | change (from the agent's notes) | caught by its own property's check (rules) | also fires in |\n|---|---|---|---|")
n=own=0
for m in sorted(glob.glob('/verif/seeded/*/meta.json')):
    meta=json.load(open(m)); d=os.path.dirname(m)
    first=open(os.path.join(d,'notes.md')).read().splitlines()[0].lstrip('# ').strip()
    first=re.sub(r'^C\d+\s*/?\s*(mutant|defect|change)?\s*[AB]\s*[—-]\s*','',first).replace('|','/')
    p=meta['breaks_property']; cb=meta.get('caught_by',{})
    rules=sorted({c.split('|')[0] for c in cb.get(p,[])})
    n+=1; own+= 1 if rules else 0
    others=sorted(k for k in cb if k!=p)
    out.append("| %s | %s | %s | %s |"%(meta['id'], first, ', '.join(rules) if rules else '**not caught**', ' '.join(others)))
out.append("")
out.append("%d of %d seeded changes are caught by the check of the property they were aimed at."%(own,n))
out.append("")
out.append("""**First-pass misses and what they led to.** The table shows the state after strengthening. When the first round (ids ending in -a/-b) arrived, these were *not* yet caught by the rules that existed and led to new clauses, not to special cases: C07-b → ORD-4 "no acknowledgement left queued on an error return"; C02-b → ORD-4 "a packet is kept for retry only after a durable record change"; C06-b → ORD-11 "a parked BigMessage is served, cleared or dropped on every path"; C11-a → TOK-12 (registry discipline); C11-b → ORD-6 "requests released after the write token was exchanged"; C12-a → ORD-8 "cancel before waiting for connSem"; C05-b was at first reported by ORD-2 for the wrong reason (an unrecognised comparison form) → comparisons are normalised and the clause "submitN advances only behind a nil write" was added; C10-b and C12-b were caught by rules that were not yet listed under their own property (TOK-1 added to C10, ORD-7 to C12). A second round (ids ending in -c/-d; each agent was told which changes were already taken for its property and asked for a different mechanism) produced 40 more. Not caught at first: C19-c (failure cleanup removes the final file) → ORD-9 "cleanup removes the spool file only"; C09-d (validator and encoder disagree on when the Will is enabled) → COD-7 guard agreement; C20-c (early return before the filter comparison) → MCK-1 "an expectation that was taken is compared"; C14-d (ReadBackoff case order) → ERR-5 converse clauses; C06-d (deadline re-armed only when the buffer is empty) → ORD-14 requires the buffered amount to cover the amount read; C10-c (progress baseline hoisted out of the retry loop) → ORD-13 clause for the payload retry; C04-d (marker saved for every non-PUBACK) → ORD-4 "marker Save only for PUBREC"; C11-c (callback removed but not answered) → TOK-13 "a removed callback is answered on every return"; C08-d (Ping returns another answer after its write failed) → ERR-7; C01-d/C05-d (volatile store keeps the caller's buffer) → OWN-9; C03-d (continuity test without the roll-over case) → ADP-8 sibling predicate; C16-d (gap test on the uncleaned list) → ADP-4 extended to every read after cleaning; C01-c, C02-d, C05-c, C06-c, C11-d, C12-c, C13-c, C16-c were caught by rules not yet listed under their own property (lists extended). The sub-agents also reported two genuine defects of the unchanged tree that they had to steer around (F17, F18; §5). A third round (ids ending in -e/-f) asked for *subtle* changes in the functions that had received least attention (an equivalent-looking condition that differs on one boundary value, a clean-up moved across a statement it depended on, an error path that returns the right error but skips one duty, two sites that must agree and no longer do). 15 of its 40 were not caught at first: C09-e (Will Retain bit outside the Will guard) → COD-7 flags-describe-the-payload; C09-f (`IndexByte(s,0) > 0`) → COD-13; C06-e (length guard moved to the loop head) → COD-4 exact loop evaluation; C18-f (deferred close watching the wrong `err`) → ORD-7 failure-closes-the-connection; C16-e (Max checks before the gaps are dropped) → ADP-5 final-list clause; C16-f and C02-f (`List` filter) → COD-10 listed under C02/C16; C14-f (`nonNilIsAny` stops at a nil Unwrap) → ERR-4 tree walk; C02-e and C03-f (accept count off by one / from the first PUBREL) → ADP-9; C10-e (ramp-up state unbounded) → ERR-5; C10-f (toOffline waits before it interrupts) → ORD-6/TOK-14; C04-f (stale parked BigMessage) → ORD-11 listed under C04/C07; C08-f (Disconnect swallows a closed-connection write error) → ERR-7 covers Disconnect; C07-f (handshake clears pendingAck) → OWN-3 no longer lets a known function inherit the ownership of its callers. A syntactic mutation sweep (`mutation/`, 1 982 mutants of the four source files; 830 pass the pinned suite) was then used to look for what no agent had thought of: 438 of the 830 were caught when the sweep was first run, 631 after the clauses it led to (the third-round list in §3); the 199 that remain were read one by one and are listed with the reason in `mutation/survivors.tsv` (no-ops, independent statement order, capacity hints, message texts, defaults and tuning, misuse checks of the doubles, checks that are dead under a proven invariant).""")
out.append("")
open(D,'w').write(head+"\n".join(out)+"\n")
print(n,own)
