#!/usr/bin/env python3
"""Carries the hand-made categories of mutation/survivors.tsv over to the survivors of the
last sweep (out/mutsweep/survivors.jsonl) and lists the survivors that are new.

A survivor is identified by (file, function, mutation text, ordinal among equals in that
function) — line numbers shift with every fix. New survivors are printed for triage and
written with category NEW; rerun after adding them (with category and reason) to
mutation/triage_new.tsv (file, function, mutation, ordinal, category, reason)."""
import json, collections, csv, sys, subprocess, os
V = "/verif"
def mut(d):
    esc = lambda t, n: t.replace("\n", " ")[:n].replace("\t", "\\t").strip()
    return "%s: '%s' → '%s'" % (d["kind"], esc(d["orig"], 50), esc(d["repl"], 30))
import re
def norm(m):
    return re.sub(r"(\\t|\s)+", " ", m).replace("' ", "'").replace(" '", "'")
old = collections.defaultdict(list)
with open(V + "/mutation/survivors.tsv") as f:
    r = csv.reader(f, delimiter="\t")
    next(r)
    for row in r:
        if len(row) < 6: continue
        file, line, fn, m, cat, reason = row[:6]
        old[(file, fn, norm(m))].append((int(line), cat, reason))
extra = {}
p = V + "/mutation/triage_new.tsv"
if os.path.exists(p):
    for row in csv.reader(open(p), delimiter="\t"):
        if len(row) >= 6 and not row[0].startswith("#"):
            extra[(row[0], row[1], row[2], int(row[3]))] = (row[4], row[5])
for k in old: old[k].sort()
cur = collections.defaultdict(list)
for l in open(V + "/out/mutsweep/survivors.jsonl"):
    d = json.loads(l)
    if d.get("status") != "survived": continue
    d["_text"] = mut(d)
    cur[(d["file"], d["func"], norm(mut(d)))].append(d)
rows, new = [], []
for k, ds in sorted(cur.items()):
    ds.sort(key=lambda d: d["line"])
    for i, d in enumerate(ds):
        if (k[0], k[1], k[2], i) in extra:
            cat, reason = extra[(k[0], k[1], k[2], i)]
        elif i < len(old.get(k, [])):
            _, cat, reason = old[k][i]
        else:
            cat, reason = "NEW", ""
            new.append((k[0], d["line"], k[1], d["_text"], i, d))
        rows.append((k[0], d["line"], k[1], d["_text"], cat, reason))
rows.sort(key=lambda r: (r[0], r[1], r[3]))
gone = [(k, o) for k, os_ in old.items() for i, o in enumerate(os_) if i >= len(cur.get(k, []))]
if "--write" in sys.argv:
    with open(V + "/mutation/survivors.tsv", "w") as f:
        f.write("file\tline\tfunction\tmutation\tcategory\treason\n")
        for r in rows: f.write("\t".join(str(x) for x in r) + "\n")
print("survivors", len(rows), "new", len(new), "no longer surviving", len(gone))
for n in new:
    print("NEW\t%s\t%s\t%s\t%s\t#%d" % n[:5])
for k, o in gone:
    print("GONE\t%s\t%s\t%s\t(was %s)" % (k[0], k[1], k[2], o[1]))
cats = collections.Counter(r[4] for r in rows)
print(json.dumps(cats, indent=1))
