#!/usr/bin/env python3
"""usage: refactor_round.py <out-base> <letter> — for the fifty patches <out-base>/R<01..10>/<1..5>/patch.diff of one round
of refactoring sub-agents: apply each in a scratch worktree of /repo, build, vet, run the suite twice, run the union of all
rules (check -p ALL) and print SILENT or the constructs that alarm. Patches that apply, build and pass are to be stored
as refactors/<letter><rr>-<k>/ by the caller."""
import subprocess, os, sys, tempfile, shutil
from concurrent.futures import ThreadPoolExecutor
ENV = dict(os.environ, GOFLAGS="-mod=mod", GOPROXY="off", GOSUMDB="off", GOTOOLCHAIN="local", GOWORK="off")
BASE, LETTER = sys.argv[1], sys.argv[2]
def run(cmd, cwd, timeout=600):
    p = subprocess.run(cmd, cwd=cwd, env=ENV, shell=isinstance(cmd, str), capture_output=True, text=True, timeout=timeout)
    return p.returncode, p.stdout + p.stderr
def one(job):
    r, k = job
    src = "%s/R%02d/%d/patch.diff" % (BASE, r, k)
    rid = "%s%02d-%d" % (LETTER, r, k)
    if not os.path.exists(src):
        return rid, "MISSING", ""
    wt = tempfile.mkdtemp(prefix="rvwt-"); os.rmdir(wt)
    run(["git", "-C", "/repo", "worktree", "add", "-q", "--detach", wt, "HEAD"], "/")
    try:
        rc, out = run(["git", "apply", src], wt)
        if rc: return rid, "NOAPPLY", out[:200]
        rc, out = run("go build ./... && go vet ./...", wt)
        if rc: return rid, "NOBUILD", out[:200]
        for _ in range(2):
            rc, out = run("go test -vet=off -count=1 ./...", wt)
            if rc: return rid, "SUITEFAIL", out[-300:]
        rc, out = run([os.environ.get("BIN", "/verif/bin/mqttverif"), "check", "-p", "ALL", "-repo", wt, "-no-evidence"], "/verif")
        cons = [l.split("construct", 1)[1].strip() for l in out.splitlines() if l.strip().startswith("construct")]
        if "analyser-panic" in out: cons.insert(0, "ANALYSER PANIC")
        return rid, ("ALARM" if "VIOLATION" in out else "SILENT"), "; ".join(cons[:5])
    finally:
        run(["git", "-C", "/repo", "worktree", "remove", "--force", wt], "/"); shutil.rmtree(wt, ignore_errors=True)
jobs = [(r, k) for r in range(1, 11) for k in range(1, 6)]
with ThreadPoolExecutor(8) as ex:
    for rid, st, d in ex.map(one, jobs):
        print(rid, st, d[:400], flush=True)
