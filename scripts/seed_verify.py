#!/usr/bin/env python3
"""Verify candidate seeded changes and record them under /verif/seeded/<id>/.

usage: seed_verify.py <src-dir-with patch.diff+zz_demo_*_test.go+notes.md> <seed-id> <property> [--keep-existing]

Works in a scratch git worktree of /repo (never in /repo itself):
  1. the patch applies to the current HEAD,
  2. go build + go vet + the whole existing suite pass with the patch,
  3. the demonstration test fails with the patch and passes without,
  4. every registered check is run against the patched tree; the rules that fire are recorded.
"""
import json, os, shutil, subprocess, sys, tempfile, glob, time

ENV = dict(os.environ, GOFLAGS="-mod=mod", GOPROXY="off", GOSUMDB="off", GOTOOLCHAIN="local", GOWORK="off")


def run(cmd, cwd, timeout=300):
    p = subprocess.run(cmd, cwd=cwd, env=ENV, shell=isinstance(cmd, str), capture_output=True, text=True, timeout=timeout)
    return p.returncode, p.stdout + p.stderr


def main():
    src, sid, prop = sys.argv[1], sys.argv[2], sys.argv[3]
    wt = tempfile.mkdtemp(prefix="seedwt-")
    os.rmdir(wt)
    rc, out = run(["git", "-C", "/repo", "worktree", "add", "-q", "--detach", wt, "HEAD"], "/")
    if rc:
        print(out); return 2
    res = {"id": sid, "property": prop, "source": src, "ok": False}
    try:
        patch = os.path.join(src, "patch.diff")
        demos = glob.glob(os.path.join(src, "zz_demo_*_test.go"))
        rc, out = run(["git", "apply", "--3way", patch], wt)
        if rc:
            rc, out = run(["git", "apply", patch], wt)
        if rc:
            res["error"] = "patch does not apply: " + out[-400:]
            print(json.dumps(res)); return 1
        run(["git", "reset", "-q"], wt)  # 3way stages; keep as working tree change
        rc, out = run("go build ./... && go vet ./...", wt)
        if rc:
            res["error"] = "build/vet fails: " + out[-400:]
            print(json.dumps(res)); return 1
        fails = 0
        for _ in range(2):
            rc, out = run("go test -vet=off -count=1 ./...", wt, 600)
            if rc:
                fails += 1
                res["suite_output"] = out[-600:]
        res["suite_pass_with_change"] = fails == 0
        # demo
        demo = demos[0] if demos else None
        res["demo"] = os.path.basename(demo) if demo else None
        if demo:
            sub = "mqtttest" if "package mqtttest" in open(demo).read() else "."
            dst = os.path.join(wt, sub, os.path.basename(demo))
            shutil.copy(demo, dst)
            rc1, out1 = run("go test -vet=off -count=1 -run '^TestDemo$' ./%s" % sub, wt, 600)
            res["demo_fails_with_change"] = rc1 != 0
            res["demo_output_with_change"] = "\n".join([l for l in out1.splitlines() if "---" in l or "demo" in l.lower()][:6])[:800]
            run(["git", "apply", "-R", "--3way", patch], wt)
            run(["git", "reset", "-q"], wt)
            rcx, outx = run(["git", "diff", "--stat"], wt)
            if outx.strip():
                run(["git", "checkout", "--", "."], wt)
            rc2, out2 = run("go test -vet=off -count=1 -run '^TestDemo$' ./%s" % sub, wt, 600)
            res["demo_passes_without_change"] = rc2 == 0
            if rc2:
                res["demo_output_without_change"] = out2[-500:]
            os.remove(dst)
            rc, out = run(["git", "apply", "--3way", patch], wt)
            if rc:
                run(["git", "apply", patch], wt)
            run(["git", "reset", "-q"], wt)
        # checks
        caught = {}
        rc, out = run(["/verif/bin/mqttverif", "list"], "/verif")
        props = [l.split(":")[0] for l in out.splitlines() if l.strip()]
        for p in props:
            rc, out = run(["/verif/bin/mqttverif", "check", "-p", p, "-repo", wt, "-no-evidence"], "/verif")
            if "VIOLATION" in out:
                cons = [l.split("construct", 1)[1].strip() for l in out.splitlines() if l.strip().startswith("construct")]
                caught[p] = cons[:6]
        res["caught_by"] = caught
        res["caught_by_own_property"] = prop in caught
        rc, d = run(["git", "diff"], wt)
        res["ok"] = bool(res.get("suite_pass_with_change") and res.get("demo_fails_with_change") and res.get("demo_passes_without_change"))
        if res["ok"]:
            dest = os.path.join("/verif/seeded", sid)
            os.makedirs(dest, exist_ok=True)
            open(os.path.join(dest, "patch.diff"), "w").write(d)
            if demo:
                shutil.copy(demo, os.path.join(dest, os.path.basename(demo)))
            notes = os.path.join(src, "notes.md")
            if os.path.exists(notes):
                shutil.copy(notes, os.path.join(dest, "notes.md"))
            meta = {
                "id": sid, "breaks_property": prop,
                "needs_to_manifest": "see notes.md (written by the independent sub-agent that produced the change)",
                "verified": {
                    "base_commit": subprocess.run(["git", "-C", "/repo", "rev-parse", "HEAD"], capture_output=True, text=True).stdout.strip(),
                    "commands": ["go build ./... && go vet ./...", "go test -vet=off -count=1 ./...  (2 runs, with the change)",
                                 "go test -vet=off -count=1 -run '^TestDemo$' (with the change: must fail; without: must pass)",
                                 "/verif/bin/mqttverif check -p <each property> -repo <patched worktree>"],
                    "suite_passes_with_change": res["suite_pass_with_change"],
                    "demo_fails_with_change": res["demo_fails_with_change"],
                    "demo_passes_without_change": res["demo_passes_without_change"],
                    "demo_output_with_change": res.get("demo_output_with_change", ""),
                },
                "caught_by": caught,
                "caught_by_own_property": prop in caught,
                "verified_at": time.strftime("%Y-%m-%dT%H:%M:%SZ", time.gmtime()),
            }
            json.dump(meta, open(os.path.join(dest, "meta.json"), "w"), indent=1)
        print(json.dumps({k: v for k, v in res.items() if k not in ("suite_output",)}))
        return 0 if res["ok"] else 1
    finally:
        subprocess.run(["git", "-C", "/repo", "worktree", "remove", "--force", wt])
        shutil.rmtree(wt, ignore_errors=True)


if __name__ == "__main__":
    sys.exit(main())
