#!/bin/bash
# usage: seed_pair.sh <out-base> <Cxx> <suffixA> <suffixB> — verifies the two candidate changes a sub-agent left in
# <out-base>/<Cxx>/{a,b} with seed_verify.py and stores them as seeded/<Cxx>-<suffixA> and seeded/<Cxx>-<suffixB>.
B=$1; P=$2
show='import sys,json; d=json.loads(sys.stdin.read()); print(d["id"], "ok" if d.get("ok") else "NOT-OK", d.get("error",""), "suite", d.get("suite_pass_with_change"), "demoF", d.get("demo_fails_with_change"), "demoP", d.get("demo_passes_without_change"), "caught_by_own", d.get("caught_by_own_property"), "rules", d.get("caught_by"))'
python3 /verif/scripts/seed_verify.py $B/$P/a $P-$3 $P 2>&1 | tail -1 | python3 -c "$show"
python3 /verif/scripts/seed_verify.py $B/$P/b $P-$4 $P 2>&1 | tail -1 | python3 -c "$show"
