#!/bin/bash
# usage: revert_check.sh <sha> — revert one /repo commit in a scratch worktree and list the rules that fire.
sha=$1
wt=$(mktemp -d -u /tmp/revwt-XXXXXX)
git -C /repo worktree add -q --detach $wt HEAD || exit 2
trap 'git -C /repo worktree remove --force '$wt' >/dev/null 2>&1; rm -rf '$wt EXIT
cd $wt
if ! git revert --no-commit $sha >/dev/null 2>&1; then echo "REVERT-CONFLICT $sha"; git revert --abort 2>/dev/null; exit 3; fi
export GOFLAGS=-mod=mod GOPROXY=off GOSUMDB=off GOTOOLCHAIN=local
go build ./... || { echo "BUILD-FAILS"; exit 3; }
for p in $(/verif/bin/mqttverif list | cut -d: -f1); do
  /verif/bin/mqttverif check -p $p -repo $wt -no-evidence 2>&1 | awk -v P=$p '/^  rule/{r=$2} /^  construct/{sub(/^  construct /,""); print P"\t"r"\t"$0}'
done
