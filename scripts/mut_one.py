#!/usr/bin/env python3
"""usage: mut_one.py <id-substring> [props...] — rebuilds one mutant recorded in out/mutsweep/{survivors,results}.jsonl
in a scratch worktree of /repo and runs the given checks (default: the union, -p ALL) against it."""
import json, sys, subprocess, tempfile, os, shutil
rs = []
for f in ("survivors.jsonl", "results.jsonl"):
    p = "/verif/out/mutsweep/" + f
    if os.path.exists(p):
        rs += [json.loads(l) for l in open(p)]
sel = {r["id"]: r for r in rs if sys.argv[1] in r["id"]}
assert len(sel) == 1, list(sel)[:10]
r = list(sel.values())[0]
wt = tempfile.mkdtemp(prefix="mutone-"); os.rmdir(wt)
subprocess.run(["git", "-C", "/repo", "worktree", "add", "-q", "--detach", wt, "HEAD"], check=True)
try:
    fn = os.path.join(wt, r["file"])
    src = open(fn, "rb").read()
    assert src[r["start"]:r["end"]].decode() == r["orig"], "offsets are stale: rerun the sweep"
    open(fn, "wb").write(src[:r["start"]] + r["repl"].encode() + src[r["end"]:])
    print(subprocess.run(["git", "diff"], cwd=wt, capture_output=True, text=True).stdout)
    env = dict(os.environ, GOFLAGS="-mod=mod", GOPROXY="off", GOSUMDB="off", GOTOOLCHAIN="local")
    for p in (sys.argv[2:] or ["ALL"]):
        out = subprocess.run(["/verif/bin/mqttverif", "check", "-p", p, "-repo", wt, "-no-evidence"], capture_output=True, text=True, env=env).stdout
        lines = [l for l in out.splitlines() if l.startswith(("VIOLATED", "UNDECIDED", "  rule", "  construct", "  reason"))]
        print(p, "fires" if "VIOLATION" in out else "silent")
        print("\n".join(l[:300] for l in lines[:16]))
finally:
    subprocess.run(["git", "-C", "/repo", "worktree", "remove", "--force", wt]); shutil.rmtree(wt, ignore_errors=True)
