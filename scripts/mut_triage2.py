#!/usr/bin/env python3
"""Writes mutation/summary2.json and mutation/survivors2.tsv from the type-aware sweeps
(out/mutsweep2: same-type identifier / sibling constant / sibling field / exchanged arguments;
out/mutsweep3: error result returned as nil, break<->continue, = -> :=). The category of a survivor
is assigned by the rules below (read by hand once, frozen here); a survivor no rule places is
written as NEW and makes the script exit 1."""
import json, os, sys, collections
V = "/verif"
def load(d, name):
    p = os.path.join(V, "out", d, name)
    return [json.loads(l) for l in open(p)] if os.path.exists(p) else []
src = {}
def line(r):
    f = r["file"]
    if f not in src:
        src[f] = open("/repo/" + f).read().split("\n")
    return src[f][r["line"] - 1].strip()
MSG = ("Errorf(", "Fatalf(", "t.Error(", "errors.New(")
ALIAS = {"keys", "publishKeys", "releaseKeys", "publishAtLeastOnceKeys", "publishExactlyOnceKeys", "publishReleaseKeys"}
def cat(r):
    k, ln, fn, f, L = r["kind"], r["line"], r["func"], r["file"], line(r)
    kind = k.split(" ")[0]
    if kind == "shadow":
        return "equivalent", "the new variable is used only inside the scope that declares it; the outer one is not read afterwards"
    if kind in ("break→continue", "continue→break") and "lockWrite" in fn:
        return "equivalent", "break leaves a select arm at the end of the loop body: continue does the same"
    if kind == "break→continue":
        return "equivalent", "break ends a switch arm that is the last statement of the loop body"
    if kind == "ret-nil" and "ruggedPersistence" in fn:
        return "equivalent", "the error returned there is known nil"
    if kind == "ret-nil" and "onSUBACK" in fn and ln > 370:
        return "outside", "the request already got ErrBreak; only the reset of the connection is lost (no property speaks about the count mismatch)"
    if kind == "ret-nil" and "peekPacket" in fn:
        return "redundant", "a zero head with a nil error is refused by the dispatch as a forbidden packet type: the connection is reset all the same"
    if kind == "ret-nil" and "ReadAll" in fn:
        return "outside", "BigMessage.ReadAll after its window expired (C13 covers its deadline, known finding F14; the misuse error is not part of a property)"
    if any(m in L for m in MSG) or L.startswith(("len(c.peek), size", "n, err)", "publishReleaseKeys[0], publishReleaseKeys[len")):
        if kind in ("var", "field", "swap-args"):
            return "message-text", "an argument of an error or test-report text"
    if kind == "swap-args" and ("errors.Join(" in L or "max(" in L or "min(" in L or "bytes.Equal(" in L):
        return "equivalent", "a symmetric function"
    if kind == "var" and "AdoptSession" in fn and r["orig"] in ALIAS and r["repl"] in ALIAS and ln >= 917:
        return "equivalent", "two names of the same list at that point (keys = publishAtLeastOnceKeys; publishKeys, releaseKeys := …)"
    if kind == "var" and r["orig"] == "packetID" and r["repl"] == "expect":
        return "equivalent", "behind the guard packetID == expect"
    if kind == "var" and r["orig"] == "size" and r["repl"] == "peekN":
        return "equivalent", "peekN == size at that point"
    if "newSubscribeMock" in fn and r.get("orig") == "miss":
        return "message-text", "which list a report prints (the deviation is reported either way)"
    if "NewPublishExchangeStub" in fn and r.get("repl") == "errFix":
        return "misuse-check", "the constructor's panics about an ill-formed script"
    if "startTx" in fn and "unorderedIDMask" in k:
        return "slot-limit", "the number of concurrent SUBSCRIBE/UNSUBSCRIBE slots (511 or 1023 of 8192 identifiers): still bounded, still unique"
    if "dialAndConnect" in fn and "PauseTimeout" in k:
        return "outside", "whether the dial gets a timeout at all when PauseTimeout is set is ORD-7's; this mutant keys the guard on the back-off state, which is zero whenever it matters"
    if f == "mqtt.go" and "removeErr" in k or "delErr" in k or r.get("orig") == "delErr":
        return "message-text", "which of two warning texts is produced"
    return "NEW", ""
rows, counts = [], collections.Counter()
tot = {}
for d in ("mutsweep2", "mutsweep3"):
    sp = os.path.join(V, "out", d, "summary.json")
    tot[d] = json.load(open(sp)) if os.path.exists(sp) else {}
    rc = load(d, "recheck.jsonl")
    surv = [r for r in (rc or load(d, "survivors.jsonl")) if r["status"] == "survived" and r["orig"] != r["repl"]]
    tot[d]["survivors_after_rules"] = len(surv)
    for r in surv:
        c, why = cat(r)
        counts[c] += 1
        rows.append((r["file"], r["line"], r["func"], "%s: %r → %r" % (r["kind"], r["orig"][:40], r["repl"][:30]), c, why))
rows.sort()
os.makedirs(V + "/mutation", exist_ok=True)
with open(V + "/mutation/survivors2.tsv", "w") as f:
    f.write("file\tline\tfunction\tmutation\tcategory\treason\n")
    for r in rows:
        f.write("\t".join(str(x) for x in r) + "\n")
json.dump({"sweeps": tot, "categories": dict(counts)}, open(V + "/mutation/summary2.json", "w"), indent=1, sort_keys=True)
print(dict(counts))
new = [r for r in rows if r[4] == "NEW"]
for r in new:
    print("NEW", r[:4])
sys.exit(1 if new else 0)
