#!/usr/bin/env python3
"""Syntactic mutation sweep (development aid, not a registered check).

usage: mutsweep.py [-j N] [--files f1,f2] [--out DIR] [--limit N] [--only-kinds k1,k2]

For every mutant listed by bin/mutgen: apply it in a scratch worktree of /repo
(under /tmp, removed at the end), build, run the pinned suite; for mutants the
suite does not notice, run every registered check against the worktree and
record which fire. Survivors of both are written to <out>/survivors.jsonl for
reading by hand (equivalent mutant / outside the properties / gap in a rule).
"""
import argparse, json, os, subprocess, sys, tempfile, shutil, threading, queue, time

ENV = dict(os.environ, GOFLAGS="-mod=mod", GOPROXY="off", GOSUMDB="off", GOTOOLCHAIN="local", GOWORK="off")
FILES = ["client.go", "request.go", "mqtt.go", "mqtttest/mqtttest.go"]


def run(cmd, cwd, timeout=300):
    try:
        p = subprocess.run(cmd, cwd=cwd, env=ENV, shell=isinstance(cmd, str), capture_output=True, text=True, timeout=timeout)
        return p.returncode, p.stdout + p.stderr
    except subprocess.TimeoutExpired:
        return 124, "timeout"


def main():
    ap = argparse.ArgumentParser()
    ap.add_argument("-j", type=int, default=8)
    ap.add_argument("--files", default=",".join(FILES))
    ap.add_argument("--out", default="/verif/out/mutsweep")
    ap.add_argument("--limit", type=int, default=0)
    ap.add_argument("--generator", default="/verif/bin/mutgen", help="mutgen (syntactic) or /verif/bin/mutgen2 (type-aware: same-typed identifier, field, constant and argument swaps; takes no file arguments)")
    ap.add_argument("--only-kinds", default="")
    ap.add_argument("--resume", action="store_true")
    ap.add_argument("--recheck", action="store_true", help="re-run only the checks on the survivors recorded in <out>/survivors.jsonl (after the rules changed)")
    ap.add_argument("--recheck-caught", action="store_true", help="re-run only the checks on the mutants <out>/results.jsonl records as caught by a check; those that survive now are added to survivors.jsonl")
    a = ap.parse_args()
    os.makedirs(a.out, exist_ok=True)
    files = a.files.split(",")
    rc, out = run([a.generator] + ([] if a.generator.endswith("mutgen2") else files), "/repo")
    muts = [json.loads(l) for l in out.splitlines() if l.startswith("{")]
    if a.only_kinds:
        ks = a.only_kinds.split(",")
        muts = [m for m in muts if m["kind"].split(" ")[0] in ks]
    for i, m in enumerate(muts):
        m["id"] = "%s:%d:%d:%s" % (m["file"], m["line"], m["start"], m["kind"])
    done = set()
    resf = os.path.join(a.out, "results.jsonl")
    if a.recheck:
        keep = set(json.loads(l)["id"] for l in open(os.path.join(a.out, "survivors.jsonl")))
        muts = [m for m in muts if m["id"] in keep]
        resf = os.path.join(a.out, "recheck.jsonl")
        if os.path.exists(resf):
            os.remove(resf)
    if a.recheck_caught:
        keep = set(json.loads(l)["id"] for l in open(os.path.join(a.out, "results.jsonl")) if json.loads(l)["status"] == "checks")
        muts = [m for m in muts if m["id"] in keep]
        resf = os.path.join(a.out, "recheck_caught.jsonl")
        if os.path.exists(resf):
            os.remove(resf)
        a.recheck = True
    if a.resume and os.path.exists(resf):
        for l in open(resf):
            done.add(json.loads(l)["id"])
    muts = [m for m in muts if m["id"] not in done]
    if a.limit:
        muts = muts[: a.limit]
    rc, out = run([os.environ.get("BIN", "/verif/bin/mqttverif"), "list"], "/verif")
    props = [l.split(":")[0] for l in out.splitlines() if l.strip()]
    q = queue.Queue()
    for m in muts:
        q.put(m)
    lock = threading.Lock()
    fout = open(resf, "a")
    base = tempfile.mkdtemp(prefix="mutsweep-")
    t0 = time.time()
    count = [0]

    def worker(k):
        wt = os.path.join(base, "w%d" % k)
        rc, out = run(["git", "-C", "/repo", "worktree", "add", "-q", "--detach", wt, "HEAD"], "/")
        if rc:
            print(out, file=sys.stderr)
            return
        try:
            while True:
                try:
                    m = q.get_nowait()
                except queue.Empty:
                    return
                path = os.path.join(wt, m["file"])
                src = open(path, "rb").read()
                assert src[m["start"]:m["end"]].decode() == m["orig"], m
                open(path, "wb").write(src[: m["start"]] + m["repl"].encode() + src[m["end"]:])
                res = dict(m)
                try:
                    rcb, outb = run("go build ./...", wt, 120)
                    if rcb:
                        res["status"] = "nobuild"
                    else:
                        fails = 0
                        for attempt in range(0 if a.recheck else 2):
                            rc, out = run("go test -vet=off -count=1 -timeout 40s ./...", wt, 200)
                            if rc == 0:
                                break
                            fails += 1
                            if "test timed out" in out or rc == 124:
                                fails = 2
                                break
                        if fails >= 2:
                            res["status"] = "tests"
                        else:
                            res["flaky"] = fails
                            fired = {}
                            rc, out = run([os.environ.get("BIN", "/verif/bin/mqttverif"), "check", "-p", "ALL", "-repo", wt, "-no-evidence"], "/verif", 600)
                            if "VIOLATION" in out:
                                fired["ALL"] = [l.split("construct", 1)[1].strip() for l in out.splitlines() if l.strip().startswith("construct")][:6]
                            res["fired"] = fired
                            res["status"] = "checks" if fired else "survived"
                finally:
                    open(path, "wb").write(src)
                with lock:
                    fout.write(json.dumps(res) + "\n")
                    fout.flush()
                    count[0] += 1
                    if count[0] % 25 == 0:
                        print("%d/%d  %.0fs" % (count[0], len(muts), time.time() - t0), flush=True)
        finally:
            subprocess.run(["git", "-C", "/repo", "worktree", "remove", "--force", wt], capture_output=True)
            shutil.rmtree(wt, ignore_errors=True)

    ts = [threading.Thread(target=worker, args=(k,)) for k in range(a.j)]
    for t in ts:
        t.start()
    for t in ts:
        t.join()
    shutil.rmtree(base, ignore_errors=True)
    # summary
    import collections
    c = collections.Counter()
    surv = []
    for l in open(resf):
        r = json.loads(l)
        c[r["status"]] += 1
        if r["status"] == "survived":
            surv.append(r)
    if a.recheck_caught:
        with open(os.path.join(a.out, "survivors.jsonl"), "a") as f:
            for r in surv:
                f.write(json.dumps(r) + "\n")
        print(dict(c), "newly surviving:", [r["id"] for r in surv])
        return
    json.dump(dict(c), open(os.path.join(a.out, "summary.json"), "w"), indent=1)
    with open(os.path.join(a.out, "survivors.jsonl"), "w") as f:
        for r in sorted(surv, key=lambda r: (r["file"], r["line"])):
            f.write(json.dumps(r) + "\n")
    print(dict(c))


if __name__ == "__main__":
    main()
