#!/usr/bin/env python3
"""usage: dev_mut.py <worktree> <file> <line> <orig> <repl> [props...] — replaces the first occurrence of <orig> on that
line in the scratch worktree, runs bin/mqttverif-dev (default -p ALL) against it and restores the file."""
import sys, subprocess, os
wt, f, line, orig, repl = sys.argv[1], sys.argv[2], int(sys.argv[3]), sys.argv[4], sys.argv[5]
fn = os.path.join(wt, f)
src = open(fn).read().split("\n")
assert orig in src[line-1], src[line-1]
keep = list(src)
src[line-1] = src[line-1].replace(orig, repl, 1)
open(fn, "w").write("\n".join(src))
try:
    env = dict(os.environ, GOFLAGS="-mod=mod", GOPROXY="off", GOSUMDB="off", GOTOOLCHAIN="local")
    for p in (sys.argv[6:] or ["ALL"]):
        out = subprocess.run([os.environ.get("BIN","/verif/bin/mqttverif-dev"), "check", "-p", p, "-repo", wt, "-no-evidence"], capture_output=True, text=True, env=env)
        o = out.stdout + out.stderr
        lines = [l for l in o.splitlines() if l.startswith(("VIOLATED", "UNDECIDED", "  rule", "  construct", "  reason", "panic"))]
        print(p, "fires" if "VIOLATION" in o else "silent")
        print("\n".join(l[:260] for l in lines[:12]))
finally:
    open(fn, "w").write("\n".join(keep))
