// Package pathx enumerates control-flow paths of SSA functions as event
// traces. It is the shared engine of all path rules (E-PATH in DESIGN.md).
//
// A function is cut into acyclic segments: one set starting at the entry
// block and one set starting at every loop header reached through a back
// edge. A segment ends at a return, a panic or a back edge (KLoopBack).
// Along a segment the engine resolves phi nodes by the edge actually taken,
// tracks stores to local allocations (so defer-spilled results are seen
// through), gathers nil/bool/constant facts from the branches taken and
// drops segments whose next branch contradicts a fact already held (false
// path pruning; equality on nil and constants only, no solver).
package pathx

import (
	"fmt"
	"go/constant"
	"go/token"
	"go/types"
	"sort"
	"strings"

	"golang.org/x/tools/go/ssa"
)

type Kind int

const (
	KCall Kind = iota
	KRecv
	KSend
	KClose
	KStore
	KLoad
	KAssume
	KReturn
	KPanic
	KLoopBack
	KGo
	KDefer
	KSelect        // a select statement is entered
	KSelectDefault // the default arm of a non-blocking select is taken
	KRunDefers
	KEnter // inlined callee entered
	KLeave // inlined callee left
	KMapUpdate
	KLookup
)

func (k Kind) String() string {
	return [...]string{"call", "recv", "send", "close", "store", "load", "assume", "return", "panic", "loopback", "go", "defer", "select", "select-default", "rundefers", "enter", "leave", "mapupdate", "lookup"}[k]
}

type Rel int

const (
	RNil Rel = iota
	RNotNil
	RTrue
	RFalse
	REq
	RNe
)

// Atom is one normalised fact learnt from a branch.
type Atom struct {
	V   ssa.Value
	Rel Rel
	C   string // constant key for REq / RNe
}

// Event is one observable step on a path. Values are resolved (through phi
// nodes and local allocations) at the time of the event.
type Event struct {
	Kind  Kind
	Instr ssa.Instruction
	Fn    *ssa.Function // function containing Instr (callee when inlined)
	Depth int

	Call   *ssa.CallCommon // KCall, KGo, KDefer
	Callee *ssa.Function   // static callee or closure, if known
	Method *types.Func     // interface method, if invoke
	Args   []ssa.Value     // resolved arguments (receiver first for invoke)

	Chan    ssa.Value // KRecv, KSend, KClose
	Val     ssa.Value // sent / stored / assumed value
	Addr    ssa.Value // KStore, KLoad
	Result  ssa.Value // value defined by the event (call result, received value, loaded value)
	OkVal   ssa.Value // comma-ok result of a receive, if any
	CommaOk bool

	InSelect    bool
	NonBlocking bool // select has a default arm
	Select      *ssa.Select
	Deferred    bool // executed by RunDefers

	Truth   bool   // KAssume
	Atoms   []Atom // KAssume
	Results []ssa.Value
	Target  *ssa.BasicBlock // KLoopBack
}

// Path is one explored segment.
type Path struct {
	Fn     *ssa.Function
	Start  *ssa.BasicBlock
	Events []Event
	Blocks []*ssa.BasicBlock
	// BlockEv[i] is the number of events emitted before Blocks[i] was entered.
	BlockEv []int
	// AllBlocks lists every block entered, those of callees expanded in place included.
	AllBlocks []*ssa.BasicBlock
	// AllBlockEv[i] is the number of events emitted before AllBlocks[i] was entered.
	AllBlockEv []int
	End        Kind // KReturn, KPanic or KLoopBack
}

// Config tunes enumeration.
type Config struct {
	// Inline decides whether a static callee (or closure) is expanded
	// in place. Callees with loops are never expanded.
	Inline func(caller, callee *ssa.Function) bool
	// MaxPaths bounds the number of segments per function.
	MaxPaths int
	// EntryOnly skips the additional segments that start at loop headers.
	EntryOnly bool
	// Loads makes the engine emit KLoad events for field loads.
	Loads bool
	// StableLoad names field paths (key "Owner.Field…@base") whose value no
	// callee changes: numbered loads of them survive calls. Stores seen on
	// the path still invalidate them.
	StableLoad func(key string) bool
	// InlineLoops allows callees with loops to be expanded; they are
	// traversed acyclically (paths that iterate are dropped).
	InlineLoops bool
}

type Stats struct {
	Paths   int
	Pruned  int
	Headers int
}

type ErrTooManyPaths struct {
	Fn *ssa.Function
	N  int
}

func (e *ErrTooManyPaths) Error() string {
	return fmt.Sprintf("path budget exceeded in %s after %d segments", e.Fn, e.N)
}

type fact struct {
	rel Rel
	has bool // rel valid (RNil, RNotNil, RTrue, RFalse, REq)
	c   string
	ne  map[string]bool
}

type frame struct {
	fn     *ssa.Function
	seen   map[*ssa.BasicBlock]bool
	defers []*ssa.Defer
	parent *frame
	ret    func(st *state, results []ssa.Value)
	depth  int
}

type state struct {
	phi       map[*ssa.Phi]ssa.Value
	mem       map[ssa.Value]ssa.Value
	bind      map[ssa.Value]ssa.Value // parameters and free variables of inlined frames
	facts     map[ssa.Value]*fact
	loads     map[string]ssa.Value // canonical load per field address (value numbering)
	lens      map[string]ssa.Value // canonical len(x) per slice/string value
	events    []Event
	blocks    []*ssa.BasicBlock
	allBlocks []*ssa.BasicBlock
	allBlkEv  []int
	blockEv   []int
	fr        *frame
}

func (st *state) clone() *state {
	n := &state{
		phi:       make(map[*ssa.Phi]ssa.Value, len(st.phi)),
		mem:       make(map[ssa.Value]ssa.Value, len(st.mem)),
		bind:      make(map[ssa.Value]ssa.Value, len(st.bind)),
		facts:     make(map[ssa.Value]*fact, len(st.facts)),
		loads:     make(map[string]ssa.Value, len(st.loads)),
		lens:      make(map[string]ssa.Value, len(st.lens)),
		events:    append([]Event(nil), st.events...),
		blocks:    append([]*ssa.BasicBlock(nil), st.blocks...),
		allBlocks: append([]*ssa.BasicBlock(nil), st.allBlocks...),
		allBlkEv:  append([]int(nil), st.allBlkEv...),
		blockEv:   append([]int(nil), st.blockEv...),
	}
	for k, v := range st.phi {
		n.phi[k] = v
	}
	for k, v := range st.mem {
		n.mem[k] = v
	}
	for k, v := range st.bind {
		n.bind[k] = v
	}
	for k, v := range st.loads {
		n.loads[k] = v
	}
	for k, v := range st.lens {
		n.lens[k] = v
	}
	for k, v := range st.facts {
		c := *v
		if v.ne != nil {
			c.ne = make(map[string]bool, len(v.ne))
			for a := range v.ne {
				c.ne[a] = true
			}
		}
		n.facts[k] = &c
	}
	n.fr = st.fr.clone()
	return n
}

func (f *frame) onStack(fn *ssa.Function) bool {
	for x := f; x != nil; x = x.parent {
		if x.fn == fn {
			return true
		}
	}
	return false
}

func (f *frame) clone() *frame {
	if f == nil {
		return nil
	}
	n := &frame{fn: f.fn, ret: f.ret, depth: f.depth}
	n.seen = make(map[*ssa.BasicBlock]bool, len(f.seen))
	for k := range f.seen {
		n.seen[k] = true
	}
	n.defers = append([]*ssa.Defer(nil), f.defers...)
	n.parent = f.parent.clone()
	return n
}

type enum struct {
	cfg     Config
	top     *ssa.Function
	visit   func(*Path)
	stats   Stats
	headers map[*ssa.BasicBlock]bool
	// loop headers inside callees expanded in place, with the frames (call
	// chain and return continuations) they were first reached under
	inlHeaders map[*ssa.BasicBlock]*frame
	inlOrder   []*ssa.BasicBlock
	start      *ssa.BasicBlock
	err        error
}

// Enumerate explores fn and calls visit for every feasible segment.
func Enumerate(fn *ssa.Function, cfg Config, visit func(*Path)) (Stats, error) {
	if fn == nil || len(fn.Blocks) == 0 {
		return Stats{}, fmt.Errorf("pathx: function without body")
	}
	if cfg.MaxPaths == 0 {
		cfg.MaxPaths = 200000
	}
	en := &enum{cfg: cfg, top: fn, visit: visit, headers: map[*ssa.BasicBlock]bool{}, inlHeaders: map[*ssa.BasicBlock]*frame{}}
	done := map[*ssa.BasicBlock]bool{}
	queue := []*ssa.BasicBlock{fn.Blocks[0]}
	for len(queue) > 0 && en.err == nil {
		b := queue[0]
		queue = queue[1:]
		if done[b] {
			continue
		}
		done[b] = true
		en.start = b
		st := &state{phi: map[*ssa.Phi]ssa.Value{}, mem: map[ssa.Value]ssa.Value{}, bind: map[ssa.Value]ssa.Value{}, facts: map[ssa.Value]*fact{}, loads: map[string]ssa.Value{}, lens: map[string]ssa.Value{}}
		st.fr = &frame{fn: fn, seen: map[*ssa.BasicBlock]bool{}}
		if b != fn.Blocks[0] {
			// A segment that starts at a loop header inherits the defers
			// registered unconditionally before the loop.
			for _, d := range fn.DomPreorder() {
				if d == b || !d.Dominates(b) {
					continue
				}
				for _, ins := range d.Instrs {
					if df, ok := ins.(*ssa.Defer); ok {
						st.fr.defers = append(st.fr.defers, df)
					}
				}
			}
		}
		en.block(st, b, nil)
		if cfg.EntryOnly {
			break
		}
		var hs []*ssa.BasicBlock
		for h := range en.headers {
			if !done[h] {
				hs = append(hs, h)
			}
		}
		sort.Slice(hs, func(i, j int) bool { return hs[i].Index < hs[j].Index })
		queue = append(queue, hs...)
	}
	// segments that start at loop headers of expanded callees
	doneInl := map[*ssa.BasicBlock]bool{}
	for i := 0; i < len(en.inlOrder) && en.err == nil && !cfg.EntryOnly; i++ {
		b := en.inlOrder[i]
		if doneInl[b] {
			continue
		}
		doneInl[b] = true
		en.start = b
		st := &state{phi: map[*ssa.Phi]ssa.Value{}, mem: map[ssa.Value]ssa.Value{}, bind: map[ssa.Value]ssa.Value{}, facts: map[ssa.Value]*fact{}, loads: map[string]ssa.Value{}, lens: map[string]ssa.Value{}}
		fr := en.inlHeaders[b].clone()
		fr.seen = map[*ssa.BasicBlock]bool{} // the callee's own frame starts afresh at the header
		// defers the callee registered unconditionally before the loop
		fr.defers = nil
		for _, d := range b.Parent().DomPreorder() {
			if d == b || !d.Dominates(b) {
				continue
			}
			for _, ins := range d.Instrs {
				if df, ok := ins.(*ssa.Defer); ok {
					fr.defers = append(fr.defers, df)
				}
			}
		}
		st.fr = fr
		en.block(st, b, nil)
	}
	en.stats.Headers = len(en.headers) + len(en.inlHeaders)
	return en.stats, en.err
}

func (en *enum) finish(st *state, end Kind) {
	if en.err != nil {
		return
	}
	en.stats.Paths++
	if en.stats.Paths > en.cfg.MaxPaths {
		en.err = &ErrTooManyPaths{en.top, en.stats.Paths}
		return
	}
	en.visit(&Path{Fn: en.top, Start: en.start, Events: st.events, Blocks: st.blocks, BlockEv: st.blockEv, AllBlocks: st.allBlocks, AllBlockEv: st.allBlkEv, End: end})
}

// block enters b coming from pred (nil at a segment start).
func (en *enum) block(st *state, b *ssa.BasicBlock, pred *ssa.BasicBlock) {
	if en.err != nil {
		return
	}
	fr := st.fr
	if fr.seen[b] {
		// back edge
		if fr.parent != nil {
			// a loop inside a callee expanded in place: the segment ends here, and
			// the loop header starts segments of its own under the same call chain
			// (no facts, like every segment that starts at a loop header)
			if _, known := en.inlHeaders[b]; !known {
				en.inlHeaders[b] = fr.clone()
				en.inlOrder = append(en.inlOrder, b)
			}
			st.events = append(st.events, Event{Kind: KLoopBack, Fn: fr.fn, Target: b, Depth: fr.depth})
			en.finish(st, KLoopBack)
			return
		}
		en.headers[b] = true
		st.events = append(st.events, Event{Kind: KLoopBack, Fn: fr.fn, Target: b, Depth: fr.depth})
		en.finish(st, KLoopBack)
		return
	}
	fr.seen[b] = true
	st.allBlocks = append(st.allBlocks, b)
	st.allBlkEv = append(st.allBlkEv, len(st.events))
	if fr.parent == nil {
		st.blocks = append(st.blocks, b)
		st.blockEv = append(st.blockEv, len(st.events))
	}
	// resolve phis simultaneously
	if pred != nil {
		idx := -1
		for i, p := range b.Preds {
			if p == pred {
				idx = i
				break
			}
		}
		var phis []*ssa.Phi
		var vals []ssa.Value
		for _, ins := range b.Instrs {
			phi, ok := ins.(*ssa.Phi)
			if !ok {
				break
			}
			phis = append(phis, phi)
			vals = append(vals, st.resolve(phi.Edges[idx]))
		}
		for i, phi := range phis {
			st.phi[phi] = vals[i]
		}
	} else {
		for _, ins := range b.Instrs {
			phi, ok := ins.(*ssa.Phi)
			if !ok {
				break
			}
			delete(st.phi, phi)
		}
	}
	en.instrs(st, b, 0)
}

func (en *enum) instrs(st *state, b *ssa.BasicBlock, from int) {
	fr := st.fr
	for i := from; i < len(b.Instrs); i++ {
		if en.err != nil {
			return
		}
		switch ins := b.Instrs[i].(type) {
		case *ssa.Phi, *ssa.DebugRef:
			// handled on entry
		case *ssa.Call:
			if _, builtin := ins.Call.Value.(*ssa.Builtin); !builtin && len(st.loads) > 0 && !pureCall(&ins.Call) {
				// a callee expanded in place invalidates through its own stores and calls
				sc := ins.Call.StaticCallee()
				expanded := sc != nil && ins.Call.Method == nil && fr.depth < 3 && !fr.onStack(sc) && en.shouldInline(fr.fn, sc)
				if !expanded {
					if en.cfg.StableLoad == nil {
						st.loads = map[string]ssa.Value{}
					} else {
						for k := range st.loads {
							if !en.cfg.StableLoad(k) {
								delete(st.loads, k)
							}
						}
					}
				}
			}
			if bl, ok := ins.Call.Value.(*ssa.Builtin); ok && bl.Name() == "len" && len(ins.Call.Args) == 1 {
				// len of a slice or string VALUE is a pure function of that value
				arg := st.resolve(ins.Call.Args[0])
				if k, isConst := arg.(*ssa.Const); isConst && k.Value == nil {
					// len of a nil slice
					st.bind[ins] = zeroInt
				}
				switch arg.Type().Underlying().(type) {
				case *types.Slice, *types.Basic:
					k := "len#" + arg.Name() + "#" + fmt.Sprintf("%p", arg)
					if prev, ok := st.lens[k]; ok {
						st.bind[ins] = prev
					} else if _, isConst := arg.(*ssa.Const); !isConst {
						st.lens[k] = ins
					}
				}
			}
			ev := en.callEvent(st, KCall, ins, &ins.Call)
			ev.Result = ins
			if cal := ev.Callee; cal != nil && ins.Call.Method == nil && fr.depth < 3 && !fr.onStack(cal) && en.shouldInline(fr.fn, cal) {
				st.events = append(st.events, ev)
				idx := i
				en.inline(st, cal, ev, func(st2 *state, results []ssa.Value) {
					// bind results
					switch len(results) {
					case 0:
					case 1:
						st2.bind[ins] = results[0]
					default:
						for _, r := range *ins.Referrers() {
							if ex, ok := r.(*ssa.Extract); ok && ex.Index < len(results) {
								st2.bind[ex] = results[ex.Index]
							}
						}
					}
					en.instrs(st2, b, idx+1)
				})
				return
			}
			if isBuiltin(&ins.Call, "close") {
				ev.Kind = KClose
				ev.Chan = st.resolve(ins.Call.Args[0])
			}
			st.events = append(st.events, ev)
		case *ssa.Go:
			st.events = append(st.events, en.callEvent(st, KGo, ins, &ins.Call))
		case *ssa.Defer:
			fr.defers = append(fr.defers, ins)
			st.events = append(st.events, en.callEvent(st, KDefer, ins, &ins.Call))
		case *ssa.RunDefers:
			st.events = append(st.events, Event{Kind: KRunDefers, Instr: ins, Fn: fr.fn, Depth: fr.depth})
			defers := fr.defers
			fr.defers = nil
			en.runDefers(st, defers, func(st2 *state) { en.instrs(st2, b, i+1) })
			return
		case *ssa.Send:
			st.events = append(st.events, Event{Kind: KSend, Instr: ins, Fn: fr.fn, Depth: fr.depth, Chan: st.resolve(ins.Chan), Val: st.resolve(ins.X)})
		case *ssa.UnOp:
			switch ins.Op {
			case token.ARROW:
				ev := Event{Kind: KRecv, Instr: ins, Fn: fr.fn, Depth: fr.depth, Chan: st.resolve(ins.X), CommaOk: ins.CommaOk, Result: ins}
				if ins.CommaOk {
					ev.Result, ev.OkVal = nil, nil
					for _, r := range *ins.Referrers() {
						if ex, ok := r.(*ssa.Extract); ok {
							if ex.Index == 0 {
								ev.Result = ex
							} else {
								ev.OkVal = ex
							}
						}
					}
				}
				st.events = append(st.events, ev)
			case token.MUL:
				if fa, ok := ins.X.(*ssa.FieldAddr); ok {
					// value numbering: a second load of the same field with no
					// store or call in between yields the same value
					if k := loadKey(st, fa); k != "" {
						if prev, ok := st.loads[k]; ok {
							st.bind[ins] = prev
						} else {
							st.loads[k] = ins
						}
					}
				}
				if en.cfg.Loads {
					if al, ok := ins.X.(*ssa.Alloc); ok {
						// Val is nil when nothing was stored on this path (zero value or unknown)
						st.events = append(st.events, Event{Kind: KLoad, Instr: ins, Fn: fr.fn, Depth: fr.depth, Addr: al, Result: ins, Val: st.mem[al]})
					}
					if _, ok := ins.X.(*ssa.FieldAddr); ok {
						st.events = append(st.events, Event{Kind: KLoad, Instr: ins, Fn: fr.fn, Depth: fr.depth, Addr: st.resolveAddr(ins.X), Result: ins})
					}
				}
			}
		case *ssa.Store:
			addr := st.resolveAddr(ins.Addr)
			val := st.resolve(ins.Val)
			if a, ok := addr.(*ssa.Alloc); ok {
				st.mem[a] = val
			}
			if len(st.loads) > 0 {
				st.invalidateLoads(addr)
			}
			st.events = append(st.events, Event{Kind: KStore, Instr: ins, Fn: fr.fn, Depth: fr.depth, Addr: addr, Val: val})
		case *ssa.MapUpdate:
			st.events = append(st.events, Event{Kind: KMapUpdate, Instr: ins, Fn: fr.fn, Depth: fr.depth, Addr: st.resolve(ins.Map), Val: st.resolve(ins.Value), Chan: st.resolve(ins.Key)})
		case *ssa.Lookup:
			ev := Event{Kind: KLookup, Instr: ins, Fn: fr.fn, Depth: fr.depth, Addr: st.resolve(ins.X), Chan: st.resolve(ins.Index), Result: ins, CommaOk: ins.CommaOk}
			if ins.CommaOk {
				ev.Result = nil
				for _, r := range *ins.Referrers() {
					if ex, ok := r.(*ssa.Extract); ok {
						if ex.Index == 0 {
							ev.Result = ex
						} else {
							ev.OkVal = ex
						}
					}
				}
			}
			st.events = append(st.events, ev)
		case *ssa.Select:
			ev := Event{Kind: KSelect, Instr: ins, Fn: fr.fn, Depth: fr.depth, Select: ins, NonBlocking: !ins.Blocking}
			for _, s := range ins.States {
				ev.Args = append(ev.Args, st.resolve(s.Chan)) // resolved channel per state
			}
			st.events = append(st.events, ev)
		case *ssa.If:
			cond := ins.Cond
			val, known := st.eval(cond)
			tb, fb := b.Succs[0], b.Succs[1]
			take := func(s *state, truth bool, succ *ssa.BasicBlock) {
				atoms, ok := s.assume(cond, truth)
				if !ok {
					en.stats.Pruned++
					return
				}
				s.events = append(s.events, Event{Kind: KAssume, Instr: ins, Fn: s.fr.fn, Depth: s.fr.depth, Val: s.resolve(cond), Truth: truth, Atoms: atoms})
				// select arm decisions
				for _, a := range atoms {
					if !en.selectArm(s, a) {
						en.stats.Pruned++
						return
					}
				}
				en.block(s, succ, b)
			}
			if known {
				if val {
					take(st, true, tb)
				} else {
					take(st, false, fb)
				}
				en.stats.Pruned++
				return
			}
			st2 := st.clone()
			take(st, true, tb)
			take(st2, false, fb)
			return
		case *ssa.Jump:
			en.block(st, b.Succs[0], b)
			return
		case *ssa.Return:
			var res []ssa.Value
			for _, r := range ins.Results {
				res = append(res, st.resolve(r))
			}
			if fr.parent != nil {
				st.events = append(st.events, Event{Kind: KLeave, Instr: ins, Fn: fr.fn, Depth: fr.depth, Results: res})
				ret := fr.ret
				st.fr = fr.parent
				ret(st, res)
				return
			}
			st.events = append(st.events, Event{Kind: KReturn, Instr: ins, Fn: fr.fn, Depth: fr.depth, Results: res})
			en.finish(st, KReturn)
			return
		case *ssa.Panic:
			st.events = append(st.events, Event{Kind: KPanic, Instr: ins, Fn: fr.fn, Depth: fr.depth, Val: st.resolve(ins.X)})
			en.finish(st, KPanic)
			return
		}
	}
}

func (en *enum) shouldInline(caller, callee *ssa.Function) bool {
	if en.cfg.Inline == nil || callee == nil || len(callee.Blocks) == 0 {
		return false
	}
	if HasLoop(callee) && !en.cfg.InlineLoops {
		return false
	}
	return en.cfg.Inline(caller, callee)
}

// selectArm reacts to a decision on a select index.
func (en *enum) selectArm(st *state, a Atom) bool {
	ex, ok := a.V.(*ssa.Extract)
	if !ok || ex.Index != 0 {
		return true
	}
	sel, ok := ex.Tuple.(*ssa.Select)
	if !ok {
		return true
	}
	switch a.Rel {
	case REq:
		var k int
		if _, err := fmt.Sscanf(a.C, "int:%d", &k); err != nil || k < 0 || k >= len(sel.States) {
			return true
		}
		s := sel.States[k]
		ev := Event{Instr: sel, Fn: st.fr.fn, Depth: st.fr.depth, Chan: st.resolve(s.Chan), InSelect: true, NonBlocking: !sel.Blocking, Select: sel}
		if s.Dir == types.SendOnly {
			ev.Kind = KSend
			ev.Val = st.resolve(s.Send)
		} else {
			ev.Kind = KRecv
			// position among receive states
			ri := 0
			for j := 0; j < k; j++ {
				if sel.States[j].Dir == types.RecvOnly {
					ri++
				}
			}
			for _, r := range *sel.Referrers() {
				if x, ok := r.(*ssa.Extract); ok {
					if x.Index == 2+ri {
						ev.Result = x
					}
					if x.Index == 1 {
						ev.OkVal = x
						ev.CommaOk = true
					}
				}
			}
		}
		st.events = append(st.events, ev)
	case RNe:
		f := st.facts[a.V]
		all := true
		for k := range sel.States {
			if f == nil || !f.ne[fmt.Sprintf("int:%d", k)] {
				all = false
			}
		}
		if all {
			if sel.Blocking {
				return false // "blocking select matched no case" is unreachable
			}
			st.events = append(st.events, Event{Kind: KSelectDefault, Instr: sel, Fn: st.fr.fn, Depth: st.fr.depth, Select: sel, NonBlocking: true})
		}
	}
	return true
}

func (en *enum) callEvent(st *state, k Kind, ins ssa.Instruction, c *ssa.CallCommon) Event {
	ev := Event{Kind: k, Instr: ins, Fn: st.fr.fn, Depth: st.fr.depth, Call: c}
	if c.IsInvoke() {
		ev.Method = c.Method
		ev.Args = append(ev.Args, st.resolve(c.Value))
	} else {
		v := st.resolve(c.Value)
		switch f := v.(type) {
		case *ssa.Function:
			ev.Callee = f
		case *ssa.MakeClosure:
			ev.Callee, _ = f.Fn.(*ssa.Function)
		}
	}
	for _, a := range c.Args {
		ev.Args = append(ev.Args, st.resolve(a))
	}
	return ev
}

func (en *enum) runDefers(st *state, defers []*ssa.Defer, k func(*state)) {
	if len(defers) == 0 {
		k(st)
		return
	}
	d := defers[len(defers)-1]
	rest := defers[:len(defers)-1]
	ev := en.callEvent(st, KCall, d, &d.Call)
	ev.Deferred = true
	if isBuiltin(&d.Call, "close") {
		ev.Kind = KClose
		ev.Chan = st.resolve(d.Call.Args[0])
	}
	st.events = append(st.events, ev)
	if cal := ev.Callee; cal != nil && d.Call.Method == nil && len(cal.Blocks) > 0 && st.fr.depth < 3 && !st.fr.onStack(cal) &&
		(cal.Parent() != nil && !HasLoop(cal) || cal.Parent() == nil && en.shouldInline(st.fr.fn, cal)) {
		// deferred closures are always expanded: they are part of the
		// function's own exit protocol
		en.inline(st, cal, ev, func(st2 *state, _ []ssa.Value) { en.runDefers(st2, rest, k) })
		return
	}
	en.runDefers(st, rest, k)
}

func (en *enum) inline(st *state, callee *ssa.Function, ev Event, k func(*state, []ssa.Value)) {
	// bind parameters and free variables
	args := ev.Args
	for i, p := range callee.Params {
		if i < len(args) {
			st.bind[p] = args[i]
		}
	}
	var mc *ssa.MakeClosure
	if ev.Call != nil {
		mc, _ = st.resolve(ev.Call.Value).(*ssa.MakeClosure)
	}
	if mc != nil {
		for i, fv := range callee.FreeVars {
			if i < len(mc.Bindings) {
				st.bind[fv] = st.resolve(mc.Bindings[i])
			}
		}
	}
	fr := &frame{fn: callee, seen: map[*ssa.BasicBlock]bool{}, parent: st.fr, ret: k, depth: st.fr.depth + 1}
	st.events = append(st.events, Event{Kind: KEnter, Fn: callee, Depth: fr.depth, Callee: callee, Instr: ev.Instr})
	st.fr = fr
	en.block(st, callee.Blocks[0], nil)
}

// loadKey names the location of a field address rooted at a parameter,
// free variable or local allocation.
func loadKey(st *state, fa *ssa.FieldAddr) string {
	r := RoleOfAddr(fa)
	if r.Path == "" || r.Base == nil {
		return ""
	}
	switch b := st.resolve(r.Base).(type) {
	case *ssa.Parameter, *ssa.FreeVar, *ssa.Alloc:
		return r.Path + "@" + b.Name()
	case *ssa.UnOp:
		if fv, ok := b.X.(*ssa.FreeVar); ok {
			return r.Path + "@*" + fv.Name()
		}
	}
	return ""
}

// invalidateLoads forgets the numbered loads a store through addr may change.
func (st *state) invalidateLoads(addr ssa.Value) {
	root := addr
	for {
		switch x := root.(type) {
		case *ssa.IndexAddr:
			root = x.X
			continue
		case *ssa.FieldAddr:
			root = x.X
			continue
		}
		break
	}
	if al, ok := root.(*ssa.Alloc); ok {
		// a local allocation: only loads rooted at it are affected
		suffix := "@" + al.Name()
		for k := range st.loads {
			if strings.HasSuffix(k, suffix) {
				delete(st.loads, k)
			}
		}
		return
	}
	if fa, ok := addr.(*ssa.FieldAddr); ok {
		if r := RoleOfAddr(fa); r.Field != "" {
			for k := range st.loads {
				if strings.Contains(k, "."+r.Field+"@") || strings.Contains(k, "."+r.Field+".") {
					delete(st.loads, k)
				}
			}
			return
		}
	}
	st.loads = map[string]ssa.Value{}
}

// pureCall lists library calls that cannot store through a pointer the
// analysed package shares with them.
func pureCall(c *ssa.CallCommon) bool {
	f := c.StaticCallee()
	if f == nil || f.Pkg == nil {
		return false
	}
	switch f.Pkg.Pkg.Path() {
	case "errors", "fmt", "time", "strings", "unicode/utf8", "encoding/binary":
		return true
	}
	return false
}

// HasLoop reports whether the CFG of fn has a cycle.
func HasLoop(fn *ssa.Function) bool {
	color := make([]int8, len(fn.Blocks))
	var dfs func(b *ssa.BasicBlock) bool
	dfs = func(b *ssa.BasicBlock) bool {
		color[b.Index] = 1
		for _, s := range b.Succs {
			if color[s.Index] == 1 {
				return true
			}
			if color[s.Index] == 0 && dfs(s) {
				return true
			}
		}
		color[b.Index] = 2
		return false
	}
	return len(fn.Blocks) > 0 && dfs(fn.Blocks[0])
}

var zeroInt = ssa.NewConst(constant.MakeInt64(0), types.Typ[types.Int])

func isBuiltin(c *ssa.CallCommon, name string) bool {
	b, ok := c.Value.(*ssa.Builtin)
	return ok && b.Name() == name
}

// ---- value resolution and facts ----

func (st *state) resolve(v ssa.Value) ssa.Value {
	for i := 0; i < 64; i++ {
		switch x := v.(type) {
		case *ssa.Phi:
			if r, ok := st.phi[x]; ok && r != v {
				v = r
				continue
			}
			return v
		case *ssa.Parameter, *ssa.FreeVar:
			if r, ok := st.bind[x]; ok && r != v {
				v = r
				continue
			}
			return v
		case *ssa.Call, *ssa.Extract:
			if r, ok := st.bind[x]; ok && r != v {
				v = r
				continue
			}
			return v
		case *ssa.UnOp:
			if r, ok := st.bind[x]; ok && r != v {
				v = r
				continue
			}
			if x.Op == token.MUL {
				a := st.resolveAddr(x.X)
				if r, ok := st.mem[a]; ok {
					v = r
					continue
				}
			}
			return v
		case *ssa.ChangeType:
			v = x.X
			continue
		default:
			return v
		}
	}
	return v
}

func (st *state) resolveAddr(v ssa.Value) ssa.Value {
	switch x := v.(type) {
	case *ssa.Phi, *ssa.Parameter, *ssa.FreeVar:
		return st.resolve(x)
	}
	return v
}

// KnownNamed, when set, lists the named types the rules may refer to by name.
var KnownNamed map[string]bool

// ConstKey renders a comparable constant (through MakeInterface) or "".
// SentinelGlobal, when set, tells whether a package-level variable is an error
// sentinel: of interface type, assigned by its initialiser only. A load of one
// compares like a constant (and is not nil).
var SentinelGlobal func(g *ssa.Global) bool

func ConstKey(v ssa.Value) string {
	if u, ok := v.(*ssa.UnOp); ok && u.Op == token.MUL && SentinelGlobal != nil {
		if g, ok := u.X.(*ssa.Global); ok && SentinelGlobal(g) {
			return "sentinel:" + g.String()
		}
	}
	if mi, ok := v.(*ssa.MakeInterface); ok {
		v = mi.X
	}
	if ct, ok := v.(*ssa.ChangeType); ok {
		v = ct.X
	}
	c, ok := v.(*ssa.Const)
	if !ok || c.Value == nil {
		return ""
	}
	tn := "?"
	switch t := c.Type().(type) {
	case *types.Named:
		tn = t.Obj().Name()
		// a named type introduced after the rules were written says nothing
		// the rules know about: its constants compare as what they are
		if KnownNamed != nil && !KnownNamed[tn] {
			if b, ok := t.Underlying().(*types.Basic); ok {
				tn = b.Name()
				if b.Info()&types.IsInteger != 0 {
					tn = "int"
				}
			}
		}
	case *types.Basic:
		tn = t.Name()
		if t.Info()&types.IsInteger != 0 {
			tn = "int"
		}
	}
	if c.Value.Kind() == constant.Int {
		return tn + ":" + c.Value.ExactString()
	}
	return tn + ":" + c.Value.String()
}

func IsNilConst(v ssa.Value) bool {
	c, ok := v.(*ssa.Const)
	return ok && c.Value == nil && !isBasicNonNillable(c.Type())
}

func isBasicNonNillable(t types.Type) bool {
	switch t.Underlying().(type) {
	case *types.Basic, *types.Struct, *types.Array:
		return true
	}
	return false
}

func intrinsicNonNil(v ssa.Value) bool {
	switch x := v.(type) {
	case *ssa.Alloc, *ssa.MakeChan, *ssa.MakeMap, *ssa.MakeSlice, *ssa.MakeClosure, *ssa.FieldAddr, *ssa.IndexAddr, *ssa.Function, *ssa.Global:
		return true
	case *ssa.MakeInterface:
		return true
	case *ssa.Call:
		if f := x.Call.StaticCallee(); f != nil && f.Pkg != nil {
			switch f.Pkg.Pkg.Path() + "." + f.Name() {
			case "fmt.Errorf", "errors.New":
				return true
			}
		}
	case *ssa.UnOp:
		// package level error sentinels are initialised once and never nil
		if g, ok := x.X.(*ssa.Global); ok && x.Op == token.MUL && g.Type().String() == "*error" {
			return true
		}
	}
	return false
}

func (st *state) eval(v ssa.Value) (val, known bool) {
	v = st.resolve(v)
	switch x := v.(type) {
	case *ssa.Const:
		if x.Value != nil && x.Value.Kind() == constant.Bool {
			return constant.BoolVal(x.Value), true
		}
	case *ssa.UnOp:
		if x.Op == token.NOT {
			b, k := st.eval(x.X)
			return !b, k
		}
	case *ssa.BinOp:
		if x.Op == token.EQL || x.Op == token.NEQ {
			if eq, k := st.evalEq(x.X, x.Y); k {
				return eq == (x.Op == token.EQL), true
			}
		}
		if zx, isZero, ok := ZeroTest(x); ok {
			if f := st.facts[st.resolve(zx)]; f != nil {
				if f.has && f.rel == REq {
					return (f.c == "int:0") == isZero, true
				}
				if f.ne["int:0"] {
					return !isZero, true
				}
			}
		}
	}
	if f := st.facts[v]; f != nil && f.has {
		switch f.rel {
		case RTrue:
			return true, true
		case RFalse:
			return false, true
		}
	}
	return false, false
}

func (st *state) evalEq(x, y ssa.Value) (eq, known bool) {
	x, y = st.resolve(x), st.resolve(y)
	if IsNilConst(x) {
		x, y = y, x
	}
	if IsNilConst(y) {
		if IsNilConst(x) {
			return true, true
		}
		if intrinsicNonNil(x) {
			return false, true
		}
		if f := st.facts[x]; f != nil && f.has {
			switch f.rel {
			case RNil:
				return true, true
			case RNotNil, REq:
				return false, true
			}
		}
		return false, false
	}
	cx, cy := ConstKey(x), ConstKey(y)
	if cx != "" && cy != "" {
		return cx == cy, true
	}
	if cx != "" {
		x, y, cx, cy = y, x, cy, cx
	}
	if cy != "" {
		if f := st.facts[x]; f != nil {
			if f.has && f.rel == REq {
				return f.c == cy, true
			}
			if f.has && f.rel == RNil {
				return false, true
			}
			if f.ne[cy] {
				return false, true
			}
		}
		return false, false
	}
	return false, false
}

// assume records cond == truth; ok is false on contradiction.
func (st *state) assume(cond ssa.Value, truth bool) (atoms []Atom, ok bool) {
	v := st.resolve(cond)
	switch x := v.(type) {
	case *ssa.UnOp:
		if x.Op == token.NOT {
			return st.assume(x.X, !truth)
		}
	case *ssa.BinOp:
		if zx, isZero, ok := ZeroTest(x); ok {
			a := st.resolve(zx)
			rel := RNe
			if truth == isZero {
				rel = REq
			}
			if !st.setFact(a, rel, "int:0") {
				return nil, false
			}
			return []Atom{{V: a, Rel: rel, C: "int:0"}}, true
		}
		if x.Op == token.EQL || x.Op == token.NEQ {
			eq := truth == (x.Op == token.EQL)
			a, b := st.resolve(x.X), st.resolve(x.Y)
			if IsNilConst(a) {
				a, b = b, a
			}
			if IsNilConst(b) {
				rel := RNotNil
				if eq {
					rel = RNil
				}
				if !st.setFact(a, rel, "") {
					return nil, false
				}
				return []Atom{{V: a, Rel: rel}}, true
			}
			ca, cb := ConstKey(a), ConstKey(b)
			if ca != "" && cb == "" {
				a, b, ca, cb = b, a, cb, ca
			}
			if cb != "" && ca == "" {
				rel := RNe
				if eq {
					rel = REq
				}
				if !st.setFact(a, rel, cb) {
					return nil, false
				}
				return []Atom{{V: a, Rel: rel, C: cb}}, true
			}
		}
	}
	rel := RFalse
	if truth {
		rel = RTrue
	}
	if !st.setFact(v, rel, "") {
		return nil, false
	}
	return []Atom{{V: v, Rel: rel}}, true
}

func (st *state) setFact(v ssa.Value, rel Rel, c string) bool {
	f := st.facts[v]
	if f == nil {
		f = &fact{}
		st.facts[v] = f
	}
	switch rel {
	case RNe:
		if f.has && f.rel == REq && f.c == c {
			return false
		}
		if f.ne == nil {
			f.ne = map[string]bool{}
		}
		f.ne[c] = true
		return true
	case REq:
		if f.ne[c] {
			return false
		}
		if f.has && (f.rel == REq && f.c != c || f.rel == RNil) {
			return false
		}
	case RNil:
		if f.has && (f.rel == RNotNil || f.rel == REq) {
			return false
		}
	case RNotNil:
		if f.has && f.rel == RNil {
			return false
		}
		if f.has && f.rel == REq {
			return true // keep the stronger fact
		}
	case RTrue:
		if f.has && f.rel == RFalse {
			return false
		}
	case RFalse:
		if f.has && f.rel == RTrue {
			return false
		}
	}
	f.has, f.rel, f.c = true, rel, c
	return true
}

// ---- helpers for rules ----

// Role describes a struct field reached through an address or value, e.g.
// Owner "outbound", Field "seqSem", Path "Client.atLeastOnce.seqSem".
type Role struct {
	Owner string
	Field string
	Path  string
	Base  ssa.Value // where the access path starts
}

func (r Role) Key() string {
	if r.Field == "" {
		return ""
	}
	return r.Owner + "." + r.Field
}

func (r Role) String() string { return r.Path }

// Has reports whether the access path passes through field name.
func (r Role) Has(name string) bool {
	for _, p := range strings.Split(r.Path, ".") {
		if p == name {
			return true
		}
	}
	return false
}

func namedOf(t types.Type) string {
	for {
		switch x := t.(type) {
		case *types.Pointer:
			t = x.Elem()
			continue
		case *types.Named:
			return x.Obj().Name()
		case *types.Alias:
			t = types.Unalias(x)
			continue
		}
		return ""
	}
}

func structOf(t types.Type) *types.Struct {
	for {
		if p, ok := t.Underlying().(*types.Pointer); ok {
			t = p.Elem()
			continue
		}
		s, _ := t.Underlying().(*types.Struct)
		return s
	}
}

// RoleOfAddr describes the location addr points to.
// FieldAlias, when set, maps "Owner.Field" of a field that was moved into a
// struct introduced later onto the owner and name the rules know it by.
var FieldAlias map[string][2]string

// ParamBind, when set, gives the argument a parameter of a helper expanded in
// place stands for on the path that is being judged: out.seqSem with out bound
// to &c.atLeastOnce reads as c.atLeastOnce.seqSem.
var ParamBind map[ssa.Value]ssa.Value

// StaticParam, when set, gives what a parameter stands for whatever the path:
// the argument that every call site of its (unexported) function passes, when
// they all pass the same constant or read the same place.
var StaticParam map[*ssa.Parameter]ssa.Value

func boundParam(v ssa.Value) ssa.Value {
	for d := 0; d < 4; d++ {
		pr, ok := v.(*ssa.Parameter)
		if !ok {
			break
		}
		b, ok := ParamBind[pr]
		if !ok || b == v {
			if b, ok = StaticParam[pr]; !ok || b == v {
				break
			}
		}
		v = b
	}
	return v
}

func RoleOfAddr(addr ssa.Value) Role {
	switch x := addr.(type) {
	case *ssa.FieldAddr:
		s := structOf(x.X.Type())
		name := s.Field(x.Field).Name()
		owner := namedOf(x.X.Type())
		base := RoleOfAddr(boundParam(x.X))
		if al, ok := FieldAlias[owner+"."+name]; ok {
			// c.rd.conn reads as c.readConn: the holder drops out of the path
			owner, name = al[0], al[1]
			if hb, isFA := x.X.(*ssa.FieldAddr); isFA {
				base = RoleOfAddr(hb.X)
				if base.Path == "" {
					if u, isLoad := hb.X.(*ssa.UnOp); isLoad && u.Op == token.MUL {
						if br := RoleOfAddr(u.X); br.Path != "" {
							return Role{Owner: owner, Field: name, Path: br.Path + "." + name, Base: br.Base}
						}
					}
					return Role{Owner: owner, Field: name, Path: owner + "." + name, Base: hb.X}
				}
			}
		}
		if base.Path == "" {
			b := boundParam(x.X)
			// value loaded from somewhere else (pointer field)
			if u, ok := b.(*ssa.UnOp); ok && u.Op == token.MUL {
				if br := RoleOfAddr(u.X); br.Path != "" {
					return Role{Owner: owner, Field: name, Path: br.Path + "." + name, Base: br.Base}
				}
			}
			root := owner
			if root == "" {
				root = "?"
			}
			return Role{Owner: owner, Field: name, Path: root + "." + name, Base: b}
		}
		if owner == "" {
			owner = base.Owner + "." + base.Field
		}
		return Role{Owner: owner, Field: name, Path: base.Path + "." + name, Base: base.Base}
	case *ssa.Global:
		return Role{Owner: "global", Field: x.Name(), Path: "global." + x.Name(), Base: x}
	}
	return Role{}
}

// RoleOfValue describes where a value was read from.
func RoleOfValue(v ssa.Value) Role {
	switch x := v.(type) {
	case *ssa.UnOp:
		if x.Op == token.MUL {
			return RoleOfAddr(x.X)
		}
	case *ssa.Field:
		s := structOf(x.X.Type())
		name := s.Field(x.Field).Name()
		owner := namedOf(x.X.Type())
		base := RoleOfValue(x.X)
		if al, ok := FieldAlias[owner+"."+name]; ok {
			owner, name = al[0], al[1]
			if hb, isF := x.X.(*ssa.Field); isF {
				base = RoleOfValue(hb.X)
				if base.Path == "" {
					return Role{Owner: owner, Field: name, Path: owner + "." + name, Base: hb.X}
				}
			} else if u, isLoad := x.X.(*ssa.UnOp); isLoad && u.Op == token.MUL {
				// the holder struct loaded as a whole
				if hb, isFA := u.X.(*ssa.FieldAddr); isFA {
					base = RoleOfAddr(hb.X)
				}
			}
		}
		if base.Path == "" {
			root := owner
			if p, ok := x.X.(*ssa.Parameter); ok {
				root = owner + "(" + p.Name() + ")"
			}
			return Role{Owner: owner, Field: name, Path: root + "." + name, Base: x.X}
		}
		return Role{Owner: owner, Field: name, Path: base.Path + "." + name, Base: base.Base}
	case *ssa.ChangeType:
		return RoleOfValue(x.X)
	case *ssa.Parameter:
		// what every caller passes (or, under ParamBind, what this path's caller passed)
		if b := boundParam(x); b != ssa.Value(x) {
			return RoleOfValue(b)
		}
	}
	return Role{}
}

// ErrResults lists the values that carry result index idx of call (the call
// itself for single-result calls, the Extract instructions otherwise).
func ResultAt(call ssa.Value, idx int) ssa.Value {
	c, ok := call.(*ssa.Call)
	if !ok {
		return nil
	}
	sig := c.Call.Signature()
	if sig.Results().Len() == 1 {
		if idx == 0 {
			return c
		}
		return nil
	}
	for _, r := range *c.Referrers() {
		if ex, ok := r.(*ssa.Extract); ok && ex.Index == idx {
			return ex
		}
	}
	return nil
}

// ErrResult is the error-typed result of call, if it has exactly one.
func ErrResult(call ssa.Value) ssa.Value {
	c, ok := call.(*ssa.Call)
	if !ok {
		return nil
	}
	res := c.Call.Signature().Results()
	for i := res.Len() - 1; i >= 0; i-- {
		if types.Identical(res.At(i).Type(), types.Universe.Lookup("error").Type()) {
			return ResultAt(call, i)
		}
	}
	return nil
}

// Known tells what the path learnt about v at or after event index from
// (searching forward up to, not including, index to; to<0 means the end).
func (p *Path) Known(v ssa.Value, from, to int) (Rel, string, bool) {
	if to < 0 || to > len(p.Events) {
		to = len(p.Events)
	}
	haveNe, neC := false, ""
	for i := from; i < to; i++ {
		e := &p.Events[i]
		if e.Kind != KAssume {
			continue
		}
		for _, a := range e.Atoms {
			if a.V == v {
				// "differs from a constant" says little: a later atom that
				// settles the value (nil, not nil, equal) takes precedence
				if a.Rel == RNe {
					if !haveNe {
						haveNe, neC = true, a.C
					}
					continue
				}
				return a.Rel, a.C, true
			}
		}
	}
	if haveNe {
		return RNe, neC, true
	}
	return 0, "", false
}

// Index finds the first event at or after from satisfying pred, or -1.
func (p *Path) Index(from int, pred func(*Event) bool) int {
	for i := from; i < len(p.Events); i++ {
		if pred(&p.Events[i]) {
			return i
		}
	}
	return -1
}

// NonNeg reports whether v can never be negative: len/cap results and
// unsigned integers.
func NonNeg(v ssa.Value) bool {
	for {
		switch x := v.(type) {
		case *ssa.Convert:
			if b, ok := x.Type().Underlying().(*types.Basic); ok && b.Info()&types.IsUnsigned != 0 {
				return true
			}
			v = x.X
			continue
		case *ssa.ChangeType:
			v = x.X
			continue
		case *ssa.Call:
			if b, ok := x.Call.Value.(*ssa.Builtin); ok && (b.Name() == "len" || b.Name() == "cap") {
				return true
			}
		}
		break
	}
	if b, ok := v.Type().Underlying().(*types.Basic); ok && b.Info()&types.IsUnsigned != 0 {
		return true
	}
	return false
}

// ZeroTest recognises comparisons of a non-negative value with zero written
// as an ordering: x > 0, x >= 1, 0 < x (non-zero) and x <= 0, x < 1, 0 >= x
// (zero). It returns the value and whether the comparison means x == 0.
func ZeroTest(b *ssa.BinOp) (x ssa.Value, isZero, ok bool) {
	intOf := func(v ssa.Value) (int64, bool) {
		for {
			switch c := v.(type) {
			case *ssa.Convert:
				v = c.X
				continue
			case *ssa.ChangeType:
				v = c.X
				continue
			case *ssa.Const:
				if c.Value != nil && c.Value.Kind() == constant.Int {
					n, ok := constant.Int64Val(c.Value)
					return n, ok
				}
			}
			return 0, false
		}
	}
	op, X, Y := b.Op, b.X, b.Y
	if _, isConst := intOf(X); isConst {
		// 0 < x  ≡  x > 0
		sw := map[token.Token]token.Token{token.LSS: token.GTR, token.GTR: token.LSS, token.LEQ: token.GEQ, token.GEQ: token.LEQ}
		nop, has := sw[op]
		if !has {
			return nil, false, false
		}
		op, X, Y = nop, Y, X
	}
	k, isConst := intOf(Y)
	if !isConst || !NonNeg(X) {
		return nil, false, false
	}
	switch {
	case op == token.GTR && k == 0, op == token.GEQ && k == 1:
		return X, false, true
	case op == token.LEQ && k == 0, op == token.LSS && k == 1:
		return X, true, true
	}
	return nil, false, false
}
