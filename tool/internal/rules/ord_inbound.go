package rules

import (
	"go/token"

	"golang.org/x/tools/go/ssa"

	"mqttverif/internal/pathx"
)

func init() {
	register("ORD-4", []string{"ORD-4"}, func(c *Ctx, _ map[string]bool) { c.ord4() })
	register("ORD-6", []string{"ORD-6"}, func(c *Ctx, _ map[string]bool) { c.ord6() })
	register("ORD-8", []string{"ORD-8"}, func(c *Ctx, _ map[string]bool) { c.ord8() })
}

// appendLiteral returns the element values of the variadic literal passed
// to the append call at event i (nil when the call has another shape).
func appendLiteral(p *pathx.Path, i int) (base ssa.Value, elems []ssa.Value) {
	e := &p.Events[i]
	if e.Kind != pathx.KCall || e.Call == nil || len(e.Args) != 2 {
		return nil, nil
	}
	if b, ok := e.Call.Value.(*ssa.Builtin); !ok || b.Name() != "append" {
		return nil, nil
	}
	sl, ok := e.Args[1].(*ssa.Slice)
	if !ok {
		return e.Args[0], nil
	}
	al, ok := sl.X.(*ssa.Alloc)
	if !ok {
		return e.Args[0], nil
	}
	m := map[int64]ssa.Value{}
	max := int64(-1)
	for j := 0; j < i; j++ {
		s := &p.Events[j]
		if s.Kind != pathx.KStore {
			continue
		}
		ia, ok := s.Addr.(*ssa.IndexAddr)
		if !ok || ia.X != al {
			continue
		}
		if k, ok := intConst(ia.Index); ok {
			m[k] = s.Val
			if k > max {
				max = k
			}
		}
	}
	for k := int64(0); k <= max; k++ {
		elems = append(elems, m[k])
	}
	return e.Args[0], elems
}

// ackByte is one byte of the packet composed in Client.pendingAck: a value
// (part 0), or the high (1) / low (2) byte of a 16-bit value.
type ackByte struct {
	v    ssa.Value
	part int
}

// pendingAckStores lists, in order, what a path does to Client.pendingAck.
// kind is "append" (the buffer is non-empty afterwards, elems is its whole
// content when that is known), "truncate" or "other".
type ackStore struct {
	idx   int
	kind  string
	first int64 // first byte when constant, else -1
	elems []ackByte
}

func pendingAckStores(p *pathx.Path) []ackStore {
	var out []ackStore
	var cur []ackByte
	known := true
	// content of a value that is (built from) the pending buffer
	var content func(v ssa.Value, upto int, d int) ([]ackByte, bool)
	content = func(v ssa.Value, upto int, d int) ([]ackByte, bool) {
		if d > 6 {
			return nil, false
		}
		switch x := v.(type) {
		case *ssa.Slice:
			if hi, ok := intConst(x.High); ok && hi == 0 && x.Low == nil {
				return nil, true
			}
		case *ssa.UnOp:
			if roleKey(x) == "Client.pendingAck" {
				return append([]ackByte(nil), cur...), known
			}
		case *ssa.Call:
			if dst, val, n, ok := appendUintN(x); ok && n == 2 {
				base, okb := content(dst, upto, d+1)
				if !okb {
					return nil, false
				}
				return append(base, ackByte{val, 1}, ackByte{val, 2}), true
			}
			if b, ok := x.Call.Value.(*ssa.Builtin); ok && b.Name() == "append" && len(x.Call.Args) == 2 {
				base, okb := content(x.Call.Args[0], upto, d+1)
				if !okb {
					return nil, false
				}
				for j := upto; j >= 0; j-- {
					if p.Events[j].Kind == pathx.KCall && p.Events[j].Result == v {
						_, el := appendLiteral(p, j)
						if el == nil {
							return nil, false
						}
						for _, e := range el {
							base = append(base, ackByte{e, 0})
						}
						return base, true
					}
				}
			}
		}
		return nil, false
	}
	for i := range p.Events {
		e := &p.Events[i]
		if e.Kind != pathx.KStore || pathx.RoleOfAddr(e.Addr).Key() != "Client.pendingAck" {
			continue
		}
		st := ackStore{idx: i, kind: "other", first: -1}
		c, ok := content(e.Val, i, 0)
		switch {
		case ok && len(c) == 0:
			st.kind = "truncate"
			cur, known = nil, true
		case ok:
			st.kind = "append"
			st.elems = c
			if c[0].part == 0 {
				if n, isK := intConst(c[0].v); isK {
					st.first = n
				}
			}
			cur, known = c, true
		default:
			// an append whose base or elements could not be followed: non-empty, content unknown
			if call, isCall := e.Val.(*ssa.Call); isCall {
				if _, _, _, au := appendUintN(call); au {
					st.kind = "append"
				}
				if b, isB := call.Call.Value.(*ssa.Builtin); isB && b.Name() == "append" {
					st.kind = "append"
				}
			}
			cur, known = nil, false
		}
		out = append(out, st)
	}
	return out
}

// idBytes reports whether a and b are the high and low byte of one value
// parsed from the packet, and returns that value.
func idBytes(a, b ackByte) (ssa.Value, bool) {
	if a.part == 1 && b.part == 2 && a.v == b.v {
		return stripConv(a.v), true
	}
	if a.part == 0 && b.part == 0 {
		hi, lo := strip(a.v), strip(b.v)
		if sh, ok := hi.(*ssa.BinOp); ok && sh.Op == token.SHR && isK(sh.Y, 8) && strip(sh.X) == lo {
			return lo, true
		}
	}
	return nil, false
}

// qosOnPath tells which quality-of-service arm of onPUBLISH a path took:
// the value head&0b0110 compared with constants.
func qosOnPath(p *pathx.Path) int64 {
	for i := range p.Events {
		e := &p.Events[i]
		if e.Kind != pathx.KAssume {
			continue
		}
		for _, a := range e.Atoms {
			if a.Rel != pathx.REq {
				continue
			}
			b, ok := strip(a.V).(*ssa.BinOp)
			if !ok || b.Op != token.AND {
				continue
			}
			if m, ok := intConst(b.Y); !ok || m != 6 {
				continue
			}
			var k int64
			if _, err := sscanInt(a.C, &k); err == nil {
				return k >> 1
			}
		}
	}
	return -1
}

func sscanInt(c string, out *int64) (int, error) {
	var n int64
	neg := false
	i := 0
	for i < len(c) && c[i] != ':' {
		i++
	}
	if i >= len(c) {
		return 0, errBadConst
	}
	s := c[i+1:]
	if len(s) > 0 && s[0] == '-' {
		neg = true
		s = s[1:]
	}
	if len(s) == 0 {
		return 0, errBadConst
	}
	for _, ch := range s {
		if ch < '0' || ch > '9' {
			return 0, errBadConst
		}
		n = n*10 + int64(ch-'0')
	}
	if neg {
		n = -n
	}
	*out = n
	return 1, nil
}

type constErr string

func (e constErr) Error() string { return string(e) }

const errBadConst = constErr("not an integer constant key")

// ---- ORD-4 ----

func (c *Ctx) ord4() {
	hs := c.handlers("ORD-4")
	onPub := hs["typePUBLISH"]
	onRel := hs["typePUBREL"]
	onRec := hs["typePUBREC"]
	rs := c.Fn("ORD-4", "(*Client).readSlices")
	peek := c.Fn("ORD-4", "(*Client).peekPacket")
	wire := c.wireCapable()
	pt := c.packetTypes()
	if onPub == nil || onRel == nil || rs == nil || peek == nil {
		c.S.Unknown("ORD-4", "ORD-4|anchor|handlers", "", "", "PUBLISH/PUBREL handlers not found in the dispatch switch")
		return
	}

	// --- onPUBLISH ---
	marker := c.acc("ORD-4", onPub, "QoS2-delivery-behind-marker-Load(absent)")
	ackq := c.acc("ORD-4", onPub, "delivered-QoS1/2⇒matching-ack-queued-with-parsed-identifier")
	dupe := c.acc("ORD-4", onPub, "duplicate⇒PUBREC-written,not-delivered")
	nowire := c.acc("ORD-4", onPub, "no-wire-write-for-a-new-message")
	qos0 := c.acc("ORD-4", onPub, "QoS0⇒no-ack")
	noack := c.acc("ORD-4", onPub, "error-return⇒no-ack-left-queued")
	isDup := func(p *pathx.Path, upto int) (dup bool, loadIdx int) {
		loadIdx = -1
		for i := 0; i < upto; i++ {
			e := &p.Events[i]
			if persistenceOp(e) == "Load" {
				loadIdx = i
				if v := pathx.ResultAt(e.Result, 0); v != nil {
					if rel, _, ok := p.Known(v, i, upto); ok && rel == pathx.RNotNil {
						dup = true
					}
				}
			}
		}
		return
	}
	for _, p := range c.Paths("ORD-4", onPub) {
		if p.End != pathx.KReturn {
			continue
		}
		last := len(p.Events) - 1
		q := qosOnPath(p)
		re := retErr(p, last)
		stores := pendingAckStores(p)
		var wires []int
		for i := range p.Events {
			if e := &p.Events[i]; e.Kind == pathx.KCall && e.Callee != nil && wire[e.Callee] {
				wires = append(wires, i)
			}
		}
		dup, li := isDup(p, last)
		if re == triNil {
			// a delivery
			switch q {
			case 0:
				if len(stores) != 0 {
					qos0.fail(p, stores[0].idx, "a QoS 0 delivery queues an acknowledgement")
				} else {
					qos0.pass()
				}
			case 1, 2:
				want := pt["typePUBACK"] << 4
				if q == 2 {
					want = pt["typePUBREC"] << 4
				}
				ok := false
				var st ackStore
				if len(stores) > 0 {
					st = stores[len(stores)-1]
					ok = st.kind == "append" && st.first == want && len(st.elems) == 4
				}
				switch {
				case !ok:
					ackq.fail(p, last, "a QoS %d message is returned without the matching acknowledgement (first byte %#x) left in pendingAck", q, want)
				default:
					// identifier bytes derive from the Uint16 parsed in this call
					src, idOK := idBytes(st.elems[2], st.elems[3])
					fromParse := false
					if idOK {
						if cv, ok := src.(*ssa.Convert); ok {
							src = cv.X
						}
						if call, ok := strip(src).(*ssa.Call); ok {
							if f := call.Call.StaticCallee(); f != nil && f.Name() == "Uint16" {
								fromParse = true
							}
						}
					}
					if st.elems[1].part != 0 {
						idOK = false
					} else if n, ok := intConst(st.elems[1].v); !ok || n != 2 {
						idOK = false
					}
					if idOK && fromParse {
						ackq.pass()
					} else {
						ackq.fail(p, st.idx, "the queued acknowledgement does not carry the identifier parsed from this packet (length byte 2, high byte, low byte)")
					}
				}
				if q == 2 {
					if li < 0 {
						marker.fail(p, last, "an exactly-once message is delivered without consulting the reception marker")
					} else if n, k := nilResult(p, li, last); !k || !n {
						marker.fail(p, last, "an exactly-once message is delivered although the marker Load may have failed")
					} else if v := pathx.ResultAt(p.Events[li].Result, 0); v == nil {
						marker.fail(p, last, "marker Load result unused")
					} else if rel, _, ok := p.Known(v, li, last); !ok || rel != pathx.RNil {
						marker.fail(p, last, "an exactly-once message is delivered on a path that has not established that no marker exists: a retransmission would be delivered twice")
					} else {
						marker.pass()
					}
				}
			default:
				ackq.fail(p, last, "a message is returned on a path without a recognised quality-of-service arm")
			}
			if len(wires) > 0 {
				nowire.fail(p, wires[0], "onPUBLISH writes to the connection while delivering a message: the acknowledgement must wait for the next ReadSlices")
			} else {
				nowire.pass()
			}
			continue
		}
		// an error return must not leave an acknowledgement queued, except
		// for the PUBREC of a duplicate whose write just failed (retried)
		if len(stores) > 0 && stores[len(stores)-1].kind != "truncate" {
			failedWrite := false
			for _, w := range wires {
				if n, k := nilResult(p, w, last); k && !n {
					failedWrite = true
				}
			}
			if failedWrite && dup {
				noack.pass()
			} else {
				noack.fail(p, last, "onPUBLISH returns an error while an acknowledgement stays queued: the next ReadSlices confirms a message that was never handed to the application, and the broker will not send it again")
			}
		} else {
			noack.pass()
		}
		if dup {
			// duplicate: must be answered, never delivered
			if len(wires) == 0 {
				// only acceptable when an internal-error return precedes the write
				// (readSlices enters every handler with pendingAck empty — clauses "flush" and
				// "inv" below — so a path that found it filled before this call stored to it is dead code)
				if r := p.Events[last].Results[len(p.Events[last].Results)-1]; isOpaqueErrorf(r) {
					firstStore := last
					if len(stores) > 0 {
						firstStore = stores[0].idx
					}
					filled := false
					for _, cm := range assumed(p, 0, firstStore) {
						if x, ok := builtinCall(cm.X, "len"); ok && roleKey(x) == "Client.pendingAck" && cm.Op == token.NEQ && isK(cm.Y, 0) {
							filled = true
						}
					}
					if filled {
						continue
					}
				}
				dupe.fail(p, last, "a retransmitted exactly-once PUBLISH is skipped without repeating PUBREC: the broker can never complete the exchange")
				continue
			}
			w := wires[0]
			okAck, okID := false, false
			for _, st := range stores {
				if st.idx < w && st.kind == "append" && st.first == pt["typePUBREC"]<<4 {
					okAck = true
					okID = ackCarriesParsedID(st)
				}
			}
			if !okAck {
				dupe.fail(p, w, "the packet written for a duplicate is not a PUBREC")
				continue
			}
			if !okID {
				dupe.fail(p, w, "the PUBREC written for a duplicate does not carry the identifier parsed from this packet (length byte 2, high byte, low byte)")
				continue
			}
			if n, k := nilResult(p, w, last); k && n {
				// write fine: pendingAck must be truncated again
				if len(stores) == 0 || stores[len(stores)-1].kind != "truncate" {
					dupe.fail(p, last, "after answering a duplicate the buffer is left non-empty: the next packet would trip over it")
					continue
				}
			}
			dupe.pass()
		} else if len(wires) > 0 {
			nowire.fail(p, wires[0], "wire write on a non-duplicate path of onPUBLISH")
		}
	}
	marker.done(1, "every exactly-once delivery lies behind a marker Load that returned (nil, nil)")
	ackq.done(2, "every QoS 1/2 delivery leaves the matching acknowledgement with this packet's identifier in pendingAck")
	dupe.done(1, "every recognised duplicate leads to a PUBREC write and is not delivered")
	nowire.done(1, "no wire write on any delivering path")
	qos0.done(1, "no acknowledgement for QoS 0")
	noack.done(3, "no error return leaves pendingAck filled, except the retried PUBREC of a duplicate")

	// --- handlers keep the loop invariant: pendingAck empty when the read loop continues ---
	inv := c.acc("ORD-4", rs, "loop-continues⇒pendingAck-empty(handler-summaries)")
	retry := c.acc("ORD-4", rs, "packet-kept-for-retry-only-after-durable-record-change")
	for name, h := range map[string]*ssa.Function{"typePUBLISH": onPub, "typePUBREC": onRec, "typePUBREL": onRel} {
		if h == nil {
			continue
		}
		for _, p := range c.Paths("ORD-4", h) {
			if p.End != pathx.KReturn {
				continue
			}
			last := len(p.Events) - 1
			stores := pendingAckStores(p)
			nonEmpty := len(stores) > 0 && stores[len(stores)-1].kind != "truncate"
			re := retErr(p, last)
			r := p.Events[last].Results[len(p.Events[last].Results)-1]
			continues := re == triNil && name != "typePUBLISH" || isSentinel(r, "errDupe")
			if continues && nonEmpty {
				inv.fail(p, last, "%s returns to the read loop with a non-empty pendingAck", name)
			} else {
				inv.pass()
			}
			// an error return may keep the packet for a retry by the next
			// ReadSlices only when its record change was made durable
			if name != "typePUBLISH" && re != triNil && nonEmpty {
				durable := false
				for i := range p.Events {
					if op := persistenceOp(&p.Events[i]); op == "Save" || op == "Delete" {
						if n, k := nilResult(p, i, last); n && k {
							durable = true
						}
					}
				}
				if durable {
					retry.pass()
				} else {
					retry.fail(p, last, "%s fails before its Persistence change succeeded, yet leaves its packet in pendingAck: the next ReadSlices transmits it although nothing was recorded (a PUBREL goes out while the store still says PUBLISH)", name)
				}
			}
		}
	}
	inv.done(3, "every handler return that lets the loop continue leaves pendingAck truncated or untouched")
	retry.done(2, "PUBREL/PUBCOMP stay queued for a retry only behind a nil Save/Delete")

	// --- readSlices flush ---
	flush := c.acc("ORD-4", rs, "peekPacket-only-with-pendingAck-flushed")
	save := c.acc("ORD-4", rs, "PUBREC-flush⇒marker-Save=nil-before-write")
	trunc := c.acc("ORD-4", rs, "truncate-only-after-nil-write")
	onlyRec := c.acc("ORD-4", rs, "marker-Save-only-when-the-pending-packet-is-PUBREC")
	loopPub := c.acc("ORD-4", rs, "loop-continues-after-onPUBLISH-only-on-errDupe")
	unsaved := c.acc("ORD-4", rs, "flush-without-marker-Save⇒proven-not-PUBREC")
	dupeServed := c.acc("ORD-4", rs, "duplicate⇒never-served")
	dupeEsc := c.acc("ORD-4", rs, "errDupe-does-not-escape")
	owed := c.acc("ORD-4", rs, "acknowledgement-pending⇒marker-Save-or-write-attempted-before-any-return")
	for _, p := range c.Paths("ORD-4", rs) {
		// calling ReadSlices again is the application taking ownership: with an
		// acknowledgement pending, nothing ends the call before the marker is
		// saved (PUBREC) or the write was tried — whatever state the client is in
		if p.Start == rs.Blocks[0] && p.End == pathx.KReturn {
			ia := -1
			for i := range p.Events {
				e := &p.Events[i]
				if e.Kind != pathx.KAssume {
					continue
				}
				if cm, ok := cmpOf(e.Val, e.Truth); ok && cm.Op == token.NEQ && isK(cm.Y, 0) {
					if x, isLen := builtinCall(cm.X, "len"); isLen && roleKey(x) == "Client.pendingAck" {
						ia = i
						break
					}
				}
			}
			if ia >= 0 {
				tried := false
				for i := ia; i < len(p.Events); i++ {
					e := &p.Events[i]
					if persistenceOp(e) == "Save" || e.Kind == pathx.KCall && e.Callee != nil && wire[e.Callee] {
						tried = true
						break
					}
				}
				if tried {
					owed.pass()
				} else {
					owed.fail(p, len(p.Events)-1, "ReadSlices returns with an acknowledgement pending and neither the reception marker saved nor the acknowledgement write tried: the application took ownership of the message, yet after a restart on the same Persistence the broker's retransmission is delivered a second time")
				}
			}
		}
		// first peekPacket call on the path
		ip := p.Index(0, func(e *pathx.Event) bool { return isCallTo(e, peek) })
		if p.Start == rs.Blocks[0] && ip >= 0 {
			// pendingAck must be known empty or flushed before ip
			empty := false
			for _, cm := range assumed(p, 0, ip) {
				if x, ok := builtinCall(cm.X, "len"); ok && roleKey(x) == "Client.pendingAck" {
					if n, ok := intConst(cm.Y); ok && n == 0 && cm.Op == token.EQL {
						empty = true
					}
				}
			}
			flushed := false
			var iw = -1
			for i := 0; i < ip; i++ {
				e := &p.Events[i]
				if e.Kind == pathx.KCall && e.Callee != nil && wire[e.Callee] {
					iw = i
				}
			}
			for _, st := range pendingAckStores(p) {
				if st.idx < ip && st.kind == "truncate" && iw >= 0 && iw < st.idx {
					flushed = true
				}
			}
			if empty || flushed {
				flush.pass()
			} else {
				flush.fail(p, ip, "the next packet is read while an acknowledgement for the previous message may still be pending: the flush no longer dominates peekPacket")
			}
		}
		// Save before PUBREC write; truncate after nil write
		for _, st := range pendingAckStores(p) {
			if st.kind != "truncate" {
				continue
			}
			iw := -1
			for i := 0; i < st.idx; i++ {
				e := &p.Events[i]
				if e.Kind == pathx.KCall && e.Callee != nil && wire[e.Callee] {
					iw = i
				}
			}
			if iw < 0 {
				trunc.fail(p, st.idx, "pendingAck is cleared without a preceding write")
				continue
			}
			if n, k := nilResult(p, iw, st.idx); !k || !n {
				trunc.fail(p, st.idx, "pendingAck is cleared although the write may have failed: the acknowledgement is lost")
				continue
			}
			trunc.pass()
		}
		// the marker is saved for a PUBREC only
		for i := range p.Events {
			if persistenceOp(&p.Events[i]) != "Save" {
				continue
			}
			okRec := false
			for _, cm := range assumed(p, 0, i) {
				if cm.Op == token.EQL && isK(cm.Y, pt["typePUBREC"]) {
					if sh, ok := strip(cm.X).(*ssa.BinOp); ok && sh.Op == token.SHR && isK(sh.Y, 4) {
						if ix := indexBase(sh.X); ix != nil && roleKey(ix) == "Client.pendingAck" && isK(elemIndex(sh.X), 0) {
							okRec = true
						}
					}
				}
			}
			if okRec {
				onlyRec.pass()
			} else {
				onlyRec.fail(p, i, "a reception marker is saved on a path that has not established that the pending packet is a PUBREC: a retried PUBCOMP would re-create the marker its PUBREL just ended, and the next message with that identifier is suppressed as a duplicate")
			}
		}
		// PUBREC flush
		isRec := false
		recAt := -1
		for i := range p.Events {
			e := &p.Events[i]
			if e.Kind != pathx.KAssume {
				continue
			}
			if cm, ok := cmpOf(e.Val, e.Truth); ok && cm.Op == token.EQL {
				if n, ok := intConst(cm.Y); ok && n == pt["typePUBREC"] {
					if sh, ok := strip(cm.X).(*ssa.BinOp); ok && sh.Op == token.SHR {
						if ix := indexBase(sh.X); ix != nil && roleKey(ix) == "Client.pendingAck" {
							isRec, recAt = true, i
						}
					}
				}
			}
		}
		// a flush without a marker Save needs the proof that the packet is not a
		// PUBREC: the very test pendingAck[0]>>4 != typePUBREC (type nibble, exact constant)
		if p.Start == rs.Blocks[0] {
			ipk := p.Index(0, func(e *pathx.Event) bool { return isCallTo(e, peek) })
			if ipk < 0 {
				ipk = len(p.Events)
			}
			for i := 0; i < ipk; i++ {
				e := &p.Events[i]
				if e.Kind != pathx.KCall || e.Callee == nil || !wire[e.Callee] || len(e.Args) < 2 || roleKey(e.Args[1]) != "Client.pendingAck" {
					continue
				}
				saved := false
				for j := 0; j < i; j++ {
					if persistenceOp(&p.Events[j]) == "Save" {
						saved = true
					}
				}
				if saved {
					continue // judged by the Save clauses
				}
				notRec := false
				for _, cm := range assumed(p, 0, i) {
					if cm.Op == token.NEQ && isK(cm.Y, pt["typePUBREC"]) {
						if sh, ok := strip(cm.X).(*ssa.BinOp); ok && sh.Op == token.SHR && isK(sh.Y, 4) {
							if ix := indexBase(sh.X); ix != nil && roleKey(ix) == "Client.pendingAck" && isK(elemIndex(sh.X), 0) {
								notRec = true
							}
						}
					}
				}
				if notRec {
					unsaved.pass()
				} else {
					unsaved.fail(p, i, "the pending acknowledgement is written without a marker Save on a path that has not established pendingAck[0]>>4 != typePUBREC: a PUBREC can go out with no record of the reception, and the redelivery after a restart is taken for a new message")
				}
			}
		}
		if isRec {
			iw := p.Index(recAt, func(e *pathx.Event) bool { return e.Kind == pathx.KCall && e.Callee != nil && wire[e.Callee] })
			if iw >= 0 {
				is := -1
				for i := recAt; i < iw; i++ {
					if persistenceOp(&p.Events[i]) == "Save" {
						is = i
					}
				}
				if is < 0 {
					save.fail(p, iw, "PUBREC is written without saving the reception marker first: after a restart the message is delivered again")
				} else if n, k := nilResult(p, is, iw); !k || !n {
					save.fail(p, iw, "PUBREC is written although the marker Save may have failed")
				} else {
					save.pass()
				}
			}
		}
		// errDupe is internal: a duplicate is skipped (the loop goes on, or a
		// failure of the skipping itself is returned) — never served, and the
		// sentinel never reaches the application
		for i := range p.Events {
			e := &p.Events[i]
			if !isCallTo(e, onPub) || !c.inRegion(rs, e) {
				continue
			}
			er := pathx.ErrResult(e.Result)
			isDupe, notDupe := false, false
			for _, cm := range assumed(p, i, -1) {
				for _, k := range []cmp{cm, cm.swapped()} {
					if strip(k.X) == er && isSentinel(k.Y, "errDupe") {
						isDupe = isDupe || k.Op == token.EQL
						notDupe = notDupe || k.Op == token.NEQ
					}
				}
			}
			if p.End != pathx.KReturn {
				continue
			}
			last := len(p.Events) - 1
			res := p.Events[last].Results
			if len(res) != 3 {
				continue
			}
			rerr := strip(res[2])
			if isDupe {
				served := !pathx.IsNilConst(res[0]) || roleKey(unwrapIface(res[2])) == "Client.bigMessage"
				if mi, ok := res[2].(*ssa.MakeInterface); ok && roleKey(mi.X) == "Client.bigMessage" {
					served = true
				}
				if served || retErr(p, last) == triNil {
					dupeServed.fail(p, last, "ReadSlices returns a message (or nothing at all) on a path where onPUBLISH reported a duplicate: the duplicate is delivered a second time")
				} else {
					dupeServed.pass()
				}
			}
			if rerr == er {
				if notDupe {
					dupeEsc.pass()
				} else {
					dupeEsc.fail(p, last, "ReadSlices returns the error of onPUBLISH on a path that has not excluded errDupe: a suppressed duplicate surfaces as an error and (with the reset that goes with it) drops the connection")
				}
			}
		}
		// loop continuation after onPUBLISH
		if p.End == pathx.KLoopBack {
			for i := range p.Events {
				e := &p.Events[i]
				if !isCallTo(e, onPub) {
					continue
				}
				// skip the BigMessage branch (handled below by the same test)
				er := pathx.ErrResult(e.Result)
				okDupe := false
				for _, cm := range assumed(p, i, -1) {
					for _, k := range []cmp{cm, cm.swapped()} {
						if k.Op == token.EQL && strip(k.X) == er && isSentinel(k.Y, "errDupe") {
							okDupe = true
						}
					}
				}
				if okDupe {
					loopPub.pass()
				} else {
					loopPub.fail(p, i, "the read loop goes on after onPUBLISH without having established err == errDupe: a delivered message would be dropped")
				}
			}
		}
	}
	owed.done(1, "every return behind len(pendingAck) != 0 follows the marker Save or the write")
	dupeServed.done(1, "a path with err == errDupe ends in the next iteration or in an error return")
	dupeEsc.done(2, "every return of onPUBLISH's error has excluded errDupe")
	unsaved.done(1, "the only flush without a Save lies behind pendingAck[0]>>4 != typePUBREC")
	flush.done(1, "every entry path reaches peekPacket with pendingAck empty or flushed (write=nil, then truncated)")
	save.done(1, "marker Save returned nil before every PUBREC flush")
	trunc.done(1, "pendingAck is truncated only behind a nil write")
	onlyRec.done(1, "every marker Save is control dependent on pendingAck[0]>>4 == typePUBREC")
	loopPub.done(1, "continuing after onPUBLISH requires errDupe")

	// --- onPUBREL ---
	rel := c.acc("ORD-4", onRel, "Delete=nil→PUBCOMP-written;unconditional-on-marker")
	relOK := c.acc("ORD-4", onRel, "nil-return⇒PUBCOMP-written")
	for _, p := range c.Paths("ORD-4", onRel) {
		if p.End != pathx.KReturn {
			continue
		}
		last := len(p.Events) - 1
		id, iw, il := -1, -1, -1
		for i := range p.Events {
			e := &p.Events[i]
			switch persistenceOp(e) {
			case "Delete":
				id = i
			case "Load", "List":
				il = i
			}
			if e.Kind == pathx.KCall && e.Callee != nil && wire[e.Callee] {
				iw = i
			}
		}
		if il >= 0 {
			rel.fail(p, il, "onPUBREL consults the Persistence before answering: PUBCOMP must also be sent for identifiers without a marker")
		}
		if iw >= 0 {
			ok := id >= 0 && id < iw
			if ok {
				n, k := nilResult(p, id, iw)
				ok = n && k
			}
			comp := false
			for _, st := range pendingAckStores(p) {
				if st.idx < iw && st.kind == "append" && st.first == pt["typePUBCOMP"]<<4 {
					comp = true
				}
			}
			switch {
			case !ok:
				rel.fail(p, iw, "PUBCOMP is written although the marker Delete has not returned nil before it")
			case !comp:
				rel.fail(p, iw, "the packet written by onPUBREL is not a PUBCOMP")
			default:
				rel.pass()
			}
		}
		if retErr(p, last) == triNil {
			if iw >= 0 {
				if n, k := nilResult(p, iw, last); n && k {
					relOK.pass()
				} else {
					relOK.fail(p, last, "nil return although the PUBCOMP write may have failed")
				}
			} else {
				relOK.fail(p, last, "nil return without a PUBCOMP: the broker keeps retransmitting PUBREL")
			}
		}
	}
	rel.done(1, "PUBCOMP follows a nil Delete and is not conditional on the marker's existence")
	relOK.done(1, "every nil return wrote PUBCOMP successfully")
}

// indexBase returns the slice a byte was indexed from (x[i] → x).
func indexBase(v ssa.Value) ssa.Value {
	u, ok := strip(v).(*ssa.UnOp)
	if !ok || u.Op != token.MUL {
		return nil
	}
	ia, ok := u.X.(*ssa.IndexAddr)
	if !ok {
		return nil
	}
	return ia.X
}

func isSentinel(v ssa.Value, name string) bool {
	u, ok := strip(v).(*ssa.UnOp)
	if !ok || u.Op != token.MUL {
		return false
	}
	g, ok := u.X.(*ssa.Global)
	return ok && g.Name() == name
}

func isOpaqueErrorf(v ssa.Value) bool {
	call, ok := v.(*ssa.Call)
	if !ok {
		return false
	}
	f := call.Call.StaticCallee()
	return f != nil && stdName(f) == "fmt.Errorf"
}

// ---- ORD-6: duties of toOffline ----

func (c *Ctx) ord6() {
	off := c.Fn("ORD-6", "(*Client).toOffline")
	brk := c.Fn("ORD-6", "(*unorderedTxs).breakAll")
	if off == nil || brk == nil {
		return
	}
	ef := c.errflow()
	closeRead := c.acc("ORD-6", off, "read-connection-closed")
	pend := c.acc("ORD-6", off, "connPending-deposited")
	clear := c.acc("ORD-6", off, "readConn,bufr,peek,bigMessage-cleared")
	ping := c.acc("ORD-6", off, "ping-slot-drained-with-ErrBreak")
	ball := c.acc("ORD-6", off, "breakAll-called")
	keep := c.acc("ORD-6", off, "pendingAck-kept")
	order := c.acc("ORD-6", off, "requests-released-after-write-token-exchanged")
	closedClear := c.acc("ORD-6", off, "closed-client⇒read-state-dropped(next-ReadSlices-reaches-ErrClosed)")
	intr := c.acc("ORD-6", off, "wait-for-the-write-token-only-after-interrupting-the-writer")
	for _, p := range c.Paths("ORD-6", off) {
		// a receive that may have to wait (not an arm of a select with default):
		// whoever holds the token may be stuck in a write on the failed
		// connection, and only closing that connection gets it back
		for i := range p.Events {
			e := &p.Events[i]
			if e.Kind != pathx.KRecv || tokenOf(e.Chan) != tkWrite || (e.InSelect && e.NonBlocking) {
				continue
			}
			closed := false
			for j := 0; j < i; j++ {
				if r := &p.Events[j]; isInvoke(r, "net.Conn", "Close") && len(r.Args) > 0 && roleKey(r.Args[0]) == "Client.readConn" {
					closed = true
				}
			}
			if closed {
				intr.pass()
			} else {
				intr.fail(p, i, "toOffline waits for the write token before it has closed the failed connection: a request blocked in a write on that connection keeps the token, and the read routine waits with it")
			}
		}
		if p.End != pathx.KReturn {
			continue
		}
		last := len(p.Events) - 1
		iSend := p.Index(0, func(e *pathx.Event) bool { return e.Kind == pathx.KSend && tokenOf(e.Chan) == tkWrite })
		sawClosed := false
		for _, e := range p.Events {
			if e.Kind == pathx.KRecv && tokenOf(e.Chan) == tkWrite && e.OkVal != nil {
				if rel, _, ok := p.Known(e.OkVal, 0, -1); ok && rel == pathx.RFalse {
					sawClosed = true
				}
			}
		}
		for i := range p.Events {
			if e := &p.Events[i]; e.Kind == pathx.KStore && pathx.RoleOfAddr(e.Addr).Key() == "Client.pendingAck" {
				keep.fail(p, i, "toOffline modifies pendingAck: the acknowledgement owed for the last delivered message is lost across the reconnect")
			}
		}
		if sawClosed {
			// client closed: no token to exchange, nobody left to release — but the
			// read routine must not go on with the connection's buffer: with
			// readConn still set the next ReadSlices skips connect (which is where
			// ErrClosed comes from) and parses whatever is left in the buffer
			gone := map[string]bool{}
			for i := range p.Events {
				e := &p.Events[i]
				if e.Kind == pathx.KStore && pathx.IsNilConst(e.Val) {
					gone[pathx.RoleOfAddr(e.Addr).Key()] = true
				}
			}
			if gone["Client.readConn"] && gone["Client.bufr"] && gone["Client.peek"] && gone["Client.bigMessage"] {
				closedClear.pass()
			} else {
				closedClear.fail(p, last, "toOffline returns on a closed client with the read state in place (readConn cleared: %v, bufr: %v, peek: %v, bigMessage: %v): the next ReadSlices does not reach connect, where ErrClosed is reported, and goes on parsing the buffer of the closed connection", gone["Client.readConn"], gone["Client.bufr"], gone["Client.peek"], gone["Client.bigMessage"])
			}
			continue
		}
		if iSend < 0 {
			pend.fail(p, last, "toOffline returns on an open client without depositing a signal into writeSem")
			continue
		}
		if pathx.ConstKey(p.Events[iSend].Val) == "connSignal:0" {
			pend.pass()
		} else {
			pend.fail(p, iSend, "toOffline deposits %s, want connPending", Expr(p.Events[iSend].Val))
		}
		ic := p.Index(0, func(e *pathx.Event) bool {
			return isInvoke(e, "net.Conn", "Close") && len(e.Args) > 0 && roleKey(e.Args[0]) == "Client.readConn"
		})
		if ic >= 0 && ic < iSend {
			closeRead.pass()
		} else {
			closeRead.fail(p, last, "the read connection is not closed before the write token is released")
		}
		cleared := map[string]bool{}
		for i := range p.Events {
			e := &p.Events[i]
			if e.Kind == pathx.KStore && pathx.IsNilConst(e.Val) {
				cleared[pathx.RoleOfAddr(e.Addr).Key()] = true
			}
		}
		missing := ""
		for _, k := range []string{"Client.readConn", "Client.bufr", "Client.peek", "Client.bigMessage"} {
			if !cleared[k] {
				missing += " " + k
			}
		}
		if missing == "" {
			clear.pass()
		} else {
			clear.fail(p, last, "not cleared:%s — the next ReadSlices would keep using the dead connection instead of dialing", missing)
		}
		// ping slot
		isel := p.Index(0, func(e *pathx.Event) bool {
			if e.Kind != pathx.KSelect || e.Select.Blocking {
				return false
			}
			for _, st := range e.Select.States {
				if roleKey(st.Chan) == "Client.pingAck" {
					return true
				}
			}
			return false
		})
		if isel < 0 {
			ping.fail(p, last, "no non-blocking drain of the ping slot")
		} else {
			ir := p.Index(isel, func(e *pathx.Event) bool { return e.Kind == pathx.KRecv && roleKey(e.Chan) == "Client.pingAck" })
			if ir >= 0 {
				is := p.Index(ir, func(e *pathx.Event) bool { return e.Kind == pathx.KSend && e.Chan == p.Events[ir].Result })
				if is < 0 {
					ping.fail(p, ir, "the waiting Ping's callback is removed but never answered: Ping blocks forever")
				} else if cl := classes(ef.of(p.Events[is].Val)); !cl["ErrBreak"] {
					ping.fail(p, is, "the waiting Ping is answered with {%s}, want an ErrBreak", classList(cl))
				} else {
					ping.pass()
				}
			} else {
				ping.pass() // default arm: empty slot
			}
		}
		ib := p.Index(0, func(e *pathx.Event) bool { return isCallTo(e, brk) })
		if ib >= 0 && (ib < iSend || isel >= 0 && isel < iSend) {
			order.fail(p, ib, "waiting requests are released before the connection is closed and the write token exchanged: a request submitted in between is never told about the connection loss")
		} else if ib >= 0 {
			order.pass()
		}
		if ib >= 0 {
			ball.pass()
		} else {
			ball.fail(p, last, "pending Subscribe/Unsubscribe requests are not released (breakAll missing)")
		}
	}
	closeRead.done(1, "readConn.Close precedes the release of the write token on every open path")
	pend.done(1, "connPending deposited on every open path")
	clear.done(1, "all four read-routine fields cleared")
	ping.done(2, "slot drained without blocking; a waiting Ping gets ErrBreak")
	ball.done(1, "breakAll called on every open path")
	keep.done(0, "no store to pendingAck")
	intr.done(1, "the blocking receive of the token follows readConn.Close()")
	closedClear.done(2, "both closed-client exits clear readConn, bufr, peek and bigMessage")
	order.done(1, "ping drain and breakAll follow the deposit of connPending")
}

// ---- ORD-8: shutdown ----

func (c *Ctx) ord8() {
	rs := c.Fn("ORD-8", "(*Client).ReadSlices")
	term := c.Fn("ORD-8", "(*Client).termCallbacks")
	disc := c.Fn("ORD-8", "(*Client).Disconnect")
	brk := c.Fn("ORD-8", "(*unorderedTxs).breakAll")
	if rs == nil || term == nil || disc == nil {
		return
	}
	ef := c.errflow()
	wire := c.wireCapable()

	tc := c.acc("ORD-8", rs, "ErrClosed⇒termCallbacks-before-return")
	for _, p := range c.Paths("ORD-8", rs) {
		if p.End != pathx.KReturn {
			continue
		}
		for i := range p.Events {
			e := &p.Events[i]
			if !isStd(e, "errors.Is") || len(e.Args) != 2 || !isSentinel(e.Args[1], "ErrClosed") {
				continue
			}
			rel, _, ok := p.Known(e.Result, i, -1)
			if !ok || rel != pathx.RTrue {
				continue
			}
			if p.Index(i, func(x *pathx.Event) bool { return isCallTo(x, term) }) >= 0 {
				tc.pass()
			} else {
				tc.fail(p, len(p.Events)-1, "ReadSlices reports ErrClosed without terminating the callbacks: pending exchange channels never learn about the close")
			}
		}
	}
	tc.done(1, "termCallbacks is called on every path where errors.Is(err, ErrClosed) held")

	// termCallbacks goroutines
	n := 0
	for _, an := range term.AnonFuncs {
		if !c.isGoTarget(an) {
			continue
		}
		n++
		sendCl := c.acc("ORD-8", an, "queued-exchange-gets-ErrClosed,stays-open")
		for _, p := range c.Paths("ORD-8", an) {
			for i := range p.Events {
				e := &p.Events[i]
				switch e.Kind {
				case pathx.KSend:
					if tokenOf(e.Chan) != "" {
						continue
					}
					if cl := classes(ef.of(e.Val)); cl["ErrClosed"] {
						sendCl.pass()
					} else {
						sendCl.fail(p, i, "exchange channel receives {%s} at shutdown, want ErrClosed", classList(cl))
					}
				case pathx.KClose:
					if tokenOf(e.Chan) == "" && roleKey(e.Chan) != "outbound.queue" {
						sendCl.fail(p, i, "an exchange channel is closed at shutdown: a close means confirmed by the broker")
					}
				}
			}
		}
		sendCl.done(1, "every queued exchange is sent an ErrClosed and left open")
	}
	c.S.Floor("ORD-8", "termCallbacks goroutines", n, 2)
	tping := c.acc("ORD-8", term, "ping-slot-and-unordered-requests-released")
	for _, p := range c.Paths("ORD-8", term) {
		if p.End != pathx.KReturn {
			continue
		}
		okb := p.Index(0, func(e *pathx.Event) bool { return isCallTo(e, brk) }) >= 0
		okp := p.Index(0, func(e *pathx.Event) bool { return e.Kind == pathx.KSelect && !e.Select.Blocking }) >= 0
		okw := p.Index(0, func(e *pathx.Event) bool { return isStd(e, "(*sync.WaitGroup).Wait") }) >= 0
		if okb && okp && okw {
			tping.pass()
		} else {
			tping.fail(p, len(p.Events)-1, "termCallbacks misses breakAll (%v), the ping drain (%v) or the wait for its goroutines (%v)", okb, okp, okw)
		}
	}
	tping.done(1, "ping slot drained, goroutines awaited, breakAll called")
	// the wait group counts a goroutine before it is started: an Add that comes
	// after the go statement lets Wait return while the goroutine still runs
	wgp := c.acc("ORD-8", term, "WaitGroup.Add-precedes-each-go-statement")
	for _, p := range c.Paths("ORD-8", term) {
		if p.Start != term.Blocks[0] {
			continue
		}
		adds := 0
		for i := range p.Events {
			e := &p.Events[i]
			if e.Kind == pathx.KCall && stdName(e.Callee) == "(*sync.WaitGroup).Add" {
				if k, ok := intConst(e.Args[len(e.Args)-1]); ok && k > 0 {
					adds += int(k)
				}
			}
			if e.Kind == pathx.KGo && e.Callee != nil {
				done := false
				for _, b := range e.Callee.Blocks {
					for _, ins := range b.Instrs {
						var cc *ssa.CallCommon
						switch x := ins.(type) {
						case *ssa.Defer:
							cc = &x.Call
						case *ssa.Call:
							cc = &x.Call
						}
						if cc != nil && cc.StaticCallee() != nil && stdName(cc.StaticCallee()) == "(*sync.WaitGroup).Done" {
							done = true
						}
					}
				}
				if !done {
					continue
				}
				if adds > 0 {
					adds--
					wgp.pass()
				} else {
					wgp.fail(p, i, "a goroutine that reports to the wait group is started before the group counts it: Wait can return early, and termCallbacks ends while exchanges are still being answered")
				}
			}
		}
	}
	wgp.done(2, "every counted goroutine is added before it is started")

	// Close and Disconnect: the context is cancelled before connSem is awaited
	for _, fn := range []*ssa.Function{c.Fn("ORD-8", "(*Client).Close"), disc} {
		if fn == nil {
			continue
		}
		cf := c.acc("ORD-8", fn, "context-cancelled-before-waiting-for-connSem")
		for _, p := range c.Paths("ORD-8", fn) {
			if p.Start != fn.Blocks[0] {
				continue
			}
			ic := p.Index(0, func(e *pathx.Event) bool {
				return e.Kind == pathx.KCall && e.Call != nil && e.Callee == nil && e.Method == nil && roleKey(e.Call.Value) == "Client.cancel"
			})
			ir := p.Index(0, func(e *pathx.Event) bool { return e.Kind == pathx.KRecv && tokenOf(e.Chan) == tkConn })
			if ir < 0 {
				continue
			}
			if ic >= 0 && ic < ir {
				cf.pass()
			} else {
				cf.fail(p, ir, "connSem is awaited before the connect context is cancelled: while ReadSlices dials or awaits CONNACK it holds connSem, so this call blocks for as long as the dial or handshake lasts")
			}
		}
		cf.done(1, "c.cancel() precedes the receive from connSem on every path")
	}

	// Disconnect: DISCONNECT is the last packet
	dl := c.acc("ORD-8", disc, "DISCONNECT-last-then-Close,token-never-redeposited")
	for _, p := range c.Paths("ORD-8", disc) {
		if p.End != pathx.KReturn {
			continue
		}
		var ws []int
		for i := range p.Events {
			if e := &p.Events[i]; e.Kind == pathx.KCall && e.Callee != nil && wire[e.Callee] {
				ws = append(ws, i)
			}
		}
		if len(ws) == 0 {
			continue
		}
		if len(ws) > 1 {
			dl.fail(p, ws[1], "more than one wire write in Disconnect")
			continue
		}
		e := &p.Events[ws[0]]
		isDisc := false
		for _, a := range e.Args {
			if isSentinel(a, "packetDISCONNECT") {
				isDisc = true
			}
		}
		ic := p.Index(ws[0], func(x *pathx.Event) bool { return isInvoke(x, "net.Conn", "Close") })
		resend := p.Index(ws[0], func(x *pathx.Event) bool { return x.Kind == pathx.KSend && tokenOf(x.Chan) == tkWrite })
		switch {
		case !isDisc:
			dl.fail(p, ws[0], "Disconnect writes something other than the DISCONNECT packet")
		case ic < 0:
			dl.fail(p, len(p.Events)-1, "the connection is not closed after DISCONNECT")
		case resend >= 0:
			dl.fail(p, resend, "the connection is handed back to writers after DISCONNECT")
		default:
			dl.pass()
		}
	}
	dl.done(1, "exactly one write (packetDISCONNECT), then Close, and the write token is consumed")
}

// elemIndex gives the index operand of an element load (*&x[i]), or nil.
func elemIndex(v ssa.Value) ssa.Value {
	u, ok := strip(v).(*ssa.UnOp)
	if !ok || u.Op != token.MUL {
		return nil
	}
	ia, ok := u.X.(*ssa.IndexAddr)
	if !ok {
		return nil
	}
	return ia.Index
}

// ackCarriesParsedID: a four byte acknowledgement {type, 2, id>>8, id} whose
// identifier bytes derive from the Uint16 parsed in the same call.
func ackCarriesParsedID(st ackStore) bool {
	if len(st.elems) != 4 {
		return false
	}
	src, idOK := idBytes(st.elems[2], st.elems[3])
	if !idOK {
		return false
	}
	if cv, ok := src.(*ssa.Convert); ok {
		src = cv.X
	}
	call, ok := strip(src).(*ssa.Call)
	if !ok {
		return false
	}
	if f := call.Call.StaticCallee(); f == nil || f.Name() != "Uint16" {
		return false
	}
	if st.elems[1].part != 0 {
		return false
	}
	n, ok := intConst(st.elems[1].v)
	return ok && n == 2
}
