package rules

import (
	"flag"
	"fmt"
	"os"
	"path/filepath"
	"runtime/debug"
	"sort"
	"strconv"
	"strings"
	"time"

	"mqttverif/internal/load"
	"mqttverif/internal/oblig"
)

// group is a set of rules produced by one engine pass.
type group struct {
	name  string
	rules []string
	run   func(c *Ctx, which map[string]bool)
}

var groups []group

func register(name string, rules []string, run func(c *Ctx, which map[string]bool)) {
	groups = append(groups, group{name, rules, run})
}

func init() {
	register("TOK", []string{"TOK-1", "TOK-2", "TOK-3", "TOK-4", "TOK-5", "TOK-6", "TOK-8"}, (*Ctx).RunTOK)
}

// PropRules lists, per property, the rules that decide its structural
// clauses (DESIGN.md §4).
var PropRules = map[string][]string{}

type propInfo struct {
	Explanation string
	Assumptions []string
}

var PropInfo = map[string]propInfo{}

func Main(args []string) int {
	if len(args) == 0 {
		fmt.Fprintln(os.Stderr, "usage: mqttverif check -p C08 [-tier quick|thorough] [-repo /repo]")
		return 2
	}
	switch args[0] {
	case "check":
		return mainCheck(args[1:])
	case "list":
		var ps []string
		for p := range PropRules {
			ps = append(ps, p)
		}
		sort.Strings(ps)
		for _, p := range ps {
			fmt.Printf("%s: %s\n", p, strings.Join(PropRules[p], " "))
		}
		return 0
	case "explain":
		if len(args) < 2 {
			return 2
		}
		b, err := os.ReadFile(args[1])
		if err != nil {
			fmt.Fprintln(os.Stderr, err)
			return 2
		}
		os.Stdout.Write(b)
		return 0
	case "selftest":
		return mainSelftest(args[1:])
	case "manifest":
		return mainManifest()
	case "gen-known":
		dir := "/repo"
		if len(args) > 1 {
			dir = args[1]
		}
		src, err := load.GenKnownSource(dir)
		if err != nil {
			fmt.Fprintln(os.Stderr, err)
			return 2
		}
		fmt.Print(src)
		return 0
	}
	fmt.Fprintln(os.Stderr, "unknown command", args[0])
	return 2
}

func mainCheck(args []string) (code int) {
	fs := flag.NewFlagSet("check", flag.ExitOnError)
	prop := fs.String("p", "", "property id, e.g. C08")
	tier := fs.String("tier", os.Getenv("VERIF_TIER"), "quick|thorough")
	repo := fs.String("repo", "/repo", "repository under analysis")
	verif := fs.String("verif", "/verif", "verification directory (evidence, known findings)")
	only := fs.String("rules", "", "comma separated subset of rules (debugging)")
	noEvidence := fs.Bool("no-evidence", false, "do not write evidence or replay files")
	verbose := fs.Bool("v", false, "print discharged obligations too")
	fs.Parse(args)
	if *tier == "" {
		*tier = "quick"
	}
	seed, _ := strconv.Atoi(os.Getenv("VERIF_SEED"))
	ruleIDs, ok := PropRules[*prop]
	if *prop == "ALL" {
		// development aid (mutation sweep): the union of all rules in one process; never registered as a check
		seenRule := map[string]bool{}
		for _, rs := range PropRules {
			for _, r := range rs {
				if !seenRule[r] {
					seenRule[r] = true
					ruleIDs = append(ruleIDs, r)
				}
			}
		}
		ok = true
		*noEvidence = true
	}
	if !ok {
		fmt.Fprintf(os.Stderr, "property %q is not claimed by this checker\n", *prop)
		return 2
	}
	start := time.Now()
	abs, _ := filepath.Abs(*repo)
	p, err := load.Load(abs, *tier == "thorough")
	if err != nil {
		fmt.Fprintln(os.Stderr, "mqttverif:", err)
		fmt.Printf("VIOLATION property=%s replay=%s\n", *prop, "load-failure")
		return 1
	}
	c := NewCtx(p, *prop, *tier)
	c.verif = *verif
	for _, r := range p.Renames {
		fmt.Printf("note: %s\n", r)
	}
	which := map[string]bool{}
	for _, r := range ruleIDs {
		which[r] = true
	}
	if *only != "" {
		which = map[string]bool{}
		for _, r := range strings.Split(*only, ",") {
			which[r] = true
		}
	}
	defer func() {
		if r := recover(); r != nil {
			fmt.Fprintf(os.Stderr, "mqttverif: analyser panic: %v\n%s\n", r, debug.Stack())
			fmt.Printf("VIOLATION property=%s replay=%s\n", *prop, "analyser-panic")
			code = 1
		}
	}()
	covered := map[string]bool{}
	for _, g := range groups {
		need := false
		for _, r := range g.rules {
			if which[r] {
				need = true
				covered[r] = true
			}
		}
		if need {
			g.run(c, which)
		}
	}
	for r := range which {
		if !covered[r] {
			c.S.Unknown(r, r+"|unimplemented", "", "", "rule "+r+" is listed for this property but no engine implements it")
		}
	}
	if *tier == "thorough" {
		c.thoroughExtras(which)
	}

	findings, err := oblig.LoadFindings(filepath.Join(*verif, "known_findings.jsonl"))
	if err != nil {
		fmt.Fprintln(os.Stderr, "mqttverif:", err)
		return 2
	}
	if *prop == "ALL" {
		for i := range findings {
			findings[i].Property = "ALL"
		}
	}
	hits := c.S.ApplyFindings(findings)
	for _, h := range hits {
		fmt.Printf("KNOWN-FINDING: property=%s %s [%s %s]\n", h.Property, h.What, h.Rule, h.Construct)
	}

	total, discharged, violated, undecided, known, flow := c.S.Summary()
	fmt.Printf("mqttverif %s tier=%s repo=%s: %d obligations, %d discharged, %d known, %d violated, %d undecided, %d distinct non-trivial; rules %s\n",
		*prop, *tier, abs, total, discharged, known, violated, undecided, flow, strings.Join(sortedKeys(which), " "))
	for _, f := range c.S.Floors {
		fmt.Printf("  floor %-7s %-45s found %d (min %d)\n", f.Rule, f.What, f.Got, f.Min)
	}
	code = 0
	for _, o := range c.S.Sorted() {
		switch o.Status {
		case oblig.Violated, oblig.Undecided:
			code = 1
			fmt.Printf("\n%s %s\n  rule      %s\n  construct %s\n  at        %s in %s\n  reason    %s\n", strings.ToUpper(string(o.Status)), *prop, o.Rule, o.Construct, o.Pos, o.Func, o.Reason)
			for _, l := range o.Path {
				fmt.Printf("    | %s\n", l)
			}
			replay := "-"
			if !*noEvidence {
				if rp, err := oblig.WriteViolation(filepath.Join(*verif, "out", "violations"), *prop, o, abs); err == nil {
					replay = rp
				}
			}
			fmt.Printf("VIOLATION property=%s replay=%s\n", *prop, replay)
		case oblig.Discharged, oblig.Known:
			if *verbose {
				fmt.Printf("  %-10s %-8s %s  (%s) %s\n", o.Status, o.Rule, o.Construct, o.Pos, o.Reason)
			}
		}
	}
	if !*noEvidence {
		info := PropInfo[*prop]
		cmd := fmt.Sprintf("./bin/mqttverif check -p %s -tier %s", *prop, *tier)
		m := oblig.Meta{Tier: *tier, Seed: seed, Explanation: info.Explanation, CheckerCmd: cmd,
			Trusted: trustedBase, Assumptions: info.Assumptions, Start: start,
			Extra: map[string]any{
				"rules_applied":     sortedKeys(which),
				"packages_loaded":   len(p.Pkgs),
				"functions_in_root": len(c.funcs),
				"tests_loaded":      p.WithTest,
				"renames_assumed":   renameStrings(p.Renames),
			}}
		for k, v := range c.Extras {
			m.Extra[k] = v
		}
		if err := c.S.WriteEvidence(filepath.Join(*verif, "evidence", *prop+".json"), m); err != nil {
			fmt.Fprintln(os.Stderr, "mqttverif: evidence:", err)
			return 2
		}
	}
	return code
}

var trustedBase = []string{
	"go/types and golang.org/x/tools v0.29.0 (go/packages, go/ssa) faithfully represent the program",
	"Go channel, select and defer semantics",
	"contracts of net.Conn, io.Writer, bufio.Reader, os.Rename/File.Sync, hash/fnv, utf8.ValidString",
	"the rule tables in /verif/tool/internal/rules (transcribed from the source and the package documentation)",
}

func sortedKeys(m map[string]bool) []string {
	var out []string
	for k, v := range m {
		if v {
			out = append(out, k)
		}
	}
	sort.Strings(out)
	return out
}

func (c *Ctx) thoroughExtras(which map[string]bool) {
	// selftest: every variant recorded for this property must make the check fire
	res, err := RunSelftest(c.S.Property, c.P.Dir, c.verif, 8)
	if err != nil {
		c.S.Unknown("SELFTEST", "SELFTEST|load", "", "", err.Error())
		return
	}
	c.Extras["selftest"] = summarise(res)
	var lines []string
	for _, r := range res {
		lines = append(lines, r.Status+" "+r.Case.ID)
	}
	c.Extras["selftest_variants"] = lines
}

func renameStrings(rs []load.Rename) []string {
	out := []string{}
	for _, r := range rs {
		out = append(out, r.String())
	}
	return out
}
