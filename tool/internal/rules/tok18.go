package rules

import (
	"fmt"
	"go/types"
	"sort"

	"golang.org/x/tools/go/ssa"

	"mqttverif/internal/pathx"
)

// ---- TOK-18: a lock the rules do not know by name is still given back ----
//
// The token rules (TOK-1…TOK-17) know the semaphores and the mutex of the
// pinned tree by their roles. A change can bring a lock of its own — a
// package-level `chan struct{}` of capacity one around the spool files, a
// sync.Mutex in a new struct — and forget it on one exit: every later caller
// blocks for ever, whatever key or client it works for. Decided for every
// function of the module, on every path from its entry to a return:
//   - for each sync.Mutex / sync.RWMutex value that the path locks: the number
//     of Lock calls equals the number of Unlock calls (a deferred Unlock
//     counts where it runs), likewise RLock/RUnlock;
//   - for each channel with element type struct{} that is reached through a
//     package-level variable or a struct field and is not one of the tokens
//     the other rules track: a path that both sends to it and receives from
//     it does so equally often, and the function never does only one of the
//     two on a path while doing both on another.
// Functions whose summary is known to differ (none in the pinned tree) would
// be listed here by name with the reason.

func init() {
	register("TOK-18", []string{"TOK-18"}, func(c *Ctx, _ map[string]bool) { c.tok18() })
}

func isEmptyStructChan(v ssa.Value) bool {
	return v != nil && chanElemIsEmptyStruct(v.Type())
}

func (c *Ctx) tok18() {
	fns := append([]*ssa.Function{}, c.funcs...)
	fns = append(fns, c.testFuncs()...)
	n := 0
	for _, fn := range fns {
		if len(fn.Blocks) == 0 {
			continue
		}
		// locks the function touches at all
		touches := map[string]bool{}
		for _, b := range c.regionBlocks(fn) {
			for _, ins := range b.Instrs {
				switch x := ins.(type) {
				case ssa.CallInstruction:
					switch stdName(x.Common().StaticCallee()) {
					case "(*sync.Mutex).Lock", "(*sync.Mutex).Unlock", "(*sync.RWMutex).Lock", "(*sync.RWMutex).Unlock", "(*sync.RWMutex).RLock", "(*sync.RWMutex).RUnlock":
						touches["mutex"] = true
					}
				case *ssa.Send:
					if isEmptyStructChan(x.Chan) && tokenOf(x.Chan) == "" && roleKey(x.Chan) != "" {
						touches["chan:"+roleKey(x.Chan)] = true
					}
				}
			}
		}
		if len(touches) == 0 {
			continue
		}
		a := c.acc("TOK-18", fn, "locks-taken-are-given-back-on-every-exit")
		both := map[string]bool{} // channels some path both sends to and receives from
		type tally struct{ up, down int }
		var perPath []map[string]*tally
		var ends []*pathx.Path
		for _, p := range c.Paths("TOK-18", fn) {
			if p.End != pathx.KReturn || p.Start != fn.Blocks[0] {
				continue
			}
			t := map[string]*tally{}
			get := func(k string) *tally {
				if t[k] == nil {
					t[k] = &tally{}
				}
				return t[k]
			}
			for i := range p.Events {
				e := &p.Events[i]
				switch e.Kind {
				case pathx.KCall:
					if len(e.Args) == 0 {
						continue
					}
					key := "mutex:" + Expr(e.Args[0])
					if r := pathx.RoleOfAddr(e.Args[0]).Key(); r != "" {
						key = "mutex:" + r
					}
					switch stdName(e.Callee) {
					case "(*sync.Mutex).Lock", "(*sync.RWMutex).Lock":
						get(key).up++
					case "(*sync.Mutex).Unlock", "(*sync.RWMutex).Unlock":
						get(key).down++
					case "(*sync.RWMutex).RLock":
						get(key+"/r").up++
					case "(*sync.RWMutex).RUnlock":
						get(key+"/r").down++
					}
				case pathx.KSend:
					if isEmptyStructChan(e.Chan) && tokenOf(e.Chan) == "" && roleKey(e.Chan) != "" {
						get("chan:"+roleKey(e.Chan)).up++
					}
				case pathx.KRecv:
					if isEmptyStructChan(e.Chan) && tokenOf(e.Chan) == "" && roleKey(e.Chan) != "" {
						get("chan:"+roleKey(e.Chan)).down++
					}
				}
			}
			for k, v := range t {
				if v.up > 0 && v.down > 0 {
					both[k] = true
				}
			}
			perPath = append(perPath, t)
			ends = append(ends, p)
		}
		// a helper introduced later that takes (or gives back) a lock on all of its
		// paths alike is a wrapper: it is expanded in place where it is called, and
		// the balance is judged there
		if c.isNewHelper(fn) && len(perPath) > 0 {
			sig := func(t map[string]*tally) string {
				var ks []string
				for k, v := range t {
					if v.up != v.down {
						ks = append(ks, fmt.Sprintf("%s%+d", k, v.up-v.down))
					}
				}
				sort.Strings(ks)
				return fmt.Sprint(ks)
			}
			first, same := sig(perPath[0]), true
			for _, t := range perPath[1:] {
				if sig(t) != first {
					same = false
				}
			}
			if same && first != "[]" {
				a.pass()
				a.done(1, "a wrapper that leaves the lock in the same state on every path; judged at its callers")
				continue
			}
		}
		for i, t := range perPath {
			var bad []string
			for k, v := range t {
				isChan := len(k) > 5 && k[:5] == "chan:"
				if isChan && !both[k] {
					continue // only ever signalled or only ever awaited here: not used as a lock by this function
				}
				if v.up != v.down {
					bad = append(bad, fmt.Sprintf("%s (taken %d×, given back %d×)", k, v.up, v.down))
				}
			}
			n++
			if len(bad) == 0 {
				a.pass()
				continue
			}
			sort.Strings(bad)
			a.fail(ends[i], len(ends[i].Events)-1, "%s returns with %v: whoever comes next for that lock waits for ever", fn.Name(), bad)
		}
		a.done(1, "on every entry-to-return path Lock/Unlock and send/receive on a lock channel balance")
	}
	c.S.Floor("TOK-18", "return paths of functions that touch a mutex or a lock channel", n, 3)
}

func chanElemIsEmptyStruct(t types.Type) bool {
	ch, ok := t.Underlying().(*types.Chan)
	if !ok {
		return false
	}
	st, ok := ch.Elem().Underlying().(*types.Struct)
	return ok && st.NumFields() == 0
}
