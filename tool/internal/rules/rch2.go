package rules

import (
	"go/types"
	"strings"

	"golang.org/x/tools/go/ssa"

	"mqttverif/internal/pathx"
)

// ---- RCH-2: waiting for a pending connect ends when the attempt fails ----
//
// A failed connect attempt exchanges connPending for connDown in writeSem and
// signals nothing else: Online is released by a successful attempt only. A
// request that found connPending, put it back and now waits must therefore
// look at writeSem again by itself. In lockWrite every blocking select that
// does not itself receive from writeSem has an arm on a time channel (ticker,
// timer, time.After), and the loop goes back to the receive from writeSem
// behind it. Without it the request waits until some later attempt succeeds —
// for ever with a nil quit — instead of failing with ErrDown.

func init() {
	register("RCH-2", []string{"RCH-2"}, func(c *Ctx, _ map[string]bool) { c.rch2() })
}

func isTimeChan(v ssa.Value) bool {
	ch, ok := v.Type().Underlying().(*types.Chan)
	if !ok {
		return false
	}
	return strings.HasSuffix(ch.Elem().String(), "time.Time")
}

func (c *Ctx) rch2() {
	lw := c.Fn("RCH-2", "(*Client).lockWrite")
	if lw == nil {
		return
	}
	a := c.acc("RCH-2", lw, "wait-for-pending-connect-has-a-timed-wake-up")
	seen := map[*ssa.Select]bool{}
	for _, p := range c.Paths("RCH-2", lw) {
		for i := range p.Events {
			e := &p.Events[i]
			if e.Kind != pathx.KSelect || e.Select == nil || !e.Select.Blocking {
				continue
			}
			takesToken, timed, oneShot := false, false, false
			for _, st := range e.Select.States {
				if st.Dir != types.RecvOnly {
					continue
				}
				if tokenOf(st.Chan) == tkWrite {
					takesToken = true
				}
				if isTimeChan(st.Chan) {
					timed = true
					// the wake-up recurs: a ticker, or a timer that this very iteration
					// armed (time.After, NewTimer or Reset on the segment before the select)
					if u, ok := stripConv(st.Chan).(*ssa.UnOp); ok {
						if fa, ok := u.X.(*ssa.FieldAddr); ok && strings.Contains(fa.X.Type().String(), "time.Timer") {
							rearmed := false
							for j := 0; j < i; j++ {
								switch stdName(p.Events[j].Callee) {
								case "time.NewTimer", "(*time.Timer).Reset", "time.AfterFunc":
									if p.Events[j].Kind == pathx.KCall {
										rearmed = true
									}
								}
							}
							// … or re-armed behind its expiry, inside the same loop
							if !rearmed && e.Instr != nil {
								sb := e.Instr.Block()
								for _, b := range lw.Blocks {
									for _, ins := range b.Instrs {
										ci, isCall := ins.(ssa.CallInstruction)
										if !isCall || stdName(ci.Common().StaticCallee()) != "(*time.Timer).Reset" {
											continue
										}
										if blockReaches(sb, b) && blockReaches(b, sb) {
											rearmed = true
										}
									}
								}
							}
							if !rearmed {
								oneShot = true
							}
						}
					}
				}
			}
			if takesToken {
				continue // this select sees the outcome of the attempt directly
			}
			if oneShot {
				a.fail(p, i, "the timed arm of the wait for a pending connect is a timer that this iteration has not armed: after its single expiry the wait has no wake-up left, and a connect attempt that fails later (connPending replaced by connDown, nothing signalled) is never noticed — the request waits for a later success instead of returning ErrDown")
				continue
			}
			if seen[e.Select] {
				continue
			}
			seen[e.Select] = true
			if timed {
				a.pass()
			} else {
				a.fail(p, i, "lockWrite waits for the pending connect in a select that neither receives from writeSem nor has a timed arm: a failed attempt (connPending replaced by connDown, nothing signalled) is never noticed — Ping, Subscribe, Unsubscribe and Publish wait for a later success instead of returning ErrDown, for ever with a nil quit")
			}
		}
	}
	a.done(1, "the wait for a pending connect re-examines writeSem on a timer")
}

// blockReaches: there is a path of control-flow edges from a to b (a ≠ b, or a cycle through a).
func blockReaches(a, b *ssa.BasicBlock) bool {
	seen := map[*ssa.BasicBlock]bool{}
	var dfs func(x *ssa.BasicBlock) bool
	dfs = func(x *ssa.BasicBlock) bool {
		for _, s := range x.Succs {
			if s == b {
				return true
			}
			if !seen[s] {
				seen[s] = true
				if dfs(s) {
					return true
				}
			}
		}
		return false
	}
	return dfs(a)
}
