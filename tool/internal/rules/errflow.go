package rules

import (
	"go/constant"
	"go/token"
	"go/types"
	"sort"
	"strings"

	"golang.org/x/tools/go/ssa"

	"mqttverif/internal/load"
	"mqttverif/internal/pathx"
)

// E-ERR: which error classes can a value carry. A class is the name of a
// package level sentinel ("ErrClosed"), a concrete error type
// ("type:SubscribeError"), an error produced outside the package
// ("external:net.Conn.Write"), or "opaque:<where>" for a fresh error that
// wraps nothing.

type origin struct {
	Classes map[string]bool
	Site    string // file:line of the producing expression
	What    string
}

type errFlow struct {
	c      *Ctx
	memo   map[ssa.Value][]origin
	active map[ssa.Value]bool
	glob   map[*ssa.Global][]origin
	res    map[resKey][]origin
	// ctx: while the result of a callee that takes an error is evaluated for
	// one call site, its error parameters stand for the arguments of that
	// call (and not for the union over all call sites)
	ctx []map[*ssa.Parameter][]origin
}

func (c *Ctx) errflow() *errFlow {
	if c.errMemo == nil {
		c.errMemo = &errFlow{c: c, memo: map[ssa.Value][]origin{}, active: map[ssa.Value]bool{}, glob: map[*ssa.Global][]origin{}}
	}
	return c.errMemo
}

func classes(os []origin) map[string]bool {
	out := map[string]bool{}
	for _, o := range os {
		for k := range o.Classes {
			out[k] = true
		}
	}
	return out
}

func classList(m map[string]bool) string {
	var ks []string
	for k := range m {
		ks = append(ks, k)
	}
	sort.Strings(ks)
	return strings.Join(ks, ",")
}

func one(class, site, what string) []origin {
	return []origin{{Classes: map[string]bool{class: true}, Site: site, What: what}}
}

// mergeWrap builds the origins of a wrapping expression (fmt.Errorf %w,
// errors.Join). The alternatives of each operand stay apart: wrapping an
// error that is ErrDown or else a raw transport error gives two origins, one
// per alternative, and not one origin that is "both". Several operands
// combine as a cross product (bounded; beyond the bound the classes are
// pooled, which can only hide an alternative from the per-alternative rules
// and is reported in the origin's description).
func mergeWrap(site, what string, parts ...[]origin) []origin {
	alts := []map[string]bool{{}}
	pooled := false
	for _, p := range parts {
		if len(p) == 0 {
			continue
		}
		if len(alts)*len(p) > 256 {
			pooled = true
			cl := classes(p)
			for _, a := range alts {
				for k := range cl {
					a[k] = true
				}
			}
			continue
		}
		var next []map[string]bool
		for _, a := range alts {
			for _, o := range p {
				m := map[string]bool{}
				for k := range a {
					m[k] = true
				}
				for k := range o.Classes {
					m[k] = true
				}
				next = append(next, m)
			}
		}
		alts = next
	}
	if pooled {
		what += " (alternatives pooled)"
	}
	seen := map[string]bool{}
	var out []origin
	for _, a := range alts {
		k := classList(a)
		if seen[k] {
			continue
		}
		seen[k] = true
		out = append(out, origin{Classes: a, Site: site, What: what})
	}
	return out
}

// variadic returns the elements of a variadic argument built in place.
func variadic(arg ssa.Value) []ssa.Value {
	sl, ok := arg.(*ssa.Slice)
	if !ok {
		return nil
	}
	al, ok := sl.X.(*ssa.Alloc)
	if !ok {
		return nil
	}
	arr, ok := al.Type().Underlying().(*types.Pointer).Elem().Underlying().(*types.Array)
	if !ok {
		return nil
	}
	out := make([]ssa.Value, arr.Len())
	for _, r := range *al.Referrers() {
		ia, ok := r.(*ssa.IndexAddr)
		if !ok {
			continue
		}
		k, ok := intConst(ia.Index)
		if !ok || k < 0 || int(k) >= len(out) {
			continue
		}
		for _, rr := range *ia.Referrers() {
			if st, ok := rr.(*ssa.Store); ok && st.Addr == ia {
				out[k] = st.Val
			}
		}
	}
	return out
}

func unwrapIface(v ssa.Value) ssa.Value {
	for {
		switch x := v.(type) {
		case *ssa.MakeInterface:
			if _, ok := x.X.Type().Underlying().(*types.Interface); ok {
				v = x.X
				continue
			}
			return v
		case *ssa.ChangeInterface:
			v = x.X
			continue
		}
		return v
	}
}

// wVerbs lists the argument positions consumed by %w in a format string.
func wVerbs(format string) (w []int, total int) {
	arg := 0
	for i := 0; i < len(format); i++ {
		if format[i] != '%' {
			continue
		}
		i++
		for i < len(format) && strings.ContainsRune("+-# 0123456789.", rune(format[i])) {
			i++
		}
		if i >= len(format) {
			break
		}
		switch format[i] {
		case '%':
		case 'w':
			w = append(w, arg)
			arg++
		default:
			arg++
		}
	}
	return w, arg
}

func (ef *errFlow) of(v ssa.Value) []origin {
	if v == nil {
		return nil
	}
	if o, ok := ef.memo[v]; ok {
		return o
	}
	if ef.active[v] {
		return nil
	}
	ef.active[v] = true
	o := ef.compute(v)
	delete(ef.active, v)
	ef.memo[v] = o
	return o
}

func (ef *errFlow) compute(v ssa.Value) []origin {
	c := ef.c
	site := c.P.Pos(v.Pos())
	switch x := v.(type) {
	case *ssa.Const:
		return nil
	case *ssa.Phi:
		var out []origin
		for _, e := range x.Edges {
			out = append(out, ef.of(e)...)
		}
		return out
	case *ssa.ChangeInterface:
		return ef.of(x.X)
	case *ssa.ChangeType:
		return ef.of(x.X)
	case *ssa.TypeAssert:
		return ef.of(x.X)
	case *ssa.MakeInterface:
		if _, ok := x.X.Type().Underlying().(*types.Interface); ok {
			return ef.of(x.X)
		}
		tn := types.TypeString(x.X.Type(), func(p *types.Package) string { return "" })
		return one("type:"+strings.TrimPrefix(tn, "*"), site, "value of concrete error type "+tn)
	case *ssa.Extract:
		return ef.ofCall(x.Tuple, x.Index)
	case *ssa.Call:
		return ef.ofCall(x, 0)
	case *ssa.UnOp:
		switch x.Op {
		case token.MUL:
			switch a := x.X.(type) {
			case *ssa.Global:
				return ef.ofGlobal(a)
			case *ssa.Alloc:
				var out []origin
				for _, r := range *a.Referrers() {
					if st, ok := r.(*ssa.Store); ok && st.Addr == a {
						out = append(out, ef.of(st.Val)...)
					}
				}
				return out
			case *ssa.FreeVar:
				// captured variable: stores in the enclosing function(s)
				var out []origin
				fn := x.Parent()
				for i, fv := range fn.FreeVars {
					if fv != a {
						continue
					}
					for _, site := range closureSites(fn) {
						if i < len(site.Bindings) {
							if al, ok := site.Bindings[i].(*ssa.Alloc); ok {
								for _, r := range *al.Referrers() {
									if st, ok := r.(*ssa.Store); ok && st.Addr == al {
										out = append(out, ef.of(st.Val)...)
									}
								}
							}
						}
					}
				}
				return out
			}
			if k := roleKey(x); k != "" {
				return one("field:"+k, site, "value read from "+k)
			}
			return one("unknown:load", site, "load "+Expr(x))
		case token.ARROW:
			// received from a channel: everything that may be sent there
			var out []origin
			g := c.alias()
			for _, s := range g.sendsTo(x.X) {
				for _, o := range ef.of(s.Val) {
					oo := o
					oo.What = o.What + " sent at " + c.P.Pos(s.Instr.Pos())
					out = append(out, oo)
				}
			}
			return out
		}
	case *ssa.Parameter:
		if n := len(ef.ctx); n > 0 {
			if o, ok := ef.ctx[n-1][x]; ok {
				return o
			}
		}
		// union over the package's own call sites
		var out []origin
		fn := x.Parent()
		idx := -1
		for i, p := range fn.Params {
			if p == x {
				idx = i
			}
		}
		n := 0
		for _, f := range c.funcs {
			for _, b := range f.Blocks {
				for _, ins := range b.Instrs {
					if call, ok := ins.(ssa.CallInstruction); ok && call.Common().StaticCallee() == fn && idx >= 0 && idx < len(call.Common().Args) {
						out = append(out, ef.of(call.Common().Args[idx])...)
						n++
					}
				}
			}
		}
		if n == 0 || isExported(fn) {
			out = append(out, one("param:"+x.Name(), site, "caller supplied error")...)
		}
		return out
	}
	return one("unknown:"+v.Name(), site, Expr(v))
}

func closureSites(fn *ssa.Function) []*ssa.MakeClosure {
	var out []*ssa.MakeClosure
	if fn.Parent() == nil {
		return nil
	}
	for _, b := range fn.Parent().Blocks {
		for _, ins := range b.Instrs {
			if mc, ok := ins.(*ssa.MakeClosure); ok && mc.Fn == fn {
				out = append(out, mc)
			}
		}
	}
	return out
}

func (ef *errFlow) ofGlobal(g *ssa.Global) []origin {
	if o, ok := ef.glob[g]; ok {
		return o
	}
	c := ef.c
	ef.glob[g] = nil
	var out []origin
	// initial value: stores in the package initialiser
	if g.Pkg != nil {
		if init := g.Pkg.Func("init"); init != nil {
			for _, b := range init.Blocks {
				for _, ins := range b.Instrs {
					if st, ok := ins.(*ssa.Store); ok && st.Addr == g {
						for _, o := range ef.of(st.Val) {
							cl := map[string]bool{g.Name(): true}
							for k := range o.Classes {
								if !strings.HasPrefix(k, "opaque:") {
									cl[k] = true
								}
							}
							out = append(out, origin{Classes: cl, Site: c.P.Pos(g.Pos()), What: "sentinel " + g.Name()})
						}
					}
				}
			}
		}
	}
	if len(out) == 0 {
		out = one(g.Name(), c.P.Pos(g.Pos()), "sentinel "+g.Name())
		if g.Pkg != nil && g.Pkg != c.P.Root {
			out = one(g.Pkg.Pkg.Name()+"."+g.Name(), "", "sentinel "+g.Pkg.Pkg.Name()+"."+g.Name())
		}
	}
	ef.glob[g] = out
	return out
}

func (ef *errFlow) ofCall(v ssa.Value, idx int) []origin {
	c := ef.c
	call, ok := v.(*ssa.Call)
	if !ok {
		if sel, ok := v.(*ssa.Select); ok {
			// value received in a select arm
			ri := idx - 2
			k := 0
			var out []origin
			for _, st := range sel.States {
				if st.Dir == types.SendOnly {
					continue
				}
				if k == ri {
					for _, s := range c.alias().sendsTo(st.Chan) {
						for _, o := range ef.of(s.Val) {
							oo := o
							oo.What = o.What + " sent at " + c.P.Pos(s.Instr.Pos())
							out = append(out, oo)
						}
					}
				}
				k++
			}
			return out
		}
		if u, ok := v.(*ssa.UnOp); ok && u.Op == token.ARROW && idx == 0 {
			var out []origin
			for _, s := range c.alias().sendsTo(u.X) {
				out = append(out, ef.of(s.Val)...)
			}
			return out
		}
		return one("unknown:tuple", c.P.Pos(v.Pos()), Expr(v))
	}
	site := c.P.Pos(call.Pos())
	cc := &call.Call
	if cc.IsInvoke() {
		return one("external:"+recvTypeName(cc.Method)+"."+cc.Method.Name(), site, "result of "+recvTypeName(cc.Method)+"."+cc.Method.Name())
	}
	callee := cc.StaticCallee()
	if callee == nil {
		if mc, ok := cc.Value.(*ssa.MakeClosure); ok {
			callee, _ = mc.Fn.(*ssa.Function)
		}
	}
	if callee == nil {
		return one("external:dynamic("+Expr(cc.Value)+")", site, "result of a dynamic call")
	}
	switch stdName(callee) {
	case "errors.New":
		return one("opaque:errors.New", site, "errors.New("+Expr(cc.Args[0])+")")
	case "fmt.Errorf":
		format := ""
		if k, ok := cc.Args[0].(*ssa.Const); ok && k.Value != nil && k.Value.Kind() == constant.String {
			format = constant.StringVal(k.Value)
		}
		var parts [][]origin
		if len(cc.Args) == 2 {
			va := variadic(cc.Args[1])
			ws, _ := wVerbs(format)
			for _, w := range ws {
				if w < len(va) && va[w] != nil {
					parts = append(parts, ef.of(unwrapIface(va[w])))
				}
			}
		}
		if len(parts) == 0 {
			return one("opaque:Errorf", site, "fmt.Errorf("+strconvQuote(format)+") wraps nothing")
		}
		return mergeWrap(site, "fmt.Errorf("+strconvQuote(format)+")", parts...)
	case "errors.Join":
		var parts [][]origin
		if len(cc.Args) == 1 {
			for _, a := range variadic(cc.Args[0]) {
				if a != nil {
					parts = append(parts, ef.of(unwrapIface(a)))
				}
			}
		}
		return mergeWrap(site, "errors.Join", parts...)
	}
	if len(callee.Blocks) == 0 || load.TopLevel(callee).Pkg != c.P.Root {
		return one("external:"+stdName(callee), site, "result of "+stdName(callee))
	}
	// a callee that is handed an error: judged for this call's arguments
	if len(ef.ctx) < 3 {
		bind := map[*ssa.Parameter][]origin{}
		for i, pr := range callee.Params {
			if i < len(cc.Args) && types.Identical(pr.Type(), types.Universe.Lookup("error").Type()) {
				bind[pr] = ef.of(cc.Args[i])
			}
		}
		if len(bind) > 0 {
			memo, active, res := ef.memo, ef.active, ef.res
			ef.memo, ef.active, ef.res = map[ssa.Value][]origin{}, map[ssa.Value]bool{}, nil
			ef.ctx = append(ef.ctx, bind)
			out := ef.resultOrigins(callee, idx)
			ef.ctx = ef.ctx[:len(ef.ctx)-1]
			ef.memo, ef.active, ef.res = memo, active, res
			return out
		}
	}
	return ef.resultOrigins(callee, idx)
}

// resultOrigins unions the origins of result idx over every return of fn,
// with the returned value resolved along each path (so that named results
// spilled because of a defer are seen through).
func (ef *errFlow) resultOrigins(fn *ssa.Function, idx int) []origin {
	key := resKey{fn, idx}
	if o, ok := ef.res[key]; ok {
		return o
	}
	if ef.res == nil {
		ef.res = map[resKey][]origin{}
	}
	ef.res[key] = nil
	seen := map[ssa.Value]bool{}
	var out []origin
	for _, p := range ef.c.Paths("ERR-1", fn) {
		if p.End != pathx.KReturn {
			continue
		}
		e := &p.Events[len(p.Events)-1]
		if idx >= len(e.Results) || seen[e.Results[idx]] {
			continue
		}
		// (a named result returned by a bare return: on a path that knows the
		// value to be nil no error leaves through it)
		if idx == len(e.Results)-1 && retErr(p, len(p.Events)-1) == triNil {
			continue
		}
		// (a result built by a helper expanded in place on this path is
		// judged with that helper's error parameters bound as on this path)
		if _, hasBinds := firstErrBind(p); hasBinds {
			out = append(out, ef.ofOn(p, e.Results[idx])...)
			continue
		}
		seen[e.Results[idx]] = true
		out = append(out, ef.of(e.Results[idx])...)
	}
	ef.res[key] = out
	return out
}

type resKey struct {
	fn  *ssa.Function
	idx int
}

func strconvQuote(s string) string {
	if len(s) > 48 {
		s = s[:48] + "…"
	}
	return "\"" + s + "\""
}

// errResultIndex gives the index of the error result of fn, or -1.
func errResultIndex(fn *ssa.Function) int {
	res := fn.Signature.Results()
	for i := res.Len() - 1; i >= 0; i-- {
		if types.Identical(res.At(i).Type(), types.Universe.Lookup("error").Type()) {
			return i
		}
	}
	return -1
}

// returnOrigins lists all origins of the error result of fn.
func (ef *errFlow) returnOrigins(fn *ssa.Function) []origin {
	idx := errResultIndex(fn)
	if idx < 0 {
		return nil
	}
	return ef.resultOrigins(fn, idx)
}

// ofOn evaluates v as it is on path p: the error parameters of the helpers
// expanded in place on p stand for the arguments they were called with.
func (ef *errFlow) ofOn(p *pathx.Path, v ssa.Value) []origin {
	bind := map[*ssa.Parameter][]origin{}
	for k, arg := range pathBindings(p) {
		if pr, ok := k.(*ssa.Parameter); ok && types.Identical(pr.Type(), types.Universe.Lookup("error").Type()) {
			bind[pr] = ef.of(arg)
		}
	}
	if len(bind) == 0 {
		return ef.of(v)
	}
	memo, active, res := ef.memo, ef.active, ef.res
	ef.memo, ef.active, ef.res = map[ssa.Value][]origin{}, map[ssa.Value]bool{}, nil
	ef.ctx = append(ef.ctx, bind)
	out := ef.of(v)
	ef.ctx = ef.ctx[:len(ef.ctx)-1]
	ef.memo, ef.active, ef.res = memo, active, res
	return out
}

// firstErrBind reports whether an error-typed parameter of an expanded helper
// is bound on p.
func firstErrBind(p *pathx.Path) (*ssa.Parameter, bool) {
	for k := range pathBindings(p) {
		if pr, ok := k.(*ssa.Parameter); ok && types.Identical(pr.Type(), types.Universe.Lookup("error").Type()) {
			return pr, true
		}
	}
	return nil, false
}
