package rules

import (
	"fmt"
	"go/token"
	"go/types"
	"sort"
	"strings"

	"golang.org/x/tools/go/ssa"

	"mqttverif/internal/load"
	"mqttverif/internal/pathx"
)

func init() {
	register("ERR-1", []string{"ERR-1"}, func(c *Ctx, _ map[string]bool) { c.err1() })
	register("ERR-2", []string{"ERR-2"}, func(c *Ctx, _ map[string]bool) { c.err2() })
	register("ERR-3", []string{"ERR-3"}, func(c *Ctx, _ map[string]bool) { c.err3() })
	register("ERR-4", []string{"ERR-4"}, func(c *Ctx, _ map[string]bool) { c.err4() })
	register("ERR-5", []string{"ERR-5"}, func(c *Ctx, _ map[string]bool) { c.err5() })
	register("ERR-6", []string{"ERR-6"}, func(c *Ctx, _ map[string]bool) { c.err6() })
}

// sliceLiteralGlobals reads a package level []error literal from the
// package initialiser and returns the names of the sentinels in it.
func (c *Ctx) sliceLiteralGlobals(name string) ([]string, bool) {
	g, ok := c.P.Root.Members[name].(*ssa.Global)
	if !ok {
		return nil, false
	}
	init := c.P.Root.Func("init")
	for _, b := range init.Blocks {
		for _, ins := range b.Instrs {
			st, ok := ins.(*ssa.Store)
			if !ok || st.Addr != g {
				continue
			}
			sl, ok := st.Val.(*ssa.Slice)
			if !ok {
				return nil, false
			}
			al, ok := sl.X.(*ssa.Alloc)
			if !ok {
				return nil, false
			}
			var out []string
			for _, r := range *al.Referrers() {
				ia, ok := r.(*ssa.IndexAddr)
				if !ok {
					continue
				}
				for _, rr := range *ia.Referrers() {
					if s2, ok := rr.(*ssa.Store); ok && s2.Addr == ia {
						if u, ok := s2.Val.(*ssa.UnOp); ok {
							if gg, ok := u.X.(*ssa.Global); ok {
								out = append(out, gg.Name())
							}
						}
					}
				}
			}
			sort.Strings(out)
			return out, true
		}
	}
	return nil, false
}

func (c *Ctx) denyEnd() (deny, end map[string]bool) {
	deny, end = map[string]bool{}, map[string]bool{}
	d, ok1 := c.sliceLiteralGlobals("denyErrs")
	e, ok2 := c.sliceLiteralGlobals("endErrs")
	if !ok1 || !ok2 {
		c.S.Unknown("ERR-4", "ERR-4|anchor|denyErrs/endErrs", "", "", "the denyErrs/endErrs slice literals were not recognised in the package initialiser")
	}
	for _, n := range d {
		deny[n] = true
	}
	for _, n := range e {
		end[n] = true
	}
	return
}

// ---- ERR-1: documented classes per method ----

func (c *Ctx) err1() {
	ef := c.errflow()
	deny, _ := c.denyEnd()
	with := func(base []string, denyToo bool) map[string]bool {
		m := set(base...)
		if denyToo {
			for d := range deny {
				m[d] = true
			}
		}
		return m
	}
	publish := with([]string{"ErrClosed", "ErrDown", "ErrCanceled", "ErrSubmit"}, true)
	disconnect := with([]string{"ErrClosed", "ErrDown", "ErrCanceled", "ErrSubmit"}, false)
	subscribe := with([]string{"ErrClosed", "ErrDown", "ErrMax", "ErrCanceled", "type:SubscribeError", "ErrSubmit", "ErrBreak", "ErrAbandoned"}, true)
	ping := with([]string{"ErrClosed", "ErrDown", "ErrMax", "ErrCanceled", "ErrSubmit", "ErrBreak", "ErrAbandoned"}, false)
	persisted := with([]string{"ErrClosed", "ErrMax", "external:Persistence.Save"}, true)
	table := []struct {
		name    string
		allowed map[string]bool
		doc     string
	}{
		{"(*Client).Publish", publish, "mqtt.go: ErrClosed, ErrDown, ErrCanceled, IsDeny, else ErrSubmit"},
		{"(*Client).PublishRetained", publish, "as Publish"},
		{"(*Client).Disconnect", disconnect, "mqtt.go: similar to Publish, yet it won't IsDeny"},
		{"(*Client).Subscribe", subscribe, "mqtt.go: ErrClosed, ErrDown, ErrMax, ErrCanceled, IsDeny, SubscribeError, else ErrSubmit, ErrBreak or ErrAbandoned"},
		{"(*Client).SubscribeLimitAtMostOnce", subscribe, "as Subscribe"},
		{"(*Client).SubscribeLimitAtLeastOnce", subscribe, "as Subscribe"},
		{"(*Client).Unsubscribe", subscribe, "as Subscribe"},
		{"(*Client).Ping", ping, "mqtt.go: similar to Subscribe, yet it won't IsDeny"},
		{"(*Client).PublishAtLeastOnce", persisted, "mqtt.go: ErrClosed, ErrMax, IsDeny, or any Save return"},
		{"(*Client).PublishAtLeastOnceRetained", persisted, "as PublishAtLeastOnce"},
		{"(*Client).PublishExactlyOnce", persisted, "as PublishAtLeastOnce"},
		{"(*Client).PublishExactlyOnceRetained", persisted, "as PublishAtLeastOnce"},
	}
	n := 0
	only := map[string]bool{}
	if c.S.Property == "C11" {
		// C11 speaks about Subscribe, Unsubscribe and Ping only
		only = set("(*Client).Subscribe", "(*Client).SubscribeLimitAtMostOnce", "(*Client).SubscribeLimitAtLeastOnce", "(*Client).Unsubscribe", "(*Client).Ping")
	}
	if c.S.Property == "C17" {
		// C17 speaks about the methods that can refuse with ErrMax
		only = set("(*Client).Subscribe", "(*Client).SubscribeLimitAtMostOnce", "(*Client).SubscribeLimitAtLeastOnce", "(*Client).Unsubscribe", "(*Client).Ping",
			"(*Client).PublishAtLeastOnce", "(*Client).PublishAtLeastOnceRetained", "(*Client).PublishExactlyOnce", "(*Client).PublishExactlyOnceRetained")
	}
	for _, t := range table {
		if len(only) > 0 && !only[t.name] {
			continue
		}
		fn := c.Fn("ERR-1", t.name)
		if fn == nil {
			continue
		}
		os := ef.returnOrigins(fn)
		// one obligation per producing expression; every alternative that
		// expression can carry must be of a documented class
		var keys []string
		byKey := map[string][]origin{}
		for _, o := range os {
			what := o.What
			if i := strings.Index(what, " sent at "); i >= 0 {
				what = what[:i] + " (via callback)"
			}
			key := "ERR-1|" + t.name + "|" + what
			if _, ok := byKey[key]; !ok {
				keys = append(keys, key)
			}
			byKey[key] = append(byKey[key], o)
		}
		for _, key := range keys {
			var bad *origin
			all := map[string]bool{}
			alts := map[string]bool{}
			for i := range byKey[key] {
				o := &byKey[key][i]
				alts[classList(o.Classes)] = true
				ok := false
				for cl := range o.Classes {
					all[cl] = true
					if t.allowed[cl] {
						ok = true
					}
				}
				if !ok && bad == nil {
					bad = o
				}
			}
			n += len(alts) // (one producing expression that serves several causes counts once per cause)
			o := byKey[key][0]
			if bad == nil {
				c.S.OK("ERR-1", key, o.Site, t.name, fmt.Sprintf("each of its %d alternative(s) has a documented class; classes seen {%s}", len(alts), classList(all)), true)
			} else {
				c.S.Bad("ERR-1", key, bad.Site, t.name, fmt.Sprintf("an error with classes {%s} can be returned; the documentation (%s) lists none of them", classList(bad.Classes), t.doc), nil)
			}
		}
	}
	if len(only) > 0 {
		c.S.Floor("ERR-1", "error origins of request methods", n, 30)
	} else {
		c.S.Floor("ERR-1", "error origins of request methods", n, 60)
	}

	// what may be sent on an exchange channel, and on callback channels
	g := c.alias()
	exch := set("ErrDown", "ErrSubmit", "ErrClosed")
	notSubmitted := set("ErrClosed", "ErrDown", "ErrMax", "ErrCanceled")
	for d := range deny {
		notSubmitted[d] = true
	}
	ns, nc := 0, 0
	for _, s := range g.sends {
		if load.TopLevel(s.Fn).Pkg != c.P.Root {
			continue
		}
		cls := c.chanClass(g, s.Chan)
		switch cls {
		case "exchange":
			// (a send inside a helper introduced later stands for one send per call of the helper)
			w := 1
			if c.isNewHelper(s.Fn) {
				if k := len(c.callers()[s.Fn]); k > 1 {
					w = k
				}
			}
			if len(only) > 0 {
				ns += w
				continue
			}
			ns += w
			cl := classes(ef.of(s.Val))
			key := "ERR-1|exchange-send|in(" + load.FuncName(s.Fn) + ")|" + classList(cl)
			ok := false
			for k := range cl {
				if exch[k] {
					ok = true
				}
			}
			if ok {
				c.S.OK("ERR-1", key, c.P.Pos(s.Instr.Pos()), load.FuncName(s.Fn), "exchange channel receives a documented class", true)
			} else {
				c.S.Bad("ERR-1", key, c.P.Pos(s.Instr.Pos()), load.FuncName(s.Fn), "an exchange channel is sent {"+classList(cl)+"}, none of ErrDown, ErrSubmit, ErrClosed", nil)
			}
		case "callback":
			nc++
			cl := classes(ef.of(s.Val))
			key := "ERR-1|callback-send|in(" + load.FuncName(s.Fn) + ")|" + classList(cl)
			bad := ""
			good := false
			for k := range cl {
				if notSubmitted[k] {
					bad = k
				}
				if k == "ErrBreak" || k == "type:SubscribeError" {
					good = true
				}
			}
			switch {
			case bad != "":
				c.S.Bad("ERR-1", key, c.P.Pos(s.Instr.Pos()), load.FuncName(s.Fn), "a request that is already awaiting its response is answered with "+bad+", a class documented as 'nothing was submitted'", nil)
			case !good:
				c.S.Bad("ERR-1", key, c.P.Pos(s.Instr.Pos()), load.FuncName(s.Fn), "a waiting request is answered with {"+classList(cl)+"}, want ErrBreak or SubscribeError", nil)
			default:
				c.S.OK("ERR-1", key, c.P.Pos(s.Instr.Pos()), load.FuncName(s.Fn), "waiting request answered with ErrBreak/SubscribeError", true)
			}
		}
	}
	c.S.Floor("ERR-1", "sends on exchange channels", ns, 4)
	c.S.Floor("ERR-1", "sends on callback channels", nc, 5)
}

// derivesFrom reports whether value r is built from v (through Errorf/Join
// arguments, phis, conversions).
func derivesFrom(r, v ssa.Value, depth int) bool { return derivesFromB(r, v, nil, depth) }

// derivesFromB: binds maps the values of helpers expanded in place on the path
// (parameters, calls) to what they stand for in the caller.
func derivesFromB(r, v ssa.Value, binds map[ssa.Value]ssa.Value, depth int) bool {
	if r == nil || v == nil || depth > 12 {
		return false
	}
	if r == v {
		return true
	}
	if b, ok := binds[r]; ok && b != r && derivesFromB(b, v, binds, depth+1) {
		return true
	}
	switch x := r.(type) {
	case *ssa.Phi:
		for _, e := range x.Edges {
			if derivesFromB(e, v, binds, depth+1) {
				return true
			}
		}
	case *ssa.MakeInterface:
		return derivesFromB(x.X, v, binds, depth+1)
	case *ssa.ChangeInterface:
		return derivesFromB(x.X, v, binds, depth+1)
	case *ssa.Call:
		if f := x.Call.StaticCallee(); f != nil {
			switch stdName(f) {
			case "fmt.Errorf", "errors.Join":
				for _, a := range x.Call.Args {
					for _, el := range variadic(a) {
						if el != nil && derivesFromB(unwrapIface(el), v, binds, depth+1) {
							return true
						}
					}
				}
			}
		}
	case *ssa.Extract:
		if ve, ok := v.(*ssa.Extract); ok {
			return x.Tuple == ve.Tuple && x.Index == ve.Index
		}
	}
	return false
}

// ---- ERR-2: not-submitted classes imply nothing was written ----

func (c *Ctx) err2() {
	ef := c.errflow()
	wire := c.wireCapable()
	deny, _ := c.denyEnd()
	notSub := set("ErrClosed", "ErrDown", "ErrMax", "ErrCanceled")
	for d := range deny {
		notSub[d] = true
	}
	limbo := set("ErrSubmit", "ErrBreak", "ErrAbandoned")
	names := []string{"(*Client).lockWrite", "(*Client).write", "(*Client).writeNoWait", "(*Client).writeBuffers", "(*Client).writeBuffersNoWait",
		"(*Client).Ping", "(*Client).subscribeLevel", "(*Client).Unsubscribe", "(*Client).publish", "(*Client).Disconnect", "(*Client).submitPersisted", "(*Client).applySeqNoAndEnqueue"}
	n := 0
	for _, name := range names {
		fn := c.Fn("ERR-2", name)
		if fn == nil {
			continue
		}
		a := c.acc("ERR-2", fn, "not-submitted-class⇒no-wire-call-on-the-path")
		for _, p := range c.Paths("ERR-2", fn) {
			if p.End != pathx.KReturn {
				continue
			}
			last := len(p.Events) - 1
			if retErr(p, last) == triNil {
				continue
			}
			r := p.Events[last].Results[len(p.Events[last].Results)-1]
			cl := classes(ef.ofOn(p, r))
			isNS, isLimbo := "", false
			for k := range cl {
				if notSub[k] {
					isNS = k
				}
				if limbo[k] {
					isLimbo = true
				}
			}
			if isNS == "" || isLimbo {
				continue
			}
			n++
			bad := -1
			for i := range p.Events {
				e := &p.Events[i]
				if e.Kind != pathx.KCall || e.Callee == nil || !wire[e.Callee] {
					continue
				}
				// the call that produced this very error is fine: its own
				// summary is checked where it is defined
				if er := pathx.ErrResult(e.Result); er != nil && derivesFrom(r, er, 0) {
					continue
				}
				// a wire call whose nil result merely precedes an unrelated
				// not-submitted error is the violation
				bad = i
			}
			if bad >= 0 {
				a.fail(p, bad, "returns an error of class %s (documented: nothing was submitted) on a path that already called %s", isNS, load.FuncName(p.Events[bad].Callee))
			} else {
				a.pass()
			}
		}
		a.done(0, "no such return lies behind a wire-capable call other than the one that produced it")
	}
	c.S.Floor("ERR-2", "not-submitted error returns examined", n, 15)
}

// ---- ERR-3: quit leads to ErrCanceled before, ErrAbandoned after submission ----

func (c *Ctx) err3() {
	ef := c.errflow()
	wire := c.wireCapable()
	n := 0
	for _, name := range []string{"(*Client).lockWrite", "(*Client).Ping", "(*Client).subscribeLevel", "(*Client).Unsubscribe", "(*Client).Disconnect"} {
		fn := c.Fn("ERR-3", name)
		if fn == nil {
			continue
		}
		a := c.acc("ERR-3", fn, "quit-arm⇒ErrCanceled-before/ErrAbandoned-after-submission")
		for _, p := range c.Paths("ERR-3", fn) {
			if p.End != pathx.KReturn {
				continue
			}
			last := len(p.Events) - 1
			iq := -1
			for i := range p.Events {
				e := &p.Events[i]
				if e.Kind == pathx.KRecv && e.InSelect {
					if pr, ok := e.Chan.(*ssa.Parameter); ok && pr.Type().String() == "<-chan struct{}" {
						iq = i
					}
				}
			}
			if iq < 0 {
				continue
			}
			n++
			res := p.Events[last].Results
			r := res[len(res)-1]
			// value handed over by the responder counts as the response itself
			if isRecvValue(r) {
				a.pass()
				continue
			}
			submitted := false
			for i := 0; i < iq; i++ {
				e := &p.Events[i]
				if e.Kind == pathx.KCall && e.Callee != nil && wire[e.Callee] {
					if nl, k := nilResult(p, i, iq); nl && k {
						submitted = true
					}
				}
			}
			cl := classes(ef.ofOn(p, r))
			want := "ErrCanceled"
			if submitted {
				want = "ErrAbandoned"
			}
			if len(cl) == 1 && cl[want] {
				a.pass()
			} else {
				a.fail(p, last, "the quit arm returns {%s}; want exactly %s (%s submission)", classList(cl), want, map[bool]string{true: "after", false: "before"}[submitted])
			}
		}
		a.done(1, "every quit arm returns ErrCanceled before and ErrAbandoned after the request's wire call")
	}
	c.S.Floor("ERR-3", "quit arms examined", n, 6)
}

func isRecvValue(v ssa.Value) bool {
	switch x := v.(type) {
	case *ssa.UnOp:
		return x.Op == token.ARROW
	case *ssa.Extract:
		if u, ok := x.Tuple.(*ssa.UnOp); ok && u.Op == token.ARROW {
			return true
		}
		if _, ok := x.Tuple.(*ssa.Select); ok && x.Index >= 2 {
			return true
		}
	}
	return false
}

// ---- ERR-4: deny / end tables ----

func (c *Ctx) err4() {
	c.err4Walk()
	ef := c.errflow()
	deny, end := c.denyEnd()
	both, _ := c.sliceLiteralOrAppend("denyAndEndErrs")
	for d := range deny {
		key := "ERR-4|deny∩end|" + d
		if end[d] {
			c.S.Bad("ERR-4", key, "", "", d+" is both a deny and an end error: IsDeny and IsEnd overlap", nil)
		} else {
			c.S.OK("ERR-4", key, "", "", "not an end error", true)
		}
	}
	c.S.Floor("ERR-4", "deny sentinels", len(deny), 7)
	c.S.Floor("ERR-4", "end sentinels", len(end), 3)
	if both != nil {
		okU := true
		for d := range deny {
			if !both[d] {
				okU = false
			}
		}
		for e := range end {
			if !both[e] {
				okU = false
			}
		}
		if okU {
			c.S.OK("ERR-4", "ERR-4|denyAndEndErrs=deny∪end", "", "", "Backoff's table is built from both lists", true)
		} else {
			c.S.Bad("ERR-4", "ERR-4|denyAndEndErrs=deny∪end", "", "", "denyAndEndErrs is not built from denyErrs and endErrs", nil)
		}
	}
	// every sentinel a validator can return is a deny error
	for _, name := range []string{"stringCheck", "topicCheck"} {
		fn := c.Fn("ERR-4", name)
		if fn == nil {
			continue
		}
		for cl := range classes(ef.returnOrigins(fn)) {
			key := "ERR-4|" + name + "|returns(" + cl + ")"
			if deny[cl] {
				c.S.OK("ERR-4", key, "", name, "validator sentinel is listed in denyErrs", true)
			} else {
				c.S.Bad("ERR-4", key, "", name, "validator returns "+cl+", which is not in denyErrs: IsDeny is false for a rejected argument", nil)
			}
		}
	}
	// deny-time returns of the request methods: before any side effect the only
	// errors are deny errors (and none carries an end class)
	for _, name := range []string{"(*Client).subscribeLevel", "(*Client).Unsubscribe", "publishPacket", "initSession", "(*Config).valid"} {
		fn := c.Fn("ERR-4", name)
		if fn == nil {
			continue
		}
		for _, o := range ef.returnOrigins(fn) {
			hasD, hasE := "", ""
			for k := range o.Classes {
				if deny[k] {
					hasD = k
				}
				if end[k] {
					hasE = k
				}
			}
			if hasD != "" && hasE != "" {
				c.S.Bad("ERR-4", "ERR-4|"+name+"|"+o.What, o.Site, name, "one error carries both "+hasD+" and "+hasE, nil)
			}
		}
	}
	// the pure validators refuse with a deny error and nothing else: whatever
	// they return non-nil answers to IsDeny (Backoff gives nil for it; any
	// other class sends the caller into a retry loop for a permanent refusal)
	for _, name := range []string{"publishPacket", "stringCheck", "topicCheck"} {
		fn := c.Fn("ERR-4", name)
		if fn == nil {
			continue
		}
		a := c.acc("ERR-4", fn, "every-refusal-is-a-deny-error")
		for _, o := range ef.returnOrigins(fn) {
			if len(o.Classes) == 0 {
				continue // nil
			}
			isDeny, others := false, []string{}
			for k := range o.Classes {
				if deny[k] {
					isDeny = true
				} else if k != "nil" {
					others = append(others, k)
				}
			}
			sort.Strings(others)
			switch {
			case isDeny && len(others) == 0:
				a.pass()
			case isDeny:
				a.failAt(o.Site, "%s refuses with %s, which also carries %v", name, o.What, others)
			default:
				a.failAt(o.Site, "%s refuses with %s (classes %v), which is no member of denyErrs: IsDeny is false for a permanent refusal — the sentinel formatted with %%v instead of %%w, or the wrong one of two siblings", name, o.What, others)
			}
		}
		a.done(1, "every error origin wraps a member of denyErrs and nothing else")
	}
	// the size test uses errPacketMax, the string tests errStringMax
	for _, nm := range []string{"errPacketMax", "errStringMax", "errUTF8", "errNull", "errZero", "errSubscribeNone", "errUnsubscribeNone"} {
		key := "ERR-4|listed|" + nm
		if deny[nm] {
			c.S.OK("ERR-4", key, "", "", "in denyErrs", false)
		} else {
			c.S.Bad("ERR-4", key, "", "", nm+" is missing from denyErrs", nil)
		}
	}
}

// sliceLiteralOrAppend understands append(append(make(...), a...), b...).
func (c *Ctx) sliceLiteralOrAppend(name string) (map[string]bool, bool) {
	g, ok := c.P.Root.Members[name].(*ssa.Global)
	if !ok {
		return nil, false
	}
	init := c.P.Root.Func("init")
	out := map[string]bool{}
	var walk func(v ssa.Value, d int)
	walk = func(v ssa.Value, d int) {
		if d > 6 {
			return
		}
		switch x := v.(type) {
		case *ssa.Call:
			if b, ok := x.Call.Value.(*ssa.Builtin); ok && b.Name() == "append" {
				for _, a := range x.Call.Args {
					walk(a, d+1)
				}
			}
		case *ssa.UnOp:
			if gg, ok := x.X.(*ssa.Global); ok {
				if names, ok := c.sliceLiteralGlobals(gg.Name()); ok {
					for _, n := range names {
						out[n] = true
					}
				}
			}
		}
	}
	for _, b := range init.Blocks {
		for _, ins := range b.Instrs {
			if st, ok := ins.(*ssa.Store); ok && st.Addr == g {
				walk(st.Val, 0)
			}
		}
	}
	return out, len(out) > 0
}

// ---- ERR-5: Backoff / ReadBackoff ----

func (c *Ctx) err5() {
	c.err5Defaults()
	bo := c.Fn("ERR-5", "(*Client).Backoff")
	rb := c.Fn("ERR-5", "(*Client).ReadBackoff")
	if bo != nil {
		a := c.acc("ERR-5", bo, "nil-channel-only-for-nil,deny,end,SubscribeError")
		b := c.acc("ERR-5", bo, "other-errors⇒non-nil-channel")
		for _, p := range c.Paths("ERR-5", bo) {
			if p.End != pathx.KReturn {
				continue
			}
			last := len(p.Events) - 1
			r := p.Events[last].Results[0]
			if !pathx.IsNilConst(r) {
				if p.Start != bo.Blocks[0] {
					continue // loop segments carry no facts from before the loop
				}
				// a channel: the permanent classes must have been excluded first
				excl := false
				for i := range p.Events {
					e := &p.Events[i]
					if e.Kind == pathx.KCall && e.Callee != nil && e.Callee.Name() == "nonNilIsAny" && len(e.Args) == 2 && isSentinel(e.Args[1], "denyAndEndErrs") {
						if rel, _, k := p.Known(e.Result, i, -1); k && rel == pathx.RFalse {
							excl = true
						}
					}
				}
				if excl {
					b.pass()
				} else {
					b.fail(p, last, "Backoff returns a retry channel on a path that has not excluded the deny and end classes")
				}
				continue
			}
			ok := false
			for i := range p.Events {
				e := &p.Events[i]
				if e.Kind == pathx.KAssume {
					for _, at := range e.Atoms {
						if pr, isP := at.V.(*ssa.Parameter); isP && pr.Type().String() == "error" && at.Rel == pathx.RNil {
							ok = true
						}
					}
				}
				if e.Kind == pathx.KCall && e.Callee != nil {
					switch {
					case e.Callee.Name() == "nonNilIsAny" && len(e.Args) == 2 && isSentinel(e.Args[1], "denyAndEndErrs"):
						if rel, _, k := p.Known(e.Result, i, -1); k && rel == pathx.RTrue {
							ok = true
						}
					case stdName(e.Callee) == "errors.As":
						if rel, _, k := p.Known(e.Result, i, -1); k && rel == pathx.RTrue {
							ok = true
						}
					}
				}
			}
			if ok {
				a.pass()
			} else {
				a.fail(p, last, "Backoff returns a nil channel (never retry) on a path that has not established a permanent error class")
			}
		}
		a.done(2, "nil only behind err==nil, nonNilIsAny(err, denyAndEndErrs) or errors.As(SubscribeError)")
		b.done(1, "all other returns give a channel")
	}
	if rb != nil {
		a := c.acc("ERR-5", rb, "nil-channel-only-for-ErrClosed")
		t := c.acc("ERR-5", rb, "timer-bounded-by-ReconnectWait{Min,Max}")
		nb := c.acc("ERR-5", rb, "no-backoff-only-for-nil-or-BigMessage")
		for _, p := range c.Paths("ERR-5", rb) {
			if p.End != pathx.KReturn {
				continue
			}
			last := len(p.Events) - 1
			r := p.Events[last].Results[0]
			if pathx.IsNilConst(r) {
				ok := false
				for i := range p.Events {
					e := &p.Events[i]
					if isStd(e, "errors.Is") && len(e.Args) == 2 && isSentinel(e.Args[1], "ErrClosed") {
						if rel, _, k := p.Known(e.Result, i, -1); k && rel == pathx.RTrue {
							ok = true
						}
					}
				}
				if ok {
					a.pass()
				} else {
					a.fail(p, last, "ReadBackoff returns a channel that never closes for an error other than ErrClosed: the read loop stops for good")
				}
				continue
			}
			// a made channel: must be closed by time.AfterFunc with a bounded duration
			i := p.Index(0, func(e *pathx.Event) bool { return isStd(e, "time.AfterFunc") })
			if i >= 0 {
				// ErrClosed must have been excluded before any timer is armed
				excl := false
				for j := 0; j < i; j++ {
					e := &p.Events[j]
					if isStd(e, "errors.Is") && len(e.Args) == 2 && isSentinel(e.Args[1], "ErrClosed") {
						if rel, _, k := p.Known(e.Result, j, i); k && rel == pathx.RFalse {
							excl = true
						}
					}
				}
				if excl {
					a.pass()
				} else {
					a.fail(p, i, "ReadBackoff arms a retry timer on a path that has not excluded ErrClosed: after Close the read loop is told to try again, forever")
				}
			}
			if _, isLoad := r.(*ssa.UnOp); isLoad && i < 0 {
				// the package level closed channel: "no backoff", for no error or a BigMessage only
				none := false
				for _, cm := range assumed(p, 0, -1) {
					if pr, isP := cm.X.(*ssa.Parameter); isP && pr.Type().String() == "error" && pathx.IsNilConst(cm.Y) && cm.Op == token.EQL {
						none = true
					}
					if roleKey(cm.X) == "Client.bigMessage" && pathx.IsNilConst(cm.Y) && cm.Op == token.NEQ {
						none = true
					}
				}
				if none {
					nb.pass()
				} else {
					nb.fail(p, last, "ReadBackoff answers an error with the closed channel (no backoff at all) on a path that has established neither err == nil nor a parked BigMessage: the read loop spins on a failing connection")
				}
				continue
			}
			if i < 0 {
				t.fail(p, last, "a channel is returned that nothing closes")
				continue
			}
			// the timer's function closes the very channel that is returned
			closes := false
			if len(p.Events[i].Args) > 1 {
				if mc, ok := p.Events[i].Args[1].(*ssa.MakeClosure); ok {
					f := mc.Fn.(*ssa.Function)
					for _, b := range f.Blocks {
						for _, ins := range b.Instrs {
							call, ok := ins.(*ssa.Call)
							if !ok || !isBuiltin2(&call.Call, "close") {
								continue
							}
							if fv, ok := call.Call.Args[0].(*ssa.UnOp); ok {
								if v, ok := fv.X.(*ssa.FreeVar); ok {
									for k, x := range f.FreeVars {
										if x == v && k < len(mc.Bindings) {
											// the binding is the cell that holds the returned channel
											if ld, ok := r.(*ssa.UnOp); ok && ld.X == mc.Bindings[k] {
												closes = true
											}
											for q := range p.Events {
												if st := &p.Events[q]; st.Kind == pathx.KStore && st.Addr == mc.Bindings[k] && st.Val == r {
													closes = true
												}
											}
										}
									}
								}
							}
							if v, ok := call.Call.Args[0].(*ssa.FreeVar); ok {
								for k, x := range f.FreeVars {
									if x == v && k < len(mc.Bindings) && (mc.Bindings[k] == r || strip(mc.Bindings[k]) == strip(r)) {
										closes = true
									}
								}
							}
						}
					}
				}
			}
			if !closes {
				t.fail(p, i, "the timer armed by ReadBackoff does not close the channel that is returned: the read loop waits forever")
				continue
			}
			d := p.Events[i].Args[0]
			up, lo := c.idleBounds(p, rb, i, d)
			switch {
			case !up:
				t.fail(p, i, "the backoff duration %s is not bounded by ReconnectWaitMax / one second", Expr(d))
			case !lo:
				t.fail(p, i, "the backoff duration %s has no lower bound (ReconnectWaitMin, ReconnectWaitMax or a positive constant): the channel may close at once and the read loop spins", Expr(d))
			default:
				t.pass()
			}
		}
		// the ramp-up state that is kept for the next call stays bounded too,
		// or the doubling overflows after enough consecutive failures
		ramp := c.acc("ERR-5", rb, "ramp-up-state-bounded")
		for _, p := range c.Paths("ERR-5", rb) {
			for i := range p.Events {
				e := &p.Events[i]
				if e.Kind != pathx.KStore || !c.inRegion(rb, e) || pathx.RoleOfAddr(e.Addr).Key() != "Client.reconnectWait" {
					continue
				}
				v := e.Instr.(*ssa.Store).Val
				choice := phiChoices(p, rb)
				for {
					phi, isPhi := strip(v).(*ssa.Phi)
					if !isPhi || choice[phi] == nil {
						break
					}
					v = choice[phi]
				}
				ok, _ := c.idleBounds(p, rb, i, v)
				if bo, isB := strip(v).(*ssa.BinOp); isB && !ok {
					switch bo.Op {
					case token.MUL, token.SHL, token.ADD:
						_, kx := intConst(bo.X)
						_, ky := intConst(bo.Y)
						ux, _ := c.idleBounds(p, rb, i, bo.X)
						uy, _ := c.idleBounds(p, rb, i, bo.Y)
						ok = ky && ux || kx && uy && bo.Op != token.SHL
					}
				}
				if ok {
					ramp.pass()
				} else {
					ramp.fail(p, i, "reconnectWait is set to %s, which is not derived from a value clamped to ReconnectWaitMax: with enough consecutive failed connects the doubling overflows and the backoff turns negative (the channel closes at once)", Expr(v))
				}
			}
		}
		ramp.done(1, "the stored wait is a constant multiple of the clamped wait")
		// … and that channel is closed indeed, by the package initialisation
		isClosed := false
		for f := range c.P.AllFuncs {
			if f.Pkg != c.P.Root || !strings.HasPrefix(f.Name(), "init") {
				continue
			}
			for _, b := range f.Blocks {
				for _, ins := range b.Instrs {
					if call, ok := ins.(*ssa.Call); ok && isBuiltin2(&call.Call, "close") {
						if u, ok := call.Call.Args[0].(*ssa.UnOp); ok {
							if g, ok := u.X.(*ssa.Global); ok && g.Name() == "closed" {
								isClosed = true
							}
						}
					}
				}
			}
		}
		if isClosed {
			c.S.OK("ERR-5", "ERR-5|init|no-backoff-channel-is-closed", "", "init", "close(closed) runs at package initialisation", true)
		} else {
			c.S.Bad("ERR-5", "ERR-5|init|no-backoff-channel-is-closed", c.P.Pos(rb.Pos()), "init", "the channel ReadBackoff returns for 'no backoff' is never closed: a read loop that waits on it after a delivered message stops for good", nil)
		}
		nb.done(1, "the closed channel is returned only behind err == nil or c.bigMessage != nil")
		a.done(1, "nil only behind errors.Is(err, ErrClosed)")
		t.done(2, "every returned channel is closed by a timer of bounded duration")
	}
}

// idleBounds judges a duration as it stands at event upto of path p: bounded
// above by ReconnectWaitMax (or constant) and below by ReconnectWaitMin (or a
// positive constant), through min/max or through the comparisons the path has
// taken (if idle > max { idle = max }).
func (c *Ctx) idleBounds(p *pathx.Path, fn *ssa.Function, upto int, v ssa.Value) (upper, lower bool) {
	choice := phiChoices(p, fn)
	var expand func(v ssa.Value, d int) ssa.Value
	expand = func(v ssa.Value, d int) ssa.Value {
		v = strip(v)
		if phi, ok := v.(*ssa.Phi); ok && d < 12 && choice[phi] != nil {
			return expand(choice[phi], d+1)
		}
		return v
	}
	rel := func(v ssa.Value, role string) (le, ge bool) {
		for _, cm := range assumed(p, 0, upto) {
			for _, k := range []cmp{cm, cm.swapped()} {
				x := expand(k.X, 0)
				if x != v && (roleKey(x) == "" || roleKey(x) != roleKey(v)) || roleKey(k.Y) != role {
					continue // (two loads of the same read-only Config field are the same value)
				}
				switch k.Op {
				case token.LEQ, token.LSS, token.EQL:
					le = true
				}
				switch k.Op {
				case token.GEQ, token.GTR, token.EQL:
					ge = true
				}
			}
		}
		return
	}
	var up, lo func(v ssa.Value, d int) bool
	up = func(v ssa.Value, d int) bool {
		v = expand(v, 0)
		if d > 12 {
			return false
		}
		if roleKey(v) == "Config.ReconnectWaitMax" {
			return true
		}
		if le, _ := rel(v, "Config.ReconnectWaitMax"); le {
			return true
		}
		switch x := v.(type) {
		case *ssa.Const:
			return true
		case *ssa.Phi:
			for _, e := range x.Edges {
				if !up(e, d+1) {
					return false
				}
			}
			return true
		case *ssa.Call:
			if b, ok := x.Call.Value.(*ssa.Builtin); ok {
				switch b.Name() {
				case "min":
					for _, a := range x.Call.Args {
						if up(a, d+1) {
							return true
						}
					}
				case "max":
					for _, a := range x.Call.Args {
						if !up(a, d+1) && roleKey(a) != "Config.ReconnectWaitMin" {
							return false
						}
					}
					return false // max(x, Min) may exceed Max when Min > Max: demand a min around it
				}
			}
		}
		return false
	}
	lo = func(v ssa.Value, d int) bool {
		v = expand(v, 0)
		if d > 12 {
			return false
		}
		if k := roleKey(v); k == "Config.ReconnectWaitMax" || k == "Config.ReconnectWaitMin" {
			return true
		}
		if _, ge := rel(v, "Config.ReconnectWaitMin"); ge {
			return true
		}
		switch x := v.(type) {
		case *ssa.Const:
			n, ok := intConst(x)
			return ok && n > 0
		case *ssa.Phi:
			for _, e := range x.Edges {
				if !lo(e, d+1) {
					return false
				}
			}
			return true
		case *ssa.Call:
			if b, ok := x.Call.Value.(*ssa.Builtin); ok {
				switch b.Name() {
				case "min":
					for _, a := range x.Call.Args {
						if !lo(a, d+1) {
							return false
						}
					}
					return true
				case "max":
					for _, a := range x.Call.Args {
						if lo(a, d+1) {
							return true
						}
					}
				}
			}
		}
		return false
	}
	return up(v, 0), lo(v, 0)
}

// lowerBoundedIdle accepts: positive constant, ReconnectWaitMax, max(…, ReconnectWaitMin …), min of such.
func (c *Ctx) lowerBoundedIdle(v ssa.Value, d int) bool {
	if d > 12 {
		return false
	}
	if k := roleKey(v); k == "Config.ReconnectWaitMax" || k == "Config.ReconnectWaitMin" {
		return true
	}
	switch x := strip(v).(type) {
	case *ssa.Const:
		n, ok := intConst(x)
		return ok && n > 0
	case *ssa.Phi:
		for _, e := range x.Edges {
			if !c.lowerBoundedIdle(e, d+1) {
				return false
			}
		}
		return true
	case *ssa.Call:
		if b, ok := x.Call.Value.(*ssa.Builtin); ok {
			switch b.Name() {
			case "min":
				for _, a := range x.Call.Args {
					if !c.lowerBoundedIdle(a, d+1) {
						return false
					}
				}
				return true
			case "max":
				for _, a := range x.Call.Args {
					if c.lowerBoundedIdle(a, d+1) {
						return true
					}
				}
			}
		}
	case *ssa.UnOp:
		k := roleKey(x)
		return k == "Config.ReconnectWaitMax" || k == "Config.ReconnectWaitMin"
	}
	return false
}

// boundedIdle accepts: constant, Config.ReconnectWaitMax, min(x, ReconnectWaitMax).
func (c *Ctx) boundedIdle(v ssa.Value) bool {
	switch x := strip(v).(type) {
	case *ssa.Const:
		return true
	case *ssa.Phi:
		for _, e := range x.Edges {
			if !c.boundedIdle(e) {
				return false
			}
		}
		return true
	case *ssa.Call:
		if b, ok := x.Call.Value.(*ssa.Builtin); ok && b.Name() == "min" {
			for _, a := range x.Call.Args {
				if roleKey(a) == "Config.ReconnectWaitMax" {
					return true
				}
			}
		}
	case *ssa.UnOp:
		return roleKey(x) == "Config.ReconnectWaitMax"
	}
	return roleKey(v) == "Config.ReconnectWaitMax"
}

// ---- ERR-6: guard failures are protocol errors; CONNACK refusal ----

func (c *Ctx) err6() {
	ef := c.errflow()
	hs := c.handlers("ERR-6")
	wire := c.wireCapable()
	endTx := c.P.Func("(*unorderedTxs).endTx")
	n := 0
	var names []string
	for k := range hs {
		names = append(names, k)
	}
	sort.Strings(names)
	for _, typ := range names {
		fn := hs[typ]
		a := c.acc("ERR-6", fn, "guard-return⇒errProtoReset")
		for _, p := range c.Paths("ERR-6", fn) {
			if p.End != pathx.KReturn || p.Start != fn.Blocks[0] {
				continue
			}
			last := len(p.Events) - 1
			if retErr(p, last) == triNil {
				continue
			}
			// a guard return: nothing happened yet on this path
			effect := p.Index(0, func(e *pathx.Event) bool {
				return persistenceOp(e) != "" || e.Kind == pathx.KCall && e.Callee != nil && (wire[e.Callee] || e.Callee == endTx) || e.Kind == pathx.KSelect
			})
			if effect >= 0 {
				continue
			}
			internal := false
			for _, cm := range assumed(p, 0, last) {
				if lenOf(cm.X, "Client.pendingAck") && cm.Op == token.NEQ {
					internal = true
				}
			}
			if internal {
				continue
			}
			n++
			res := p.Events[last].Results
			cl := classes(ef.ofOn(p, res[len(res)-1]))
			if cl["errProtoReset"] {
				a.pass()
			} else {
				a.fail(p, last, "a validation failure returns {%s}, which does not wrap errProtoReset", classList(cl))
			}
		}
		a.done(1, "every validation failure wraps errProtoReset")
	}
	c.S.Floor("ERR-6", "guard returns of dispatch handlers", n, 25)

	// CONNACK
	hk := c.Fn("ERR-6", "(*Client).handshake")
	if hk != nil {
		refuse := c.acc("ERR-6", hk, "return-code≠0⇒connectReturn")
		flags := c.acc("ERR-6", hk, "illegal-flags/session-present-with-clean⇒errProtoReset")
		for _, p := range c.Paths("ERR-6", hk) {
			if p.End != pathx.KReturn {
				continue
			}
			last := len(p.Events) - 1
			if retErr(p, last) == triNil {
				continue
			}
			res := p.Events[last].Results
			cl := classes(ef.ofOn(p, res[len(res)-1]))
			if cl["type:connectReturn"] {
				refuse.pass()
			}
			if cl["errProtoReset"] {
				flags.pass()
			}
		}
		refuse.done(1, "a refusing CONNACK returns its connectReturn code")
		flags.done(3, "header, flag and session-present violations wrap errProtoReset")
	}
}

// ---- ERR-7: a failed submission is reported as such ----

func init() {
	register("ERR-7", []string{"ERR-7"}, func(c *Ctx, _ map[string]bool) { c.err7() })
}

func (c *Ctx) err7() {
	wire := c.wireCapable()
	n := 0
	for _, name := range []string{"(*Client).Ping", "(*Client).subscribeLevel", "(*Client).Unsubscribe", "(*Client).publish", "(*Client).Disconnect", "(*Client).write", "(*Client).writeNoWait", "(*Client).writeBuffers", "(*Client).writeBuffersNoWait"} {
		fn := c.Fn("ERR-7", name)
		if fn == nil {
			continue
		}
		a := c.acc("ERR-7", fn, "failed-wire-call⇒error-derived-from-it-is-returned")
		for _, p := range c.Paths("ERR-7", fn) {
			if p.End != pathx.KReturn {
				continue
			}
			last := len(p.Events) - 1
			for i := range p.Events {
				e := &p.Events[i]
				if e.Kind != pathx.KCall || e.Callee == nil || !wire[e.Callee] {
					continue
				}
				er := pathx.ErrResult(e.Result)
				if er == nil {
					continue
				}
				rel, _, k := p.Known(er, i, last)
				if !k || rel != pathx.RNotNil {
					continue
				}
				n++
				res := p.Events[last].Results
				r := res[len(res)-1]
				if derivesFromB(r, er, pathBindings(p), 0) {
					a.pass()
				} else {
					a.fail(p, last, "the packet was not (completely) written, yet the call returns %s, which does not stem from the write error: a request can report success, or somebody else's answer, for a packet that never went out", Expr(r))
				}
			}
		}
		a.done(1, "every path with a failed write returns an error built from that failure")
		// the converse for the four writers of the client: success means written —
		// a closed, down or pending connection is an error to the caller, never nil
		// (and for the request methods built on them: a request that reports success was submitted)
		{
			w := c.acc("ERR-7", fn, "nil⇒the-packet-was-written(nil-wire-result-on-the-path)")
			for _, p := range c.Paths("ERR-7", fn) {
				if p.End != pathx.KReturn || retErr(p, len(p.Events)-1) != triNil {
					continue
				}
				last := len(p.Events) - 1
				written := false
				for i := range p.Events {
					e := &p.Events[i]
					if e.Kind != pathx.KCall || e.Callee == nil || !wire[e.Callee] {
						continue
					}
					if isNil, known := nilResult(p, i, last); isNil && known {
						written = true
					}
				}
				if written {
					w.pass()
				} else {
					w.fail(p, last, "%s reports success on a path without a wire write that returned nil: the caller takes a packet for sent that never left — the connection was closed, down or still pending, or no slot was free", name)
				}
			}
			min := 0
			switch name {
			case "(*Client).write", "(*Client).writeNoWait", "(*Client).writeBuffers", "(*Client).writeBuffersNoWait", "(*Client).publish":
				min = 1
			}
			w.done(min, "every nil return follows a nil result of writeTo/writeBuffersTo")
		}
	}
	c.S.Floor("ERR-7", "failed-write paths of request methods", n, 8)
}

// err4Walk: nonNilIsAny searches the whole error tree. A false answer is
// given only when the stack of pending siblings (from Unwrap() []error) is
// empty; a true answer only behind a match (identity or Is). Stopping at the
// first nil Unwrap, as errors.Is may seem to do, would miss the siblings of a
// joined error: errors.Join(ErrClosed, cause) must classify whatever comes
// first.
func (c *Ctx) err4Walk() {
	fn := c.Fn("ERR-4", "nonNilIsAny")
	if fn == nil {
		return
	}
	f := c.acc("ERR-4", fn, "false⇒no-pending-siblings(len(stack)=0)")
	t := c.acc("ERR-4", fn, "true⇒matched(identity-or-Is)")
	// an element of the list of targets (the []error parameter)
	isTarget := func(v ssa.Value) bool {
		v = stripConv(v)
		if mi, ok := v.(*ssa.MakeInterface); ok {
			v = stripConv(mi.X)
		}
		switch x := v.(type) {
		case *ssa.UnOp:
			if ia, ok := x.X.(*ssa.IndexAddr); ok {
				_, isParam := stripConv(ia.X).(*ssa.Parameter)
				return isParam && ia.X.Type().String() == "[]error"
			}
		case *ssa.Extract:
			if nx, ok := x.Tuple.(*ssa.Next); ok {
				if rg, ok := nx.Iter.(*ssa.Range); ok {
					_, isParam := stripConv(rg.X).(*ssa.Parameter)
					return isParam
				}
			}
		}
		return false
	}
	for _, p := range c.Paths("ERR-4", fn) {
		if p.End != pathx.KReturn {
			continue
		}
		last := len(p.Events) - 1
		r, ok := p.Events[last].Results[0].(*ssa.Const)
		if !ok || r.Value == nil {
			// a computed answer: accept when it is the result of a comparison or an Is call
			t.pass()
			continue
		}
		if r.Value.ExactString() == "false" {
			empty := false
			for _, cm := range assumed(p, 0, -1) {
				if cm.Op != token.EQL || !isK(cm.Y, 0) {
					continue
				}
				if arg, isLen := builtinCall(cm.X, "len"); isLen && arg.Type().String() == "[]error" {
					if _, isParam := arg.(*ssa.Parameter); !isParam {
						empty = true
					}
				}
			}
			if empty {
				f.pass()
			} else {
				f.fail(p, last, "nonNilIsAny answers false on a path that has not found the stack of pending siblings empty: errors joined behind this one are never examined, so IsEnd/IsDeny/Backoff misclassify a joined error")
			}
			continue
		}
		matched := false
		for i := range p.Events {
			e := &p.Events[i]
			if e.Kind == pathx.KAssume && e.Truth {
				// (the error at hand against one of the targets: exactly one side is an element of the list)
				if bo, ok := e.Val.(*ssa.BinOp); ok && bo.Op == token.EQL && bo.X.Type().String() == "error" && isTarget(bo.X) != isTarget(bo.Y) {
					matched = true
				}
			}
			if e.Kind == pathx.KCall && e.Method != nil && e.Method.Name() == "Is" && len(e.Args) == 2 && isTarget(e.Args[1]) {
				if rel, _, k := p.Known(e.Result, i, -1); k && rel == pathx.RTrue {
					matched = true
				}
			}
		}
		if matched {
			t.pass()
		} else {
			t.fail(p, last, "nonNilIsAny answers true on a path without a match")
		}
	}
	// every list of wrapped errors is pushed onto the stack of pending
	// siblings: what the stack holds when its emptiness is tested derives from
	// the Unwrap() []error result of this iteration — appended to what was
	// pending, or taken as the stack only when nothing was pending
	push := c.acc("ERR-4", fn, "Unwrap()[]error⇒all-siblings-pushed(append, or replace only an empty stack)")
	for _, p := range c.Paths("ERR-4", fn) {
		iu := p.Index(0, func(e *pathx.Event) bool {
			return e.Kind == pathx.KCall && e.Method != nil && e.Method.Name() == "Unwrap" && strings.HasPrefix(e.Method.Type().(*types.Signature).Results().At(0).Type().String(), "[]")
		})
		if iu < 0 {
			continue
		}
		w := p.Events[iu].Result
		choice := phiChoices(p, fn)
		expand := func(v ssa.Value) ssa.Value {
			for d := 0; d < 12; d++ {
				v = stripConv(v)
				ph, ok := v.(*ssa.Phi)
				if !ok || choice[ph] == nil {
					break
				}
				v = choice[ph]
			}
			return v
		}
		// the stack as tested for emptiness after the push
		var stack ssa.Value
		for i := iu + 1; i < len(p.Events); i++ {
			e := &p.Events[i]
			if e.Kind != pathx.KAssume {
				continue
			}
			if cm, ok := cmpOf(e.Val, e.Truth); ok && isK(cm.Y, 0) {
				if arg, isLen := builtinCall(cm.X, "len"); isLen && arg.Type().String() == "[]error" {
					stack = expand(arg)
					break
				}
			}
		}
		if stack == nil {
			continue
		}
		okPush := false
		switch x := stack.(type) {
		case *ssa.Slice:
			if expand(x.X) == w {
				// replaced: only an empty stack may be replaced
				for _, cm := range assumed(p, iu, -1) {
					if _, isPhi := stripConv(cm.X).(*ssa.Phi); isPhi && cm.X.Type().String() == "[]error" && pathx.IsNilConst(cm.Y) && cm.Op == token.EQL {
						okPush = true
					}
					if arg, isLen := builtinCall(cm.X, "len"); isLen && arg.Type().String() == "[]error" && isK(cm.Y, 0) && cm.Op == token.EQL && expand(arg) != stack {
						okPush = true
					}
				}
			}
		case *ssa.Call:
			if bl, ok := x.Call.Value.(*ssa.Builtin); ok && bl.Name() == "append" && len(x.Call.Args) == 2 && expand(x.Call.Args[1]) == w {
				// appended to what was pending: not to the list itself, not to the caller's targets
				base := expand(x.Call.Args[0])
				if sl, isSl := base.(*ssa.Slice); isSl {
					base = expand(sl.X)
				}
				_, isParam := base.(*ssa.Parameter)
				okPush = base != w && !isParam
			}
		}
		if stack == w {
			for _, cm := range assumed(p, iu, -1) {
				if _, isPhi := stripConv(cm.X).(*ssa.Phi); isPhi && cm.X.Type().String() == "[]error" && pathx.IsNilConst(cm.Y) && cm.Op == token.EQL {
					okPush = true
				}
			}
		}
		if okPush {
			push.pass()
		} else {
			push.fail(p, iu, "after Unwrap() []error the stack of pending siblings is %s: the wrapped errors of this node are not all added to it (or it replaces errors still pending), so a sentinel joined behind another error is missed", Expr(stack))
		}
	}
	push.done(2, "the stack is append(pending, wrapped...) or, with nothing pending, the wrapped list itself")
	f.done(2, "every false return lies behind len(more) == 0")
	t.done(2, "every true return lies behind err == match or Is(match)")
}

func isBuiltin2(c *ssa.CallCommon, name string) bool {
	b, ok := c.Value.(*ssa.Builtin)
	return ok && b.Name() == name
}
