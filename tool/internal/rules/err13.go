package rules

import (
	"go/types"
	"strings"

	"golang.org/x/tools/go/ssa"
)

// ---- ERR-13: errors.Is asks "does this error belong to that class" ----
//
// errors.Is(err, target) walks the chain of err looking for target. With the
// arguments exchanged it walks the chain of the sentinel — which wraps nothing
// — and answers true only for the bare sentinel itself: a wrapped io.EOF from
// a TLS connection is no longer the broker's hang-up, a joined ErrSubmit is no
// longer "nothing was sent", a net.OpError around net.ErrClosed is no longer
// the local Close. Both orders compile and both pass every test that uses the
// bare sentinel. Decided per call site of the package and of mqtttest: a
// package-level error variable (of any package) never stands as the first
// argument while the second is a local value.

func init() {
	register("ERR-13", []string{"ERR-13"}, func(c *Ctx, _ map[string]bool) { c.err13() })
}

func isSentinelLoad(v ssa.Value) bool {
	v = stripConv(v)
	if mi, ok := v.(*ssa.MakeInterface); ok {
		v = stripConv(mi.X)
	}
	u, ok := v.(*ssa.UnOp)
	if !ok {
		return false
	}
	_, isG := u.X.(*ssa.Global)
	return isG
}

func (c *Ctx) err13() {
	a := c.accKeyless("ERR-13", "errors.Is", "first-argument-is-the-error-at-hand,second-the-class")
	fns := append([]*ssa.Function{}, c.funcs...)
	fns = append(fns, c.testFuncs()...)
	n := 0
	for _, f := range fns {
		for _, b := range f.Blocks {
			for _, ins := range b.Instrs {
				ci, ok := ins.(ssa.CallInstruction)
				if !ok {
					continue
				}
				cc := ci.Common()
				if sc := cc.StaticCallee(); sc == nil || stdName(sc) != "errors.Is" || len(cc.Args) != 2 {
					continue
				}
				n++
				if isSentinelLoad(cc.Args[0]) && !isSentinelLoad(cc.Args[1]) {
					a.failAt(c.P.Pos(ins.Pos()), "%s calls errors.Is(%s, %s): the sentinel stands where the error at hand belongs — its chain is walked instead of the error's, so a wrapped or joined occurrence of the class is not recognised", f.Name(), Expr(cc.Args[0]), Expr(cc.Args[1]))
				} else {
					a.pass()
				}
			}
		}
	}
	// errors.As(err, &target): the target's type is one the package hands out as
	// an error. A pointer to a type that is only ever sent by value (or the
	// other way round) satisfies the compiler and vet — the pointer type has
	// the method set too — and never matches.
	as := c.accKeyless("ERR-13", "errors.As", "target-type-is-one-the-package-sends-as-error")
	produced := map[string]bool{}
	for _, f := range fns {
		for _, b := range f.Blocks {
			for _, ins := range b.Instrs {
				// (boxed as an error — the any of errors.As's own target argument does not count)
				if mi, ok := ins.(*ssa.MakeInterface); ok {
					if it, isI := mi.Type().Underlying().(*types.Interface); isI && it.NumMethods() > 0 {
						produced[mi.X.Type().String()] = true
					}
				}
			}
		}
	}
	for _, f := range fns {
		for _, b := range f.Blocks {
			for _, ins := range b.Instrs {
				ci, ok := ins.(ssa.CallInstruction)
				if !ok {
					continue
				}
				cc := ci.Common()
				if sc := cc.StaticCallee(); sc == nil || stdName(sc) != "errors.As" || len(cc.Args) != 2 {
					continue
				}
				t := cc.Args[1]
				if mi, isMI := t.(*ssa.MakeInterface); isMI {
					t = mi.X
				}
				pt, isPtr := t.Type().Underlying().(*types.Pointer)
				if !isPtr {
					continue
				}
				el := pt.Elem()
				if _, isIface := el.Underlying().(*types.Interface); isIface {
					as.pass()
					continue
				}
				// a concrete type of this module: some value of exactly that type is boxed somewhere
				if !strings.Contains(el.String(), c.P.Root.Pkg.Path()) {
					as.pass()
					continue
				}
				other := ""
				if p2, isP := el.(*types.Pointer); isP {
					other = p2.Elem().String()
				} else {
					other = "*" + el.String()
				}
				// (a type the package never boxes at all is the caller's to send: nothing to compare with)
				if produced[el.String()] || !produced[other] {
					as.pass()
				} else {
					as.failAt(c.P.Pos(ins.Pos()), "%s matches with errors.As against a target of type %s, but the package converts only values of type %s to an interface, never this type (sent by value where the target is a pointer, or the reverse): the match never succeeds and the class is not recognised", f.Name(), el.String(), other)
				}
			}
		}
	}
	as.done(3, "every concrete target type of the module is boxed somewhere in the module")
	a.done(12, "no call has a package-level error variable first and a local value second")
	c.S.Floor("ERR-13", "errors.Is call sites", n, 12)
}
