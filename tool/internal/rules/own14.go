package rules

import (
	"golang.org/x/tools/go/ssa"

	"mqttverif/internal/load"
	"mqttverif/internal/pathx"
)

// ---- OWN-14: what the caller configured is what the client uses ----

func init() {
	register("OWN-14", []string{"OWN-14"}, func(c *Ctx, _ map[string]bool) { c.own14() })
}

func (c *Ctx) own14() {
	// what the caller configured is what the client uses: the library writes
	// into a Config (the caller's, or its own copy) only the fields whose
	// documentation announces it — the defaults and truncations of the two
	// maxima and of the reconnect waits, and CleanSession on the per-attempt
	// copy of a reconnect. A "private copy" or "normalisation" of any other
	// field changes what goes into CONNECT: an empty password becomes no
	// password, a nil will message becomes an empty one
	docWrites := map[string]string{"AtLeastOnceMax": "", "ExactlyOnceMax": "", "ReconnectWaitMin": "", "ReconnectWaitMax": "", "CleanSession": "(*Client).connect"}
	cw := c.accKeyless("OWN-14", "Config", "only-the-documented-defaults-are-written-into-a-Config")
	c.eachInstr(func(fn *ssa.Function, ins ssa.Instruction) {
		st, ok := ins.(*ssa.Store)
		if !ok {
			return
		}
		fa, ok := st.Addr.(*ssa.FieldAddr)
		if !ok {
			return
		}
		r := pathx.RoleOfAddr(st.Addr)
		if r.Owner != "Config" {
			return
		}
		name := load.FuncName(load.TopLevel(fn))
		only, listed := docWrites[r.Field]
		_ = fa
		switch {
		case !listed:
			cw.failAt(c.P.Pos(st.Pos()), "%s writes Config.%s: the documentation announces no default or truncation for that field, so the client must use what the caller set (%s is what ends up there)", name, r.Field, Expr(st.Val))
		case only != "" && name != only && !c.isNewHelper(load.TopLevel(fn)):
			cw.failAt(c.P.Pos(st.Pos()), "%s writes Config.%s, which only %s may adjust (on its per-attempt copy)", name, r.Field, only)
		default:
			cw.pass()
		}
	})
	cw.done(3, "every store into a Config field is one of the documented defaults/truncations")
}
