package rules

import (
	"go/token"
	"strings"

	"golang.org/x/tools/go/ssa"

	"mqttverif/internal/load"
	"mqttverif/internal/pathx"
)

// ---- MCK-7: counting, excess calls, private copies, the exchange script validator ----

func init() {
	register("MCK-7", []string{"MCK-7"}, func(c *Ctx, _ map[string]bool) { c.mck7() })
}

func isTBFail(e *pathx.Event) bool {
	return isTB(e, "Error") || isTB(e, "Errorf") || isTB(e, "Fatal") || isTB(e, "Fatalf")
}

func (c *Ctx) mck7() {
	// (a) the invocation's index is the counter before the increment: Add(&n, 1) - 1
	// (b) an invocation beyond the list is reported as a test failure
	nIdx := 0
	for _, f := range c.testFuncs() {
		if f.Parent() == nil {
			continue
		}
		for _, b := range f.Blocks {
			for _, ins := range b.Instrs {
				ia, ok := ins.(*ssa.IndexAddr)
				if !ok {
					continue
				}
				base := ia.X
				if u, ok := base.(*ssa.UnOp); ok {
					base = u.X
				}
				fv, ok := base.(*ssa.FreeVar)
				if !ok || !isWantVar(fv) {
					continue
				}
				nIdx++
				name := load.FuncName(f)
				key := "MCK-7|" + name + "|index=counter-before-increment(Add(&n,1)-1)"
				okIdx := false
				if sub, ok := stripConv(ia.Index).(*ssa.BinOp); ok && sub.Op == token.SUB && isK(sub.Y, 1) {
					if call, ok := stripConv(sub.X).(*ssa.Call); ok && call.Call.StaticCallee() != nil {
						n := stdName(call.Call.StaticCallee())
						if (n == "sync/atomic.AddUint64" || n == "(*sync/atomic.Uint64).Add") && isK(call.Call.Args[len(call.Call.Args)-1], 1) {
							okIdx = true
						}
					}
				}
				if okIdx {
					c.S.OK("MCK-7", key, c.P.Pos(ia.Pos()), name, "the n-th invocation is compared with the n-th expectation", true)
				} else {
					c.S.Bad("MCK-7", key, c.P.Pos(ia.Pos()), name, "the expectation is selected by "+Expr(ia.Index)+", want the atomic counter before its increment (Add(&n, 1) - 1): invocations are compared with the wrong expectation, and matching ones are reported", nil)
				}
				a := c.acc("MCK-7", f, "invocation-beyond-the-list⇒test-failure-reported")
				for _, p := range c.Paths("MCK-7", f) {
					if p.Start != f.Blocks[0] {
						continue
					}
					over := -1
					for i := range p.Events {
						e := &p.Events[i]
						if e.Kind != pathx.KAssume {
							continue
						}
						if cm, ok := cmpOf(e.Val, e.Truth); ok {
							for _, k := range []cmp{cm, cm.swapped()} {
								if k.Op == token.GEQ && sameValue(k.X, ia.Index) {
									if _, isLen := builtinCall(finalValue(stripConv(k.Y)), "len"); isLen {
										over = i
									}
								}
							}
						}
					}
					if over < 0 {
						continue
					}
					last := len(p.Events) - 1
					returnsErr := true
					if p.End == pathx.KReturn && len(p.Events[last].Results) == 3 {
						// a ReadSlices double has nothing to hand out: the invocation fails
						returnsErr = retErr(p, last) == triNonNil
					}
					if p.Index(over, isTBFail) >= 0 && returnsErr {
						a.pass()
					} else if !returnsErr {
						a.fail(p, last, "an excess ReadSlices invocation returns no error: the caller goes on with an empty message as if it had been received")
					} else {
						a.fail(p, len(p.Events)-1, "an invocation for which no expectation is left returns without a test failure: too many calls go unnoticed")
					}
				}
				a.done(1, "every path with index ≥ len(want) calls t.Error/Errorf/Fatal")
			}
		}
	}
	c.S.Floor("MCK-7", "indexed expectation lists", nIdx, 3)

	// (c) the ReadSlices stub hands out a copy of the fixed message
	for _, cl := range c.closuresOf("NewReadSlicesStub") {
		a := c.acc("MCK-7", cl, "message-is-a-copy-of-the-fixed-message")
		for _, p := range c.Paths("MCK-7", cl) {
			if p.End != pathx.KReturn {
				continue
			}
			last := len(p.Events) - 1
			res := p.Events[last].Results
			if len(res) < 1 {
				continue
			}
			mk, isMake := res[0].(*ssa.MakeSlice)
			copied := false
			for i := 0; i < last; i++ {
				e := &p.Events[i]
				if e.Kind == pathx.KCall && e.Call != nil {
					if bl, ok := e.Call.Value.(*ssa.Builtin); ok && bl.Name() == "copy" && len(e.Args) == 2 && isMake && e.Args[0] == ssa.Value(mk) {
						if strings.HasSuffix(canon(e.Args[1]), "Message") {
							copied = true
						}
					}
				}
			}
			sized := false
			if isMake {
				if arg, isLen := builtinCall(mk.Len, "len"); isLen && strings.HasSuffix(canon(arg), "Message") {
					sized = true
				}
			}
			if isMake && copied && sized {
				a.pass()
			} else {
				a.fail(p, last, "the returned message is not (a fresh slice: %v, of the fixed message's length: %v, filled by copy from it: %v): the stub returns other bytes than configured, or its own backing array", isMake, sized, copied)
			}
		}
		a.done(1, "make(len(fix.Message)) + copy(message, fix.Message)")
	}

	// (d) the exchange stub: errFix is returned; the constructor refuses scripts
	// the producer cannot honour (decided on small scripts: position i of n)
	ctor := c.TestFn("MCK-7", "NewPublishExchangeStub")
	if ctor == nil {
		return
	}
	for _, cl := range c.closuresOf("NewPublishExchangeStub") {
		if c.isGoTargetOf(cl) || len(cl.Params) != 2 {
			continue
		}
		a := c.acc("MCK-7", cl, "errFix≠nil⇒returned(with-a-nil-exchange)")
		for _, p := range c.Paths("MCK-7", cl) {
			if p.End != pathx.KReturn || p.Start != cl.Blocks[0] {
				continue
			}
			last := len(p.Events) - 1
			res := p.Events[last].Results
			isFix := func(v ssa.Value) bool {
				v = finalValue(stripConv(v))
				if u, ok := v.(*ssa.UnOp); ok {
					v = u.X
				}
				switch x := v.(type) {
				case *ssa.FreeVar:
					return x.Type().String() == "error" || x.Type().String() == "*error"
				case *ssa.Parameter:
					return x.Type().String() == "error"
				}
				return false
			}
			nonNil, decided := false, false
			for _, cm := range assumed(p, 0, -1) {
				if isFix(cm.X) && pathx.IsNilConst(cm.Y) {
					decided = true
					nonNil = cm.Op == token.NEQ
				}
			}
			switch {
			case !decided:
				a.fail(p, last, "the stub returns without having consulted errFix")
			case nonNil && (len(res) != 2 || !isFix(res[1]) || !pathx.IsNilConst(res[0])):
				a.fail(p, last, "with a non-nil errFix the stub returns (%s, %s), want (nil, errFix)", Expr(res[0]), Expr(res[len(res)-1]))
			case !nonNil && (len(res) != 2 || !pathx.IsNilConst(res[1])):
				a.fail(p, last, "with a nil errFix the stub returns an error")
			default:
				a.pass()
			}
		}
		a.done(2, "(nil, errFix) for a non-nil errFix, (exchange, nil) otherwise")
	}
	v := c.acc("MCK-7", ctor, "script-validation-decided-on-positions(i,n)")
	// the loop's induction variable and the script length. A range loop counts
	// phi(-1; +1) and uses phi+1 as the index; an index loop counts phi(0; +1).
	var ind *ssa.Phi
	var indInit int64
	for _, b := range ctor.Blocks {
		for _, ins := range b.Instrs {
			ph, ok := ins.(*ssa.Phi)
			if !ok || ph.Type().String() != "int" {
				continue
			}
			init, hasInit, step := int64(0), false, false
			for _, e := range ph.Edges {
				if k, isK := intConst(e); isK {
					if _, isC := e.(*ssa.Const); isC && (k == 0 || k == -1) {
						init, hasInit = k, true
					}
				}
				if bo, ok := e.(*ssa.BinOp); ok && bo.Op == token.ADD && bo.X == ssa.Value(ph) && isK(bo.Y, 1) {
					step = true
				}
			}
			if hasInit && step && ind == nil {
				ind, indInit = ph, init
			}
		}
	}
	if ind == nil {
		v.failAt(c.P.Pos(ctor.Pos()), "the loop over the script was not recognised (an int that counts up by one from 0 or -1)")
		v.done(1, "")
		return
	}
	classifyIdx := func(val ssa.Value) adjLeaf {
		switch x := stripConv(val).(type) {
		case *ssa.Phi:
			if x == ind {
				return leafN
			}
		case *ssa.Call:
			if arg, isLen := builtinCall(x, "len"); isLen && strings.HasPrefix(arg.Type().String(), "[]error") {
				return leafP
			}
		}
		return leafNone
	}
	type vec struct{ i, n uint64 }
	vecs := []vec{{0, 1}, {0, 2}, {1, 2}, {2, 5}, {4, 5}, {3, 5}}
	nDecided := 0
	for _, kind := range []string{"ErrClosed", "indefinite-block", "nil-entry"} {
		decidedKind := 0
		for _, vc := range vecs {
			followup := vc.i+1 < vc.n
			sawPanic, sawPass := false, false
			for _, p := range c.Paths("MCK-7", ctor) {
				if p.Start == ctor.Blocks[0] {
					continue // the loop body starts at its header
				}
				// which kind of entry does this iteration deal with?
				isNil, isClosed, isBlock, delay0 := false, false, false, false
				for i := range p.Events {
					e := &p.Events[i]
					if e.Kind == pathx.KAssume {
						if cm, ok := cmpOf(e.Val, e.Truth); ok {
							if cm.X.Type().String() == "error" && pathx.IsNilConst(cm.Y) && cm.Op == token.EQL {
								isNil = true
							}
							if roleKey(cm.X) == "ExchangeBlock.Delay" && isK(cm.Y, 0) && cm.Op == token.EQL {
								delay0 = true
							}
						}
					}
					if isStd(e, "errors.Is") && len(e.Args) == 2 && isGlobalOf(e.Args[1], "ErrClosed") {
						if rel, _, k := p.Known(e.Result, i, -1); k && rel == pathx.RTrue {
							isClosed = true
						}
					}
					if isStd(e, "errors.As") {
						if rel, _, k := p.Known(e.Result, i, -1); k && rel == pathx.RTrue {
							isBlock = true
						}
					}
				}
				match := kind == "nil-entry" && isNil || kind == "ErrClosed" && isClosed && !isNil || kind == "indefinite-block" && isBlock && delay0 && !isClosed && !isNil
				if !match {
					continue
				}
				sat, _ := adjDecide(p, ctor, classifyIdx, vc.i+uint64(indInit), vc.n, 0, len(p.Events))
				if !sat {
					continue
				}
				if p.End == pathx.KPanic {
					sawPanic = true
				} else {
					sawPass = true
				}
			}
			want := followup || kind == "nil-entry"
			switch {
			case !sawPanic && !sawPass:
				// not recognised for this kind/vector
			case want && sawPass || !want && sawPanic:
				nDecided++
				v.failAt(c.P.Pos(ctor.Pos()), "a script with %s at position %d of %d is %s, want %s: the producer stops (or blocks for good) at that entry, so whatever follows it would never be delivered — and a last entry of that kind is legal", kind, vc.i, vc.n, map[bool]string{true: "refused", false: "accepted"}[sawPanic && !sawPass], map[bool]string{true: "refused", false: "accepted"}[want])
			default:
				nDecided++
				decidedKind++
				v.pass()
			}
		}
		if decidedKind == 0 && !v.failed {
			v.failAt(c.P.Pos(ctor.Pos()), "the constructor does not decide scripts with %s at all: such an entry followed by more is accepted although the producer never gets past it", kind)
		}
	}
	v.done(12, "nil entries are refused; ErrClosed and an indefinite block are accepted exactly as the last entry")
	// errFix together with a script is refused
	ef := c.acc("MCK-7", ctor, "errFix-with-script⇒refused")
	for _, p := range c.Paths("MCK-7", ctor) {
		if p.Start != ctor.Blocks[0] {
			continue
		}
		fixNN, scriptNE := false, false
		for _, cm := range assumed(p, 0, -1) {
			if pr := paramBehind(p, cm.X); pr != nil && pr.Type().String() == "error" && pathx.IsNilConst(cm.Y) && cm.Op == token.NEQ {
				fixNN = true
			}
			if arg, isLen := builtinCall(cm.X, "len"); isLen && strings.HasPrefix(arg.Type().String(), "[]error") && isK(cm.Y, 0) && cm.Op == token.NEQ {
				scriptNE = true
			}
		}
		if fixNN && scriptNE {
			if p.End == pathx.KPanic {
				ef.pass()
			} else {
				ef.fail(p, len(p.Events)-1, "a stub with both a fixed error and an exchange script is accepted: the script can never play")
			}
		}
	}
	ef.done(1, "panics when errFix != nil and the script is not empty")
}

// paramBehind: v is a parameter, or the load of the cell a captured parameter lives in.
func paramBehind(p *pathx.Path, v ssa.Value) *ssa.Parameter {
	v = stripConv(v)
	if pr, ok := v.(*ssa.Parameter); ok {
		return pr
	}
	u, ok := v.(*ssa.UnOp)
	if !ok || u.Op != token.MUL {
		return nil
	}
	al, ok := u.X.(*ssa.Alloc)
	if !ok {
		return nil
	}
	for i := range p.Events {
		if e := &p.Events[i]; e.Kind == pathx.KStore && e.Addr == ssa.Value(al) {
			if pr, ok := e.Val.(*ssa.Parameter); ok {
				return pr
			}
		}
	}
	return nil
}
