package rules

import (
	"encoding/json"
	"fmt"
	"os"
	"sort"
	"strings"
)

// propMeta carries the MANIFEST texts per property.
type propMeta struct {
	Title     string
	DesignRef string
	Level     string // level_claimed.text
	Note      string // level_note
	Technique string
}

var PropMeta = map[string]propMeta{}

// notApplicable lists properties that are not claimed, with the reason.
var notApplicable = map[string]string{}

func mainManifest() int {
	type check struct {
		PropertyID   string         `json:"property_id"`
		QuickCmd     string         `json:"quick_cmd"`
		ThoroughCmd  string         `json:"thorough_cmd"`
		EvidenceFile string         `json:"evidence_file"`
		Replay       string         `json:"replay_cmd_template"`
		Engine       string         `json:"engine"`
		Level        map[string]any `json:"level_claimed"`
		LevelNote    string         `json:"level_note"`
		Technique    string         `json:"technique"`
	}
	var ids []string
	for id := range PropRules {
		ids = append(ids, id)
	}
	sort.Strings(ids)
	var checks []check
	for _, id := range ids {
		m := PropMeta[id]
		checks = append(checks, check{
			PropertyID:   id,
			QuickCmd:     fmt.Sprintf("./bin/mqttverif check -p %s -tier quick", id),
			ThoroughCmd:  fmt.Sprintf("./bin/mqttverif check -p %s -tier thorough", id),
			EvidenceFile: fmt.Sprintf("/verif/evidence/%s.json", id),
			Replay:       "./bin/mqttverif explain {path}",
			Engine:       "mqttverif",
			Level: map[string]any{"category": "other", "design_ref": m.DesignRef,
				"text": m.Level},
			LevelNote: m.Note,
			Technique: m.Technique + " (rules " + strings.Join(PropRules[id], ", ") + ")",
		})
	}
	var na []map[string]string
	var naIDs []string
	for id := range notApplicable {
		naIDs = append(naIDs, id)
	}
	sort.Strings(naIDs)
	for _, id := range naIDs {
		na = append(na, map[string]string{"property_id": id, "reason": notApplicable[id]})
	}
	if na == nil {
		na = []map[string]string{}
	}
	man := map[string]any{
		"version":   1,
		"setup_cmd": "cd /verif/tool && GOFLAGS=-mod=vendor GOPROXY=off GOSUMDB=off GOTOOLCHAIN=local GOWORK=off go build -o /verif/bin/mqttverif ./cmd/mqttverif",
		"hooks": map[string]any{
			"guard":            "verif",
			"enable":           "none needed: static analysis reads the sources as they are; the loader passes -tags verif so that guarded files, should any appear, are analysed too",
			"baseline_off_cmd": "cd /repo && GOFLAGS=-mod=mod GOPROXY=off GOSUMDB=off go test -vet=off -count=1 ./...",
			"source_commits":   []string{},
			"add_only":         true,
		},
		"engines": []map[string]any{{
			"name": "mqttverif", "path": "/verif/tool", "serves_properties": ids,
			"kind_free_text": "repository-specific static analyser over go/packages + go/ssa: path-sensitive typestate and must-pass-through rules with false-path pruning, who-may/ownership rules over the resolved call graph, error-class value flow, constant/table agreement, compiler bounds-check listing",
		}},
		"checks":         checks,
		"not_applicable": na,
		"notes":          "All claims are level 'other': structural necessary conditions decided exhaustively over every path/site of the current source, never the run-time behaviour itself. See DESIGN.md §4 and §6.",
	}
	b, _ := json.MarshalIndent(man, "", " ")
	os.Stdout.Write(append(b, '\n'))
	return 0
}
