package rules

import (
	"go/token"

	"golang.org/x/tools/go/ssa"

	"mqttverif/internal/pathx"
)

// err5Defaults: ReadBackoff's bounds clauses (ERR-5) speak about the settings
// in force, and hold for any pair with 0 ≤ min ≤ max. The constructor
// establishes that pair from what the application configured: zero minimum →
// one second, negative minimum → zero, and "the maximum is raised to the
// effective minimum when short" — effective, that is after the default was
// applied. Decided on representative (min, max) pairs by running the paths of
// newClient on concrete values: the comparisons touch the two settings only
// against constants and each other, and the stores write constants or the
// other setting.
func (c *Ctx) err5Defaults() {
	nc := c.Fn("ERR-5", "newClient")
	if nc == nil {
		return
	}
	const sec = int64(1000000000)
	a := c.acc("ERR-5", nc, "effective-ReconnectWait-bounds(0≤min≤max;zero-min→1s)-decided-on-representative-settings")
	type pair struct{ min, max int64 }
	settings := []pair{{0, 0}, {0, sec / 10}, {0, 5 * sec}, {-1, 0}, {-5, -10}, {-1, 3 * sec}, {2 * sec, sec}, {sec, 2 * sec}, {3 * sec, 3 * sec}, {sec / 2, 0}}
	fieldOf := func(v ssa.Value) string {
		switch roleKey(v) {
		case "Config.ReconnectWaitMin", "Client.Config.ReconnectWaitMin":
			return "min"
		case "Config.ReconnectWaitMax", "Client.Config.ReconnectWaitMax":
			return "max"
		}
		return ""
	}
	for _, s := range settings {
		wantMin := s.min
		switch {
		case s.min == 0:
			wantMin = sec
		case s.min < 0:
			wantMin = 0
		}
		wantMax := s.max
		if wantMax < wantMin {
			wantMax = wantMin
		}
		seen := false
		for _, p := range c.Paths("ERR-5", nc) {
			if p.Start != nc.Blocks[0] || p.End != pathx.KReturn {
				continue
			}
			cur := map[string]int64{"min": s.min, "max": s.max}
			val := func(v ssa.Value) (int64, bool) {
				v = stripConv(v)
				if k, ok := intConst(v); ok {
					return k, true
				}
				if f := fieldOf(v); f != "" {
					return cur[f], true
				}
				return 0, false
			}
			feasible, decidable := true, true
			for i := range p.Events {
				e := &p.Events[i]
				switch e.Kind {
				case pathx.KAssume:
					cm, ok := cmpOf(e.Val, e.Truth)
					if !ok {
						continue
					}
					if fieldOf(cm.X) == "" && fieldOf(cm.Y) == "" {
						continue
					}
					x, okx := val(cm.X)
					y, oky := val(cm.Y)
					if !okx || !oky {
						decidable = false
						continue
					}
					h := false
					switch cm.Op {
					case token.EQL:
						h = x == y
					case token.NEQ:
						h = x != y
					case token.LSS:
						h = x < y
					case token.LEQ:
						h = x <= y
					case token.GTR:
						h = x > y
					case token.GEQ:
						h = x >= y
					}
					if !h {
						feasible = false
					}
				case pathx.KStore:
					f := ""
					switch pathx.RoleOfAddr(e.Addr).Key() {
					case "Config.ReconnectWaitMin", "Client.Config.ReconnectWaitMin":
						f = "min"
					case "Config.ReconnectWaitMax", "Client.Config.ReconnectWaitMax":
						f = "max"
					}
					if f == "" {
						continue
					}
					if v, ok := val(e.Val); ok {
						cur[f] = v
					} else {
						decidable = false
					}
				}
				if !feasible {
					break
				}
			}
			if !feasible {
				continue
			}
			seen = true
			switch {
			case !decidable:
				a.fail(p, len(p.Events)-1, "with ReconnectWaitMin %d and ReconnectWaitMax %d the constructor compares or assigns the settings in a way the evaluation does not follow", s.min, s.max)
			case cur["min"] != wantMin || cur["max"] != wantMax:
				a.fail(p, len(p.Events)-1, "with ReconnectWaitMin %dns and ReconnectWaitMax %dns configured the settings in force become min %dns, max %dns; documented: min %dns, max %dns (the maximum is raised to the effective minimum) — ReadBackoff's clamp then yields delays below the minimum", s.min, s.max, cur["min"], cur["max"], wantMin, wantMax)
			default:
				a.pass()
			}
		}
		if !seen {
			a.failAt(c.P.Pos(nc.Pos()), "no path of newClient is feasible for ReconnectWaitMin %d, ReconnectWaitMax %d", s.min, s.max)
		}
	}
	a.done(10, "for ten representative pairs every feasible path leaves 0 ≤ min ≤ max with the documented defaults")
}
