package rules

// Property registry: which rules decide which structural clauses
// (DESIGN.md §4), and the texts for MANIFEST.json and the evidence files.

func prop(id, title, design string, rules []string, technique, level, note, explanation string, assumptions []string) {
	PropRules[id] = rules
	PropMeta[id] = propMeta{Title: title, DesignRef: design, Level: level, Note: note, Technique: technique}
	PropInfo[id] = propInfo{Explanation: explanation, Assumptions: assumptions}
}

const (
	lvlCommon  = "Structural necessary conditions of the property, decided exhaustively over every control-flow path, call site and table row of the current source (level 'other'). The check proves that the ordering, locking, ownership and table disciplines the behaviour rests on hold on all paths — including the error, fault and shutdown paths no test reaches — and names the offending path or site otherwise. It does not observe behaviour: liveness, timing, numeric values and byte-for-byte results are not decided."
	noteCommon = "Trusted: go/types + x/tools go/ssa represent the program; Go channel/select/defer semantics; contracts of net.Conn, io.Writer, bufio, os.Rename/File.Sync, hash/fnv, utf8. Rule tables are transcribed from the source and the package documentation; an anchor that no longer resolves or a rule that finds fewer instances than confirmed by hand fails the check instead of passing vacuously."
)

var asmCommon = []string{
	"Go runtime semantics of channels, select, defer and goroutines",
	"net.Conn / io.Writer: a nil error means all bytes were written; bufio.Reader.Peek(n) with a nil error returns n bytes",
	"the user's Persistence and Dialer follow their documented contracts and do not call back into the client",
	"only structural necessary conditions are decided; behaviour under real schedules, networks and values is not observed",
}

func init() {
	prop("C01", "accepted QoS>=1 publishes are retransmitted until acknowledged", "§4 C01",
		[]string{"ORD-1", "ORD-2", "ORD-3", "ORD-5", "ORD-13", "TOK-1", "TOK-5", "OWN-3", "OWN-4", "OWN-5", "OWN-8", "OWN-9", "ERR-8", "TOK-15", "COD-11"},
		"path-sensitive must-pass-through and typestate over SSA; who-may rules",
		lvlCommon, noteCommon,
		"Decides on every path: accept order (capacity test → Save=nil → enqueue → acceptN++; error ⇒ nothing enqueued/counted/written; first write only without backlog), resend (ascending from the acknowledgement counter, Load=nil and found → write=nil per iteration, DUP condition, both resends nil before the connection is published, under both sequence tokens and the write token), acknowledgement handlers (Delete/Save=nil before counter++ before close/forward; error returns carry no effect), every stream/handler/Persistence error in readSlices resets the connection; token balance and lock order; who may write the counters, delete records and close exchanges. Third round: No error of the stream, a handler, the acknowledgement write, resend or the Persistence is stepped over (the next step happens with the error nil, is its return, or the reset); submitN becomes exactly seqNo+1; known functions do not inherit the ownership of their callers; Client.Config is read only. Fourth round: a sequence token goes back into the semaphore it was taken from (TOK-15); the identifier of a new message is composed from the accept count; the inbound marker key expressions agree (COD-11). Not decided: that the broker is eventually reached; payload bytes on the wire.",
		asmCommon)
	prop("C02", "restart resumes exactly the unacknowledged set", "§4 C02",
		[]string{"ADP-1", "ADP-4", "ADP-7", "ADP-8", "COD-1", "COD-8", "COD-9", "ORD-1", "ORD-3", "ORD-4", "OWN-8", "ADP-9", "COD-10", "ERR-8", "COD-11"},
		"path rules and sibling/table comparison on AdoptSession, cleanSequence and the record codec",
		lvlCommon, noteCommon,
		"Decides: the adopted client continues the storage sequence (seqNo seeded from the decoded maximum before newClient); counters and placeholders are computed from cleanSequence results on every path; the three wrap-around adjustments add publishIDMask+1 and compare with the start of their range; cleanSequence restarts at the first pair after a dropped prefix; record encode/decode tables agree; AdoptSession classifies every key space the Save sites use; PUBREL is saved before it is counted and is kept for retry only after a durable Save. Third round: The counters AdoptSession installs are first/last of the list that the guards of its appends identify (Acked, acceptN, Completed, Received, submitN; in that order, and whenever placeholders are queued for a non-empty list); the PUBREL→PUBLISH junction and the scan of cleanSequence are decided on twelve representative identifier pairs; the storage sequence seed is a running maximum; the client identifier record is neither deleted nor filed; a failed List/Load is never taken for a damaged record; List's filters hold on every path to an append. Not decided: equality of the recovered set with accepted-minus-acknowledged for arbitrary histories; counter arithmetic values.",
		asmCommon)
	prop("C03", "exactly-once publish", "§4 C03",
		[]string{"ORD-3", "ORD-4", "ORD-2", "ORD-1", "OWN-4", "OWN-9", "COD-1", "COD-12", "COD-3", "ADP-1", "ADP-8", "ADP-9", "TOK-15"},
		"path-sensitive must-pass-through; constant evaluation of identifier spaces; guard dominance",
		lvlCommon, noteCommon,
		"Decides: onPUBREC saves PUBREL (nil) before Received++ before the write, onPUBCOMP deletes (nil) before Completed++ before closing the exchange, in-order and depth guards dominate both; only submitPersisted and onPUBREC store under an exactly-once key; resend transmits what is stored with DUP only on PUBLISH; queue capacity ≤ identifier space and the ErrMax test dominates Save, so no identifier is reused before PUBCOMP; storage order survives adoption. Third round: The exactly-once accept count derives from the last PUBLISH key, or the last PUBREL key when no PUBLISH is pending, plus one (ADP-9); Completed/Received are installed first. Not decided: the broker-side consequence (forwards exactly once).",
		asmCommon)
	prop("C04", "exactly-once reception", "§4 C04",
		[]string{"ORD-4", "ORD-6", "COD-11", "OWN-3", "ORD-11", "ORD-7"},
		"path-sensitive must-pass-through over onPUBLISH, readSlices, onPUBREL; key-expression agreement",
		lvlCommon, noteCommon,
		"Decides: a QoS 2 delivery lies behind a marker Load that returned (nil,nil); every delivered QoS 1/2 message leaves the matching acknowledgement with the identifier parsed in the same call; a recognised duplicate is answered with PUBREC and not delivered; no error return leaves an acknowledgement queued (except the retried PUBREC of a duplicate); the flush saves the marker (nil) before PUBREC and truncates only behind a nil write; the read loop continues only with pendingAck empty; onPUBREL deletes (nil) before PUBCOMP regardless of the marker's existence; the three marker key expressions agree; toOffline keeps pendingAck. Third round: A flush without marker Save lies behind pendingAck[0]>>4 != typePUBREC; errDupe is never served and never returned to the application; the PUBREC for a duplicate carries the parsed identifier; a parked BigMessage is flushed and cleared at entry. Fourth round: handshake returns the one reader that read the CONNACK (bytes that arrive with it are not lost). Not decided: once-per-cycle delivery over histories with restarts (needs marker contents).",
		asmCommon)
	prop("C05", "acceptance order, DUP only on re-delivery", "§4 C05",
		[]string{"TOK-1", "TOK-5", "ORD-1", "ORD-2", "OWN-6", "OWN-2", "OWN-9", "COD-1", "COD-8", "ERR-8", "TOK-15"},
		"token typestate and lock-order graph; must-pass-through; who-may rules",
		lvlCommon, noteCommon,
		"Decides: the sequence token is held across Save, enqueue and first write on every path (released only by the deferred unlock); sequence tokens are acquired before the write token in submitPersisted and connect (acyclic order graph); a backlog forbids an overtaking write; resend ascends from the oldest unacknowledged with DUP iff seqNo<submitN and PUBLISH; nobody else sets DUP or writes to the wire. Third round: submitN becomes exactly seqNo+1 behind a nil write; resend and the accept path examine every error. Fourth round: a sequence token goes back into the semaphore it was taken from (TOK-15). Not decided: observed wire order under real schedules (follows from the above only given Go's channel semantics).",
		asmCommon)
	prop("C06", "inbound bytes exact under any fragmentation", "§4 C06",
		[]string{"ORD-11", "ORD-12", "ORD-13", "ORD-14", "ORD-6", "COD-4", "ERR-8", "ORD-4", "ORD-7"},
		"typestate of the peeked packet over all paths of readSlices; argument-shape rule for unchecked Discard; loop-carried-remainder rule",
		"A narrow structural claim (level 'other'): each peeked packet is skipped exactly once and never read stale, a parked BigMessage is served or cleared on every path, every error-ignoring Discard is provably within the buffer, and discard's retry resumes with the remainder. Byte equality of topic/payload per fragmentation is a run-time value claim and is not decided.",
		noteCommon,
		"Decides: typestate nil/pending/consumed of c.peek through readSlices (no double skip, peekPacket always entered with c.peek==nil so the progress baseline is not stale, back edges with c.peek==nil, delivered slices belong to a pending packet); a BigMessage set by errors.As is served, cleared or dropped by toOffline on every path; the four error-ignoring Discard calls have arguments of the form len(peek) or len(peek)−len(suffix); discard and writeTo carry the remainder around the retry edge, which lies behind count≠0 ∧ Timeout(). Not decided: byte equality of returned slices, Size arithmetic beyond the Discard form, behaviour per fragmentation.",
		asmCommon)
	prop("C07", "acknowledgements only after ownership", "§4 C07",
		[]string{"ORD-4", "ORD-6", "OWN-3", "ORD-11", "TOK-5"},
		"path-sensitive must-pass-through; who-may-write rule for pendingAck",
		lvlCommon, noteCommon,
		"Decides: onPUBLISH never writes to the wire while delivering and only queues the acknowledgement (matching type, identifier parsed in the same call); no error return leaves one queued for a message that was not returned; the flush dominates every peekPacket; pendingAck is truncated only behind a nil write and written only by its four owners; toOffline keeps it so that it is sent on the new connection. Third round: handshake (or any function outside the four owners) may not touch pendingAck even when all its callers are owners; a parked BigMessage is cleared unless served. Not decided: timing relative to the application's next call is implied by the flush being at function entry, not observed.",
		asmCommon)
	prop("C08", "whole packets only", "§4 C08",
		[]string{"TOK-1", "TOK-2", "TOK-4", "OWN-1", "OWN-2", "ORD-13", "ORD-8", "ORD-2", "ERR-7", "COD-6"},
		"token typestate with release-value rule; who-may rules; loop-carried-remainder rule",
		lvlCommon, noteCommon,
		"Decides: every wire write happens in writeTo/writeBuffersTo, called only by holders of the write token (or owners of an unpublished connection); after a failed or unchecked wire call the connection is never put back into writeSem; retry loops send exactly the unsent suffix (writeTo: p[n:]; writeBuffersTo: the receiver WriteTo already consumed is never re-sliced) and only after progress and a timeout; success is returned only behind a nil I/O result; DISCONNECT is the last write before Close; the connection is published only after both resends returned nil. Third round: Disconnect, like the request methods, returns an error derived from a failed write. Fourth round: no buffer of a multi-buffer packet is handed to a writer on its own (the write token would be released inside the packet); CONNECT size and bytes agree (COD-6). Not decided: the io.Writer contract of the user's net.Conn.",
		asmCommon)
	prop("C09", "emitted packets decode to the request; invalid input denied without trace", "§4 C09",
		[]string{"ORD-10", "COD-5", "COD-6", "COD-7", "COD-13", "ERR-4", "COD-1", "ORD-7"},
		"symbolic linear evaluation of size versus appended bytes per option path and loop iteration; dominance of validators; table checks",
		lvlCommon, noteCommon,
		"Decides: the four remaining-length encoders are structurally identical and encode exactly the value that was tested against packetMax; on every option combination and per loop iteration the remaining length equals the number of bytes appended after it (symbolic linear forms); every 16-bit length prefix is emitted for a string some validator bounds to 65,535; the CONNECT flag bits equal, on every option path, the set of optional fields emitted (Will QoS/Retain only with the Will Flag, Password only with User Name, bit 0 clear); stringCheck accepts only behind len ≤ stringMax judged at its boundary values, valid UTF-8 and a NUL search whose not-found result is told apart from position 0, topicCheck only non-empty strings that passed stringCheck; validators dominate the first side effect of every request method and constructor and no deny error is returned after one; validator sentinels are in denyErrs; identifier spaces are disjoint, non-zero and 16-bit. Not decided: full decode round-trip for all inputs, UTF-8 classification (utf8.ValidString trusted), that no valid argument is denied.",
		asmCommon)
	prop("C10", "the read routine never wedges", "§4 C10",
		[]string{"RCH-1", "OWN-7", "TOK-1", "TOK-4", "TOK-5", "TOK-6", "TOK-7", "TOK-11", "ORD-5", "ORD-6", "ORD-7", "ORD-13", "ORD-14", "ERR-5", "TOK-8", "TOK-14", "ERR-8"},
		"call-graph reachability; token typestate; must-pass-through; rendezvous rule",
		lvlCommon, noteCommon,
		"Decides: no function reachable from readSlices contains a wait-for-connect cycle (a CFG cycle through a receive from writeSem); read-routine fields and connect/toOffline/termCallbacks are confined to the read routine; failures are noticed (the connection is never redeposited after a failed write; every error return of readSlices except connect/marker-Save/BigMessage passes toOffline), toOffline closes, deposits connPending, clears readConn/bufr/peek/bigMessage and releases waiting requests after the token exchange; every failure exit of connect closes the new connection and deposits connDown; lock order acyclic, nothing foreign blocks under the write token, every goroutine rendezvous has its partner on all paths; callback channels never block the responder; ReadBackoff returns nil only for ErrClosed and otherwise a channel closed by a bounded timer. Third round: The read routine examines every error before it goes on; toOffline, Close and Disconnect close the connection before they wait for the write token; a blocked signal is followed by the release of the other; deadlines are armed only with PauseTimeout≠0 and removed by a deferred call; ReadBackoff: closed channel only for nil/BigMessage, timer closes the returned channel, duration within [Min, Max] through min/max or if-clamps, ramp-up state bounded, the no-backoff channel closed at init; the Dialer's context derives from the client's and carries PauseTimeout; a failure behind the dial closes the connection. Not decided: that a dial eventually succeeds; timing bounds.",
		asmCommon)
	prop("C11", "every request completes with its own response", "§4 C11",
		[]string{"TOK-9", "TOK-10", "TOK-11", "TOK-12", "TOK-13", "COD-3", "ORD-6", "ORD-8", "ERR-1", "ERR-3", "ERR-7"},
		"slot pairing and ownership typestate; alias classes of callback channels; error-class flow",
		lvlCommon, noteCommon,
		"Decides: after a slot is installed every exit received from its own callback or removed its own slot; the registry is accessed under its mutex, inserts are dominated by the window test and by a failed lookup of the same identifier; the answer goes to the channel and filters returned by the single endTx call keyed with the identifier parsed from that packet; callbacks are answered only after removal from their registry, with capacity ≥ the sends of a life cycle; toOffline and termCallbacks release all waiting requests with ErrBreak; error classes per method and quit ⇒ ErrCanceled/ErrAbandoned. Known finding F7 (Ping empties the shared slot without identity check) is reported as KNOWN-FINDING. Third round: A SUBACK return code 0x80 is counted, the count decides whether a SubscribeError is sent, and the error lists exactly the filters with code 0x80; the callback returned by endTx is used only when non-nil. Not decided: absence of starvation under real schedules.",
		asmCommon)
	prop("C12", "Close and Disconnect from any state", "§4 C12",
		[]string{"TOK-1", "TOK-2", "TOK-3", "TOK-7", "TOK-8", "TOK-11", "PAN-2", "PAN-4", "ORD-7", "ORD-8", "ERR-2", "TOK-14", "ORD-11", "ORD-6"},
		"token typestate (closer summaries, closed-aware receives); rendezvous rule; must-pass-through",
		lvlCommon, noteCommon,
		"Decides: Close/Disconnect cancel the context before waiting for connSem, take connSem, take or interrupt the writer, and close both tokens exactly once while holding both (a second call sees the closed channel and touches nothing); every receive from a closable token is comma-ok or under the closer's lock; the dialAndConnect watcher and the termCallbacks goroutines have their rendezvous partner on every path; signal flips happen under the write token with the opposite signal blocked first; no method is called on a connSignal or nil connection; ReadSlices calls termCallbacks on ErrClosed, queued exchanges get ErrClosed and stay open; DISCONNECT is the last packet; not-submitted classes imply no wire call. Third round: Close and Disconnect close the connection (or know there is none) before a plain receive of the write token; the connection is handed to connSem before the retransmission round; WaitGroup.Add precedes each go statement; a blocked signal is followed by the release of the other. Fourth round: toOffline drops the read state (readConn, bufr, peek, bigMessage) also when it finds the client closed, so that the next ReadSlices reaches connect and reports ErrClosed (F20, repaired); a parked BigMessage is cleared by readSlices itself on every exit. Not decided: 'promptly' as a time bound; goroutine-leak freedom beyond the spawned closures having exits on all paths.",
		asmCommon)
	prop("C13", "hostile broker input", "§4 C13",
		[]string{"COD-2", "COD-3", "COD-4", "PAN-1", "PAN-2", "PAN-4", "ERR-6", "ORD-5", "ORD-3", "OWN-4", "ORD-13", "ORD-14", "ERR-8", "ORD-11", "ORD-7", "ORD-6"},
		"dispatch exhaustiveness; guard dominance on entry paths; induction evaluation of the length loop; compiler bounds-check listing against a reasoned table",
		lvlCommon, noteCommon,
		"Decides: the head>>4 switch covers all sixteen types (eight handlers, eight sentinels wrapping errProtoReset); per handler the length, zero-identifier, identifier-space, next-in-line and queue-depth guards dominate the first effect; the remaining-length loop continues only while shift ≤ 14 (≤ 4 bytes); every bounds check the compiler could not prove matches a table row with its guard; validation failures wrap errProtoReset and every handler error resets the connection; completion and deletion happen only in the guarded in-order handlers; blocking reads follow a fresh deadline. Known finding F14 (ReadAll without deadline) is reported as KNOWN-FINDING. Third round: The length decode is evaluated exactly for shift 0…28 (four bytes read, each may end the decode, 0x7f/0x80 split); the PUBLISH length guards are exact (topic end ≤ len, len ≥ end+2); the bounds-check guards bound the indexed value itself; unproven checks in helpers introduced later are discharged by the precondition at every call. Fourth round: handshake returns the one reader that read the CONNACK; toOffline clears a parked BigMessage. Not decided: semantics for arbitrary bytes beyond these guards (tolerated unsolicited SUBACK/PINGRESP are deliberate).",
		asmCommon)
	prop("C14", "documented error classes; not-submitted means nothing sent", "§4 C14",
		[]string{"ERR-1", "ERR-2", "ERR-3", "ERR-4", "ERR-5", "ERR-6", "ERR-7", "ORD-1", "ERR-8"},
		"interprocedural error-class value flow (sentinels, %w, errors.Join, channel alias classes) plus path rules",
		lvlCommon, noteCommon,
		"Decides: every origin that can reach the error result of a request method carries at least one class the package documentation lists for it; values sent on callback channels never carry a not-submitted class and exchange channels only ErrDown/ErrSubmit/ErrClosed; a return of class ErrClosed/ErrDown/ErrMax/ErrCanceled/deny lies on a path without any wire-capable call other than the one that produced it; quit arms return exactly ErrCanceled before and ErrAbandoned after submission; deny and end tables are disjoint and complete; Backoff/ReadBackoff return nil exactly under the permanent classes; a persisted publish that errs was not enqueued. Known finding F9c (Disconnect returns the raw Close error) is reported as KNOWN-FINDING. Third round: nonNilIsAny answers false only with no sibling pending and pushes every Unwrap() []error; Disconnect's write error is returned; errors of I/O and Persistence calls are never stepped over. Not decided: the classifiers on arbitrarily wrapped/joined user errors.",
		asmCommon)
	prop("C15", "stored records round-trip; damage detected", "§4 C15",
		[]string{"COD-8", "OWN-4", "OWN-8", "OWN-9", "ADP-2", "ADP-3", "ORD-7", "ERR-8"},
		"writer/reader table comparison; who-may rules; path rules",
		lvlCommon, noteCommon,
		"Decides: encodeValue and decodeValue agree on hash constructor, byte orders, offsets (8/4/12) and hashed extent, the trailer buffer is per call, the length test dominates all slicing and acceptance requires both tests; the rugged Load returns a value only after a nil decode and reports absence only for a nil delegate result; every Persistence the client uses is rugged or volatile; AdoptSession decodes every listed key and deletes, warns and skips corrupt ones; the client identifier comes from a checked Load. Third round: initSession and the file store examine every List/Save/Load/OS error; the client identifier record is never deleted or filed by adoption. Not decided: that FNV-1a detects every single-byte change (a fact about hash/fnv, trusted); multi-byte damage.",
		asmCommon)
	prop("C16", "a damaged Persistence never bricks the session", "§4 C16",
		[]string{"ADP-1", "ADP-2", "ADP-3", "ADP-4", "ADP-5", "ADP-6", "ADP-7", "ADP-8", "ORD-2", "ORD-9", "COD-10", "ERR-8", "ADP-10"},
		"path rules and structural checks on AdoptSession and cleanSequence",
		lvlCommon, noteCommon,
		"Decides: every branch that warns also abandons what it names (corrupt record: delete+warn+continue before classification; PUBREL gap: list emptied; cleanSequence: prefix dropped and scan restarted at the first pair); every listed key is integrity checked; counters and placeholders come from cleanSequence results; capacity checks precede the placeholders and treat negative limits as default; fatal results stem only from Config, List, Load and the Max checks; wrap tests compare with the start of their range; resend needs the contiguity these establish. Third round: The Max checks compare the sum of the right lists after the last list update; the client identifier record is skipped before Delete and filing; the running maximum; the adjacency decisions on test vectors; List's filter. Fourth round: the client identifier record is not integrity-checked at adoption (ADP-10): known finding F21, reported as KNOWN-FINDING. Not decided: which records survive a given damage pattern; a damaged client-identifier record.",
		asmCommon)
	prop("C17", "identifiers unique and bounded; excess gets ErrMax", "§4 C17",
		[]string{"COD-1", "COD-12", "ORD-1", "ORD-3", "TOK-12", "ADP-5", "ADP-7", "ADP-9", "TOK-15"},
		"constant evaluation; dominance and path rules",
		lvlCommon, noteCommon,
		"Decides: the four identifier spaces are pairwise disjoint, exclude zero and fit 16 bits; both queue capacities are clamped to ≤ publishIDMask+1 on every path of newClient; the ErrMax test dominates Save and the non-blocking enqueue, and acceptN advances exactly once per accepted message; a queue slot is released only behind a nil Delete; startTx tests the window and skips identifiers still in use, under the mutex; AdoptSession's wrap adjustments and Max checks. Third round: The effective limit is decided for nine representative …Max settings (negative and oversized give publishIDMask+1, others are kept); the accept counts AdoptSession installs (ADP-9). Fourth round: the identifier of a new message is composed from the accept count, never the submit count (ORD-1); sequence tokens return to their own semaphore (TOK-15). Not decided: uniqueness as a statement over histories (follows from bounded window + modulus only with counter arithmetic, not checked numerically).",
		asmCommon)
	prop("C18", "connection set-up", "§4 C18",
		[]string{"ORD-7", "ORD-2", "TOK-1", "TOK-4", "ERR-2", "ERR-6", "ERR-8", "TOK-5"},
		"path-sensitive must-pass-through over connect, dialAndConnect, handshake, lockWrite",
		lvlCommon, noteCommon,
		"Decides: the first operation on a dialled connection is the write of newCONNREQ built from the passed Config and the client identifier from a checked Load; handshake succeeds only on paths that established both header bytes, Peek=nil, return code 0, flags ∈ {0,1} and session-present ⇒ ¬clean; CleanSession is cleared exactly when a previous connection existed, on the copy passed down; the connection reaches connSem/writeSem/readConn only after a nil dialAndConnect and, for writers, after both resends; every failure exit closes the connection and deposits connDown; lockWrite waits only on connPending, returns ErrDown only under connDown and the connection only after excluding both signals. Third round: A refused, malformed or missing CONNACK closes the connection on every path (handshake expanded in place; the abort watcher closes before it reports); handshake and dialAndConnect examine every error; the Dialer context. Not decided: CONNECT field values for every Config (structurally covered under C09).",
		asmCommon)
	prop("C19", "FileSystem atomicity", "§4 C19",
		[]string{"ORD-9", "COD-10", "ERR-8"},
		"must-pass-through over fileSystem.Save; who-may rule for file creation; format/filter agreement",
		lvlCommon, noteCommon,
		"Decides: the only success path of Save is Create(spoolFile(key)) → WriteTo=nil → Sync=nil → Close → Rename(spool, file(key))=nil; Rename is reachable only behind nil write and nil Sync; every failure after Create removes the spool file; no other function creates, opens for writing or renames files; Load and Delete map not-exist to absent; List accepts exactly five hex digits / 17 bits, which matches %05x and excludes *.spool. Third round: No error of Create/WriteTo/Sync/Rename/Remove/Open/Readdirnames is stepped over; a name is listed only behind len==5 and a nil ParseUint. Not decided: atomicity of rename(2) and durability of fsync(2) (trusted OS contract); concurrent Saves of the same key share one spool name (outside the stated property).",
		asmCommon)
	prop("C20", "mqtttest doubles", "§4 C20",
		[]string{"MCK-1", "MCK-2", "MCK-3", "MCK-4", "MCK-5", "MCK-6", "MCK-7"},
		"path enumeration over the finite truth table of each double's conditions",
		lvlCommon, noteCommon,
		"Decides: NewPublishMock reports exactly on the paths where message or topic differs; the subscribe mocks classify each filter (present ⇒ removed, absent ⇒ wrong) and report iff wrong or todo is non-empty; want[i] is only indexed behind i<len(want); a Cleanup reports unmet expectations; every double with a quit parameter examines it first and returns mqtt.ErrCanceled untouched; the ReadSlices stub returns per-call allocations; the exchange stub sends every scripted error and closes on exactly the exits that are neither after ErrClosed nor an indefinite block; explicit panics only in documented argument checks. Third round: The index is the atomic counter before its increment; an invocation beyond the list is reported (and fails, for ReadSlices); the stub's message is a sized copy; errFix is returned; the script validator is decided on positions (i, n) for nil entries, ErrClosed and indefinite blocks; a block entry with zero delay ends without close, others sleep. Fourth round: only the producer goroutine sends on or closes the exchange channel. Not decided: real-time aspects of ExchangeBlock.Delay.",
		asmCommon)
}
