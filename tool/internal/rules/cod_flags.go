package rules

import (
	"fmt"
	"go/token"
	"sort"
	"strings"

	"golang.org/x/tools/go/ssa"

	"mqttverif/internal/pathx"
)

// orBits evaluates, along the blocks of fn on path p, integer values that are
// built from constants with |: the set of bits, and whether it is exact.
type bitVal struct {
	bits  uint64
	exact bool
	ors   int // number of | operations that contributed
}

func orBits(p *pathx.Path, fn *ssa.Function) func(v ssa.Value) bitVal {
	choice := phiChoicesAll(p)
	binds := pathBindings(p)
	var eval func(v ssa.Value, d int) bitVal
	eval = func(v ssa.Value, d int) bitVal {
		v = stripConv(v)
		if d > 60 || v == nil {
			return bitVal{}
		}
		if b, ok := binds[v]; ok && b != v {
			return eval(b, d+1)
		}
		switch x := v.(type) {
		case *ssa.Const:
			if k, ok := intConst(x); ok && k >= 0 {
				return bitVal{bits: uint64(k), exact: true}
			}
		case *ssa.Phi:
			if e, ok := choice[x]; ok {
				return eval(e, d+1)
			}
		case *ssa.BinOp:
			if x.Op == token.OR {
				a, b := eval(x.X, d+1), eval(x.Y, d+1)
				return bitVal{bits: a.bits | b.bits, exact: a.exact && b.exact, ors: a.ors + b.ors + 1}
			}
		}
		return bitVal{}
	}
	return func(v ssa.Value) bitVal { return eval(v, 0) }
}

// cod7Flags: the CONNECT flags byte describes the payload that follows, on
// every path of newCONNREQ (MQTT 3.1.1 §3.1.2.3–3.1.2.9):
//
//	bit 2 (Will Flag)     ⇔ will topic and will message are emitted
//	bits 3–5 (Will QoS, Will Retain) only with bit 2; Will QoS ≠ 3
//	bit 7 (User Name)     ⇔ the user name field is emitted
//	bit 6 (Password)      ⇔ the password field is emitted; only with bit 7
//	bit 1 (Clean Session) ⇔ Config.CleanSession on that path
//	bit 0 reserved, zero
func (c *Ctx) cod7Flags() {
	enc := c.Fn("COD-7", "(*Config).newCONNREQ")
	if enc == nil {
		return
	}
	// "option omitted when nil" / "A nil Message disables the Will option": whether
	// the password and the Will go into CONNECT is a question of nil, not of
	// length — an empty password is a password, an empty will message a message
	{
		nl := c.acc("COD-7", enc, "Password-and-Will.Message-present⇔non-nil(not-non-empty)")
		seen := 0
		for _, b := range c.regionBlocks(enc) {
			for _, ins := range b.Instrs {
				bo, ok := ins.(*ssa.BinOp)
				if !ok {
					continue
				}
				switch bo.Op {
				case token.EQL, token.NEQ, token.GTR, token.LSS, token.GEQ, token.LEQ:
				default:
					continue
				}
				for _, side := range [][2]ssa.Value{{bo.X, bo.Y}, {bo.Y, bo.X}} {
					k := roleKey(side[0])
					if (k == "Config.Password" || k == "Config.Will.Message" || strings.HasSuffix(k, "Will.Message")) && pathx.IsNilConst(side[1]) {
						seen++
						nl.pass()
					}
					if arg, isLen := builtinCall(side[0], "len"); isLen && isK(side[1], 0) {
						if ak := roleKey(arg); ak == "Config.Password" || strings.HasSuffix(ak, "Will.Message") {
							nl.failAt(c.P.Pos(bo.Pos()), "whether %s goes into CONNECT is decided by its length (%s): the documentation says the option is omitted when nil — an empty, non-nil value is left out, and with an empty user name the user name flag goes with it", ak, bo.String())
						}
					}
				}
			}
		}
		nl.done(2, "the presence tests compare with nil")
		_ = seen
	}
	a := c.acc("COD-7", enc, "CONNECT-flags-describe-the-payload")
	for _, p := range c.Paths("COD-7", enc) {
		if p.Start != enc.Blocks[0] || p.End != pathx.KReturn {
			continue
		}
		bitsOf := orBits(p, enc)
		// the flags byte: a value built with | from constants only, stored into the packet
		var flags *bitVal
		fi := -1
		amb := false
		for i := range p.Events {
			e := &p.Events[i]
			if e.Kind != pathx.KStore || e.Fn != enc && !c.isNewHelper(e.Fn) {
				continue
			}
			st, ok := e.Instr.(*ssa.Store)
			if !ok {
				continue
			}
			if _, isElem := st.Addr.(*ssa.IndexAddr); !isElem {
				continue
			}
			if _, isConst := stripConv(st.Val).(*ssa.Const); isConst {
				continue
			}
			switch x := stripConv(st.Val).(type) {
			case *ssa.Phi, *ssa.BinOp, *ssa.Parameter, *ssa.Extract:
			case *ssa.Call:
				// the result of a helper introduced later (flags.headerByte())
				if f := x.Call.StaticCallee(); f == nil || !c.isNewHelper(f) {
					continue
				}
			default:
				continue
			}
			v := bitsOf(st.Val)
			if !v.exact {
				continue
			}
			if _, direct := stripConv(st.Val).(*ssa.BinOp); !direct && v.ors == 0 && v.bits != 0 {
				continue // a plain value handed through, not a set of flags
			}
			if flags != nil && flags.bits != v.bits {
				amb = true
			}
			vv := v
			flags, fi = &vv, i
		}
		if flags == nil || amb {
			a.fail(p, len(p.Events)-1, "the CONNECT flags byte could not be identified on this path (found: %v, ambiguous: %v)", flags != nil, amb)
			continue
		}
		// fields emitted
		emitted := map[string]bool{}
		for i := range p.Events {
			e := &p.Events[i]
			if e.Kind != pathx.KCall || e.Call == nil {
				continue
			}
			if bl, ok := e.Call.Value.(*ssa.Builtin); !ok || bl.Name() != "append" || len(e.Call.Args) != 2 {
				continue
			}
			k := canon(e.Call.Args[1])
			for _, f := range []string{"Will.Topic", "Will.Message", "UserName", "Password"} {
				if strings.HasSuffix(k, "Config."+f) || k == f {
					emitted[f] = true
				}
			}
		}
		clean, cleanKnown := false, false
		opt := map[string]bool{} // boolean Will options as decided on this path
		optKnown := map[string]bool{}
		for i := range p.Events {
			e := &p.Events[i]
			if e.Kind != pathx.KAssume {
				continue
			}
			switch k := canon(e.Val); k {
			case "Config.CleanSession":
				clean, cleanKnown = e.Truth, true
			case "Config.Will.Retain", "Config.Will.AtLeastOnce", "Config.Will.ExactlyOnce":
				opt[k], optKnown[k] = e.Truth, true
			}
		}
		b := flags.bits
		bit := func(n uint) bool { return b&(1<<n) != 0 }
		var bad []string
		will := emitted["Will.Topic"] && emitted["Will.Message"]
		if emitted["Will.Topic"] != emitted["Will.Message"] {
			bad = append(bad, "will topic and will message are not emitted together")
		}
		if bit(2) != will {
			bad = append(bad, fmt.Sprintf("Will Flag is %v but the will fields are emitted: %v", bit(2), will))
		}
		if !bit(2) && b&0x38 != 0 {
			bad = append(bad, fmt.Sprintf("Will QoS/Retain bits %#x are set without the Will Flag (MQTT-3.1.2-13, MQTT-3.1.2-15)", b&0x38))
		}
		if b&0x18 == 0x18 {
			bad = append(bad, "Will QoS 3")
		}
		if will {
			// Will QoS (bits 3–4) and Will Retain (bit 5) say what the Config says
			wantQoS := uint64(0)
			switch {
			case opt["Config.Will.ExactlyOnce"]:
				wantQoS = 2
			case opt["Config.Will.AtLeastOnce"]:
				wantQoS = 1
			}
			// the level must have been decided from the Config at all
			if !optKnown["Config.Will.ExactlyOnce"] || !opt["Config.Will.ExactlyOnce"] && !optKnown["Config.Will.AtLeastOnce"] {
				bad = append(bad, "the Will QoS is not decided from Config.Will.ExactlyOnce / AtLeastOnce on this path")
			}
			if !optKnown["Config.Will.Retain"] {
				bad = append(bad, "Will Retain is not decided from Config.Will.Retain on this path")
			}
			if got := b >> 3 & 3; got != wantQoS {
				bad = append(bad, fmt.Sprintf("Will QoS bits say %d on a path where the Config asks for %d (ExactlyOnce: %v, AtLeastOnce: %v)", got, wantQoS, opt["Config.Will.ExactlyOnce"], opt["Config.Will.AtLeastOnce"]))
			}
			if bit(5) != opt["Config.Will.Retain"] {
				bad = append(bad, fmt.Sprintf("Will Retain bit is %v on a path where Config.Will.Retain is %v", bit(5), opt["Config.Will.Retain"]))
			}
		}
		if bit(7) != emitted["UserName"] {
			bad = append(bad, fmt.Sprintf("User Name Flag is %v but the user name field is emitted: %v", bit(7), emitted["UserName"]))
		}
		if bit(6) != emitted["Password"] {
			bad = append(bad, fmt.Sprintf("Password Flag is %v but the password field is emitted: %v", bit(6), emitted["Password"]))
		}
		if bit(6) && !bit(7) {
			bad = append(bad, "Password Flag without User Name Flag (MQTT-3.1.2-22)")
		}
		if bit(0) {
			bad = append(bad, "reserved bit 0 set (MQTT-3.1.2-3)")
		}
		if cleanKnown && bit(1) != clean {
			bad = append(bad, fmt.Sprintf("Clean Session bit is %v on a path where Config.CleanSession is %v", bit(1), clean))
		}
		if !cleanKnown && bit(1) {
			bad = append(bad, "Clean Session bit set on a path that never consulted Config.CleanSession")
		}
		if b > 0xff {
			bad = append(bad, fmt.Sprintf("flags %#x exceed one byte", b))
		}
		if len(bad) == 0 {
			a.pass()
		} else {
			sort.Strings(bad)
			a.fail(p, fi, "CONNECT flags %#08b do not describe the packet on this path: %s", b, strings.Join(bad, "; "))
		}
	}
	a.done(8, "on every path the flag bits equal the set of optional fields emitted, Will QoS/Retain only with the Will Flag, bit 0 clear")
}
