package rules

import (
	"fmt"
	"go/types"
	"io"
	"sort"

	"golang.org/x/tools/go/ssa"

	"mqttverif/internal/load"
)

// ---- COD-14: integer narrowing happens only where it was confirmed ----
//
// Persistence keys (uint, 17 significant bits: packet identifier space plus
// the inbound flag), storage sequence numbers (uint64), sequence counters and
// sizes travel through the package as wide integers. A conversion to a
// narrower integer type drops bits; where that is intended (a byte of a
// length, the 16-bit packet identifier of a key) the site is listed here with
// the reason. Any other narrowing conversion — a map keyed by uint16 instead
// of uint, a sequence number kept as uint32 — is reported: two keys or two
// sequence numbers then collide or compare in the wrong order.
//
// A site is identified by the function (helpers introduced later count as
// the functions they are called from), the source and destination types and
// the role of the operand, not by line or spelling.

type narrowSite struct {
	fn       *ssa.Function
	from, to string
	what     string
	pos      string
}

func intBits(t types.Type) (bits int, ok bool) {
	b, isB := t.Underlying().(*types.Basic)
	if !isB || b.Info()&types.IsInteger == 0 {
		return 0, false
	}
	switch b.Kind() {
	case types.Int8, types.Uint8:
		return 8, true
	case types.Int16, types.Uint16:
		return 16, true
	case types.Int32, types.Uint32:
		return 32, true
	case types.Int64, types.Uint64, types.Int, types.Uint, types.Uintptr:
		return 64, true
	}
	return 0, false
}

func (c *Ctx) narrowSites(fns []*ssa.Function) []narrowSite {
	var out []narrowSite
	for _, fn := range fns {
		for _, b := range fn.Blocks {
			for _, ins := range b.Instrs {
				cv, ok := ins.(*ssa.Convert)
				if !ok {
					continue
				}
				fb, ok1 := intBits(cv.X.Type())
				tb, ok2 := intBits(cv.Type())
				if !ok1 || !ok2 || tb >= fb {
					continue
				}
				if _, isConst := cv.X.(*ssa.Const); isConst {
					continue
				}
				out = append(out, narrowSite{fn: fn, from: cv.X.Type().String(), to: cv.Type().String(), what: operandRole(cv.X), pos: c.P.Pos(cv.Pos())})
			}
		}
	}
	return out
}

// operandRole names what is being narrowed, independent of local names.
func operandRole(v ssa.Value) string {
	v = stripConv(v)
	if k := roleKey(v); k != "" {
		return k
	}
	switch x := v.(type) {
	case *ssa.Parameter:
		return "param:" + x.Type().String()
	case *ssa.BinOp:
		// shifts and masks of a value keep the value's role
		switch x.Op.String() {
		case ">>", "&", "|", "&^", "<<", "+", "-":
			l, r := operandRole(x.X), operandRole(x.Y)
			if _, isK := x.Y.(*ssa.Const); isK {
				return l + x.Op.String() + "k"
			}
			return l + x.Op.String() + r
		}
	case *ssa.Call:
		if b, ok := x.Call.Value.(*ssa.Builtin); ok {
			return b.Name() + "()"
		}
		if f := x.Call.StaticCallee(); f != nil {
			return "result:" + stdName(f)
		}
	case *ssa.Extract:
		if call, ok := x.Tuple.(*ssa.Call); ok {
			if f := call.Call.StaticCallee(); f != nil {
				return fmt.Sprintf("result#%d:%s", x.Index, stdName(f))
			}
		}
		return "extract"
	case *ssa.Phi:
		return "local:" + x.Type().String()
	case *ssa.UnOp:
		return "load:" + x.Type().String()
	case *ssa.Lookup, *ssa.Index:
		return "element:" + v.Type().String()
	}
	return "value:" + v.Type().String()
}

// DumpNarrow lists the narrowing conversions (development aid).
func DumpNarrow(w io.Writer, p *load.Program) {
	c := NewCtx(p, "debug", "quick")
	fns := append([]*ssa.Function{}, c.funcs...)
	fns = append(fns, c.testFuncs()...)
	var lines []string
	for _, s := range c.narrowSites(fns) {
		lines = append(lines, fmt.Sprintf("%-45s %-8s→ %-8s %-40s %s", load.FuncName(load.TopLevel(s.fn)), s.from, s.to, s.what, s.pos))
	}
	sort.Strings(lines)
	for _, l := range lines {
		fmt.Fprintln(w, l)
	}
}

func init() {
	register("COD-14", []string{"COD-14"}, func(c *Ctx, _ map[string]bool) { c.cod14() })
}

// boundedBits: an upper bound, in bits, on the value of v (64 when unknown).
func boundedBits(v ssa.Value, depth int) int {
	if depth > 10 {
		return 64
	}
	full, ok := intBits(v.Type())
	if !ok {
		return 64
	}
	switch x := v.(type) {
	case *ssa.Const:
		if k, ok := intConst(x); ok && k >= 0 {
			n := 0
			for k > 0 {
				n++
				k >>= 1
			}
			return n
		}
		return full
	case *ssa.Convert:
		if fb, ok := intBits(x.X.Type()); ok {
			b := boundedBits(x.X, depth+1)
			if fb < b {
				b = fb
			}
			if b < full {
				return b
			}
		}
		return full
	case *ssa.ChangeType:
		return boundedBits(x.X, depth+1)
	case *ssa.BinOp:
		l, r := boundedBits(x.X, depth+1), boundedBits(x.Y, depth+1)
		switch x.Op.String() {
		case "&":
			if r < l {
				return r
			}
			return l
		case "|", "^":
			if r > l {
				return r
			}
			return l
		case ">>":
			if k, ok := intConst(x.Y); ok && k >= 0 && int(k) <= l {
				return l - int(k)
			}
			return l
		case "&^":
			return l
		}
		return full
	case *ssa.Parameter:
		// an unexported function's parameter is as wide as what its callers pass
		if paramArgs != nil {
			if args := paramArgs(x); len(args) > 0 {
				m := 0
				for _, a := range args {
					if b := boundedBits(a, depth+1); b > m {
						m = b
					}
				}
				if m < full {
					return m
				}
			}
		}
		return full
	case *ssa.Phi:
		m := 0
		for _, e := range x.Edges {
			if e == ssa.Value(x) {
				continue
			}
			if b := boundedBits(e, depth+1); b > m {
				m = b
			}
		}
		return m
	}
	return full
}

// paramArgs gives, for a parameter of an unexported function all of whose
// uses are static calls inside the analysed packages, the arguments passed.
var paramArgs func(*ssa.Parameter) []ssa.Value

func (c *Ctx) cod14() {
	fns := append([]*ssa.Function{}, c.funcs...)
	fns = append(fns, c.testFuncs()...)
	paramArgs = func(pr *ssa.Parameter) []ssa.Value {
		f := pr.Parent()
		if f == nil || f.Object() == nil || f.Object().Exported() {
			return nil
		}
		idx := -1
		for i, q := range f.Params {
			if q == pr {
				idx = i
			}
		}
		// (no use as a value: every use is a call)
		var out []ssa.Value
		for _, g := range fns {
			for _, b := range g.Blocks {
				for _, ins := range b.Instrs {
					if ci, ok := ins.(ssa.CallInstruction); ok && ci.Common().StaticCallee() == f {
						if idx < len(ci.Common().Args) {
							out = append(out, ci.Common().Args[idx])
						}
						continue
					}
					for _, op := range ins.Operands(nil) {
						if *op == ssa.Value(f) {
							return nil
						}
					}
				}
			}
		}
		return out
	}
	defer func() { paramArgs = nil }()
	n, wide := 0, 0
	for _, s := range c.narrowSites(fns) {
		n++
		_ = s
	}
	for _, fn := range fns {
		a := c.acc("COD-14", fn, "no-narrowing-to-16/32-bits-of-a-value-not-bounded-to-them")
		for _, b := range fn.Blocks {
			for _, ins := range b.Instrs {
				cv, ok := ins.(*ssa.Convert)
				if !ok {
					continue
				}
				fb, ok1 := intBits(cv.X.Type())
				tb, ok2 := intBits(cv.Type())
				if !ok1 || !ok2 || tb >= fb || tb == 8 {
					continue // (a conversion to byte is how a value is cut into the bytes of a packet)
				}
				wide++
				if bb := boundedBits(cv.X, 0); bb <= tb || onlyEncoded(cv, 0) {
					a.pass()
				} else {
					a.failAt(c.P.Pos(cv.Pos()), "%s (%s, up to %d significant bits) is converted to %s: the bits that do not fit are dropped — two persistence keys, packet identifiers or storage sequence numbers that differ only there become the same value (or order the wrong way)", Expr(cv.X), cv.X.Type(), bb, cv.Type())
				}
			}
		}
		if a.n > 0 {
			a.done(0, "every conversion to a 16- or 32-bit integer has an operand masked or typed to fit")
		}
	}
	// the counterpart: arithmetic carried out in a narrow type wraps before
	// the result is widened (uint16(topicLen)+2 for a topic of 65534 bytes).
	// All sizes, offsets and counters of the package are computed in int or
	// uint; an addition, subtraction, multiplication or left shift in an 8-,
	// 16- or 32-bit type must have operands bounded so that the result fits.
	narrowArithSeen := false
	for _, fn := range fns {
		a := c.acc("COD-14", fn, "no-arithmetic-in-a-narrow-type-that-can-wrap")
		for _, b := range fn.Blocks {
			for _, ins := range b.Instrs {
				bo, ok := ins.(*ssa.BinOp)
				if !ok {
					continue
				}
				bits, isInt := intBits(bo.Type())
				if !isInt || bits >= 64 {
					continue
				}
				bx, by := boundedBits(bo.X, 0), boundedBits(bo.Y, 0)
				fits := true
				switch bo.Op.String() {
				case "+", "*", "<<", "-":
					narrowArithSeen = true
				}
				switch bo.Op.String() {
				case "+":
					m := bx
					if by > m {
						m = by
					}
					fits = m+1 <= bits
				case "*":
					fits = bx+by <= bits
				case "<<":
					k, isK := intConst(bo.Y)
					fits = isK && k >= 0 && bx+int(k) <= bits
				case "-":
					fits = false
				default:
					continue
				}
				if fits {
					a.pass()
				} else {
					a.failAt(c.P.Pos(bo.Pos()), "%s is computed in %s: with operands of up to %d and %d significant bits the result can wrap around before it is widened — a length or offset at the top of its range (a topic of 65534 or 65535 bytes, an identifier near 0xffff) comes out small, and the slicing or comparison that follows goes wrong", Expr(bo), bo.Type(), bx, by)
				}
			}
		}
		if a.n > 0 {
			a.done(0, "sizes, offsets and counters are computed in int/uint; narrow arithmetic is bounded")
		}
	}
	if !narrowArithSeen {
		c.S.OK("COD-14", "COD-14|package|no-arithmetic-in-a-narrow-type", "", "", "no +, -, * or << is computed in an integer type narrower than 64 bits anywhere in the two packages", true)
	}
	c.S.Floor("COD-14", "narrowing integer conversions examined (all widths)", n, 20)
	c.S.Floor("COD-14", "conversions to 16/32-bit integers judged", wide, 2)
}

// onlyEncoded: the narrowed value goes nowhere but into the bytes of a packet
// (binary.BigEndian.AppendUint16/PutUint16 and the like, or a cut into
// bytes) — the same thing as byte(v>>8), byte(v).
func onlyEncoded(v ssa.Value, depth int) bool {
	refs := v.Referrers()
	if refs == nil || len(*refs) == 0 || depth > 4 {
		return false
	}
	for _, r := range *refs {
		switch x := r.(type) {
		case *ssa.DebugRef:
		case *ssa.Call:
			f := x.Call.StaticCallee()
			if f == nil || f.Pkg == nil || f.Pkg.Pkg.Path() != "encoding/binary" {
				return false
			}
		case *ssa.Convert:
			if tb, ok := intBits(x.Type()); !ok || tb != 8 {
				return false
			}
		case *ssa.BinOp:
			if x.Op.String() != ">>" || x.X != v || !onlyEncoded(x, depth+1) {
				return false
			}
		default:
			return false
		}
	}
	return true
}

// DumpNarrowArith lists arithmetic carried out in a type narrower than 64 bits (development aid).
func DumpNarrowArith(w io.Writer, p *load.Program) {
	c := NewCtx(p, "debug", "quick")
	fns := append([]*ssa.Function{}, c.funcs...)
	fns = append(fns, c.testFuncs()...)
	for _, fn := range fns {
		for _, b := range fn.Blocks {
			for _, ins := range b.Instrs {
				bo, ok := ins.(*ssa.BinOp)
				if !ok {
					continue
				}
				switch bo.Op.String() {
				case "+", "-", "*", "<<":
				default:
					continue
				}
				bits, ok := intBits(bo.Type())
				if !ok || bits >= 64 {
					continue
				}
				fmt.Fprintf(w, "%-40s %-8s %s  [%d/%d bits] %s\n", load.FuncName(fn), bo.Type(), Expr(bo), boundedBits(bo.X, 0), boundedBits(bo.Y, 0), c.P.Pos(bo.Pos()))
			}
		}
	}
}
