package rules

import (
	"fmt"
	"go/token"
	"go/types"
	"sort"

	"golang.org/x/tools/go/ssa"

	"mqttverif/internal/load"

	"mqttverif/internal/pathx"
)

// ---- ADP-9: the counters AdoptSession reconstructs ----
//
// The pending records are collected into three lists, told apart here by the
// tests under which a key is appended (packet type and identifier space), not
// by their names. With ALO = at-least-once PUBLISH, EO = exactly-once PUBLISH,
// REL = PUBREL records, each in sequence order, every path must install
//
//	Acked                 = first(ALO)
//	atLeastOnce.acceptN   = last(ALO) + 1                      (+ wrap)
//	Completed             = first(REL) if REL non-empty, else first(EO)
//	Received              = last(REL) + 1 (+ wrap) if REL non-empty, else Completed
//	exactlyOnce.acceptN   = last(EO) + 1 if EO non-empty, else last(REL) + 1   (+ wrap)
//	submitN               = acceptN
//
// where first/last are the first and last element masked with publishIDMask.
// A counter off by one makes resend ask for a record that does not exist (the
// client never gets online) or hands an identifier in flight to a new message.

func init() {
	register("ADP-9", []string{"ADP-9"}, func(c *Ctx, _ map[string]bool) { c.adp9() })
}

type listKind string

const (
	listALO listKind = "at-least-once PUBLISH"
	listEO  listKind = "exactly-once PUBLISH"
	listREL listKind = "PUBREL"
)

// phiChoices gives, for the blocks of fn on p, the operand each phi took.
func phiChoices(p *pathx.Path, fn *ssa.Function) map[*ssa.Phi]ssa.Value {
	out := map[*ssa.Phi]ssa.Value{}
	blocks := p.AllBlocks
	if len(blocks) == 0 {
		blocks = p.Blocks
	}
	var pred *ssa.BasicBlock
	for _, b := range blocks {
		if b.Parent() != fn {
			continue
		}
		for _, ins := range b.Instrs {
			phi, ok := ins.(*ssa.Phi)
			if !ok {
				break
			}
			for i, pb := range b.Preds {
				if pb == pred && i < len(phi.Edges) {
					out[phi] = phi.Edges[i]
				}
			}
		}
		pred = b
	}
	return out
}

// phiChoicesAll: the same for every function entered on the path.
func phiChoicesAll(p *pathx.Path) map[*ssa.Phi]ssa.Value {
	out := map[*ssa.Phi]ssa.Value{}
	blocks := p.AllBlocks
	if len(blocks) == 0 {
		blocks = p.Blocks
	}
	pred := map[*ssa.Function]*ssa.BasicBlock{}
	for _, b := range blocks {
		f := b.Parent()
		for _, ins := range b.Instrs {
			phi, ok := ins.(*ssa.Phi)
			if !ok {
				break
			}
			for i, pb := range b.Preds {
				if pb == pred[f] && i < len(phi.Edges) {
					out[phi] = phi.Edges[i]
				}
			}
		}
		pred[f] = b
	}
	return out
}

// listClasses groups the []uint values and cells of fn that hold the same
// list as it is built up: phi operands, append and its first argument, slices
// of a list, the list-in/list-out helpers of the package (cleanSequence), and
// a local cell with what is stored to and loaded from it.
type listClasses struct{ parent map[ssa.Value]ssa.Value }

func (lc *listClasses) find(v ssa.Value) ssa.Value {
	if v == nil {
		return nil
	}
	p, ok := lc.parent[v]
	if !ok || p == v {
		return v
	}
	r := lc.find(p)
	lc.parent[v] = r
	return r
}

func (lc *listClasses) union(a, b ssa.Value) {
	if a == nil || b == nil {
		return
	}
	if k, ok := b.(*ssa.Const); ok && k.Value == nil {
		return
	}
	if k, ok := a.(*ssa.Const); ok && k.Value == nil {
		return
	}
	ra, rb := lc.find(a), lc.find(b)
	if ra != rb {
		lc.parent[ra] = rb
	}
}

func isUintList(t types.Type) bool {
	switch x := t.Underlying().(type) {
	case *types.Slice:
		b, ok := x.Elem().Underlying().(*types.Basic)
		return ok && b.Kind() == types.Uint
	case *types.Pointer:
		return isUintList(x.Elem()) && !isPtr(x.Elem())
	}
	return false
}

func isPtr(t types.Type) bool { _, ok := t.Underlying().(*types.Pointer); return ok }

func (c *Ctx) listClassesOf(fn *ssa.Function) *listClasses {
	lc := &listClasses{parent: map[ssa.Value]ssa.Value{}}
	for _, b := range fn.Blocks {
		for _, ins := range b.Instrs {
			switch x := ins.(type) {
			case *ssa.Phi:
				if isUintList(x.Type()) {
					for _, e := range x.Edges {
						lc.union(x, e)
					}
				}
			case *ssa.Call:
				if !isUintList(x.Type()) || len(x.Call.Args) == 0 || !isUintList(x.Call.Args[0].Type()) {
					continue
				}
				if bl, ok := x.Call.Value.(*ssa.Builtin); ok {
					if bl.Name() == "append" {
						lc.union(x, x.Call.Args[0])
					}
					continue
				}
				if f := x.Call.StaticCallee(); f != nil && load.TopLevel(f).Pkg == c.P.Root {
					lc.union(x, x.Call.Args[0])
				}
			case *ssa.Slice:
				if isUintList(x.Type()) {
					lc.union(x, x.X)
				}
			case *ssa.UnOp:
				if x.Op == token.MUL && isUintList(x.Type()) {
					if _, ok := x.X.(*ssa.Alloc); ok {
						lc.union(x, x.X)
					}
				}
			case *ssa.Store:
				if _, ok := x.Addr.(*ssa.Alloc); ok && isUintList(x.Val.Type()) {
					lc.union(x.Addr, x.Val)
				}
			case *ssa.ChangeType:
				if isUintList(x.Type()) {
					lc.union(x, x.X)
				}
			}
		}
	}
	return lc
}

func (c *Ctx) adp9() {
	ad := c.Fn("ADP-9", "AdoptSession")
	if ad == nil {
		return
	}
	pm := c.constInt("publishIDMask")
	pt := c.packetTypes()
	alo, eo := c.constInt("atLeastOnceIDSpace"), c.constInt("exactlyOnceIDSpace")
	paths := c.Paths("ADP-9", ad)

	// classify the lists by the guards of their appends
	lc := c.listClassesOf(ad)
	kinds := map[ssa.Value]listKind{}
	badMask := map[*ssa.BinOp]int64{}
	for _, p := range paths {
		for i := range p.Events {
			e := &p.Events[i]
			if e.Kind != pathx.KCall || !c.inRegion(ad, e) || e.Call == nil {
				continue
			}
			if bl, ok := e.Call.Value.(*ssa.Builtin); !ok || bl.Name() != "append" {
				continue
			}
			call, ok := e.Instr.(*ssa.Call)
			if !ok || !isUintList(call.Type()) {
				continue
			}
			cls := lc.find(call)
			isType := func(name string) bool {
				for _, cm := range assumed(p, 0, i) {
					if cm.Op == token.EQL && isK(cm.Y, pt[name]) {
						if bo, ok := stripConv(cm.X).(*ssa.BinOp); ok && bo.Op == token.SHR && isK(bo.Y, 4) {
							return true
						}
					}
				}
				return false
			}
			isSpace := func(sp int64) bool {
				for _, cm := range assumed(p, 0, i) {
					if cm.Op == token.EQL && isK(cm.Y, sp) {
						if bo, ok := stripConv(cm.X).(*ssa.BinOp); ok && (bo.Op == token.AND_NOT || bo.Op == token.AND) {
							// the identifier space is what is left of the key without the sequence
							// bits: all of publishIDMask cleared, nothing else
							if m, isK := intConst(bo.Y); isK {
								cleared := m
								if bo.Op == token.AND {
									cleared = ^m
								}
								if cleared&0xffff != pm {
									badMask[bo] = m
								}
							}
							return true
						}
					}
				}
				return false
			}
			switch {
			case isType("typePUBREL"):
				kinds[cls] = listREL
			case isType("typePUBLISH") && isSpace(alo):
				kinds[cls] = listALO
			case isType("typePUBLISH") && isSpace(eo):
				kinds[cls] = listEO
			}
		}
	}
	have := map[listKind]bool{}
	for _, k := range kinds {
		have[k] = true
	}
	if !have[listALO] || !have[listEO] || !have[listREL] {
		c.S.Unknown("ADP-9", "ADP-9|AdoptSession|lists", c.P.Pos(ad.Pos()), "AdoptSession", fmt.Sprintf("the three pending lists could not be told apart by the guards of their appends (found %v)", have))
		return
	}

	msk := c.acc("ADP-9", ad, "identifier-space-is-the-key-without-publishIDMask")
	for bo, m := range badMask {
		msk.failAt(c.P.Pos(bo.Pos()), "the identifier space of a stored key is taken with mask %#x, want every bit of publishIDMask (%#x) cleared and nothing else: sequence numbers beyond the mask land in no list (their records are never retransmitted) or in the wrong one", m, pm)
	}
	if len(badMask) == 0 {
		msk.pass()
	}
	msk.done(1, "both space tests clear exactly publishIDMask")
	jn := c.acc("ADP-9", ad, "PUBREL→PUBLISH-junction-decided-by-adjacency(test-vectors)")
	c.adp4Junction(ad, jn, lc, kinds)
	jn.done(12, "for each representative pair the junction keeps adjacent sequences and drops the others")
	accs := map[string]*acc{}
	get := func(name string) *acc {
		if accs[name] == nil {
			accs[name] = c.acc("ADP-9", ad, name)
		}
		return accs[name]
	}
	for _, n := range []string{"Acked=first(ALO)", "atLeastOnce.acceptN=last(ALO)+1", "Completed=first(REL|EO)", "Received=last(REL)+1|Completed", "exactlyOnce.acceptN=last(EO|REL)+1", "submitN=acceptN", "non-empty-list⇒its-counters-installed", "wrap-decided-against-the-start-of-the-range"} {
		get(n)
	}

	for _, p := range paths {
		choice := phiChoicesAll(p)
		binds := pathBindings(p)
		var expand func(v ssa.Value, d int) ssa.Value
		expand = func(v ssa.Value, d int) ssa.Value {
			v = stripConv(v)
			if d >= 20 {
				return v
			}
			if phi, ok := v.(*ssa.Phi); ok {
				if e, ok := choice[phi]; ok {
					return expand(e, d+1)
				}
			}
			// a helper introduced later: its parameter is the caller's argument, its result what it returned
			if b, ok := binds[v]; ok && b != v {
				return expand(b, d+1)
			}
			return v
		}
		cellOf := func(v ssa.Value) ssa.Value {
			v = expand(v, 0)
			if v == nil || !isUintList(v.Type()) {
				return nil
			}
			if k, ok := v.(*ssa.Const); ok && k.Value == nil {
				return nil
			}
			cls := lc.find(v)
			if _, ok := kinds[cls]; !ok {
				return nil
			}
			return cls
		}
		// masked element: (*&L[idx]) & publishIDMask
		elem := func(v ssa.Value) (cell ssa.Value, first, last bool) {
			v = expand(v, 0)
			bo, ok := v.(*ssa.BinOp)
			if !ok || bo.Op != token.AND || !isK(bo.Y, pm) {
				return nil, false, false
			}
			u, ok := expand(bo.X, 0).(*ssa.UnOp)
			if !ok || u.Op != token.MUL {
				return nil, false, false
			}
			ia, ok := u.X.(*ssa.IndexAddr)
			if !ok {
				return nil, false, false
			}
			cell = cellOf(ia.X)
			if cell == nil {
				return nil, false, false
			}
			idx := expand(ia.Index, 0)
			if isK(idx, 0) {
				return cell, true, false
			}
			if sub, ok := idx.(*ssa.BinOp); ok && sub.Op == token.SUB && isK(sub.Y, 1) {
				if arg, isLen := builtinCall(expand(sub.X, 0), "len"); isLen && cellOf(arg) == cell {
					return cell, false, true
				}
			}
			return cell, false, false
		}
		// strip "+ publishIDMask+1" (the wrap adjustment) and "+1"
		unwrap := func(v ssa.Value) ssa.Value {
			v = expand(v, 0)
			if bo, ok := v.(*ssa.BinOp); ok && bo.Op == token.ADD && isK(bo.Y, pm+1) {
				return expand(bo.X, 0)
			}
			return v
		}
		plus1 := func(v ssa.Value) (ssa.Value, bool) {
			v = unwrap(v)
			if bo, ok := v.(*ssa.BinOp); ok && bo.Op == token.ADD && isK(bo.Y, 1) {
				return unwrap(bo.X), true
			}
			return v, false
		}
		loadOf := func(v ssa.Value) string {
			if u, ok := expand(v, 0).(*ssa.UnOp); ok && u.Op == token.MUL {
				return pathx.RoleOfAddr(u.X).Key()
			}
			return ""
		}
		// emptiness facts of the lists on this path
		nonEmpty := map[listKind]bool{}
		empty := map[listKind]bool{}
		for _, cm := range assumed(p, 0, -1) {
			if !isK(cm.Y, 0) {
				continue
			}
			arg, isLen := builtinCall(cm.X, "len")
			if !isLen {
				continue
			}
			// (the class of the value as written: a phi is of the class of its non-nil operands)
			raw := stripConv(arg)
			rb := rawBindings(p)
			for d := 0; d < 4; d++ {
				b, bound := rb[raw]
				if !bound || b == raw {
					break
				}
				raw = stripConv(b)
			}
			cell := lc.find(raw)
			if _, ok := kinds[cell]; !ok {
				if cell = cellOf(arg); cell == nil {
					continue
				}
			}
			switch cm.Op {
			case token.NEQ:
				nonEmpty[kinds[cell]] = true
			case token.EQL:
				empty[kinds[cell]] = true
			}
		}
		stored := map[string]ssa.Value{}      // role → last value stored on this path
		firstStored := map[string]ssa.Value{} // role → first value stored on this path
		instanceOf := func(addr ssa.Value, upto int) string {
			fa, ok := addr.(*ssa.FieldAddr)
			if !ok {
				return ""
			}
			holder := fa.X
			// a sequence received by value lives in a local cell
			if al, ok := holder.(*ssa.Alloc); ok {
				for i := 0; i < upto; i++ {
					if e := &p.Events[i]; e.Kind == pathx.KStore && e.Addr == ssa.Value(al) {
						holder = e.Val
					}
				}
			}
			for i := range p.Events {
				e := &p.Events[i]
				if e.Kind == pathx.KRecv && (e.Result == holder || pathx.ResultAt(e.Result, 0) == holder) {
					r := pathx.RoleOfValue(e.Chan)
					switch {
					case r.Has("atLeastOnce"):
						return "atLeastOnce"
					case r.Has("exactlyOnce"):
						return "exactlyOnce"
					}
				}
			}
			return ""
		}
		var record func()
		for i := range p.Events {
			if record != nil {
				record()
				record = nil
			}
			e := &p.Events[i]
			if e.Kind != pathx.KStore || !c.inRegion(ad, e) {
				continue
			}
			st, ok := e.Instr.(*ssa.Store)
			if !ok {
				continue
			}
			role := pathx.RoleOfAddr(st.Addr).Key()
			val := st.Val
			// (recorded when the iteration is left, whichever way)
			if role != "" {
				roleNow, valNow, addrNow, iNow := role, val, st.Addr, i
				record = func() {
					stored[roleNow] = valNow
					if firstStored[roleNow] == nil {
						firstStored[roleNow] = valNow
					}
					if roleNow == "seq.acceptN" {
						stored["acceptN:"+instanceOf(addrNow, iNow)] = valNow
					}
				}
			}
			switch role {
			case "orderedTxs.Acked":
				a := get("Acked=first(ALO)")
				cell, first, _ := elem(val)
				if cell != nil && first && kinds[cell] == listALO {
					a.pass()
				} else {
					a.fail(p, i, "Acked is set to %s, want the first at-least-once PUBLISH key masked with publishIDMask", Expr(expand(val, 0)))
				}
			case "orderedTxs.Completed":
				a := get("Completed=first(REL|EO)")
				cell, first, _ := elem(val)
				switch {
				case cell == nil || !first:
					a.fail(p, i, "Completed is set to %s, want the first key of the exactly-once sequence", Expr(expand(val, 0)))
				case kinds[cell] == listREL && !empty[listREL]:
					a.pass()
				case kinds[cell] == listEO && empty[listREL]:
					a.pass()
				default:
					a.fail(p, i, "Completed is taken from the %s list on a path where the PUBREL list is empty: %v — the sequence starts with the PUBREL records when there are any", kinds[cell], empty[listREL])
				}
			case "orderedTxs.Received":
				a := get("Received=last(REL)+1|Completed")
				if loadOf(unwrap(val)) == "orderedTxs.Received" {
					continue // the wrap adjustment of the value judged at its first store
				}
				if stored["orderedTxs.Completed"] == nil {
					a.fail(p, i, "Received is installed before Completed on this path: what it is derived from, or compared with for the wrap, is still the zero value")
					continue
				}
				if loadOf(val) == "orderedTxs.Completed" || (stored["orderedTxs.Completed"] != nil && expand(val, 0) == expand(stored["orderedTxs.Completed"], 0)) {
					if empty[listREL] {
						a.pass()
					} else {
						a.fail(p, i, "Received is set to Completed although PUBREL records may be pending on this path")
					}
					continue
				}
				x, inc := plus1(val)
				cell, _, last := elem(x)
				if inc && cell != nil && last && kinds[cell] == listREL && !empty[listREL] {
					a.pass()
				} else {
					a.fail(p, i, "Received is set to %s, want the last PUBREL key masked with publishIDMask, plus one", Expr(expand(val, 0)))
				}
			case "seq.acceptN":
				inst := instanceOf(st.Addr, i)
				x, inc := plus1(val)
				cell, _, last := elem(x)
				switch {
				case inst == "atLeastOnce" && stored["orderedTxs.Acked"] == nil:
					get("atLeastOnce.acceptN=last(ALO)+1").fail(p, i, "the at-least-once accept count is installed on a path that has not installed Acked: resend starts at sequence number zero")
					continue
				case inst == "exactlyOnce" && (stored["orderedTxs.Completed"] == nil || stored["orderedTxs.Received"] == nil):
					get("exactlyOnce.acceptN=last(EO|REL)+1").fail(p, i, "the exactly-once accept count is installed on a path that has not installed both Completed and Received (Completed: %v, Received: %v)", stored["orderedTxs.Completed"] != nil, stored["orderedTxs.Received"] != nil)
					continue
				}
				switch inst {
				case "atLeastOnce":
					a := get("atLeastOnce.acceptN=last(ALO)+1")
					if inc && cell != nil && last && kinds[cell] == listALO {
						a.pass()
					} else {
						a.fail(p, i, "the at-least-once accept count is set to %s, want the last at-least-once PUBLISH key masked with publishIDMask, plus one", Expr(expand(val, 0)))
					}
				case "exactlyOnce":
					a := get("exactlyOnce.acceptN=last(EO|REL)+1")
					switch {
					case !inc || cell == nil || !last:
						a.fail(p, i, "the exactly-once accept count is set to %s, want the last key of the exactly-once sequence masked with publishIDMask, plus one: resend then asks for a record that is not there, or the next publish reuses an identifier in flight", Expr(expand(val, 0)))
					case kinds[cell] == listEO && nonEmpty[listEO]:
						a.pass()
					case kinds[cell] == listREL && empty[listEO] && !empty[listREL]:
						a.pass()
					default:
						a.fail(p, i, "the exactly-once accept count derives from the %s list on a path with (PUBLISH list non-empty: %v, empty: %v): the PUBLISH records come last in the sequence when there are any", kinds[cell], nonEmpty[listEO], empty[listEO])
					}
				default:
					get("exactlyOnce.acceptN=last(EO|REL)+1").fail(p, i, "a store to acceptN of a sequence that is not one of the two outbound sequences")
				}
			case "seq.submitN":
				a := get("submitN=acceptN")
				if loadOf(val) == "seq.acceptN" || (stored["seq.acceptN"] != nil && expand(val, 0) == expand(stored["seq.acceptN"], 0)) {
					a.pass()
				} else {
					a.fail(p, i, "submitN is set to %s, want the accept count: adopted records count as submitted (resend sets DUP)", Expr(expand(val, 0)))
				}
			}
		}
		// whoever queues placeholders (or returns the client) for a non-empty list has installed its counters
		if record != nil {
			record()
		}
		// the wrap adjustment is decided by comparing the value with the start of its own range
		{
			wr := get("wrap-decided-against-the-start-of-the-range")
			var canon func(v ssa.Value, d int) ssa.Value
			canon = func(v ssa.Value, d int) ssa.Value {
				v = expand(v, 0)
				if d > 6 {
					return v
				}
				if r := loadOf(v); r != "" && firstStored[r] != nil {
					return canon(firstStored[r], d+1)
				}
				return v
			}
			same := func(a, b ssa.Value) bool {
				a, b = canon(a, 0), canon(b, 0)
				if a == b {
					return true
				}
				ca, fa, la := elem(a)
				cb, fb, lb := elem(b)
				if ca != nil && ca == cb && fa == fb && la == lb && (fa || la) {
					return true
				}
				// last(L)+1 written twice
				if xa, ia := plus1(a); ia {
					if xb, ib := plus1(b); ib {
						ca, fa, la = elem(xa)
						cb, fb, lb = elem(xb)
						return ca != nil && ca == cb && fa == fb && la == lb && (fa || la)
					}
				}
				return false
			}
			subjects := []struct{ what, final, base string }{
				{"the at-least-once accept count", "acceptN:atLeastOnce", "orderedTxs.Acked"},
				{"the exactly-once accept count", "acceptN:exactlyOnce", "orderedTxs.Completed"},
				{"Received", "orderedTxs.Received", "orderedTxs.Completed"},
			}
			for _, sj := range subjects {
				fin := stored[sj.final]
				if fin == nil || stored[sj.base] == nil || firstStored[sj.base] == nil {
					continue
				}
				v := expand(fin, 0)
				if sj.final != "orderedTxs.Received" {
					if bo, ok := v.(*ssa.BinOp); ok && bo.Op == token.ADD && isK(bo.Y, 1) {
						v = expand(bo.X, 0)
					}
				} else if same(v, firstStored[sj.base]) {
					continue // Received = Completed: nothing to wrap
				}
				wrapped := false
				pre := v
				if bo, ok := v.(*ssa.BinOp); ok && bo.Op == token.ADD && isK(bo.Y, pm+1) {
					wrapped, pre = true, expand(bo.X, 0)
				}
				decided, right := false, false
				var other ssa.Value
				for _, cm := range assumed(p, 0, -1) {
					for _, k := range []cmp{cm, cm.swapped()} {
						if !same(k.X, pre) {
							continue
						}
						var lt bool
						switch k.Op {
						case token.LSS:
							lt = true
						case token.GEQ:
							lt = false
						default:
							continue
						}
						if lt != wrapped {
							continue
						}
						decided = true
						if same(k.Y, firstStored[sj.base]) {
							right = true
						} else {
							other = k.Y
						}
					}
				}
				switch {
				case right:
					wr.pass()
				case decided:
					wr.fail(p, len(p.Events)-1, "whether %s wraps around is decided by comparing with %s, want the start of its range (%s): a pending range that crosses the end of the identifier space is installed with the accept count below the acknowledge count, nothing is resent and identifiers in flight are handed out again", sj.what, Expr(canon(other, 0)), sj.base)
				default:
					wr.fail(p, len(p.Events)-1, "%s is installed (wrap adjustment applied: %v) on a path that has not compared it with the start of its range (%s)", sj.what, wrapped, sj.base)
				}
			}
		}
		goesOn := p.End == pathx.KReturn && retErr(p, len(p.Events)-1) == triNil
		for i := range p.Events {
			if e := &p.Events[i]; e.Kind == pathx.KSend && pathx.RoleOfValue(e.Chan).Key() == "outbound.queue" {
				goesOn = true
			}
		}
		// (the counters follow the construction of the client: only segments that contain it are judged)
		built := p.Index(0, func(e *pathx.Event) bool {
			return e.Kind == pathx.KCall && e.Callee != nil && e.Callee.Name() == "newClient"
		}) >= 0
		if goesOn && built {
			cov := get("non-empty-list⇒its-counters-installed")
			// (a list counts as pending unless the path has established that
			// it is empty: skipping the installation needs the proof)
			switch {
			case !empty[listALO] && stored["acceptN:atLeastOnce"] == nil:
				cov.fail(p, len(p.Events)-1, "at-least-once PUBLISH records can be pending on this path (known non-empty: %v), yet the at-least-once counters are not installed: nothing is retransmitted and the placeholders never complete", nonEmpty[listALO])
			case (!empty[listEO] || !empty[listREL]) && stored["acceptN:exactlyOnce"] == nil:
				cov.fail(p, len(p.Events)-1, "exactly-once records can be pending on this path (PUBLISH list known empty: %v, PUBREL list known empty: %v), yet the exactly-once counters are not installed: nothing is retransmitted, the placeholders never complete and the next publish reuses an identifier in flight", empty[listEO], empty[listREL])
			default:
				cov.pass()
			}
		}
	}
	c.adp9Sorted(ad, paths, lc, kinds)
	c.adp9Placeholders(ad, paths, lc, kinds)
	want := map[string]int{"non-empty-list⇒its-counters-installed": 2, "Acked=first(ALO)": 1, "atLeastOnce.acceptN=last(ALO)+1": 1, "Completed=first(REL|EO)": 2, "Received=last(REL)+1|Completed": 2, "exactlyOnce.acceptN=last(EO|REL)+1": 2, "submitN=acceptN": 2, "wrap-decided-against-the-start-of-the-range": 4}
	for n, a := range accs {
		a.done(want[n], "holds on every path that installs the counter")
	}
}

// ---- adjacency, decided on test vectors ----
//
// "Adjacent" — identifier n follows identifier p — is (n-p == 1) or the wrap
// (n == 0 and p == publishIDMask). Both places that use it (the scan of
// cleanSequence, the PUBREL→PUBLISH junction of AdoptSession) touch n and p
// only through comparisons with constants, so each is decided exactly on a
// handful of representative pairs: for every pair the paths whose comparisons
// the pair satisfies must keep the records when the pair is adjacent and drop
// (warn) when it is not.

type adjLeaf int

const (
	leafNone adjLeaf = iota
	leafN
	leafP
)

// pathBindings: what the values of callees expanded in place on p stand for
// in the caller: parameter → argument, and the call (or its extracted
// results) → what the callee returned on this path.
func pathBindings(p *pathx.Path) map[ssa.Value]ssa.Value {
	out := map[ssa.Value]ssa.Value{}
	type open struct {
		call *pathx.Event
		fn   *ssa.Function
	}
	var stack []open
	for i := range p.Events {
		e := &p.Events[i]
		switch e.Kind {
		case pathx.KEnter:
			if i == 0 {
				continue
			}
			call := &p.Events[i-1]
			if call.Kind != pathx.KCall || call.Callee != e.Callee {
				stack = append(stack, open{nil, e.Callee})
				continue
			}
			for k, pr := range e.Callee.Params {
				if k < len(call.Args) {
					out[pr] = call.Args[k]
				}
			}
			stack = append(stack, open{call, e.Callee})
		case pathx.KLeave:
			if len(stack) == 0 {
				continue
			}
			top := stack[len(stack)-1]
			stack = stack[:len(stack)-1]
			if top.call == nil {
				continue
			}
			ci, ok := top.call.Instr.(ssa.Value)
			if !ok {
				continue
			}
			switch len(e.Results) {
			case 0:
			case 1:
				out[ci] = e.Results[0]
			default:
				if refs := ci.Referrers(); refs != nil {
					for _, r := range *refs {
						if ex, ok := r.(*ssa.Extract); ok && ex.Index < len(e.Results) {
							out[ex] = e.Results[ex.Index]
						}
					}
				}
			}
		}
	}
	return out
}

// rawBindings: parameter → the operand as written at the call (not resolved
// along the path), for callees expanded in place.
func rawBindings(p *pathx.Path) map[ssa.Value]ssa.Value {
	out := map[ssa.Value]ssa.Value{}
	for i := range p.Events {
		e := &p.Events[i]
		if e.Kind != pathx.KEnter || i == 0 {
			continue
		}
		call := &p.Events[i-1]
		if call.Kind != pathx.KCall || call.Callee != e.Callee || call.Call == nil {
			continue
		}
		args := call.Call.Args
		for k, pr := range e.Callee.Params {
			if k < len(args) {
				out[pr] = args[k]
			}
		}
	}
	return out
}

// adjDecide evaluates the assumed comparisons of p over n and p's values.
// sat: every comparison that could be evaluated holds; used: at least one was.
func adjDecide(p *pathx.Path, fn *ssa.Function, classify func(v ssa.Value) adjLeaf, n, pv uint64, from, upto int) (sat, used bool) {
	choice := phiChoices(p, fn)
	binds := pathBindings(p)
	var eval func(v ssa.Value, d int) (uint64, bool)
	eval = func(v ssa.Value, d int) (uint64, bool) {
		if d > 16 || v == nil {
			return 0, false
		}
		v = stripConv(v)
		switch classify(v) {
		case leafN:
			return n, true
		case leafP:
			return pv, true
		}
		switch x := v.(type) {
		case *ssa.Const:
			if k, ok := intConst(x); ok {
				return uint64(k), true
			}
		case *ssa.Parameter:
			if b, ok := binds[x]; ok {
				return eval(b, d+1)
			}
		case *ssa.Phi:
			if e, ok := choice[x]; ok {
				return eval(e, d+1)
			}
		case *ssa.BinOp:
			a, ok1 := eval(x.X, d+1)
			b, ok2 := eval(x.Y, d+1)
			if !ok1 || !ok2 {
				return 0, false
			}
			switch x.Op {
			case token.SUB:
				return a - b, true
			case token.ADD:
				return a + b, true
			case token.AND:
				return a & b, true
			}
		}
		return 0, false
	}
	sat = true
	for i := from; i < upto && i < len(p.Events); i++ {
		e := &p.Events[i]
		if e.Kind != pathx.KAssume {
			continue
		}
		cm, ok := cmpOf(e.Val, e.Truth)
		if !ok {
			continue
		}
		a, ok1 := eval(cm.X, 0)
		b, ok2 := eval(cm.Y, 0)
		if !ok1 || !ok2 {
			continue
		}
		used = true
		var h bool
		switch cm.Op {
		case token.EQL:
			h = a == b
		case token.NEQ:
			h = a != b
		case token.LSS:
			h = a < b
		case token.LEQ:
			h = a <= b
		case token.GTR:
			h = a > b
		case token.GEQ:
			h = a >= b
		}
		if !h {
			sat = false
		}
	}
	return sat, used
}

func mustBinOp(v ssa.Value) *ssa.BinOp {
	for {
		u, ok := v.(*ssa.UnOp)
		if !ok || u.Op != token.NOT {
			break
		}
		v = u.X
	}
	b, _ := v.(*ssa.BinOp)
	if b == nil {
		return &ssa.BinOp{}
	}
	return b
}

func (c *Ctx) adjVectors() [][3]uint64 {
	pm := uint64(c.constInt("publishIDMask"))
	return [][3]uint64{{5, 4, 1}, {0, pm, 1}, {1, 0, 1}, {pm, pm - 1, 1}, {7, 4, 0}, {0, 4, 0}, {5, pm, 0}, {4, 4, 0}, {3, 4, 0}, {0, 0, 0}, {pm, 0, 0}, {1, pm, 0}}
}

// adp8Adjacency judges the scan of cleanSequence on the vectors.
func (c *Ctx) adp8Adjacency(clean *ssa.Function, a *acc) {
	pm := c.constInt("publishIDMask")
	// n = keys[i] & mask, p = keys[i-1] & mask
	classify := func(v ssa.Value) adjLeaf {
		bo, ok := v.(*ssa.BinOp)
		if !ok || bo.Op != token.AND || !isK(bo.Y, pm) {
			return leafNone
		}
		u, ok := stripConv(bo.X).(*ssa.UnOp)
		if !ok || u.Op != token.MUL {
			return leafNone
		}
		ia, ok := u.X.(*ssa.IndexAddr)
		if !ok {
			return leafNone
		}
		if sub, ok := stripConv(ia.Index).(*ssa.BinOp); ok && sub.Op == token.SUB && isK(sub.Y, 1) {
			return leafP
		}
		return leafN
	}
	for _, vec := range c.adjVectors() {
		kept, dropped := 0, 0
		var bad *pathx.Path
		for _, p := range c.Paths("ADP-8", clean) {
			if p.End != pathx.KLoopBack {
				continue
			}
			sat, used := adjDecide(p, clean, classify, vec[0], vec[1], 0, len(p.Events))
			if !used || !sat {
				continue
			}
			drop := p.Index(0, func(e *pathx.Event) bool { return isAppendTo(e, "[]error") }) >= 0
			if drop {
				dropped++
			} else {
				kept++
			}
			if drop == (vec[2] == 1) {
				bad = p
			}
		}
		switch {
		case kept+dropped == 0:
			a.failAt(c.P.Pos(clean.Pos()), "no iteration of the scan decides the pair (n=%d, p=%d): the adjacency test was not recognised", vec[0], vec[1])
		case bad != nil:
			a.fail(bad, len(bad.Events)-1, "for identifiers p=%d followed by n=%d the scan %s, want %s: 'adjacent' is n-p == 1 or the wrap from publishIDMask to 0", vec[1], vec[0], map[bool]string{true: "keeps the records", false: "reports a gap"}[vec[2] == 0], map[bool]string{true: "a gap", false: "no gap"}[vec[2] == 0])
		default:
			a.pass()
		}
	}
}

// adp4Junction judges the PUBREL→PUBLISH junction of AdoptSession on the vectors.
func goneKinds(m map[listKind]bool) []string {
	var out []string
	for k := range m {
		out = append(out, string(k))
	}
	sort.Strings(out)
	return out
}

func (c *Ctx) adp4Junction(ad *ssa.Function, a *acc, lc *listClasses, kinds map[ssa.Value]listKind) {
	pm := c.constInt("publishIDMask")
	dropList := c.acc("ADP-9", ad, "junction-gap⇒the-PUBREL-list-is-what-is-dropped")
	defer dropList.done(1, "on every path that warns about the junction the PUBREL list, and only it, is nil afterwards")
	for _, vec := range c.adjVectors() {
		kept, dropped := 0, 0
		var bad *pathx.Path
		for _, p := range c.Paths("ADP-9", ad) {
			choice := phiChoices(p, ad)
			expand := func(v ssa.Value) ssa.Value {
				for d := 0; d < 20; d++ {
					v = stripConv(v)
					phi, ok := v.(*ssa.Phi)
					if !ok || choice[phi] == nil {
						break
					}
					v = choice[phi]
				}
				return v
			}
			// n = first(EO) & mask, p = last(REL) & mask
			classify := func(v ssa.Value) adjLeaf {
				bo, ok := v.(*ssa.BinOp)
				if !ok || bo.Op != token.AND || !isK(bo.Y, pm) {
					return leafNone
				}
				u, ok := expand(bo.X).(*ssa.UnOp)
				if !ok || u.Op != token.MUL {
					return leafNone
				}
				ia, ok := u.X.(*ssa.IndexAddr)
				if !ok {
					return leafNone
				}
				base := expand(ia.X)
				if base == nil || !isUintList(base.Type()) {
					return leafNone
				}
				switch kinds[lc.find(base)] {
				case listEO:
					if isK(expand(ia.Index), 0) {
						return leafN
					}
				case listREL:
					// the last element: index len(L)-1 of the very list that is indexed
					if sub, ok := expand(ia.Index).(*ssa.BinOp); ok && sub.Op == token.SUB && isK(sub.Y, 1) {
						if arg, isLen := builtinCall(expand(sub.X), "len"); isLen && lc.find(expand(arg)) == lc.find(base) {
							return leafP
						}
					}
				}
				return leafNone
			}
			// the junction decision ends where the counters begin: stop at the first counter store / newClient
			upto := len(p.Events)
			for i := range p.Events {
				e := &p.Events[i]
				if e.Kind == pathx.KCall && e.Callee != nil && e.Callee.Name() == "newClient" {
					upto = i
					break
				}
			}
			sat, used := adjDecide(p, ad, classify, vec[0], vec[1], 0, upto)
			if !used || !sat {
				continue
			}
			// both n and p must have been consulted (a path that compared only one of them decides nothing)
			usedN, usedP := false, false
			for i := 0; i < upto; i++ {
				e := &p.Events[i]
				if e.Kind != pathx.KAssume {
					continue
				}
				var walk func(v ssa.Value, d int)
				binds := pathBindings(p)
				walk = func(v ssa.Value, d int) {
					if d > 10 || v == nil {
						return
					}
					v = stripConv(v)
					switch classify(v) {
					case leafN:
						usedN = true
						return
					case leafP:
						usedP = true
						return
					}
					switch x := v.(type) {
					case *ssa.BinOp:
						walk(x.X, d+1)
						walk(x.Y, d+1)
					case *ssa.Parameter:
						walk(binds[x], d+1)
					case *ssa.Phi:
						walk(choice[x], d+1)
					case *ssa.UnOp:
						if x.Op == token.NOT {
							walk(x.X, d+1)
						}
					}
				}
				walk(e.Val, 0)
			}
			if !usedN || !usedP {
				continue
			}
			drop := false
			iWarn := -1
			for i := 0; i < upto; i++ {
				if isAppendTo(&p.Events[i], "[]error") {
					// a warning that names the junction: issued after both were consulted
					drop = true
					iWarn = i
				}
			}
			if drop {
				dropped++
				// what is dropped is the PUBREL list (the older part: it cannot be
				// resumed without the PUBLISH records that follow) — the list that
				// is nil behind the warning is that one, and only that one
				gone := map[listKind]bool{}
				for j, b := range p.Blocks {
					if j >= len(p.BlockEv) || p.BlockEv[j] <= iWarn || b.Parent() != ad {
						continue
					}
					for _, ins := range b.Instrs {
						phi, isPhi := ins.(*ssa.Phi)
						if !isPhi {
							break
						}
						if !isUintList(phi.Type()) || choice[phi] == nil || !pathx.IsNilConst(choice[phi]) {
							continue
						}
						if k, has := kinds[lc.find(phi)]; has {
							gone[k] = true
						}
					}
				}
				// (a list captured by a closure lives in a cell: the drop is a store of nil)
				for i := iWarn + 1; i < upto; i++ {
					e := &p.Events[i]
					if e.Kind != pathx.KStore || !pathx.IsNilConst(e.Val) {
						continue
					}
					if al, isCell := e.Addr.(*ssa.Alloc); isCell && isUintList(al.Type()) {
						if k, has := kinds[lc.find(al)]; has {
							gone[k] = true
						}
					}
				}
				if (gone[listEO] || gone[listALO] || !gone[listREL]) && dropList != nil {
					dropList.fail(p, iWarn, "behind the warning about a gap between the last PUBREL and the first exactly-once PUBLISH the lists set to nil are %v, want the PUBREL list and nothing else: the records the warning names stay adopted, and the ones that are dropped are dropped in silence", goneKinds(gone))
				} else if dropList != nil {
					dropList.pass()
				}
			} else {
				kept++
			}
			if drop == (vec[2] == 1) {
				bad = p
			}
		}
		switch {
		case kept+dropped == 0:
			a.failAt(c.P.Pos(ad.Pos()), "no path of AdoptSession decides the PUBREL→PUBLISH junction for (n=%d, p=%d): the continuity test between the last PUBREL and the first exactly-once PUBLISH was not recognised", vec[0], vec[1])
		case bad != nil:
			a.fail(bad, len(bad.Events)-1, "with the last PUBREL p=%d and the first exactly-once PUBLISH n=%d the junction %s, want %s", vec[1], vec[0], map[bool]string{true: "is accepted", false: "drops the PUBREL records"}[vec[2] == 0], map[bool]string{true: "a gap (drop)", false: "continuity"}[vec[2] == 0])
		default:
			a.pass()
		}
	}
}

// adp9Sorted: the continuity check speaks about the order in which the
// records were saved. Each of the three lists reaches cleanSequence sorted by
// the storage sequence number its records carry (List gives no order):
// on every path a sort.Slice of the same list precedes the cleaning, and its
// less function compares the sequence numbers decodeValue returned for the
// two keys.
func (c *Ctx) adp9Sorted(ad *ssa.Function, paths []*pathx.Path, lc *listClasses, kinds map[ssa.Value]listKind) {
	clean := c.P.Func("cleanSequence")
	dec := c.P.Func("decodeValue")
	if clean == nil || dec == nil {
		return
	}
	a := c.acc("ADP-9", ad, "cleanSequence-receives-the-list-sorted-by-storage-sequence")
	// the cell a captured variable stands for
	bound := func(v ssa.Value) ssa.Value {
		fv, ok := v.(*ssa.FreeVar)
		if !ok {
			return v
		}
		fn := fv.Parent()
		for i, x := range fn.FreeVars {
			if x == fv {
				for _, mc := range closureSites(fn) {
					if i < len(mc.Bindings) {
						return mc.Bindings[i]
					}
				}
			}
		}
		return v
	}
	// what a less function orders by: (list, map) when it returns M[L[i]] < M[L[j]]
	lessShape := func(f *ssa.Function) (list, m ssa.Value, ok bool) {
		if f == nil || len(f.Params) != 2 {
			return nil, nil, false
		}
		side := func(v ssa.Value, idx *ssa.Parameter) (ssa.Value, ssa.Value, bool) {
			v = stripConv(v)
			if ex, isEx := v.(*ssa.Extract); isEx {
				v = ex.Tuple
			}
			lk, isL := v.(*ssa.Lookup)
			if !isL {
				return nil, nil, false
			}
			u, isU := stripConv(lk.Index).(*ssa.UnOp)
			if !isU || u.Op != token.MUL {
				return nil, nil, false
			}
			ia, isIA := u.X.(*ssa.IndexAddr)
			if !isIA || stripConv(ia.Index) != ssa.Value(idx) {
				return nil, nil, false
			}
			l := ia.X
			if lu, isLoad := l.(*ssa.UnOp); isLoad && lu.Op == token.MUL {
				l = lu.X
			}
			mm := lk.X
			if mu, isLoad := mm.(*ssa.UnOp); isLoad && mu.Op == token.MUL {
				mm = mu.X
			}
			return bound(l), bound(mm), true
		}
		for _, b := range f.Blocks {
			for _, ins := range b.Instrs {
				r, isR := ins.(*ssa.Return)
				if !isR || len(r.Results) != 1 {
					continue
				}
				bo, isB := stripConv(r.Results[0]).(*ssa.BinOp)
				if !isB {
					return nil, nil, false
				}
				x, y := bo.X, bo.Y
				switch bo.Op {
				case token.LSS, token.LEQ:
				case token.GTR, token.GEQ:
					x, y = y, x
				default:
					return nil, nil, false
				}
				l1, m1, ok1 := side(x, f.Params[0])
				l2, m2, ok2 := side(y, f.Params[1])
				if !ok1 || !ok2 || l1 != l2 || m1 != m2 {
					return nil, nil, false
				}
				return l1, m1, true
			}
		}
		return nil, nil, false
	}
	// the map that receives decodeValue's sequence number
	seqMap := func(m ssa.Value) bool {
		for _, b := range c.regionBlocks(ad) {
			for _, ins := range b.Instrs {
				mu, ok := ins.(*ssa.MapUpdate)
				if !ok {
					continue
				}
				mm := mu.Map
				if u, isLoad := mm.(*ssa.UnOp); isLoad && u.Op == token.MUL {
					mm = u.X
				}
				if bound(mm) != m && mm != m {
					continue
				}
				if ex, isEx := stripConv(mu.Value).(*ssa.Extract); isEx && ex.Index == 1 {
					if call, isCall := ex.Tuple.(*ssa.Call); isCall && call.Call.StaticCallee() == dec {
						return true
					}
				}
			}
		}
		return false
	}
	isNilList := func(v ssa.Value) bool {
		k, ok := stripConv(v).(*ssa.Const)
		return ok && k.Value == nil
	}
	var resolved ssa.Value
	// resolve follows a value on the path: through interface boxes, the phi
	// operands taken, a helper's parameters and results, and the local cells
	// of a helper (a parameter captured by a function literal is copied into
	// one) by the last store ahead of event upto.
	resolve := func(p *pathx.Path, v ssa.Value, upto int) ssa.Value {
		binds := pathBindings(p)
		choice := phiChoicesAll(p)
		for d := 0; d < 24; d++ {
			v = stripConv(v)
			if mi, ok := v.(*ssa.MakeInterface); ok {
				v = mi.X
				continue
			}
			if phi, ok := v.(*ssa.Phi); ok {
				if e, ok := choice[phi]; ok {
					v = e
					continue
				}
			}
			if b, ok := binds[v]; ok && b != v {
				v = b
				continue
			}
			cell := v
			if u, ok := v.(*ssa.UnOp); ok && u.Op == token.MUL {
				cell = u.X
			}
			{
				if al, ok := cell.(*ssa.Alloc); ok && al.Parent() != ad {
					var last ssa.Value
					for i := 0; i < upto && i < len(p.Events); i++ {
						if e := &p.Events[i]; e.Kind == pathx.KStore && e.Addr == ssa.Value(al) {
							last = e.Val
						}
					}
					if last != nil {
						v = last
						continue
					}
				}
			}
			break
		}
		return v
	}
	classOfAt := func(p *pathx.Path, v ssa.Value, upto int) ssa.Value {
		v = resolve(p, v, upto)
		resolved = v
		cls := lc.find(v)
		if _, ok := kinds[cls]; ok {
			return cls
		}
		return nil
	}
	for _, p := range paths {
		sorted := map[ssa.Value]bool{}
		for i := range p.Events {
			e := &p.Events[i]
			if e.Kind != pathx.KCall {
				continue
			}
			if (isStd(e, "sort.Slice") || isStd(e, "sort.SliceStable")) && len(e.Args) == 2 {
				cls := classOfAt(p, e.Args[0], i)
				if cls == nil {
					continue
				}
				var lf *ssa.Function
				switch x := e.Args[1].(type) {
				case *ssa.MakeClosure:
					lf, _ = x.Fn.(*ssa.Function)
				case *ssa.Function:
					lf = x
				}
				l, m, ok := lessShape(lf)
				if !ok {
					a.fail(p, i, "the %s list is sorted by something else than the storage sequence numbers of its keys (less function not of the form seq[list[i]] < seq[list[j]])", kinds[cls])
					continue
				}
				if lcls := lc.find(resolve(p, loadOfCell(l), i)); lcls != cls {
					// the literal indexes the variable it captured: same class as the sorted value
					if _, known := kinds[lcls]; known {
						a.fail(p, i, "the %s list is sorted with a less function that looks at the %s list", kinds[cls], kinds[lcls])
						continue
					}
				}
				if !seqMap(m) && !seqMap(cellOrValue(resolve(p, loadOfCell(m), i))) {
					a.fail(p, i, "the %s list is sorted by a map that does not hold the sequence numbers decodeValue returned", kinds[cls])
					continue
				}
				sorted[cls] = true
			}
			if e.Callee == clean && len(e.Args) > 0 {
				cls := classOfAt(p, e.Args[0], i)
				if cls == nil {
					if isNilList(resolved) {
						continue // nothing was filed in this list on this path: no order to speak of
					}
					a.fail(p, i, "cleanSequence is given a list the rule cannot identify")
					continue
				}
				if sorted[cls] {
					a.pass()
				} else {
					a.fail(p, i, "the %s list reaches the continuity check in the order List returned its keys: a session whose store lists records in any other order than they were saved loses them as 'gaps' (or resumes them in the wrong order)", kinds[cls])
				}
			}
		}
	}
	a.done(3, "each list is sorted by seq[key] ahead of cleanSequence on every path")
}

// loadOfCell: a synthetic "current content" reference to a cell, for resolve.
func loadOfCell(v ssa.Value) ssa.Value {
	if al, ok := v.(*ssa.Alloc); ok {
		if refs := al.Referrers(); refs != nil {
			for _, r := range *refs {
				if u, ok := r.(*ssa.UnOp); ok && u.Op == token.MUL {
					return u
				}
			}
		}
	}
	return v
}

// cellOrValue: the cell behind a load, or the value itself.
func cellOrValue(v ssa.Value) ssa.Value {
	if u, ok := v.(*ssa.UnOp); ok && u.Op == token.MUL {
		return u.X
	}
	return v
}

// adp9Placeholders: every adopted record gets one callback placeholder in the
// queue of its own sequence, so that the acknowledgement that arrives for it
// finds an entry to close and the capacity test of the next publish counts it.
// The at-least-once queue is fed by one loop over the at-least-once PUBLISH
// list; the exactly-once queue by one loop over the PUBREL list and one over
// the exactly-once PUBLISH list. A loop over the wrong list queues too few
// (the PUBCOMP of an adopted PUBREL finds the queue empty: the connection is
// reset on every attempt) or too many (the surplus never completes and eats
// into ExactlyOnceMax for good).
func (c *Ctx) adp9Placeholders(ad *ssa.Function, paths []*pathx.Path, lc *listClasses, kinds map[ssa.Value]listKind) {
	a := c.acc("ADP-9", ad, "one-placeholder-per-adopted-record-in-the-queue-of-its-sequence")
	type feed struct {
		inst string
		kind listKind
	}
	seen := map[ssa.Instruction][]feed{}
	for _, p := range paths {
		// (the segment that starts at the loop's own header holds the loop condition and nothing older)
		if p.End != pathx.KLoopBack || len(ad.Blocks) == 0 || p.Start == ad.Blocks[0] {
			continue
		}
		binds := pathBindings(p)
		kindOf := func(arg ssa.Value) listKind {
			v := stripConv(arg)
			for d := 0; d < 6; d++ {
				b, ok := binds[v]
				if !ok || b == v {
					break
				}
				v = stripConv(b)
			}
			return kinds[lc.find(v)]
		}
		// the lists whose lengths make up a bound: len(L), or len(A)+len(B)
		var lens func(v ssa.Value, d int) []listKind
		lens = func(v ssa.Value, d int) []listKind {
			v = stripConv(v)
			if d > 4 {
				return nil
			}
			if arg, isLen := builtinCall(v, "len"); isLen {
				if k := kindOf(arg); k != "" {
					return []listKind{k}
				}
				return nil
			}
			if bo, ok := v.(*ssa.BinOp); ok && bo.Op == token.ADD {
				return append(lens(bo.X, d+1), lens(bo.Y, d+1)...)
			}
			return nil
		}
		for i := range p.Events {
			e := &p.Events[i]
			if e.Kind != pathx.KSend || !c.inRegion(ad, e) || pathx.RoleOfValue(e.Chan).Key() != "outbound.queue" {
				continue
			}
			r := pathx.RoleOfValue(e.Chan)
			inst := ""
			switch {
			case r.Has("atLeastOnce"):
				inst = "atLeastOnce"
			case r.Has("exactlyOnce"):
				inst = "exactlyOnce"
			}
			var ks []listKind
			for _, cm := range assumed(p, 0, -1) {
				for _, k := range []cmp{cm, cm.swapped()} {
					switch {
					case k.Op == token.LSS:
						// index < len(L)
						if got := lens(k.Y, 0); len(got) > 0 {
							ks = got
						}
					case k.Op == token.GTR && isK(k.Y, 0):
						// a countdown from len(A)+len(B)
						if phi, ok := stripConv(k.X).(*ssa.Phi); ok {
							for _, ed := range phi.Edges {
								if got := lens(ed, 0); len(got) > 0 {
									ks = got
								}
							}
						}
					}
				}
			}
			var fs []feed
			for _, k := range ks {
				fs = append(fs, feed{inst, k})
			}
			if len(fs) == 0 {
				fs = []feed{{inst, ""}}
			}
			if old, dup := seen[e.Instr]; !dup || (len(old) == 1 && old[0].kind == "") {
				seen[e.Instr] = fs
			}
		}
	}
	got := map[feed]int{}
	for ins, fs := range seen {
		for _, f := range fs {
			if f.kind == "" || f.inst == "" {
				a.failAt(c.P.Pos(ins.Pos()), "a placeholder is queued in a loop that is not bounded by one of the three pending lists (queue: %q, list: %q)", f.inst, f.kind)
				continue
			}
			got[f]++
		}
	}
	if len(seen) == 0 {
		a.failAt(c.P.Pos(ad.Pos()), "no loop of AdoptSession queues placeholders")
	}
	want := []feed{{"atLeastOnce", listALO}, {"exactlyOnce", listEO}, {"exactlyOnce", listREL}}
	ok := true
	for _, w := range want {
		if got[w] != 1 {
			ok = false
			a.failAt(c.P.Pos(ad.Pos()), "the %s queue is fed by %d loop(s) over the %s list, want exactly one: every adopted record needs its placeholder, in the queue its acknowledgement will look at", w.inst, got[w], w.kind)
		}
		delete(got, w)
	}
	for f, n := range got {
		ok = false
		a.failAt(c.P.Pos(ad.Pos()), "the %s queue is fed by %d loop(s) over the %s list: records of the other sequence are counted here", f.inst, n, f.kind)
	}
	if ok {
		a.pass()
	}
	a.done(1, "atLeastOnce ← at-least-once PUBLISH list; exactlyOnce ← PUBREL list and exactly-once PUBLISH list, one loop each")
}
