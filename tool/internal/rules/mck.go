package rules

import (
	"go/token"
	"go/types"
	"strings"

	"golang.org/x/tools/go/ssa"

	"mqttverif/internal/load"
	"mqttverif/internal/pathx"
)

func init() {
	register("MCK", []string{"MCK-1", "MCK-2", "MCK-3", "MCK-4", "MCK-5", "MCK-6"}, (*Ctx).mck)
}

func isTB(e *pathx.Event, name string) bool {
	return e.Kind == pathx.KCall && e.Method != nil && e.Method.Name() == name && strings.HasSuffix(recvTypeName(e.Method), "TB")
}

func (c *Ctx) testFuncs() []*ssa.Function { return c.P.SourceFuncs(c.P.Test) }

// closuresOf lists the anonymous functions (at any depth) of top-level name.
func (c *Ctx) closuresOf(name string) []*ssa.Function {
	var out []*ssa.Function
	for _, f := range c.testFuncs() {
		if f.Parent() != nil && load.FuncName(load.TopLevel(f)) == name {
			out = append(out, f)
		}
	}
	return out
}

func hasParam(f *ssa.Function, name string) *ssa.Parameter {
	for _, p := range f.Params {
		if p.Name() == name {
			return p
		}
	}
	return nil
}

func (c *Ctx) mck(which map[string]bool) {
	if which["MCK-1"] {
		// NewPublishMock: Errorf iff message or topic differs
		n := 0
		for _, cl := range c.closuresOf("NewPublishMock") {
			if paramOfType(cl, "[]byte") == nil || paramOfType(cl, "string") == nil {
				continue
			}
			n++
			a := c.acc("MCK-1", cl, "mismatch-reported-iff-message-or-topic-differs")
			for _, p := range c.Paths("MCK-1", cl) {
				if p.End != pathx.KReturn {
					continue
				}
				var msgEq, topEq *bool
				for i := range p.Events {
					e := &p.Events[i]
					if isStd(e, "bytes.Equal") {
						if rel, _, k := p.Known(e.Result, i, -1); k {
							v := rel == pathx.RTrue
							msgEq = &v
						}
					}
					if e.Kind == pathx.KAssume {
						if cm, ok := cmpOf(e.Val, e.Truth); ok && (cm.Op == token.EQL || cm.Op == token.NEQ) {
							if isParamOfType(cm.X, "string") || isParamOfType(cm.Y, "string") {
								v := cm.Op == token.EQL
								topEq = &v
							}
						}
					}
				}
				if msgEq == nil && topEq == nil {
					// quit / unwanted paths never reach want[i]; a path that did
					// take an expectation must compare it
					took := false
					for _, b := range p.Blocks {
						for _, ins := range b.Instrs {
							if ia, ok := ins.(*ssa.IndexAddr); ok {
								if u, ok := ia.X.(*ssa.UnOp); ok {
									if fv, ok := u.X.(*ssa.FreeVar); ok && isWantVar(fv) {
										took = true
									}
								}
							}
						}
					}
					if took {
						a.fail(p, len(p.Events)-1, "an expectation is taken but the invocation is not compared with it on this path")
					}
					continue
				}
				// the comparison report: an Errorf after the comparison
				ic := p.Index(0, func(e *pathx.Event) bool { return isStd(e, "bytes.Equal") })
				rep := p.Index(ic+1, func(e *pathx.Event) bool { return isTB(e, "Errorf") }) >= 0
				differs := msgEq != nil && !*msgEq || topEq != nil && !*topEq
				// short circuit: an unevaluated atom on a reporting path is fine
				switch {
				case differs && !rep:
					a.fail(p, len(p.Events)-1, "the mock stays silent although the invocation differs from the expectation (message equal: %s, topic equal: %s)", showB(msgEq), showB(topEq))
				case !differs && rep:
					a.fail(p, len(p.Events)-1, "the mock reports a failure for a matching invocation")
				default:
					a.pass()
				}
			}
			a.done(3, "reported exactly on the paths where an atom differs")
		}
		c.S.Floor("MCK-1", "publish mock closures", n, 1)

		// subscribe mock: set comparison
		for _, cl := range c.closuresOf("newSubscribeMock") {
			if paramOfType(cl, "[]string") == nil {
				continue
			}
			a := c.acc("MCK-1", cl, "filter-set-compared:extra⇒wrong,present⇒removed;non-empty-wrong/todo⇒Errorf")
			for _, p := range c.Paths("MCK-1", cl) {
				// classification inside the loop
				for i := range p.Events {
					e := &p.Events[i]
					if e.Kind == pathx.KLookup && e.OkVal != nil {
						rel, _, k := p.Known(e.OkVal, i, -1)
						if !k {
							continue
						}
						del := p.Index(i, func(x *pathx.Event) bool {
							if x.Kind != pathx.KCall || x.Call == nil {
								return false
							}
							b, ok := x.Call.Value.(*ssa.Builtin)
							return ok && b.Name() == "delete"
						}) >= 0
						app := p.Index(i, func(x *pathx.Event) bool { return isAppendTo(x, "[]string") }) >= 0
						if rel == pathx.RTrue && del && !app || rel == pathx.RFalse && app && !del {
							a.pass()
						} else if p.End == pathx.KLoopBack {
							a.fail(p, i, "a filter that is %s the expectation is handled wrongly (removed: %v, noted as wrong: %v)", map[bool]string{true: "in", false: "not in"}[rel == pathx.RTrue], del, app)
						}
					}
				}
				if p.End == pathx.KReturn {
					took := false
					for _, b := range p.Blocks {
						for _, ins := range b.Instrs {
							if ia, ok := ins.(*ssa.IndexAddr); ok {
								if u, ok := ia.X.(*ssa.UnOp); ok {
									if fv, ok := u.X.(*ssa.FreeVar); ok && isWantVar(fv) {
										took = true
									}
								}
							}
						}
					}
					tests := 0
					for _, cm := range assumed(p, 0, -1) {
						if arg, isLen := builtinCall(cm.X, "len"); isLen && isK(cm.Y, 0) {
							ts := arg.Type().String()
							if _, isP := arg.(*ssa.Parameter); !isP && (ts == "[]string" || strings.HasPrefix(ts, "map[string]")) {
								tests++
							}
						}
					}
					if took && tests < 2 {
						a.fail(p, len(p.Events)-1, "an expectation is taken but the call returns without comparing the filter set (tests of wrong/todo seen: %d)", tests)
					} else if took {
						a.pass()
					}
				}
				// reports
				for i := range p.Events {
					e := &p.Events[i]
					if e.Kind != pathx.KAssume {
						continue
					}
					cm, ok := cmpOf(e.Val, e.Truth)
					if !ok || !isK(cm.Y, 0) {
						continue
					}
					arg, isLen := builtinCall(cm.X, "len")
					if !isLen {
						continue
					}
					ts := arg.Type().String()
					if ts != "[]string" && !strings.HasPrefix(ts, "map[string]") {
						continue
					}
					if _, isP := arg.(*ssa.Parameter); isP {
						continue
					}
					next := p.Index(i+1, func(x *pathx.Event) bool {
						return x.Kind == pathx.KAssume || x.Kind == pathx.KReturn || x.Kind == pathx.KLoopBack || isTB(x, "Errorf")
					})
					rep := next >= 0 && isTB(&p.Events[next], "Errorf")
					if strings.HasPrefix(ts, "map[") && cm.Op == token.NEQ {
						// the missing filters are collected in a loop before the report
						rep = p.End == pathx.KLoopBack || p.Index(i+1, func(x *pathx.Event) bool { return isTB(x, "Errorf") }) >= 0
					}
					if (cm.Op == token.NEQ) == rep {
						a.pass()
					} else {
						a.fail(p, i, "len(%s) %s 0 but the mock %s", Expr(arg), cm.Op, map[bool]string{true: "reports", false: "stays silent"}[rep])
					}
				}
			}
			a.done(4, "per filter: present ⇒ delete, absent ⇒ wrong; afterwards Errorf iff wrong or todo is non-empty")
		}
	}

	if which["MCK-2"] {
		n := 0
		for _, f := range c.testFuncs() {
			if f.Parent() == nil {
				continue
			}
			for _, b := range f.Blocks {
				for _, ins := range b.Instrs {
					ia, ok := ins.(*ssa.IndexAddr)
					if !ok {
						continue
					}
					// want[i]: want is a captured variable
					base := ia.X
					if u, ok := base.(*ssa.UnOp); ok {
						base = u.X
					}
					fv, ok := base.(*ssa.FreeVar)
					if !ok || fv.Name() != "want" {
						continue
					}
					n++
					a := c.acc("MCK-2", f, "want[i]-only-behind-i<len(want)")
					for _, p := range c.Paths("MCK-2", f) {
						if p.Start != f.Blocks[0] {
							continue
						}
						for j, pb := range p.Blocks {
							if pb != b {
								continue
							}
							ok := false
							for _, cm := range assumed(p, 0, p.BlockEv[j]) {
								for _, k := range []cmp{cm, cm.swapped()} {
									if k.Op == token.LSS && stripConv(k.X) == stripConv(ia.Index) {
										ok = true
									}
									if k.Op == token.LSS {
										if _, isLen := builtinCall(k.Y, "len"); isLen && sameValue(k.X, ia.Index) {
											ok = true
										}
									}
								}
							}
							if ok {
								a.pass()
							} else {
								a.fail(p, p.BlockEv[j], "the expectation list is indexed on a path that has not established index < len(want): an excess invocation is reported and then panics with index out of range")
							}
						}
					}
					a.done(1, "every path to the indexing established the bound")
				}
			}
		}
		c.S.Floor("MCK-2", "indexed expectation lists", n, 3)
	}

	if which["MCK-3"] {
		for _, name := range []string{"NewReadSlicesMock", "NewPublishMock", "newSubscribeMock"} {
			fn := c.TestFn("MCK-3", name)
			if fn == nil {
				continue
			}
			a := c.acc("MCK-3", fn, "Cleanup-reports-unmet-expectations")
			reg := false
			for _, p := range c.Paths("MCK-3", fn) {
				if p.Index(0, func(e *pathx.Event) bool { return isTB(e, "Cleanup") }) >= 0 {
					reg = true
				}
			}
			okCl := false
			for _, cl := range c.closuresOf(name) {
				if len(cl.Params) != 0 {
					continue
				}
				for _, p := range c.Paths("MCK-3", cl) {
					ie := p.Index(0, func(e *pathx.Event) bool { return isTB(e, "Errorf") })
					if ie < 0 {
						continue
					}
					for _, cm := range assumed(p, 0, ie) {
						if (cm.Op == token.GTR || cm.Op == token.NEQ) && isK(cm.Y, 0) {
							if sub, ok := stripConv(cm.X).(*ssa.BinOp); ok && sub.Op == token.SUB {
								if _, isLen := builtinCall(finalValue(sub.X), "len"); isLen {
									okCl = true
								}
							}
						}
					}
				}
			}
			if reg && okCl {
				a.pass()
			} else {
				a.failAt(c.P.Pos(fn.Pos()), "the mock does not register a Cleanup that reports len(want) − calls > 0 (registered: %v, reports: %v): too few invocations go unnoticed", reg, okCl)
			}
			a.done(1, "t.Cleanup registered; it reports when fewer calls than expectations were made")
		}
	}

	if which["MCK-4"] {
		n := 0
		for _, f := range c.testFuncs() {
			q := paramOfType(f, "<-chan struct{}")
			if q == nil || f.Parent() == nil {
				continue
			}
			n++
			a := c.acc("MCK-4", f, "closed-quit⇒ErrCanceled-before-anything-is-consumed")
			for _, p := range c.Paths("MCK-4", f) {
				if p.End != pathx.KReturn || p.Start != f.Blocks[0] {
					continue
				}
				iq := p.Index(0, func(e *pathx.Event) bool { return e.Kind == pathx.KRecv && e.Chan == ssa.Value(q) })
				isel := p.Index(0, func(e *pathx.Event) bool {
					if e.Kind != pathx.KSelect {
						return false
					}
					for _, ch := range e.Args {
						if ch == ssa.Value(q) {
							return true
						}
					}
					return false
				})
				consume := p.Index(0, func(e *pathx.Event) bool {
					return isStd(e, "sync/atomic.AddUint64") || isTB(e, "Errorf") || isTB(e, "Error")
				})
				last := len(p.Events) - 1
				switch {
				case isel < 0:
					// argument checks (panic/Fatalf) may precede; a path that returns without ever looking at quit is wrong
					if p.Index(0, func(e *pathx.Event) bool { return isTB(e, "Fatalf") }) >= 0 {
						continue
					}
					a.fail(p, last, "the double returns without looking at quit")
				case iq >= 0:
					r := p.Events[last].Results
					if len(r) == 1 && isGlobalOf(r[0], "ErrCanceled") && (consume < 0 || consume > iq) && consume < 0 {
						a.pass()
					} else {
						a.fail(p, last, "a closed quit does not yield mqtt.ErrCanceled untouched (returned %s, expectation consumed: %v)", Expr(r[0]), consume >= 0)
					}
				default:
					if consume >= 0 && consume < isel {
						a.fail(p, consume, "an expectation is consumed (or a failure reported) before quit is examined: a cancelled call shifts every later expectation")
					} else {
						a.pass()
					}
				}
			}
			a.done(2, "quit is examined first; its arm returns mqtt.ErrCanceled and touches nothing")
		}
		c.S.Floor("MCK-4", "doubles with a quit parameter", n, 4)
	}

	if which["MCK-5"] {
		n := 0
		for _, cl := range c.closuresOf("NewReadSlicesStub") {
			n++
			a := c.acc("MCK-5", cl, "returned-slices-are-allocated-per-call")
			for _, b := range cl.Blocks {
				for _, ins := range b.Instrs {
					r, ok := ins.(*ssa.Return)
					if !ok {
						continue
					}
					for i := 0; i < 2 && i < len(r.Results); i++ {
						v := r.Results[i]
						fresh := false
						switch x := v.(type) {
						case *ssa.MakeSlice:
							fresh = x.Parent() == cl
						case *ssa.Convert:
							// string → []byte allocates
							_, toSlice := x.Type().Underlying().(*types.Slice)
							fresh = toSlice && x.Parent() == cl
						case *ssa.Slice:
							if al, ok := x.X.(*ssa.Alloc); ok {
								fresh = al.Parent() == cl
							}
						}
						if fresh {
							a.pass()
						} else {
							a.failAt(c.P.Pos(r.Pos()), "result %d (%s) is not allocated inside the call: successive invocations hand out the same backing array, unlike ReadSlices copies promised by the stub", i, Expr(v))
						}
					}
				}
			}
			a.done(2, "message and topic are fresh allocations of the call")
		}
		c.S.Floor("MCK-5", "ReadSlices stub closures", n, 1)
	}

	if which["MCK-6"] {
		n := 0
		producers := c.closuresOf("NewPublishExchangeStub")
		// the producer may be a named function started with go (introduced later)
		for _, cl := range c.closuresOf("NewPublishExchangeStub") {
			for _, b := range cl.Blocks {
				for _, ins := range b.Instrs {
					if g, ok := ins.(*ssa.Go); ok {
						if f := g.Call.StaticCallee(); f != nil && f.Parent() == nil && c.isNewHelper(f) {
							producers = append(producers, f)
						}
					}
				}
			}
		}
		for _, cl := range producers {
			if cl.Parent() != nil && !c.isGoTargetOf(cl) {
				continue
			}
			n++
			a := c.acc("MCK-6", cl, "exchange-closed-on-exit-unless-ErrClosed-or-indefinite-block")
			s := c.acc("MCK-6", cl, "scripted-errors-are-delivered")
			blk := c.acc("MCK-6", cl, "block-entry:zero-delay-ends-without-close,else-sleeps(Delay)")
			ent := c.acc("MCK-6", cl, "examined-and-sent-is-the-entry-of-this-iteration")
			isEntry := func(v ssa.Value) bool {
				v = stripConv(v)
				if ex, ok := v.(*ssa.Extract); ok {
					_, isNext := ex.Tuple.(*ssa.Next)
					return isNext
				}
				if u, ok := v.(*ssa.UnOp); ok {
					_, isIA := u.X.(*ssa.IndexAddr)
					return isIA
				}
				_, isIdx := v.(*ssa.Index)
				return isIdx
			}
			entSeen := map[ssa.Instruction]bool{}
			for _, p := range c.Paths("MCK-6", cl) {
				for i := range p.Events {
					e := &p.Events[i]
					if e.Instr == nil || entSeen[e.Instr] || !c.inRegion(cl, e) {
						continue
					}
					var v ssa.Value
					what := ""
					switch {
					case (isStd(e, "errors.Is") || isStd(e, "errors.As")) && len(e.Args) == 2:
						v, what = e.Args[0], "examined"
					case e.Kind == pathx.KSend:
						v, what = e.Val, "sent on the exchange"
					default:
						continue
					}
					entSeen[e.Instr] = true
					if v != nil && isEntry(v) {
						ent.pass()
					} else if v != nil {
						ent.fail(p, i, "%s is %s where the script entry of this iteration is due: the exchange then yields something other than the errors the test author scripted (the fixed submission error is nil whenever there is a script)", Expr(v), what)
					}
				}
			}
			ent.done(3, "errors.Is, errors.As and every send take the element of the script being ranged over")
			for _, p := range c.Paths("MCK-6", cl) {
				if p.End == pathx.KReturn {
					closed := p.Index(0, func(e *pathx.Event) bool { return e.Kind == pathx.KClose }) >= 0
					exempt := false
					for i := range p.Events {
						e := &p.Events[i]
						if isStd(e, "errors.Is") && len(e.Args) == 2 && isGlobalOf(e.Args[1], "ErrClosed") {
							if rel, _, k := p.Known(e.Result, i, -1); k && rel == pathx.RTrue {
								exempt = true
							}
						}
					}
					for _, cm := range assumed(p, 0, -1) {
						if roleKey(cm.X) == "ExchangeBlock.Delay" && cm.Op == token.EQL && isK(cm.Y, 0) {
							exempt = true
						}
					}
					switch {
					case closed && exempt:
						a.fail(p, len(p.Events)-1, "the exchange channel is closed after an ErrClosed entry or an indefinite block")
					case !closed && !exempt:
						a.fail(p, len(p.Events)-1, "the goroutine exits without closing the exchange channel although the script neither ends in ErrClosed nor blocks indefinitely")
					default:
						a.pass()
					}
				}
				if p.End == pathx.KLoopBack || p.End == pathx.KReturn {
					// an iteration that is not a block entry sends its error
					isBlock := false
					for i := range p.Events {
						e := &p.Events[i]
						if isStd(e, "errors.As") {
							if rel, _, k := p.Known(e.Result, i, -1); k && rel == pathx.RTrue {
								isBlock = true
							}
						}
					}
					// a block entry: indefinite (Delay zero) ends the goroutine without close, any other delays for Delay
					if isBlock {
						zero, nonZero := false, false
						for _, cm := range assumed(p, 0, -1) {
							if roleKey(cm.X) == "ExchangeBlock.Delay" && isK(cm.Y, 0) {
								zero = zero || cm.Op == token.EQL
								nonZero = nonZero || cm.Op == token.NEQ
							}
						}
						slept := p.Index(0, func(e *pathx.Event) bool {
							return isStd(e, "time.Sleep") && len(e.Args) == 1 && roleKey(e.Args[0]) == "ExchangeBlock.Delay"
						}) >= 0
						switch {
						case !zero && !nonZero:
							blk.fail(p, len(p.Events)-1, "a block entry is passed without its Delay being examined: an indefinite block (Delay zero) must end the exchange without closing it")
						case zero && p.End != pathx.KReturn:
							blk.fail(p, len(p.Events)-1, "an indefinite block does not end the goroutine")
						case nonZero && !slept:
							blk.fail(p, len(p.Events)-1, "a block entry with a delay does not sleep for that delay")
						default:
							blk.pass()
						}
					}
					iter := p.Index(0, func(e *pathx.Event) bool { return isStd(e, "errors.Is") }) >= 0
					if iter && !isBlock {
						if p.Index(0, func(e *pathx.Event) bool { return e.Kind == pathx.KSend }) >= 0 {
							s.pass()
						} else {
							s.fail(p, len(p.Events)-1, "a scripted error is skipped instead of being sent on the exchange")
						}
					}
				}
			}
			a.done(2, "closed exactly on the exits that are neither after ErrClosed nor an indefinite block")
			s.done(2, "every non-block entry is sent")
			blk.done(2, "Delay is examined; zero returns, non-zero sleeps")
		}
		c.S.Floor("MCK-6", "exchange stub goroutines", n, 1)
		// the script is played by the producer goroutine alone: no other code of the
		// stub sends on or closes the exchange channel (a second player would need
		// the same treatment of ErrClosed and block entries, clause by clause)
		for _, cl := range c.closuresOf("NewPublishExchangeStub") {
			if c.isGoTargetOf(cl) {
				continue
			}
			a := c.acc("MCK-6", cl, "exchange-channel-fed-only-by-the-producer-goroutine")
			for _, p := range c.Paths("MCK-6", cl) {
				bad := -1
				for i := range p.Events {
					e := &p.Events[i]
					if (e.Kind == pathx.KSend || e.Kind == pathx.KClose) && e.Fn == cl && e.Chan != nil && strings.HasSuffix(e.Chan.Type().String(), "chan error") {
						bad = i
					}
				}
				if bad >= 0 {
					a.fail(p, bad, "the stub itself sends on or closes the exchange channel, next to the producer goroutine: entries are delivered (or the channel closed) without the script's ErrClosed and block rules")
				} else {
					a.pass()
				}
			}
			a.done(1, "the stub only makes the channel and starts the producer")
		}
	}
}

func showB(b *bool) string {
	if b == nil {
		return "not evaluated"
	}
	if *b {
		return "yes"
	}
	return "no"
}

func isGlobalOf(v ssa.Value, name string) bool {
	u, ok := stripConv(v).(*ssa.UnOp)
	if !ok || u.Op != token.MUL {
		return false
	}
	g, ok := u.X.(*ssa.Global)
	return ok && g.Name() == name
}

func (c *Ctx) isGoTargetOf(fn *ssa.Function) bool {
	p := fn.Parent()
	if p == nil {
		return false
	}
	for _, b := range p.Blocks {
		for _, ins := range b.Instrs {
			if g, ok := ins.(*ssa.Go); ok {
				if mc, ok := g.Call.Value.(*ssa.MakeClosure); ok && mc.Fn == fn {
					return true
				}
			}
		}
	}
	return false
}

// isWantVar: the captured expectation list of a mock (a slice of Transfer or Filter).
func isWantVar(fv *ssa.FreeVar) bool {
	t := fv.Type().String()
	return strings.HasSuffix(t, "mqtttest.Transfer") || strings.HasSuffix(t, "mqtttest.Filter")
}
