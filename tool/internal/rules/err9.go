package rules

import (
	"go/token"
	"go/types"
	"strings"

	"golang.org/x/tools/go/ssa"

	"mqttverif/internal/pathx"
)

// ---- ERR-9: IsConnectionRefused decides by type and code ----
//
// "IsConnectionRefused for return codes 1-255": handshake returns the CONNACK
// return code as a connectReturn (ORD-7), and the predicate must hold for
// every connectReturn but accepted — not for a list of named codes. On every
// return path of IsConnectionRefused:
//   - the verdict follows an errors.As with a *connectReturn target;
//   - errors.As false ⇒ the result is false;
//   - errors.As true ⇒ the result is (code != accepted), as an expression or
//     as a constant behind that very comparison.

func init() {
	register("ERR-9", []string{"ERR-9"}, func(c *Ctx, _ map[string]bool) { c.err9() })
}

func (c *Ctx) err9() {
	fn := c.Fn("ERR-9", "IsConnectionRefused")
	if fn == nil {
		return
	}
	acceptedK := c.constInt("accepted")
	a := c.acc("ERR-9", fn, "true⇔errors.As(connectReturn)∧code≠accepted")
	isTarget := func(v ssa.Value) (*ssa.Alloc, bool) {
		if mi, ok := v.(*ssa.MakeInterface); ok {
			v = mi.X
		}
		al, ok := v.(*ssa.Alloc)
		if !ok {
			return nil, false
		}
		pt, ok := al.Type().Underlying().(*types.Pointer)
		if !ok {
			return nil, false
		}
		return al, strings.HasSuffix(pt.Elem().String(), ".connectReturn")
	}
	for _, p := range c.Paths("ERR-9", fn) {
		if p.End != pathx.KReturn {
			continue
		}
		last := len(p.Events) - 1
		res := p.Events[last].Results
		if len(res) != 1 {
			continue
		}
		var target *ssa.Alloc
		ia := p.Index(0, func(e *pathx.Event) bool {
			if e.Kind != pathx.KCall || !isStd(e, "errors.As") || len(e.Args) < 2 {
				return false
			}
			al, ok := isTarget(e.Args[1])
			if ok {
				target = al
			}
			return ok
		})
		if ia < 0 {
			a.fail(p, last, "IsConnectionRefused decides without asking errors.As for a connectReturn: a refusal with a return code outside whatever list is consulted instead is not recognised (ReadBackoff then retries at the short interval)")
			continue
		}
		asRel, _, asKnown := p.Known(p.Events[ia].Result, ia, -1)
		// code != accepted, on the value errors.As stored
		isCode := func(v ssa.Value) bool {
			u, ok := stripConv(v).(*ssa.UnOp)
			return ok && u.Op == token.MUL && u.X == ssa.Value(target)
		}
		var codeCmp func(v ssa.Value) (neq, ok bool)
		codeCmp = func(v ssa.Value) (neq, ok bool) {
			if u, isNot := stripConv(v).(*ssa.UnOp); isNot && u.Op == token.NOT {
				n, k := codeCmp(u.X)
				return !n, k
			}
			bo, isB := stripConv(v).(*ssa.BinOp)
			if !isB || (bo.Op != token.NEQ && bo.Op != token.EQL) {
				return false, false
			}
			x, y := bo.X, bo.Y
			if isK(x, acceptedK) {
				x, y = y, x
			}
			if !isCode(x) || !isK(y, acceptedK) {
				return false, false
			}
			return bo.Op == token.NEQ, true
		}
		constRes, isConst := boolConst(res[0])
		switch {
		case !asKnown:
			a.fail(p, last, "the verdict is returned on a path that has not examined the result of errors.As")
		case asRel == pathx.RFalse:
			if isConst && !constRes {
				a.pass()
			} else {
				a.fail(p, last, "an error that is no connectReturn is reported as a refused connection (result %s)", Expr(res[0]))
			}
		case asRel == pathx.RTrue:
			if neq, ok := codeCmp(res[0]); ok && neq {
				a.pass()
				continue
			}
			if isConst {
				// a constant behind the comparison of the code with accepted
				okc := false
				for i := ia; i < last; i++ {
					e := &p.Events[i]
					if e.Kind != pathx.KAssume {
						continue
					}
					if neq, ok := codeCmp(e.Val); ok {
						holdsNeq := neq == e.Truth
						if holdsNeq == constRes {
							okc = true
						}
					}
				}
				if okc {
					a.pass()
					continue
				}
			}
			a.fail(p, last, "for a connectReturn the verdict is %s, want code != accepted: return codes 1–255 are all refusals", Expr(res[0]))
		}
	}
	a.done(2, "false without a connectReturn; code != accepted with one")
	// the named refusals are the CONNACK return codes of MQTT 3.1.1 table 3.1:
	// handshake turns the wire byte into a connectReturn unchanged, so the
	// constants are wire values, not an enumeration that may be reordered
	codes := c.accKeyless("ERR-9", "connectReturn", "named-codes-are-the-wire-values(MQTT-3.1.1-table-3.1)")
	for _, kv := range []struct {
		name string
		want int64
	}{{"accepted", 0}, {"ErrProtocolLevel", 1}, {"ErrClientID", 2}, {"ErrUnavailable", 3}, {"ErrAuthBad", 4}, {"ErrAuth", 5}} {
		got, ok := c.constIntOK(kv.name)
		switch {
		case !ok:
			codes.failAt("", "constant %s not found", kv.name)
		case got != kv.want:
			codes.failAt("", "%s is %d, want %d: a broker's refusal with return code %d is reported as a different reason", kv.name, got, kv.want, kv.want)
		default:
			codes.pass()
		}
	}
	codes.done(6, "accepted=0, ErrProtocolLevel=1, ErrClientID=2, ErrUnavailable=3, ErrAuthBad=4, ErrAuth=5")
}

func boolConst(v ssa.Value) (val, ok bool) {
	k, isK := v.(*ssa.Const)
	if !isK || k.Value == nil {
		return false, false
	}
	b, isB := k.Type().Underlying().(*types.Basic)
	if !isB || b.Info()&types.IsBoolean == 0 {
		return false, false
	}
	return k.Value.String() == "true", true
}
