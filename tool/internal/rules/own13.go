package rules

import (
	"go/types"

	"golang.org/x/tools/go/ssa"
)

// ---- OWN-13: a vector of buffers is never shortened in place ----
//
// A packet travels as net.Buffers: the composer returns a literal
// net.Buffers{head, payload}, the rugged Persistence appends its trailer to
// the vector (`append(packet, trailer)` in encodeValue), the store and the
// connection consume it with WriteTo — which sets the consumed elements of the
// very array to nil. All of that is sound only while every vector has no spare
// capacity: then the append reallocates and what the delegate consumes is the
// copy. A vector shortened with v[:n] keeps its capacity; the trailer then
// lands in the caller's array, the store's WriteTo wipes the elements the
// caller is about to write to the connection, and "the packet" that goes out
// is empty while it counts as submitted. Decided per slice expression of the
// module: a value of type net.Buffers / [][]byte is sliced only as a whole
// (the literal's own v[:]), from the front with the tail kept (v[i:], which
// cannot leave spare capacity behind the length), or with an explicit
// capacity (three-index form).

func init() {
	register("OWN-13", []string{"OWN-13"}, func(c *Ctx, _ map[string]bool) { c.own13() })
}

func isBufferVector(t types.Type) bool {
	s, ok := t.Underlying().(*types.Slice)
	if !ok {
		if p, isP := t.Underlying().(*types.Pointer); isP {
			if a, isA := p.Elem().Underlying().(*types.Array); isA {
				return isByteSlice(a.Elem())
			}
		}
		return false
	}
	return isByteSlice(s.Elem())
}

func (c *Ctx) own13() {
	a := c.accKeyless("OWN-13", "net.Buffers", "never-shortened-with-capacity-left")
	fns := append([]*ssa.Function{}, c.funcs...)
	fns = append(fns, c.testFuncs()...)
	n := 0
	for _, f := range fns {
		for _, b := range f.Blocks {
			for _, ins := range b.Instrs {
				sl, ok := ins.(*ssa.Slice)
				if !ok || !isBufferVector(sl.X.Type()) || !isBufferVector(sl.Type()) {
					continue
				}
				n++
				switch {
				case sl.High == nil, sl.Max != nil:
					a.pass()
				default:
					a.failAt(c.P.Pos(sl.Pos()), "%s shortens a vector of buffers (%s) and keeps its capacity: a later append — the integrity trailer of the rugged Persistence — lands in this array instead of a copy, and the WriteTo of the store wipes the elements that are still to be written to the connection", f.Name(), sl.String())
				}
			}
		}
	}
	// nor is anything appended to one of its buffers: the elements are the
	// caller's slices (the message of a Publish), and what lies behind their
	// length in the same array is the caller's too
	el := c.accKeyless("OWN-13", "net.Buffers", "no-append-to-an-element-of-a-vector")
	for _, f := range fns {
		for _, b := range f.Blocks {
			for _, ins := range b.Instrs {
				call, ok := ins.(*ssa.Call)
				if !ok {
					continue
				}
				bl, isB := call.Call.Value.(*ssa.Builtin)
				if !isB || bl.Name() != "append" || len(call.Call.Args) == 0 || !isByteSlice(call.Call.Args[0].Type()) {
					continue
				}
				base := stripConv(call.Call.Args[0])
				if sl, isSl := base.(*ssa.Slice); isSl {
					base = stripConv(sl.X)
				}
				if src := elemOf(base); src != nil && isBufferVector(src.Type()) {
					el.failAt(c.P.Pos(call.Pos()), "%s appends to %s, a buffer of a vector: the bytes land behind the caller's slice in the caller's array (the payload of another request may live there) — a trailer is a buffer of its own", f.Name(), Expr(base))
				} else {
					el.pass()
				}
			}
		}
	}
	el.done(10, "no append has an element of a [][]byte as its destination")
	a.done(3, "every slice of a buffer vector is whole, keeps its tail, or states its capacity")
	c.S.Floor("OWN-13", "slice expressions on buffer vectors", n, 3)
}
