package rules

import (
	"go/constant"
	"go/types"
)

func (c *Ctx) constIntOK(name string) (int64, bool) {
	k, ok := c.P.Root.Pkg.Scope().Lookup(name).(*types.Const)
	if !ok {
		return 0, false
	}
	v, ok := constant.Int64Val(constant.ToInt(k.Val()))
	return v, ok
}
