package rules

import (
	"fmt"

	"golang.org/x/tools/go/ssa"

	"mqttverif/internal/load"
	"mqttverif/internal/pathx"
)

// acc accumulates the verdict of one clause of a rule over all paths of a
// function and turns it into a single obligation.
type acc struct {
	c      *Ctx
	rule   string
	fn     string
	clause string
	pos    string
	n      int // paths (or sites) on which the clause was exercised
	failed bool
	reason string
	trace  []string
	fpos   string
}

func (c *Ctx) acc(rule string, fn *ssa.Function, clause string) *acc {
	a := &acc{c: c, rule: rule, clause: clause}
	if fn != nil {
		a.fn = load.FuncName(fn)
		a.pos = c.P.Pos(fn.Pos())
	}
	return a
}

func (a *acc) pass() { a.n++ }

func (a *acc) fail(p *pathx.Path, i int, format string, args ...any) {
	a.n++
	if a.failed {
		return
	}
	a.failed = true
	a.reason = fmt.Sprintf(format, args...)
	if p != nil {
		a.trace = a.c.Trace(p, i)
		if i >= 0 && i < len(p.Events) {
			a.fpos = a.c.pos(p.Events[i].Instr)
		}
	}
}

func (a *acc) failAt(pos string, format string, args ...any) {
	a.n++
	if a.failed {
		return
	}
	a.failed = true
	a.reason = fmt.Sprintf(format, args...)
	a.fpos = pos
}

// done emits the obligation. min is the least number of exercises for the
// clause to count as decided (0 allows vacuous truth).
func (a *acc) done(min int, okReason string) {
	key := a.rule + "|" + a.fn + "|" + a.clause
	switch {
	case a.failed:
		pos := a.fpos
		if pos == "" {
			pos = a.pos
		}
		a.c.S.Bad(a.rule, key, pos, a.fn, a.reason, a.trace)
	case a.n < min:
		a.c.S.Unknown(a.rule, key, a.pos, a.fn, fmt.Sprintf("clause exercised on %d paths/sites, expected at least %d: the construct it speaks about was not recognised", a.n, min))
	default:
		a.c.S.OK(a.rule, key, a.pos, a.fn, fmt.Sprintf("%s (%d paths/sites)", okReason, a.n), true)
	}
}

// accKeyless: an accumulator for a clause about a declaration, not a function.
func (c *Ctx) accKeyless(rule, subject, clause string) *acc {
	return &acc{c: c, rule: rule, fn: subject, clause: clause}
}
