package rules

import (
	"strings"

	"golang.org/x/tools/go/ssa"
)

// ---- RCH-3: every deadline is the configured PauseTimeout ----
//
// "PauseTimeout sets the minimum transfer rate as one byte per duration": a
// read, a write or a dial that makes no progress for that long fails, the
// connection is left and the read routine redials. That holds only if each
// deadline armed on a connection — and the timeout of the dial context — is
// now plus Config.PauseTimeout. Another duration of the client (the reconnect
// back-off, which starts at zero and grows) compiles just as well, and gives
// a deadline that has already expired, or a stall many times longer than
// configured. Decided per site:
//   - the argument of SetDeadline/SetReadDeadline/SetWriteDeadline on a
//     net.Conn is the zero time (disarm) or time.Now().Add(d);
//   - d, and the duration handed to context.WithTimeout, is a load of
//     PauseTimeout, or a duration parameter that every caller in the package
//     binds to one (writeTo, writeBuffersTo).

func init() {
	register("RCH-3", []string{"RCH-3"}, func(c *Ctx, _ map[string]bool) { c.rch3() })
}

func (c *Ctx) rch3() {
	a := c.accKeyless("RCH-3", "net.Conn deadlines", "armed-with-now+PauseTimeout-or-disarmed")
	ctxa := c.accKeyless("RCH-3", "context.WithTimeout", "dial-timeout-is-PauseTimeout")
	var isPause func(v ssa.Value, d int) (bool, string)
	isPause = func(v ssa.Value, d int) (bool, string) {
		v = stripConv(v)
		if strings.HasSuffix(roleKey(v), ".PauseTimeout") || roleKey(v) == "PauseTimeout" {
			return true, ""
		}
		if pr, ok := v.(*ssa.Parameter); ok && d < 3 {
			idx := -1
			for i, q := range pr.Parent().Params {
				if q == pr {
					idx = i
				}
			}
			n := 0
			for _, f := range c.funcs {
				for _, b := range f.Blocks {
					for _, ins := range b.Instrs {
						ci, ok := ins.(ssa.CallInstruction)
						if !ok || ci.Common().StaticCallee() != pr.Parent() || idx >= len(ci.Common().Args) {
							continue
						}
						n++
						if ok, why := isPause(ci.Common().Args[idx], d+1); !ok {
							if why == "" {
								why = Expr(ci.Common().Args[idx]) + " at " + c.P.Pos(ins.Pos()) + " in " + f.Name()
							}
							return false, why
						}
					}
				}
			}
			if n > 0 {
				return true, ""
			}
			return false, "parameter " + pr.Name() + " of " + pr.Parent().Name() + " has no caller in the package"
		}
		if phi, ok := v.(*ssa.Phi); ok && d < 3 {
			for _, e := range phi.Edges {
				if ok, why := isPause(e, d+1); !ok {
					return false, why
				}
			}
			return true, ""
		}
		return false, ""
	}
	isZeroTime := func(v ssa.Value) bool {
		v = stripConv(v)
		if k, ok := v.(*ssa.Const); ok {
			return k.Value == nil
		}
		// time.Time{}: a load of a fresh, never written local
		if u, ok := v.(*ssa.UnOp); ok {
			if al, ok := u.X.(*ssa.Alloc); ok && al.Referrers() != nil {
				for _, r := range *al.Referrers() {
					if st, ok := r.(*ssa.Store); ok && st.Addr == ssa.Value(al) {
						return false
					}
				}
				return true
			}
		}
		return false
	}
	// reads and writes run in different goroutines on one connection: each side
	// arms and clears its own direction only. A function clears exactly the
	// directions it arms, and SetDeadline — both at once — clears (or arms) the
	// other side's deadline under its feet.
	dir := c.accKeyless("RCH-3", "net.Conn deadlines", "each-function-clears-exactly-the-direction-it-arms")
	for _, f := range c.funcs {
		armed, cleared := map[string]bool{}, map[string]bool{}
		var at ssa.Instruction
		for _, b := range f.Blocks {
			for _, ins := range b.Instrs {
				ci, ok := ins.(ssa.CallInstruction)
				if !ok {
					continue
				}
				cc := ci.Common()
				if !cc.IsInvoke() || recvTypeName(cc.Method) != "net.Conn" || len(cc.Args) != 1 {
					continue
				}
				switch cc.Method.Name() {
				case "SetDeadline", "SetReadDeadline", "SetWriteDeadline":
				default:
					continue
				}
				at = ins
				if isZeroTime(stripConv(cc.Args[0])) {
					cleared[cc.Method.Name()] = true
				} else {
					armed[cc.Method.Name()] = true
				}
			}
		}
		if at == nil {
			continue
		}
		switch {
		case armed["SetDeadline"] || cleared["SetDeadline"]:
			dir.failAt(c.P.Pos(at.Pos()), "%s uses SetDeadline, which sets the read and the write deadline at once: the other direction belongs to another goroutine — a write that completes would clear the deadline the read routine armed for a stalled broker (or the reverse)", f.Name())
		case len(cleared) > 0 && len(armed) > 0 && !sameKeys(armed, cleared):
			dir.failAt(c.P.Pos(at.Pos()), "%s arms %v and clears %v: the direction it armed stays armed for the next idle wait, and the one it clears was never its own", f.Name(), keysOf(armed), keysOf(cleared))
		default:
			dir.pass()
		}
	}
	dir.done(4, "no SetDeadline; armed and cleared directions agree per function")
	for _, f := range c.funcs {
		for _, b := range f.Blocks {
			for _, ins := range b.Instrs {
				ci, ok := ins.(ssa.CallInstruction)
				if !ok {
					continue
				}
				cc := ci.Common()
				if cc.IsInvoke() && recvTypeName(cc.Method) == "net.Conn" && len(cc.Args) == 1 {
					switch cc.Method.Name() {
					case "SetDeadline", "SetReadDeadline", "SetWriteDeadline":
					default:
						continue
					}
					arg := stripConv(cc.Args[0])
					// an accessor introduced later that computes the deadline: judged on what it returns
					if hc, isCall := arg.(*ssa.Call); isCall {
						if h := hc.Call.StaticCallee(); h != nil && c.isNewHelper(h) {
							var rets []ssa.Value
							for _, hb := range h.Blocks {
								for _, hi := range hb.Instrs {
									if r, isRet := hi.(*ssa.Return); isRet && len(r.Results) == 1 {
										rets = append(rets, r.Results[0])
									}
								}
							}
							if len(rets) == 1 {
								arg = stripConv(rets[0])
							}
						}
					}
					if isZeroTime(arg) {
						a.pass()
						continue
					}
					call, isCall := arg.(*ssa.Call)
					if !isCall || stdName(call.Call.StaticCallee()) != "(time.Time).Add" || len(call.Call.Args) != 2 {
						a.failAt(c.P.Pos(ins.Pos()), "%s arms %s with %s, want the zero time or time.Now().Add(PauseTimeout)", f.Name(), cc.Method.Name(), Expr(arg))
						continue
					}
					now, isNow := stripConv(call.Call.Args[0]).(*ssa.Call)
					if !isNow || stdName(now.Call.StaticCallee()) != "time.Now" {
						a.failAt(c.P.Pos(ins.Pos()), "%s arms %s relative to %s, want time.Now()", f.Name(), cc.Method.Name(), Expr(call.Call.Args[0]))
						continue
					}
					if ok, why := isPause(call.Call.Args[1], 0); ok {
						a.pass()
					} else {
						if why == "" {
							why = Expr(call.Call.Args[1])
						}
						a.failAt(c.P.Pos(ins.Pos()), "%s arms %s with now plus %s, want Config.PauseTimeout: the configured idle limit is what bounds a stalled transfer — another duration of the client gives a deadline already expired or a stall beyond the limit", f.Name(), cc.Method.Name(), why)
					}
					continue
				}
				if sc := cc.StaticCallee(); sc != nil && stdName(sc) == "context.WithTimeout" && len(cc.Args) == 2 {
					if ok, why := isPause(cc.Args[1], 0); ok {
						ctxa.pass()
					} else {
						if why == "" {
							why = Expr(cc.Args[1])
						}
						ctxa.failAt(c.P.Pos(ins.Pos()), "%s bounds the dial with %s, want Config.PauseTimeout", f.Name(), why)
					}
				}
			}
		}
	}
	a.done(6, "every SetDeadline/SetReadDeadline/SetWriteDeadline on a net.Conn is the zero time or now plus PauseTimeout (directly or through a parameter all callers bind to it)")
	ctxa.done(1, "the dial context expires after PauseTimeout")
}

func sameKeys(a, b map[string]bool) bool {
	if len(a) != len(b) {
		return false
	}
	for k := range a {
		if !b[k] {
			return false
		}
	}
	return true
}
