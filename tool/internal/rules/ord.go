package rules

import (
	"go/token"
	"go/types"
	"strings"

	"golang.org/x/tools/go/ssa"

	"mqttverif/internal/load"
	"mqttverif/internal/pathx"
)

func init() {
	register("ORD-1", []string{"ORD-1"}, func(c *Ctx, _ map[string]bool) { c.ord1() })
	register("ORD-2", []string{"ORD-2"}, func(c *Ctx, _ map[string]bool) { c.ord2() })
	register("ORD-3", []string{"ORD-3"}, func(c *Ctx, _ map[string]bool) { c.ord3() })
	register("ORD-5", []string{"ORD-5"}, func(c *Ctx, _ map[string]bool) { c.ord5() })
}

// errClass tells what a path knows about the error result of a return.
type tri int

const (
	triNil tri = iota
	triNonNil
	triUnknown
)

func retErr(p *pathx.Path, i int) tri {
	e := &p.Events[i]
	if len(e.Results) == 0 {
		return triNil
	}
	r := e.Results[len(e.Results)-1]
	if pathx.IsNilConst(r) {
		return triNil
	}
	if rel, _, ok := p.Known(r, 0, i); ok {
		switch rel {
		case pathx.RNil:
			return triNil
		case pathx.RNotNil:
			return triNonNil
		}
	}
	switch x := r.(type) {
	case *ssa.UnOp:
		if _, ok := x.X.(*ssa.Global); ok && x.Op == token.MUL {
			return triNonNil // sentinel
		}
	case *ssa.MakeInterface:
		return triNonNil
	case *ssa.Call:
		if f := x.Call.StaticCallee(); f != nil {
			switch stdName(f) {
			case "fmt.Errorf", "errors.New", "errors.Join":
				return triNonNil
			}
		}
	}
	return triUnknown
}

func (c *Ctx) pathsInline(rule string, fn *ssa.Function, inline map[*ssa.Function]bool) []*pathx.Path {
	if fn == nil {
		return nil
	}
	var ps []*pathx.Path
	st, err := pathx.Enumerate(fn, pathx.Config{Loads: true, InlineLoops: true, StableLoad: stableConfigLoad, Inline: func(caller, callee *ssa.Function) bool {
		return inline[callee] && !pathx.HasLoop(callee) || c.expandInPlace(caller, callee)
	}}, func(p *pathx.Path) { ps = append(ps, p) })
	if err != nil {
		c.S.Unknown(rule, rule+"|paths|"+load.FuncName(fn), c.P.Pos(fn.Pos()), load.FuncName(fn), "path enumeration failed: "+err.Error())
	}
	c.S.Count("segments_enumerated", st.Paths)
	c.S.Count("infeasible_branches_pruned", st.Pruned)
	return ps
}

// ---- ORD-1: accept order in submitPersisted + applySeqNoAndEnqueue ----

func (c *Ctx) ord1() {
	sp := c.Fn("ORD-1", "(*Client).submitPersisted")
	ap := c.Fn("ORD-1", "(*Client).applySeqNoAndEnqueue")
	if sp == nil || ap == nil {
		return
	}
	wire := c.wireCapable()
	paths := c.pathsInline("ORD-1", sp, map[*ssa.Function]bool{ap: true})

	order := c.acc("ORD-1", sp, "accepted⇒ErrMax-test→Save=nil→enqueue→acceptN++")
	reject := c.acc("ORD-1", sp, "error⇒not-enqueued,not-counted,nothing-written")
	backlog := c.acc("ORD-1", sp, "wire-write-only-without-backlog")
	submitN := c.acc("ORD-1", sp, "submitN=acceptN-only-after-nil-write")
	failed := c.acc("ORD-1", sp, "failed-write-keeps-entry(reported-on-exchange)")
	once := c.acc("ORD-1", sp, "acceptN-advances-exactly-once")

	// the identifier a new message gets is the accept count — not the submit
	// count, which lags behind while messages wait for a connection
	idsrc := c.acc("ORD-1", sp, "identifier-taken-from-acceptN")
	pmask := c.constInt("publishIDMask")
	region := append(c.regionBlocks(sp), c.regionBlocks(ap)...)
	for _, b := range region {
		for _, ins := range b.Instrs {
			bo, ok := ins.(*ssa.BinOp)
			if !ok || bo.Op != token.AND || !isK(bo.Y, pmask) {
				continue
			}
			// only the composition of a new identifier: seqNo & mask that is OR-ed into the packet's identifier
			feeds := false
			for _, r := range *bo.Referrers() {
				if or, ok := r.(*ssa.BinOp); ok && or.Op == token.OR {
					feeds = true
				}
			}
			if !feeds {
				continue
			}
			// follow a parameter to the argument of every call in the region
			srcs := []ssa.Value{stripConv(bo.X)}
			for d := 0; d < 4; d++ {
				var next []ssa.Value
				moved := false
				for _, v := range srcs {
					pr, isP := v.(*ssa.Parameter)
					if !isP {
						next = append(next, v)
						continue
					}
					idx := -1
					for k, q := range pr.Parent().Params {
						if q == pr {
							idx = k
						}
					}
					for _, rb := range region {
						for _, ri := range rb.Instrs {
							if call, ok := ri.(*ssa.Call); ok && call.Call.StaticCallee() == pr.Parent() && idx < len(call.Call.Args) {
								next = append(next, stripConv(call.Call.Args[idx]))
								moved = true
							}
						}
					}
				}
				srcs = next
				if !moved {
					break
				}
			}
			for _, v := range srcs {
				if roleKey(v) == "seq.acceptN" {
					idsrc.pass()
				} else {
					idsrc.failAt(c.P.Pos(bo.Pos()), "the packet identifier of a new message is composed from %s, want the accept count: with messages waiting for a connection two accepted messages get the same identifier and one overwrites the other's record", Expr(v))
				}
			}
		}
	}
	idsrc.done(1, "seq.acceptN & publishIDMask is what goes into the identifier")
	for _, p := range paths {
		if p.Start != sp.Blocks[0] {
			continue
		}
		last := len(p.Events) - 1
		if p.End != pathx.KReturn {
			continue
		}
		var iMax, iSave, iEnq, iCnt, iWire, iSub = -1, -1, -1, -1, -1, -1
		nCnt, nEnq, nSave := 0, 0, 0
		for i := range p.Events {
			e := &p.Events[i]
			switch e.Kind {
			case pathx.KAssume:
				if cm, ok := cmpOf(e.Val, e.Truth); ok && cm.Op == token.NEQ {
					if x, ok1 := builtinCall(cm.X, "cap"); ok1 {
						if y, ok2 := builtinCall(cm.Y, "len"); ok2 && roleKey(x) == "outbound.queue" && roleKey(y) == "outbound.queue" {
							iMax = i
						}
					}
					if x, ok1 := builtinCall(cm.X, "len"); ok1 {
						if y, ok2 := builtinCall(cm.Y, "cap"); ok2 && roleKey(x) == "outbound.queue" && roleKey(y) == "outbound.queue" {
							iMax = i
						}
					}
				}
			case pathx.KCall:
				if persistenceOp(e) == "Save" {
					iSave = i
					nSave++
				}
				if e.Callee != nil && wire[e.Callee] {
					iWire = i
				}
			case pathx.KSend:
				if roleKey(e.Chan) == "outbound.queue" {
					iEnq = i
					nEnq++
				}
			case pathx.KStore:
				switch pathx.RoleOfAddr(e.Addr).Key() {
				case "seq.acceptN":
					iCnt = i
					nCnt++
					if !isIncrementOf(e.Val, e.Addr) {
						once.fail(p, i, "acceptN is assigned something other than acceptN+1: %s", Expr(e.Val))
					}
				case "seq.submitN":
					// a store of the value the field already holds changes nothing
					// (a step that returns "the new submitN" returns the old one when nothing was sent)
					if u, ok := stripConv(e.Val).(*ssa.UnOp); ok && u.Op == token.MUL && pathx.RoleOfAddr(u.X).Key() == "seq.submitN" {
						continue
					}
					iSub = i
				}
			}
		}
		switch retErr(p, last) {
		case triNil:
			saveNil := false
			if iSave >= 0 {
				saveNil, _ = nilResult(p, iSave, last)
			}
			switch {
			case iMax < 0 || iSave < 0 || iEnq < 0 || iCnt < 0:
				order.fail(p, last, "a success return lacks one of: capacity test (%v), Save (%v), enqueue (%v), acceptN++ (%v)", iMax >= 0, iSave >= 0, iEnq >= 0, iCnt >= 0)
			case !saveNil:
				order.fail(p, last, "a success return does not depend on Save having returned nil")
			case !(iMax < iSave && iSave < iEnq && iEnq < iCnt):
				order.fail(p, last, "order of capacity test / Save / enqueue / acceptN++ broken: events %d %d %d %d", iMax, iSave, iEnq, iCnt)
			case nCnt != 1 || nEnq != 1 || nSave != 1:
				once.fail(p, last, "success path performs Save %d×, enqueue %d×, acceptN++ %d×", nSave, nEnq, nCnt)
			default:
				order.pass()
				once.pass()
			}
			// wire write only without backlog
			if iWire >= 0 {
				ok := false
				for _, cm := range assumed(p, 0, iWire) {
					for _, k := range []cmp{cm, cm.swapped()} {
						if roleKey(k.X) == "seq.submitN" && roleKey(k.Y) == "seq.acceptN" && (k.Op == token.GEQ || k.Op == token.EQL) {
							ok = true
						}
					}
				}
				if ok {
					backlog.pass()
				} else {
					backlog.fail(p, iWire, "the PUBLISH is written although the path has not established submitN >= acceptN (no backlog): it could overtake stored, unsent messages")
				}
				if iWire < iCnt || iWire < iEnq {
					order.fail(p, iWire, "wire write precedes enqueue/accept")
				}
				wnil, wknown := nilResult(p, iWire, last)
				if iSub >= 0 {
					if iSub > iWire && wknown && wnil {
						submitN.pass()
					} else {
						submitN.fail(p, iSub, "submitN advanced without a nil write result before it")
					}
				}
				if wknown && !wnil {
					// failed write: must still return the exchange with nil error (entry kept) and signal on it
					sent := p.Index(iWire, func(e *pathx.Event) bool {
						return e.Kind == pathx.KSend && e.Chan == resolvedEnqVal(p, iEnq)
					})
					if sent >= 0 {
						failed.pass()
					} else {
						failed.fail(p, last, "after a failed first write nothing is sent on the exchange channel")
					}
				}
			} else if iSub >= 0 {
				submitN.fail(p, iSub, "submitN advanced on a path without a wire write")
			}
		default:
			if iEnq >= 0 || iCnt >= 0 || iWire >= 0 {
				reject.fail(p, last, "an error return follows enqueue (%v), acceptN++ (%v) or a wire call (%v): the caller is told the message was dropped while it stays queued", iEnq >= 0, iCnt >= 0, iWire >= 0)
			} else {
				reject.pass()
			}
		}
	}
	order.done(1, "every success path passes capacity test, nil Save, enqueue and acceptN++ in that order")
	once.done(1, "one Save, one enqueue, one increment per accepted message")
	reject.done(2, "no error return after enqueue, count or wire activity")
	backlog.done(1, "the first write is control dependent on submitN >= acceptN")
	submitN.done(1, "submitN advances only behind a nil write")
	failed.done(1, "a failed first write is reported on the exchange and the entry is kept")
}

func resolvedEnqVal(p *pathx.Path, iEnq int) ssa.Value {
	if iEnq < 0 {
		return nil
	}
	return p.Events[iEnq].Val
}

// ---- ORD-2: resend and its use in connect ----

func (c *Ctx) ord2() {
	rs := c.Fn("ORD-2", "(*Client).resend")
	cn := c.Fn("ORD-2", "(*Client).connect")
	if rs == nil || cn == nil {
		return
	}
	wire := c.wireWriters()
	iter := c.acc("ORD-2", rs, "iteration⇒Load=nil,found→write=nil")
	fin := c.acc("ORD-2", rs, "return-nil-only-at-loop-exit")
	dup := c.acc("ORD-2", rs, "DUP-iff-seqNo<submitN∧PUBLISH")
	key := c.acc("ORD-2", rs, "key=seqNo&publishIDMask|space")
	step := c.acc("ORD-2", rs, "ascending-from-offset-step-1")
	subm := c.acc("ORD-2", rs, "submitN-advances-only-behind-a-nil-write")

	// induction variable: a phi of (offset parameter, itself+1)
	var ind *ssa.Phi
	var offsetParam *ssa.Parameter
	for _, b := range rs.Blocks {
		for _, ins := range b.Instrs {
			phi, ok := ins.(*ssa.Phi)
			if !ok {
				continue
			}
			hasParam, hasInc := false, false
			for _, e := range phi.Edges {
				if pr, ok := strip(e).(*ssa.Parameter); ok && isUintType(pr.Type()) {
					hasParam = true
					offsetParam = pr
				}
				if bo, ok := strip(e).(*ssa.BinOp); ok && bo.Op == token.ADD && bo.X == phi {
					if n, ok := intConst(bo.Y); ok && n == 1 {
						hasInc = true
					}
				}
			}
			if hasParam && hasInc && len(phi.Edges) == 2 {
				ind = phi
			}
		}
	}
	if ind == nil {
		step.failAt(c.P.Pos(rs.Pos()), "no induction variable of the form (offset; +1) found")
	} else {
		step.pass()
	}
	entrySeg := true
	isInd := func(v ssa.Value) bool {
		v = strip(v)
		if v == ind && ind != nil {
			return true
		}
		if pr, ok := v.(*ssa.Parameter); ok && pr == offsetParam && offsetParam != nil {
			// the phi resolved on the entry edge; in a later iteration the
			// offset is not the sequence number at hand
			return entrySeg
		}
		if bo, ok := v.(*ssa.BinOp); ok && bo.Op == token.ADD && ind != nil {
			return strip(bo.X) == ind
		}
		return false
	}
	for _, p := range c.Paths("ORD-2", rs) {
		last := len(p.Events) - 1
		entrySeg = p.Start == nil || len(rs.Blocks) == 0 || p.Start == rs.Blocks[0]
		var iLoad, iWrite, iDupStore = -1, -1, -1
		var ltSubmit, isPublish *bool
		loopCond := 0 // 1 true, -1 false
		for i := range p.Events {
			e := &p.Events[i]
			switch e.Kind {
			case pathx.KAssume:
				// the submit count is compared with the sequence number of this iteration only
				if cm, ok := cmpOf(e.Val, e.Truth); ok && c.inRegion(rs, e) {
					if (roleKey(strip(cm.Y)) == "seq.submitN" && !isInd(cm.X)) || (roleKey(strip(cm.X)) == "seq.submitN" && !isInd(cm.Y)) {
						subm.fail(p, i, "the submit count is compared with %s, which is not the sequence number of the packet at hand: whether a packet is a retransmission (DUP) and whether it counts as submitted are decided per packet", Expr(strip(cm.X))+" / "+Expr(strip(cm.Y)))
					}
				}
				if cm, ok := cmpOf(e.Val, e.Truth); ok && isInd(cm.X) && (cm.Op == token.LSS || cm.Op == token.GEQ) {
					t := cm.Op == token.LSS // the path established seqNo < Y (true) or seqNo >= Y (false)
					switch roleKey(strip(cm.Y)) {
					case "seq.acceptN":
						if t {
							loopCond = 1
						} else {
							loopCond = -1
						}
					case "seq.submitN":
						// the decision taken for the DUP flag is the first
						// one on the path, ahead of the write
						if ltSubmit == nil && iWrite < 0 {
							ltSubmit = &t
						}
					}
				}
				if cm, ok := cmpOf(e.Val, true); ok && cm.Op == token.EQL {
					if n, ok := intConst(cm.Y); ok {
						if sh, ok := strip(cm.X).(*ssa.BinOp); ok && sh.Op == token.SHR {
							if k, ok := intConst(sh.Y); ok && k == 4 {
								t := e.Truth && n == c.packetTypes()["typePUBLISH"]
								if n == c.packetTypes()["typePUBLISH"] {
									isPublish = &t
								}
							}
						}
					}
				}
			case pathx.KCall:
				if persistenceOp(e) == "Load" {
					iLoad = i
					// key shape
					if len(e.Args) == 2 {
						// (through a helper introduced later: seqNo.packetID(space))
						binds := pathBindings(p)
						res := func(v ssa.Value) ssa.Value {
							v = strip(v)
							for d := 0; d < 8; d++ {
								b, ok := binds[v]
								if !ok || b == v {
									break
								}
								v = strip(b)
							}
							return v
						}
						k := res(e.Args[1])
						if or, ok := k.(*ssa.BinOp); ok && or.Op == token.OR {
							and, _ := res(or.X).(*ssa.BinOp)
							sp, _ := res(or.Y).(*ssa.Parameter)
							mask, mok := int64(0), false
							if and != nil && and.Op == token.AND {
								mask, mok = intConst(and.Y)
							}
							if and != nil && mok && mask == c.constInt("publishIDMask") && isInd(res(and.X)) && sp != nil && sp != offsetParam && sp.Parent() == rs && isUintType(sp.Type()) {
								key.pass()
							} else {
								key.fail(p, i, "Load key is %s, want seqNo&publishIDMask|space", Expr(k))
							}
						} else {
							key.fail(p, i, "Load key is %s, want seqNo&publishIDMask|space", Expr(k))
						}
					}
				}
				if e.Callee != nil && wire[e.Callee] {
					iWrite = i
				}
			case pathx.KStore:
				if bo, ok := strip(e.Val).(*ssa.BinOp); ok && bo.Op == token.OR {
					if n, ok := intConst(bo.Y); ok && n == c.constInt("dupeFlag") {
						iDupStore = i
					}
				}
				if pathx.RoleOfAddr(e.Addr).Key() == "seq.submitN" {
					okW := false
					if iWrite >= 0 {
						if n, k := nilResult(p, iWrite, i); n && k {
							okW = true
						}
					}
					// the new value counts exactly this sequence number as submitted: seqNo + 1
					exact := false
					if st, ok := e.Instr.(*ssa.Store); ok {
						if bo, ok := strip(st.Val).(*ssa.BinOp); ok && bo.Op == token.ADD && isK(bo.Y, 1) && isInd(bo.X) {
							exact = true
						}
						if call, ok := strip(st.Val).(*ssa.Call); ok {
							if bl, ok := call.Call.Value.(*ssa.Builtin); ok && bl.Name() == "max" {
								exact = true // max(submitN, seqNo+1): judged by its operands below
								exact = false
								for _, a := range call.Call.Args {
									if bo, ok := strip(a).(*ssa.BinOp); ok && bo.Op == token.ADD && isK(bo.Y, 1) && isInd(bo.X) {
										exact = true
									}
								}
							}
						}
					}
					if okW && !exact {
						subm.fail(p, i, "submitN is set to %s, want the sequence number just written plus one: one too few and the next retransmission of this packet lacks DUP, one too many and a first transmission carries it", Expr(e.Val))
					} else if okW {
						subm.pass()
					} else {
						subm.fail(p, i, "submitN is advanced before the packet was written with a nil result: a resend that fails here counts as submitted, and the first real transmission carries DUP")
					}
				}
			}
		}
		switch p.End {
		case pathx.KLoopBack:
			ln, lk := false, false
			if iLoad >= 0 {
				ln, lk = nilResult(p, iLoad, last)
			}
			found := false
			if iLoad >= 0 {
				if pk := pathx.ResultAt(p.Events[iLoad].Result, 0); pk != nil {
					if rel, _, ok := p.Known(pk, iLoad, last); ok && rel == pathx.RNotNil {
						found = true
					}
				}
			}
			wn, wk := false, false
			if iWrite >= 0 {
				wn, wk = nilResult(p, iWrite, last)
			}
			switch {
			case loopCond != 1:
				iter.fail(p, last, "iteration continues without the test seqNo < acceptN having held")
			case iLoad < 0 || !lk || !ln:
				iter.fail(p, last, "an iteration completes without a Load that returned a nil error")
			case !found:
				iter.fail(p, last, "an iteration completes although the record may be missing (nil packet not excluded)")
			case iWrite < 0 || !wk || !wn || iWrite < iLoad:
				iter.fail(p, last, "an iteration completes without a wire write that returned nil after the Load")
			default:
				iter.pass()
			}
			// DUP
			wantDup := ltSubmit != nil && *ltSubmit && isPublish != nil && *isPublish
			// the stored record may carry the flag already (after a restart)
			for _, cm := range assumed(p, 0, last) {
				if and, ok := strip(cm.X).(*ssa.BinOp); ok && and.Op == token.AND && cm.Op == token.NEQ {
					if k, ok := intConst(and.Y); ok && k == c.constInt("dupeFlag") && isK(cm.Y, 0) {
						wantDup = false
					}
				}
			}
			switch {
			case iDupStore >= 0 && !wantDup:
				dup.fail(p, iDupStore, "DUP flag set on a path that has not established seqNo < submitN and packet type PUBLISH")
			case iDupStore < 0 && wantDup:
				dup.fail(p, last, "seqNo < submitN and PUBLISH hold but the DUP flag is not set")
			case iDupStore >= 0 && iWrite >= 0 && iDupStore > iWrite:
				dup.fail(p, iDupStore, "DUP flag set after the write")
			default:
				dup.pass()
			}
		case pathx.KReturn:
			if retErr(p, last) == triNil {
				if loopCond == -1 && iLoad < 0 && iWrite < 0 {
					fin.pass()
				} else {
					fin.fail(p, last, "resend reports success from inside an iteration (loop condition %d, Load seen %v, write seen %v)", loopCond, iLoad >= 0, iWrite >= 0)
				}
			}
		}
	}
	iter.done(2, "every completed iteration loaded the record without error, found it and wrote it with a nil result")
	fin.done(1, "nil is returned only when seqNo < acceptN is false")
	dup.done(2, "DUP is set exactly on paths with seqNo < submitN and type PUBLISH, before the write")
	key.done(1, "key composed from the induction variable, the mask and the space parameter")
	step.done(1, "loop variable starts at the offset and steps by one")
	subm.done(1, "every store to submitN follows the nil write of that iteration")

	// use in connect
	// the sequence tokens are taken behind the dial: a publish that arrives while
	// the network is being tried gets its answer (accepted, or ErrMax) at once,
	// it does not wait for a dial that may never return
	if dialFn := c.Fn("ORD-2", "(*Client).dialAndConnect"); dialFn != nil {
		early := c.acc("ORD-2", cn, "sequence-tokens-taken-behind-the-dial")
		for _, p := range c.Paths("ORD-2", cn) {
			if len(cn.Blocks) == 0 || p.Start != cn.Blocks[0] {
				continue
			}
			iDial := p.Index(0, func(e *pathx.Event) bool { return isCallTo(e, dialFn) })
			iSeq := p.Index(0, func(e *pathx.Event) bool {
				return e.Kind == pathx.KRecv && strings.HasPrefix(tokenOf(e.Chan), "seqSem")
			})
			switch {
			case iDial < 0 || iSeq < 0:
			case iSeq < iDial:
				early.fail(p, iSeq, "connect takes a sequence token before it dials: every PublishAtLeastOnce/PublishExactlyOnce blocks for as long as the dial and the handshake take — unbounded without PauseTimeout — where it is documented to be accepted or refused with ErrMax without blocking")
			default:
				early.pass()
			}
		}
		early.done(1, "on every path the first receive from a sequence semaphore follows the call of dialAndConnect")
	}
	pub := c.acc("ORD-2", cn, "publish-connection⇒both-resends-nil")
	args := c.acc("ORD-2", cn, "resend-arguments(Acked,atLeastOnce,0x8000)/(Completed,exactlyOnce,0xc000)")
	locks := c.acc("ORD-2", cn, "resend-under-seq-tokens-and-write-token")
	for _, p := range c.Paths("ORD-2", cn) {
		last := len(p.Events) - 1
		var calls []int
		for i := range p.Events {
			if isCallTo(&p.Events[i], rs) {
				calls = append(calls, i)
			}
		}
		// argument pairing and lock context per call
		for _, i := range calls {
			e := &p.Events[i]
			if len(e.Args) != 5 {
				args.fail(p, i, "unexpected resend signature")
				continue
			}
			cnt := roleKey(e.Args[2])
			space, _ := intConst(e.Args[4])
			seqSrc := ""
			if a, ok := e.Args[3].(*ssa.Alloc); ok {
				// find the store into the alloc: value received from which seqSem
				for j := 0; j < i; j++ {
					s := &p.Events[j]
					if s.Kind == pathx.KStore && s.Addr == a {
						for k := 0; k < j; k++ {
							if r := &p.Events[k]; r.Kind == pathx.KRecv && r.Result == s.Val {
								seqSrc = tokenOf(r.Chan)
							}
						}
					}
				}
			}
			want := map[string][2]string{
				"orderedTxs.Acked":     {tkALO, "atLeastOnceIDSpace"},
				"orderedTxs.Completed": {tkEO, "exactlyOnceIDSpace"},
			}
			w, ok := want[cnt]
			switch {
			case !ok:
				args.fail(p, i, "resend offset is %s, want the Acked or Completed counter", Expr(e.Args[2]))
			case seqSrc != w[0]:
				args.fail(p, i, "resend from %s uses the sequence taken from %q, want %s", cnt, seqSrc, w[0])
			case space != c.constInt(w[1]):
				args.fail(p, i, "resend from %s uses identifier space %#x, want %s", cnt, space, w[1])
			default:
				args.pass()
			}
			// conn argument is the fresh connection
			if ex, ok := e.Args[1].(*ssa.Extract); !ok || ex.Index != 0 {
				args.fail(p, i, "resend writes to %s, want the connection returned by dialAndConnect", Expr(e.Args[1]))
			}
			// lock context: writeSem received before and not yet sent; the seq token likewise
			held := func(tok string) bool {
				st := false
				for j := 0; j < i; j++ {
					ev := &p.Events[j]
					if ev.Kind == pathx.KRecv && tokenOf(ev.Chan) == tok {
						st = true
					}
					if ev.Kind == pathx.KSend && tokenOf(ev.Chan) == tok {
						st = false
					}
				}
				return st
			}
			if ok && held(tkWrite) && held(w[0]) {
				locks.pass()
			} else if ok {
				locks.fail(p, i, "resend runs without holding writeSem and %s", w[0])
			}
		}
		// publication: send of a non-signal value into writeSem
		for i := range p.Events {
			e := &p.Events[i]
			if e.Kind == pathx.KSend && tokenOf(e.Chan) == tkWrite && pathx.ConstKey(e.Val) == "" {
				okN := 0
				seen := map[string]bool{}
				for _, ci := range calls {
					if ci < i {
						if n, k := nilResult(p, ci, i); n && k {
							okN++
							seen[roleKey(p.Events[ci].Args[2])] = true
						}
					}
				}
				if okN >= 2 && seen["orderedTxs.Acked"] && seen["orderedTxs.Completed"] {
					pub.pass()
				} else {
					pub.fail(p, i, "the connection is handed to writers after %d successful resends (at-least-once %v, exactly-once %v); pending transfers would follow new requests or never be retransmitted", okN, seen["orderedTxs.Acked"], seen["orderedTxs.Completed"])
				}
			}
		}
		_ = last
	}
	pub.done(1, "the connection enters writeSem only after both resends returned nil")
	args.done(2, "counter, sequence token and identifier space are paired correctly")
	locks.done(2, "both resends run under their sequence token and the write token")
}

// constInt evaluates a package level integer constant of the root package.
func (c *Ctx) constInt(name string) int64 {
	v, ok := c.constIntOK(name)
	if !ok {
		c.S.Unknown("COD-0", "COD-0|const|"+name, "", "", "package constant "+name+" no longer resolves to an integer")
	}
	return v
}

// ---- ORD-3: acknowledgement handlers ----

func (c *Ctx) ord3() {
	hs := c.handlers("ORD-3")
	wire := c.wireCapable()
	type spec struct {
		typ, counter, op, queue string
		write                   bool
	}
	specs := []spec{
		{"typePUBACK", "orderedTxs.Acked", "Delete", "atLeastOnce", false},
		{"typePUBCOMP", "orderedTxs.Completed", "Delete", "exactlyOnce", false},
		{"typePUBREC", "orderedTxs.Received", "Save", "", true},
	}
	n := 0
	for _, sp := range specs {
		fn := hs[sp.typ]
		if fn == nil {
			c.S.Unknown("ORD-3", "ORD-3|anchor|"+sp.typ, "", "", "no handler found in the dispatch switch for "+sp.typ)
			continue
		}
		n++
		guard := c.acc("ORD-3", fn, "effects-only-after-"+sp.op+"=nil")
		order := c.acc("ORD-3", fn, sp.op+"→"+sp.counter+"++→"+map[bool]string{true: "write", false: "close(<-queue)"}[sp.write])
		succ := c.acc("ORD-3", fn, "nil-return⇒all-effects-once")
		errp := c.acc("ORD-3", fn, "error-return⇒no-effects")
		other := c.acc("ORD-3", fn, "no-foreign-counter-or-queue")
		for _, p := range c.Paths("ORD-3", fn) {
			if p.End != pathx.KReturn {
				continue
			}
			last := len(p.Events) - 1
			var ops, cnts, recvs, closes, writes []int
			for i := range p.Events {
				e := &p.Events[i]
				switch e.Kind {
				case pathx.KCall:
					if o := persistenceOp(e); o != "" {
						if o == sp.op {
							ops = append(ops, i)
						} else if o != "Load" {
							other.fail(p, i, "unexpected Persistence.%s in this handler", o)
						}
					}
					if e.Callee != nil && wire[e.Callee] {
						writes = append(writes, i)
					}
				case pathx.KStore:
					r := pathx.RoleOfAddr(e.Addr)
					if r.Owner == "orderedTxs" {
						if r.Key() == sp.counter {
							cnts = append(cnts, i)
							if !isIncrementOf(e.Val, e.Addr) {
								order.fail(p, i, "%s is assigned %s, want +1", sp.counter, Expr(e.Val))
							}
						} else {
							other.fail(p, i, "handler for %s writes counter %s", sp.typ, r.Key())
						}
					}
				case pathx.KRecv:
					if r := pathx.RoleOfValue(e.Chan); r.Key() == "outbound.queue" {
						if sp.queue != "" && r.Has(sp.queue) {
							recvs = append(recvs, i)
						} else {
							other.fail(p, i, "handler for %s takes from queue %s", sp.typ, r.Path)
						}
					}
				case pathx.KClose:
					closes = append(closes, i)
				}
			}
			effects := append(append(append([]int{}, cnts...), recvs...), closes...)
			if sp.write {
				effects = append(effects, writes...)
			} else if len(writes) > 0 {
				other.fail(p, writes[0], "acknowledgement handler writes to the wire")
			}
			// every effect behind a nil op
			for _, j := range effects {
				ok := false
				for _, i := range ops {
					if i < j {
						if nl, k := nilResult(p, i, j); nl && k {
							ok = true
						}
					}
				}
				if ok {
					guard.pass()
				} else {
					guard.fail(p, j, "%s happens on a path where Persistence.%s has not returned nil before it: a crash or error here loses or duplicates the transfer", strings.TrimSpace(DescribeEvent(c.P, &p.Events[j])), sp.op)
				}
			}
			re := retErr(p, last)
			if sp.write {
				switch {
				case len(cnts) == 0 && len(writes) == 0:
					if re == triNil {
						succ.fail(p, last, "nil return without recording and forwarding the PUBREC")
					} else {
						errp.pass()
					}
				case len(cnts) == 1 && len(writes) == 1 && len(ops) == 1 && ops[0] < cnts[0] && cnts[0] < writes[0]:
					order.pass()
					wn, wk := nilResult(p, writes[0], last)
					switch {
					case re == triNil && wk && wn:
						succ.pass()
					case re != triNil && wk && !wn:
						errp.pass()
					default:
						succ.fail(p, last, "return value does not follow the PUBREL write result")
					}
				default:
					order.fail(p, last, "want exactly Save → Received++ → write; got Save×%d, Received++×%d, write×%d", len(ops), len(cnts), len(writes))
				}
				continue
			}
			switch re {
			case triNil:
				if len(ops) == 1 && len(cnts) == 1 && len(recvs) == 1 && len(closes) == 1 &&
					ops[0] < cnts[0] && cnts[0] < recvs[0] && recvs[0] < closes[0] &&
					p.Events[closes[0]].Chan == p.Events[recvs[0]].Result {
					order.pass()
					succ.pass()
				} else {
					succ.fail(p, last, "nil return with %s×%d, counter++×%d, queue receive×%d, close×%d (want one each, in that order, closing the received exchange)", sp.op, len(ops), len(cnts), len(recvs), len(closes))
				}
			default:
				if len(effects) == 0 {
					errp.pass()
				} else {
					errp.fail(p, last, "error return after the transfer was already counted or its exchange closed")
				}
			}
		}
		guard.done(1, "every counter update, queue receive, close and write lies behind a nil "+sp.op)
		order.done(1, "effects in the protocol order")
		succ.done(1, "each nil return performed every effect exactly once")
		errp.done(1, "no error return carries an effect")
		other.done(0, "no foreign counter, queue or Persistence operation")
	}
	c.S.Floor("ORD-3", "in-order acknowledgement handlers", n, 3)
}

// ---- ORD-5: stream errors reset the connection ----

func (c *Ctx) ord5() {
	rs := c.Fn("ORD-5", "(*Client).readSlices")
	off := c.Fn("ORD-5", "(*Client).toOffline")
	cn := c.Fn("ORD-5", "(*Client).connect")
	if rs == nil || off == nil || cn == nil {
		return
	}
	byOrigin := map[string]*acc{}
	get := func(origin string) *acc {
		a := byOrigin[origin]
		if a == nil {
			a = c.acc("ORD-5", rs, "error-from("+origin+")⇒toOffline")
			byOrigin[origin] = a
		}
		return a
	}
	exempt := c.acc("ORD-5", rs, "exempt-returns(connect,marker-Save,BigMessage)")
	nRet := 0
	for _, p := range c.Paths("ORD-5", rs) {
		if p.End != pathx.KReturn {
			continue
		}
		last := len(p.Events) - 1
		if retErr(p, last) == triNil {
			continue
		}
		nRet++
		r := p.Events[last].Results[len(p.Events[last].Results)-1]
		origin, at := c.errOrigin(p, r)
		switch {
		case origin == "call:"+load.FuncName(cn):
			exempt.pass() // no connection was established
			continue
		case origin == "invoke:Persistence.Save":
			exempt.pass() // stream untouched; retried at the next call
			continue
		case origin == "field:Client.bigMessage":
			exempt.pass() // not a failure
			continue
		}
		// require toOffline after the origin
		j := p.Index(at+1, func(e *pathx.Event) bool { return isCallTo(e, off) })
		if at < 0 {
			j = p.Index(0, func(e *pathx.Event) bool { return isCallTo(e, off) })
		}
		a := get(origin)
		if j >= 0 {
			a.pass()
		} else {
			a.fail(p, last, "ReadSlices returns an error originating from %s without resetting the connection: the next call continues on a broken or misaligned stream", origin)
		}
	}
	// the converse: an error from the stream, a handler or the acknowledgement
	// write is never stepped over. Behind each such call the very next thing
	// the read routine does — another call, the next iteration, a return —
	// happens with the error known nil, or it is the reset (toOffline), or the
	// error is one of the two documented non-failures (errDupe, BigMessage)
	// or a closed connection that is redialled.
	skip := c.acc("ORD-5", rs, "error-result-examined-before-the-routine-goes-on")
	wire := c.wireCapable()
	origins := func(e *pathx.Event) bool {
		if e.Kind != pathx.KCall || !c.inRegion(rs, e) || e.Callee == nil {
			return false
		}
		if wire[e.Callee] {
			return true
		}
		if load.TopLevel(e.Callee).Pkg != c.P.Root || c.isNewHelper(e.Callee) {
			return false
		}
		n := e.Callee.Name()
		return n == "discard" || n == "peekPacket" || strings.HasPrefix(n, "on")
	}
	for _, p := range c.Paths("ORD-5", rs) {
		for i := range p.Events {
			e := &p.Events[i]
			if !origins(e) {
				continue
			}
			er := pathx.ErrResult(e.Result)
			if er == nil {
				continue
			}
			// the next step of the routine
			j := -1
			for k := i + 1; k < len(p.Events); k++ {
				n := &p.Events[k]
				if !c.inRegion(rs, n) {
					continue
				}
				switch n.Kind {
				case pathx.KCall:
					if name := stdName(n.Callee); name == "errors.Is" || name == "errors.As" || name == "fmt.Errorf" || name == "errors.Join" {
						continue // classifying or wrapping the error
					}
					if n.Call != nil {
						if _, isB := n.Call.Value.(*ssa.Builtin); isB {
							continue
						}
					}
					j = k
				case pathx.KLoopBack, pathx.KReturn:
					j = k
				}
				if j >= 0 {
					break
				}
			}
			if j < 0 {
				continue
			}
			n := &p.Events[j]
			rel, _, known := p.Known(er, i, j)
			switch {
			case known && rel == pathx.RNil:
				skip.pass()
			case isCallTo(n, off):
				skip.pass()
			case n.Kind == pathx.KReturn && retErr(p, j) != triNil && n.Kind == pathx.KReturn:
				skip.pass() // returned (ORD-5 above demands the reset where one is due)
			default:
				// documented non-failures
				okEx := false
				for _, cm := range assumed(p, i, j) {
					for _, k := range []cmp{cm, cm.swapped()} {
						if k.Op == token.EQL && strip(k.X) == er && isSentinel(k.Y, "errDupe") {
							okEx = true
						}
					}
				}
				for k := i + 1; k < j; k++ {
					x := &p.Events[k]
					if x.Kind == pathx.KCall && (stdName(x.Callee) == "errors.Is" || stdName(x.Callee) == "errors.As") {
						if rl, _, kn := p.Known(x.Result, k, j); kn && rl == pathx.RTrue {
							okEx = true // closed connection (redial) or BigMessage
						}
					}
				}
				if okEx {
					skip.pass()
				} else {
					skip.fail(p, j, "the read routine goes on (%s) although the error of %s has not been found nil: a failed read, handler or acknowledgement write is stepped over and the stream is used as if nothing happened", strings.TrimSpace(DescribeEvent(c.P, n)), load.FuncName(e.Callee))
				}
			}
		}
	}
	skip.done(8, "behind every stream, handler and acknowledgement call the error is nil, returned, or answered by the reset")
	for _, a := range byOrigin {
		a.done(1, "every such return passes toOffline")
	}
	exempt.done(1, "returns that by definition keep the connection")
	c.S.Floor("ORD-5", "error returns of readSlices classified", nRet, 8)
}

// errOrigin names where an error value on a path comes from and the index
// of the producing event (-1 for values not produced on the path).
func (c *Ctx) errOrigin(p *pathx.Path, r ssa.Value) (string, int) {
	r = strip(r)
	// the call (or extract of a call) that produced it
	var call ssa.Value = r
	if ex, ok := r.(*ssa.Extract); ok {
		call = ex.Tuple
	}
	for i := range p.Events {
		e := &p.Events[i]
		if e.Kind == pathx.KCall && e.Result != nil && e.Result == call {
			switch {
			case e.Method != nil:
				return "invoke:" + recvTypeName(e.Method) + "." + e.Method.Name(), i
			case e.Callee != nil:
				if load.TopLevel(e.Callee).Pkg == c.P.Root {
					return "call:" + load.FuncName(e.Callee), i
				}
				return "call:" + stdName(e.Callee), i
			}
		}
	}
	switch x := r.(type) {
	case *ssa.UnOp:
		if x.Op == token.MUL {
			if g, ok := x.X.(*ssa.Global); ok {
				return "sentinel:" + g.Name(), -1
			}
			if rl := pathx.RoleOfAddr(x.X); rl.Path != "" {
				return "field:" + rl.Key(), -1
			}
		}
	case *ssa.MakeInterface:
		if k := roleKey(x.X); k != "" {
			return "field:" + k, -1
		}
		return "value:" + Expr(x.X), -1
	}
	return "unknown:" + Expr(r), -1
}

// errorsNotSkippedIO: in the packet reader and the skipper, behind every
// deadline, read, peek and discard call the very next step happens with the
// error known nil, or is the return of an error; the only way back into the
// loop with an error is the tolerated deadline expiry (Timeout() true — that
// progress was made is ORD-13's clause).
func (c *Ctx) errorsNotSkippedIO(rule string, fn *ssa.Function) {
	a := c.acc(rule, fn, "I/O-error-examined-before-the-function-goes-on")
	wire := c.wireCapable()
	isIO := func(e *pathx.Event) bool {
		if e.Kind != pathx.KCall || e.Deferred || !c.inRegion(fn, e) {
			return false
		}
		if e.Method != nil && (e.Method.Name() == "SetReadDeadline" || e.Method.Name() == "SetWriteDeadline") {
			return true
		}
		switch stdName(e.Callee) {
		case "(*bufio.Reader).ReadByte", "(*bufio.Reader).Peek", "(*bufio.Reader).Discard", "(*bufio.Reader).Read", "io.ReadFull":
			return true
		}
		if e.Callee != nil && wire[e.Callee] {
			return true
		}
		switch persistenceOp(e) {
		case "Load", "List", "Save":
			return true
		}
		// the operating system, in the file store
		if e.Callee != nil && e.Callee.Pkg != nil && e.Callee.Pkg.Pkg.Path() == "os" && pathx.ErrResult(e.Result) != nil {
			switch stdName(e.Callee) {
			case "(*os.File).Close", "os.Remove":
				return fn.Name() == "Delete" && stdName(e.Callee) == "os.Remove" // elsewhere these clean up behind a failure
			}
			return true
		}
		if stdName(e.Callee) == "(*net.Buffers).WriteTo" {
			return true
		}
		return false
	}
	for _, p := range c.Paths(rule, fn) {
		for i := range p.Events {
			e := &p.Events[i]
			if !isIO(e) {
				continue
			}
			er := pathx.ErrResult(e.Result)
			if er == nil {
				continue
			}
			j := -1
			timeout := false
			for k := i + 1; k < len(p.Events) && j < 0; k++ {
				n := &p.Events[k]
				if n.Kind == pathx.KCall && n.Method != nil && n.Method.Name() == "Timeout" && !n.Deferred {
					// (also inside a predicate helper expanded in place)
					if rl, _, kn := p.Known(n.Result, k, -1); kn && rl == pathx.RTrue {
						timeout = true
					}
					continue
				}
				if !c.inRegion(fn, n) || n.Deferred {
					continue
				}
				switch n.Kind {
				case pathx.KCall:
					name := stdName(n.Callee)
					if name == "errors.Is" || name == "errors.As" || name == "fmt.Errorf" || name == "errors.Join" {
						continue
					}
					if c.isNewHelper(n.Callee) {
						continue // expanded in place: its own steps follow
					}
					if n.Method != nil && n.Method.Name() == "Timeout" {
						if rl, _, kn := p.Known(n.Result, k, -1); kn && rl == pathx.RTrue {
							timeout = true
						}
						continue
					}
					if n.Call != nil {
						if _, isB := n.Call.Value.(*ssa.Builtin); isB {
							continue
						}
					}
					if name == "(*os.File).Close" {
						continue // releasing the descriptor is no use of the outcome
					}
					if isInvoke(n, "net.Conn", "Close") || name == "os.Remove" || name == "(*os.File).Name" {
						if rl, _, kn := p.Known(er, i, k); kn && rl == pathx.RNotNil {
							continue // cleaning up behind a failure that was noticed
						}
					}
					j = k
				case pathx.KLoopBack, pathx.KReturn:
					j = k
				}
			}
			// an error recognised as a tolerated kind (errors.Is/As true) has been examined
			classified := false
			for k := i + 1; k < len(p.Events) && (j < 0 || k < j); k++ {
				x := &p.Events[k]
				if x.Kind == pathx.KCall && (stdName(x.Callee) == "errors.Is" || stdName(x.Callee) == "errors.As") {
					if rl, _, kn := p.Known(x.Result, k, -1); kn && rl == pathx.RTrue {
						classified = true
					}
				}
			}
			if j < 0 {
				continue
			}
			n := &p.Events[j]
			rel, _, known := p.Known(er, i, j)
			switch {
			case known && rel == pathx.RNil:
				a.pass()
			case classified:
				a.pass()
			case n.Kind == pathx.KReturn && retErr(p, j) != triNil:
				a.pass()
			case n.Kind == pathx.KLoopBack && timeout && known && rel == pathx.RNotNil:
				a.pass()
			default:
				a.fail(p, j, "%s goes on (%s) although the error of %s has not been found nil: a failed deadline, read or skip is stepped over", load.FuncName(fn), strings.TrimSpace(DescribeEvent(c.P, n)), strings.TrimSpace(DescribeEvent(c.P, e)))
			}
		}
	}
	a.done(2, "behind every I/O call the error is nil, returned, or a tolerated expiry")
}

// ---- ERR-8: no error of the stream, the store or the operating system is stepped over ----

func init() {
	register("ERR-8", []string{"ERR-8"}, func(c *Ctx, _ map[string]bool) {
		for _, name := range []string{"(*Client).peekPacket", "(*Client).discard", "(*Client).handshake", "(*Client).resend", "initSession", "AdoptSession", "(*Client).dialAndConnect", "(fileSystem).List", "(fileSystem).Load", "(fileSystem).Save", "(fileSystem).Delete"} {
			if fn := c.Fn("ERR-8", name); fn != nil {
				c.errorsNotSkippedIO("ERR-8", fn)
			}
		}
	})
}

// isUintType: uint, or a named type over it (a sequence number type introduced later).
func isUintType(t types.Type) bool {
	b, ok := t.Underlying().(*types.Basic)
	return ok && b.Kind() == types.Uint
}
