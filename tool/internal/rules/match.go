package rules

import (
	"fmt"
	"go/constant"
	"go/token"
	"go/types"
	"strings"

	"golang.org/x/tools/go/ssa"

	"mqttverif/internal/pathx"
)

// strip removes value-preserving conversions.
func strip(v ssa.Value) ssa.Value {
	for {
		switch x := v.(type) {
		case *ssa.Convert:
			v = x.X
		case *ssa.ChangeType:
			v = x.X
		default:
			return v
		}
	}
}

// Expr renders an SSA value as a source-like expression (bounded depth).
func Expr(v ssa.Value) string { return expr(v, 6) }

func expr(v ssa.Value, d int) string {
	if v == nil {
		return "?"
	}
	if d <= 0 {
		return "…"
	}
	switch x := v.(type) {
	case *ssa.Const:
		if x.Value == nil {
			return "nil"
		}
		if x.Value.Kind() == constant.Int {
			if n, ok := constant.Int64Val(x.Value); ok && (n > 255 || n < 0) {
				return fmt.Sprintf("%#x", n)
			}
		}
		return x.Value.String()
	case *ssa.Parameter:
		return x.Name()
	case *ssa.FreeVar:
		return x.Name()
	case *ssa.Global:
		return x.Name()
	case *ssa.Function:
		return x.Name()
	case *ssa.BinOp:
		return "(" + expr(x.X, d-1) + " " + x.Op.String() + " " + expr(x.Y, d-1) + ")"
	case *ssa.UnOp:
		switch x.Op {
		case token.MUL:
			if r := pathx.RoleOfAddr(x.X); r.Path != "" {
				return r.Path
			}
			if g, ok := x.X.(*ssa.Global); ok {
				return g.Name()
			}
			if a, ok := x.X.(*ssa.Alloc); ok {
				return "*" + a.Comment
			}
			if ia, ok := x.X.(*ssa.IndexAddr); ok {
				return expr(ia.X, d-1) + "[" + expr(ia.Index, d-1) + "]"
			}
			return "*" + expr(x.X, d-1)
		case token.ARROW:
			return "<-" + expr(x.X, d-1)
		}
		return x.Op.String() + expr(x.X, d-1)
	case *ssa.Convert:
		return expr(x.X, d)
	case *ssa.ChangeType:
		return expr(x.X, d)
	case *ssa.MakeInterface:
		return expr(x.X, d)
	case *ssa.Field:
		if r := pathx.RoleOfValue(x); r.Path != "" {
			return r.Path
		}
	case *ssa.FieldAddr:
		if r := pathx.RoleOfAddr(x); r.Path != "" {
			return "&" + r.Path
		}
	case *ssa.Alloc:
		return "&" + x.Comment
	case *ssa.Extract:
		return expr(x.Tuple, d-1) + fmt.Sprintf("#%d", x.Index)
	case *ssa.Phi:
		var es []string
		for _, e := range x.Edges {
			if e == v {
				continue
			}
			es = append(es, expr(e, d-2))
		}
		return "phi(" + strings.Join(es, "|") + ")"
	case *ssa.Slice:
		s := expr(x.X, d-1) + "["
		if x.Low != nil {
			s += expr(x.Low, d-1)
		}
		s += ":"
		if x.High != nil {
			s += expr(x.High, d-1)
		}
		return s + "]"
	case *ssa.IndexAddr:
		return "&" + expr(x.X, d-1) + "[" + expr(x.Index, d-1) + "]"
	case *ssa.Index:
		return expr(x.X, d-1) + "[" + expr(x.Index, d-1) + "]"
	case *ssa.Lookup:
		return expr(x.X, d-1) + "[" + expr(x.Index, d-1) + "]"
	case *ssa.Call:
		var as []string
		for _, a := range x.Call.Args {
			as = append(as, expr(a, d-2))
		}
		n := "?"
		switch {
		case x.Call.Method != nil:
			n = expr(x.Call.Value, d-1) + "." + x.Call.Method.Name()
		case x.Call.StaticCallee() != nil:
			n = x.Call.StaticCallee().Name()
		default:
			if b, ok := x.Call.Value.(*ssa.Builtin); ok {
				n = b.Name()
			}
		}
		return n + "(" + strings.Join(as, ", ") + ")"
	}
	return v.Name()
}

// intConst returns the integer value of a constant (through conversions).
// staticParam: see pathx.StaticParam (set per run in NewCtx).
var staticParam map[*ssa.Parameter]ssa.Value

func intConst(v ssa.Value) (int64, bool) {
	// (a parameter that every caller binds to the same constant is that constant)
	if pr, isP := strip(v).(*ssa.Parameter); isP {
		if b, has := staticParam[pr]; has {
			if _, isK := strip(b).(*ssa.Const); isK {
				v = b
			}
		}
	}
	c, ok := strip(v).(*ssa.Const)
	if !ok || c.Value == nil || c.Value.Kind() != constant.Int {
		return 0, false
	}
	n, ok := constant.Int64Val(c.Value)
	if !ok {
		if u, ok2 := constant.Uint64Val(c.Value); ok2 {
			return int64(u), true
		}
	}
	return n, ok
}

// roleKey is the Owner.Field key of the location a value was loaded from.
func roleKey(v ssa.Value) string { return pathx.RoleOfValue(strip(v)).Key() }

// isLoadOf reports whether v is a load of the field named by key.
func isLoadOf(v ssa.Value, key string) bool { return roleKey(v) == key }

// builtinCall matches len(x), cap(x) etc.
func builtinCall(v ssa.Value, name string) (ssa.Value, bool) {
	c, ok := strip(v).(*ssa.Call)
	if !ok {
		return nil, false
	}
	b, ok := c.Call.Value.(*ssa.Builtin)
	if !ok || b.Name() != name || len(c.Call.Args) < 1 {
		return nil, false
	}
	return c.Call.Args[0], true
}

// cmpOf decomposes a comparison, normalising the direction of truth.
type cmp struct {
	Op   token.Token
	X, Y ssa.Value
}

func cmpOf(v ssa.Value, truth bool) (cmp, bool) {
	for {
		u, ok := v.(*ssa.UnOp)
		if !ok || u.Op != token.NOT {
			break
		}
		v, truth = u.X, !truth
	}
	b, ok := v.(*ssa.BinOp)
	if !ok {
		return cmp{}, false
	}
	if zx, isZero, ok := pathx.ZeroTest(b); ok {
		// x > 0, x >= 1 … on a non-negative value: the same as x != 0
		op := token.NEQ
		if isZero == truth {
			op = token.EQL
		}
		return cmp{op, zx, zeroConst}, true
	}
	op := b.Op
	switch op {
	case token.EQL, token.NEQ, token.LSS, token.LEQ, token.GTR, token.GEQ:
	default:
		return cmp{}, false
	}
	if !truth {
		op = map[token.Token]token.Token{token.EQL: token.NEQ, token.NEQ: token.EQL, token.LSS: token.GEQ, token.GEQ: token.LSS, token.GTR: token.LEQ, token.LEQ: token.GTR}[op]
	}
	return cmp{op, b.X, b.Y}, true
}

// swapped gives the same comparison with operands exchanged.
func (c cmp) swapped() cmp {
	op := map[token.Token]token.Token{token.EQL: token.EQL, token.NEQ: token.NEQ, token.LSS: token.GTR, token.GTR: token.LSS, token.LEQ: token.GEQ, token.GEQ: token.LEQ}[c.Op]
	return cmp{op, c.Y, c.X}
}

// assumed lists the comparisons a path has established before event upto.
func assumed(p *pathx.Path, from, upto int) []cmp {
	var out []cmp
	if upto < 0 || upto > len(p.Events) {
		upto = len(p.Events)
	}
	for i := from; i < upto; i++ {
		e := &p.Events[i]
		if e.Kind != pathx.KAssume {
			continue
		}
		if c, ok := cmpOf(e.Val, e.Truth); ok {
			out = append(out, c)
		}
	}
	return out
}

// isIncrementOf reports whether v is (load of same location as addr) + 1.
func isIncrementOf(v ssa.Value, addr ssa.Value) bool {
	b, ok := strip(v).(*ssa.BinOp)
	if !ok || b.Op != token.ADD {
		return false
	}
	n, ok := intConst(b.Y)
	if !ok || n != 1 {
		return false
	}
	l, ok := strip(b.X).(*ssa.UnOp)
	if !ok || l.Op != token.MUL {
		return false
	}
	return pathx.RoleOfAddr(l.X).Path == pathx.RoleOfAddr(addr).Path && pathx.RoleOfAddr(addr).Path != ""
}

// nilResult reports whether the error result of the call event at index i is
// known to be nil (or non-nil) before event upto.
func nilResult(p *pathx.Path, i, upto int) (isNil, known bool) {
	r := pathx.ErrResult(p.Events[i].Result)
	if r == nil {
		return false, false
	}
	rel, _, ok := p.Known(r, i, upto)
	if !ok {
		return false, false
	}
	return rel == pathx.RNil, rel == pathx.RNil || rel == pathx.RNotNil
}

// retErrNil classifies the error result of a return event: 1 nil, 0 non-nil.
func retErrNil(e *pathx.Event) bool {
	if len(e.Results) == 0 {
		return true
	}
	return pathx.IsNilConst(e.Results[len(e.Results)-1])
}

// paramOfType returns the first parameter of fn whose type prints as typ.
func paramOfType(fn *ssa.Function, typ string) *ssa.Parameter {
	for _, p := range fn.Params {
		if p.Type().String() == typ {
			return p
		}
	}
	return nil
}

// isParamOfType reports whether v is a parameter whose type prints as typ.
func isParamOfType(v ssa.Value, typ string) bool {
	p, ok := strip(v).(*ssa.Parameter)
	return ok && p.Type().String() == typ
}

var zeroConst = ssa.NewConst(constant.MakeInt64(0), types.Typ[types.Int])

// appendUintN recognises binary.{Big,Little}Endian.AppendUintNN(b, v) and
// returns the destination, the value and the number of bytes appended.
func appendUintN(v ssa.Value) (dst, val ssa.Value, n int64, ok bool) {
	call, isCall := v.(*ssa.Call)
	if !isCall {
		return nil, nil, 0, false
	}
	f := call.Call.StaticCallee()
	if f == nil || f.Pkg == nil || f.Pkg.Pkg.Path() != "encoding/binary" || len(call.Call.Args) != 3 {
		return nil, nil, 0, false
	}
	switch f.Name() {
	case "AppendUint16":
		n = 2
	case "AppendUint32":
		n = 4
	case "AppendUint64":
		n = 8
	default:
		return nil, nil, 0, false
	}
	return call.Call.Args[1], call.Call.Args[2], n, true
}

// finalValue sees through a load of a captured variable that is assigned exactly
// once in the enclosing function (an effectively final local).
func finalValue(v ssa.Value) ssa.Value {
	for i := 0; i < 4; i++ {
		v = stripConv(v)
		u, ok := v.(*ssa.UnOp)
		if !ok || u.Op != token.MUL {
			return v
		}
		fv, ok := u.X.(*ssa.FreeVar)
		if !ok {
			return v
		}
		fn := fv.Parent()
		idx := -1
		for j, x := range fn.FreeVars {
			if x == fv {
				idx = j
			}
		}
		var stored ssa.Value
		n := 0
		for _, mc := range closureSites(fn) {
			if idx < 0 || idx >= len(mc.Bindings) {
				continue
			}
			if al, ok := mc.Bindings[idx].(*ssa.Alloc); ok {
				for _, r := range *al.Referrers() {
					if st, ok := r.(*ssa.Store); ok && st.Addr == al {
						stored = st.Val
						n++
					}
				}
			}
		}
		if n != 1 || stored == nil {
			return v
		}
		v = stored
	}
	return v
}

// lastBlockOf: the block a segment ended in — of the function itself, or of a
// helper expanded in place when the segment lies entirely inside one.
func lastBlockOf(p *pathx.Path) *ssa.BasicBlock {
	if n := len(p.Blocks); n > 0 {
		return p.Blocks[n-1]
	}
	if n := len(p.AllBlocks); n > 0 {
		return p.AllBlocks[n-1]
	}
	return nil
}
