package rules

import (
	"mqttverif/internal/load"
	"mqttverif/internal/pathx"
)

func init() { pathx.KnownNamed = load.KnownTypeNames() }

// knownFuncs lists the functions and methods of the analysed packages as of the
// tree the rules were written against (load/known_gen.go). A function that is
// NOT in this list is a helper introduced later: path rules expand it in place
// inside its callers instead of judging it on its own, so that extracting a
// helper does not alarm. A known name that was merely renamed is spelled the old
// way by the loader before any rule runs (load/known.go).
var knownFuncs = load.KnownFuncNames()
