package rules

import (
	"go/token"
	"go/types"

	"golang.org/x/tools/go/ssa"
)

// A unification based (Steensgaard style), field based alias analysis for
// reference-like values (channels, pointers, maps, slices, functions) of
// the root package. It answers one question for the rules: which send and
// close sites can reach the channel a given receive reads from.

type anode struct {
	parent *anode
	elem   *anode // what the reference points to / carries
	rank   int
}

func (n *anode) find() *anode {
	for n.parent != nil {
		if n.parent.parent != nil {
			n.parent = n.parent.parent
		}
		n = n.parent
	}
	return n
}

type aliasGraph struct {
	nodes  map[ssa.Value]*anode
	fields map[string]*anode // struct field contents, field based
	sends  []aliasSend
	closes []aliasClose
	makes  []*ssa.MakeChan
}

type aliasSend struct {
	Chan  ssa.Value
	Val   ssa.Value
	Instr ssa.Instruction
	Fn    *ssa.Function
}

type aliasClose struct {
	Chan  ssa.Value
	Instr ssa.Instruction
	Fn    *ssa.Function
}

func (g *aliasGraph) node(v ssa.Value) *anode {
	switch x := v.(type) {
	case *ssa.ChangeType:
		return g.node(x.X)
	case *ssa.Convert:
		return g.node(x.X)
	case *ssa.MakeInterface:
		return g.node(x.X)
	case *ssa.FieldAddr:
		// address of a field: a reference whose content is the field node
		n := g.nodes[v]
		if n == nil {
			n = &anode{}
			g.nodes[v] = n
			n.elem = g.field(x.X.Type(), x.Field)
		}
		return n.find()
	case *ssa.Field:
		return g.field(x.X.Type(), x.Field).find()
	}
	n := g.nodes[v]
	if n == nil {
		n = &anode{}
		g.nodes[v] = n
	}
	return n.find()
}

func (g *aliasGraph) field(t types.Type, idx int) *anode {
	for {
		if p, ok := t.Underlying().(*types.Pointer); ok {
			t = p.Elem()
			continue
		}
		break
	}
	key := types.TypeString(t, nil) + "#" + structOfType(t).Field(idx).Name()
	n := g.fields[key]
	if n == nil {
		n = &anode{}
		g.fields[key] = n
	}
	return n.find()
}

func structOfType(t types.Type) *types.Struct {
	s, _ := t.Underlying().(*types.Struct)
	return s
}

func (g *aliasGraph) elemOf(n *anode) *anode {
	n = n.find()
	if n.elem == nil {
		n.elem = &anode{}
	}
	return n.elem.find()
}

func (g *aliasGraph) unify(a, b *anode) {
	a, b = a.find(), b.find()
	if a == b {
		return
	}
	if a.rank < b.rank {
		a, b = b, a
	}
	b.parent = a
	if a.rank == b.rank {
		a.rank++
	}
	ae, be := a.elem, b.elem
	switch {
	case ae == nil:
		a.elem = be
	case be != nil:
		g.unify(ae, be)
	}
}

func refLike(t types.Type) bool {
	switch t.Underlying().(type) {
	case *types.Chan, *types.Pointer, *types.Map, *types.Slice, *types.Signature, *types.Interface, *types.Struct:
		return true
	}
	return false
}

func (c *Ctx) alias() *aliasGraph {
	if c.aliasMemo != nil {
		return c.aliasMemo
	}
	g := &aliasGraph{nodes: map[ssa.Value]*anode{}, fields: map[string]*anode{}}
	c.aliasMemo = g
	inPkg := map[*ssa.Function]bool{}
	for _, f := range c.funcs {
		inPkg[f] = true
	}
	for _, f := range c.funcs {
		var rets []*ssa.Return
		for _, b := range f.Blocks {
			for _, ins := range b.Instrs {
				if r, ok := ins.(*ssa.Return); ok {
					rets = append(rets, r)
				}
			}
		}
		_ = rets
		for _, b := range f.Blocks {
			for _, ins := range b.Instrs {
				switch x := ins.(type) {
				case *ssa.Phi:
					if refLike(x.Type()) {
						for _, e := range x.Edges {
							g.unify(g.node(x), g.node(e))
						}
					}
				case *ssa.MakeChan:
					g.makes = append(g.makes, x)
					g.node(x)
				case *ssa.Send:
					g.sends = append(g.sends, aliasSend{x.Chan, x.X, x, f})
					if refLike(x.X.Type()) {
						g.unify(g.elemOf(g.node(x.Chan)), g.node(x.X))
					}
				case *ssa.UnOp:
					switch x.Op {
					case token.ARROW:
						var res ssa.Value = x
						if x.CommaOk {
							res = nil
							for _, r := range *x.Referrers() {
								if ex, ok := r.(*ssa.Extract); ok && ex.Index == 0 {
									res = ex
								}
							}
						}
						if res != nil && refLike(res.Type()) {
							g.unify(g.node(res), g.elemOf(g.node(x.X)))
						}
					case token.MUL:
						if refLike(x.Type()) {
							g.unify(g.node(x), g.elemOf(g.node(x.X)))
						}
					}
				case *ssa.Select:
					ri := 0
					for _, st := range x.States {
						if st.Dir == types.SendOnly {
							g.sends = append(g.sends, aliasSend{st.Chan, st.Send, x, f})
							if refLike(st.Send.Type()) {
								g.unify(g.elemOf(g.node(st.Chan)), g.node(st.Send))
							}
							continue
						}
						for _, r := range *x.Referrers() {
							if ex, ok := r.(*ssa.Extract); ok && ex.Index == 2+ri && refLike(ex.Type()) {
								g.unify(g.node(ex), g.elemOf(g.node(st.Chan)))
							}
						}
						ri++
					}
				case *ssa.Store:
					if refLike(x.Val.Type()) {
						g.unify(g.elemOf(g.node(x.Addr)), g.node(x.Val))
					}
				case *ssa.MapUpdate:
					if refLike(x.Value.Type()) {
						g.unify(g.elemOf(g.node(x.Map)), g.node(x.Value))
					}
				case *ssa.Lookup:
					if refLike(x.Type()) {
						var res ssa.Value = x
						if x.CommaOk {
							res = nil
							for _, r := range *x.Referrers() {
								if ex, ok := r.(*ssa.Extract); ok && ex.Index == 0 {
									res = ex
								}
							}
						}
						if res != nil {
							g.unify(g.node(res), g.elemOf(g.node(x.X)))
						}
					}
				case *ssa.Next:
					// range over map: value is tuple #2
					for _, r := range *x.Referrers() {
						if ex, ok := r.(*ssa.Extract); ok && ex.Index == 2 && refLike(ex.Type()) {
							if rg, ok := x.Iter.(*ssa.Range); ok {
								g.unify(g.node(ex), g.elemOf(g.node(rg.X)))
							}
						}
					}
				case *ssa.IndexAddr:
					g.unify(g.node(x), g.node(x.X)) // element addresses collapse onto the container
				case *ssa.Index:
					if refLike(x.Type()) {
						g.unify(g.node(x), g.elemOf(g.node(x.X)))
					}
				case *ssa.Slice:
					g.unify(g.node(x), g.node(x.X))
				case *ssa.MakeClosure:
					fn := x.Fn.(*ssa.Function)
					for i, bnd := range x.Bindings {
						if i < len(fn.FreeVars) {
							g.unify(g.node(fn.FreeVars[i]), g.node(bnd))
						}
					}
				case *ssa.Extract:
					// handled with calls
				case ssa.CallInstruction:
					cc := x.Common()
					if b, ok := cc.Value.(*ssa.Builtin); ok {
						switch b.Name() {
						case "close":
							g.closes = append(g.closes, aliasClose{cc.Args[0], x, f})
						case "append":
							if v := x.Value(); v != nil && len(cc.Args) == 2 {
								g.unify(g.node(v), g.node(cc.Args[0]))
								g.unify(g.node(v), g.node(cc.Args[1]))
							}
						}
						continue
					}
					var callee *ssa.Function
					if sc := cc.StaticCallee(); sc != nil {
						callee = sc
					} else if mc, ok := cc.Value.(*ssa.MakeClosure); ok {
						callee, _ = mc.Fn.(*ssa.Function)
					}
					if callee == nil || !inPkg[callee] {
						continue
					}
					for i, a := range cc.Args {
						if i < len(callee.Params) && refLike(a.Type()) {
							g.unify(g.node(callee.Params[i]), g.node(a))
						}
					}
					v := x.Value()
					if v == nil {
						continue
					}
					for _, cb := range callee.Blocks {
						for _, ci := range cb.Instrs {
							r, ok := ci.(*ssa.Return)
							if !ok {
								continue
							}
							if len(r.Results) == 1 {
								if refLike(r.Results[0].Type()) {
									g.unify(g.node(v), g.node(r.Results[0]))
								}
								continue
							}
							for _, ref := range *v.Referrers() {
								if ex, ok := ref.(*ssa.Extract); ok && ex.Index < len(r.Results) && refLike(ex.Type()) {
									g.unify(g.node(ex), g.node(r.Results[ex.Index]))
								}
							}
						}
					}
				}
			}
		}
	}
	return g
}

// same reports whether two channel values may be the same channel.
func (g *aliasGraph) same(a, b ssa.Value) bool { return g.node(a) == g.node(b) }

// sendsTo lists the send sites that may target channel ch.
func (g *aliasGraph) sendsTo(ch ssa.Value) []aliasSend {
	var out []aliasSend
	n := g.node(ch)
	for _, s := range g.sends {
		if g.node(s.Chan) == n {
			out = append(out, s)
		}
	}
	return out
}

func (g *aliasGraph) closesOf(ch ssa.Value) []aliasClose {
	var out []aliasClose
	n := g.node(ch)
	for _, s := range g.closes {
		if g.node(s.Chan) == n {
			out = append(out, s)
		}
	}
	return out
}

// makesOf lists the make(chan) sites that may create channel ch.
func (g *aliasGraph) makesOf(ch ssa.Value) []*ssa.MakeChan {
	var out []*ssa.MakeChan
	n := g.node(ch)
	for _, m := range g.makes {
		if g.node(m) == n {
			out = append(out, m)
		}
	}
	return out
}
