package rules

import (
	"go/constant"
	"go/token"
	"strings"

	"golang.org/x/tools/go/ssa"

	"mqttverif/internal/load"
	"mqttverif/internal/pathx"
)

func init() {
	register("ORD-7", []string{"ORD-7"}, func(c *Ctx, _ map[string]bool) { c.ord7() })
	register("ORD-9", []string{"ORD-9"}, func(c *Ctx, _ map[string]bool) { c.ord9() })
	register("ORD-13", []string{"ORD-13"}, func(c *Ctx, _ map[string]bool) { c.ord13() })
	register("ORD-14", []string{"ORD-14"}, func(c *Ctx, _ map[string]bool) { c.ord14() })
}

// indexOf decomposes x[i] (a load through IndexAddr) into base and index.
func indexOf(v ssa.Value) (ssa.Value, int64, bool) {
	u, ok := strip(v).(*ssa.UnOp)
	if !ok || u.Op != token.MUL {
		return nil, 0, false
	}
	ia, ok := u.X.(*ssa.IndexAddr)
	if !ok {
		return nil, 0, false
	}
	k, ok := intConst(ia.Index)
	return ia.X, k, ok
}

// ---- ORD-7: connection set-up ----

func (c *Ctx) ord7() {
	cn := c.Fn("ORD-7", "(*Client).connect")
	dial := c.Fn("ORD-7", "(*Client).dialAndConnect")
	hk := c.Fn("ORD-7", "(*Client).handshake")
	rs := c.Fn("ORD-7", "(*Client).resend")
	if cn == nil || dial == nil || hk == nil {
		return
	}
	wire := c.wireCapable()
	pt := c.packetTypes()

	// (a) handshake: CONNECT first
	first := c.acc("ORD-7", hk, "first-use-of-connection=write(newCONNREQ(clientID))")
	for _, p := range c.Paths("ORD-7", hk) {
		if p.Start != hk.Blocks[0] {
			continue
		}
		for i := range p.Events {
			e := &p.Events[i]
			if e.Kind != pathx.KCall {
				continue
			}
			uses := false
			for _, a := range e.Args {
				if pr, ok := a.(*ssa.Parameter); ok && pr.Type().String() == "net.Conn" {
					uses = true
				}
			}
			if !uses {
				continue
			}
			ok := e.Callee != nil && wire[e.Callee] && len(e.Args) >= 2
			if ok {
				req, isCall := e.Args[1].(*ssa.Call)
				ok = isCall && req.Call.StaticCallee() != nil && req.Call.StaticCallee().Name() == "newCONNREQ"
				if ok {
					a0, _ := req.Call.Args[0].(*ssa.Parameter)
					a1, _ := req.Call.Args[1].(*ssa.Parameter)
					ok = a0 != nil && strings.HasSuffix(a0.Type().String(), ".Config") && a0 != hk.Params[0] && a1 != nil && a1.Type().String() == "[]byte"
				}
			}
			if ok {
				first.pass()
			} else {
				first.fail(p, i, "the first operation on a new connection is %s, want the write of config.newCONNREQ(clientID)", strings.TrimSpace(DescribeEvent(c.P, e)))
			}
			break
		}
	}
	first.done(1, "on every path the first thing done with the connection is writing the CONNECT built from the passed Config and client identifier")

	// (b) CONNACK checklist
	chk := c.acc("ORD-7", hk, "success⇒CONNACK(0x20,2,flags∈{0,1},code=0,Peek=nil,SP⇒¬clean)")
	for _, p := range c.Paths("ORD-7", hk) {
		if p.End != pathx.KReturn {
			continue
		}
		last := len(p.Events) - 1
		if retErr(p, last) != triNil {
			continue
		}
		ip := p.Index(0, func(e *pathx.Event) bool { return isStd(e, "(*bufio.Reader).Peek") })
		if ip < 0 {
			chk.fail(p, last, "handshake succeeds without peeking the CONNACK")
			continue
		}
		if n, ok := intConst(p.Events[ip].Args[1]); !ok || n != 4 {
			chk.fail(p, ip, "handshake peeks %s bytes, want 4", Expr(p.Events[ip].Args[1]))
			continue
		}
		pkt := pathx.ResultAt(p.Events[ip].Result, 0)
		peekNil, _ := nilResult(p, ip, last)
		// bufio contract (trusted): Peek(4) with a nil error returns 4 bytes,
		// so a path that assumes len(packet) <= 1 together with a nil error
		// is infeasible.
		short := false
		for _, cm := range assumed(p, ip, last) {
			if x, ok := builtinCall(cm.X, "len"); ok && x == pkt && (cm.Op == token.LEQ || cm.Op == token.LSS) {
				if k, ok := intConst(cm.Y); ok && k < 4 {
					short = true
				}
			}
		}
		if short && peekNil {
			continue
		}
		var b0, b1, code bool
		flags := map[int64]bool{}
		flagEq := int64(-1)
		clean := 0
		for _, cm := range assumed(p, ip, last) {
			for _, k := range []cmp{cm, cm.swapped()} {
				if base, idx, ok := indexOf(k.X); ok && base == pkt {
					n, isN := intConst(k.Y)
					switch {
					case idx == 0 && k.Op == token.EQL && isN && n == pt["typeCONNACK"]<<4:
						b0 = true
					case idx == 1 && k.Op == token.EQL && isN && n == 2:
						b1 = true
					case idx == 2 && k.Op == token.EQL && isN:
						flagEq = n
						flags[n] = true
					}
				}
				// connectReturn(packet[3]) == accepted
				if cv, ok := k.X.(*ssa.ChangeType); ok {
					if base, idx, ok := indexOf(cv.X); ok && base == pkt && idx == 3 && k.Op == token.EQL && isK(k.Y, 0) {
						code = true
					}
				}
				if base, idx, ok := indexOf(k.X); ok && base == pkt && idx == 3 && k.Op == token.EQL && isK(k.Y, 0) {
					code = true
				}
			}
		}
		for i := ip; i < last; i++ {
			e := &p.Events[i]
			// (the Config of this attempt — the parameter, whose CleanSession connect cleared
			// for a reconnect — not the client's own, configured one)
			if e.Kind == pathx.KAssume && roleKey(e.Val) == "Config.CleanSession" && !strings.HasPrefix(pathx.RoleOfValue(strip(e.Val)).Path, "Client.") {
				if e.Truth {
					clean = 1
				} else {
					clean = -1
				}
			}
		}
		switch {
		case !peekNil:
			chk.fail(p, last, "handshake succeeds although Peek(4) may have failed (short or missing CONNACK)")
		case !b0 || !b1:
			chk.fail(p, last, "handshake succeeds on a path that has not established both header bytes 0x20 and 0x02 (first: %v, second: %v): a malformed first packet is taken for an accepting CONNACK", b0, b1)
		case !code:
			chk.fail(p, last, "handshake succeeds without the return code having been compared with 'accepted'")
		case flagEq != 0 && flagEq != 1:
			chk.fail(p, last, "handshake succeeds with CONNACK flags not restricted to 0 or 1")
		case flagEq == 1 && clean != -1:
			chk.fail(p, last, "session-present is accepted although a clean session was requested (or the test reads the client's configured CleanSession instead of the one of this attempt: a reconnect with CleanSession configured then refuses every CONNACK that reports the session it asked to keep)")
		default:
			chk.pass()
		}
	}
	chk.done(2, "each success path established every CONNACK condition")

	// (c) dialAndConnect: identifier from Persistence, success only after handshake and no abort
	dc := c.acc("ORD-7", dial, "clientID=Load(clientIDKey);success⇒handshake=nil∧not-aborted")
	for _, p := range c.Paths("ORD-7", dial) {
		if p.End != pathx.KReturn {
			continue
		}
		last := len(p.Events) - 1
		ih := p.Index(0, func(e *pathx.Event) bool { return isCallTo(e, hk) })
		il := p.Index(0, func(e *pathx.Event) bool { return persistenceOp(e) == "Load" })
		if ih >= 0 {
			okID := il >= 0 && il < ih && len(p.Events[il].Args) == 2 && isK(p.Events[il].Args[1], c.constInt("clientIDKey")) &&
				argIs(p.Events[ih].Args, pathx.ResultAt(p.Events[il].Result, 0))
			if okID {
				if n, k := nilResult(p, il, ih); !n || !k {
					okID = false
				}
			}
			if !okID {
				dc.fail(p, ih, "the handshake does not use the client identifier returned by a successful Persistence.Load(clientIDKey)")
				continue
			}
		}
		if retErr(p, last) == triNil {
			if ih < 0 {
				dc.fail(p, last, "dialAndConnect succeeds without a handshake")
				continue
			}
			if n, k := nilResult(p, ih, last); !n || !k {
				dc.fail(p, last, "dialAndConnect returns a connection although the handshake may have failed")
				continue
			}
			// the abort channel value must be known nil
			ab := p.Index(ih, func(e *pathx.Event) bool { return e.Kind == pathx.KRecv && tokenOf(e.Chan) == "" })
			if ab >= 0 {
				if rel, _, ok := p.Known(p.Events[ab].Result, ab, last); !ok || rel != pathx.RNil {
					dc.fail(p, last, "dialAndConnect returns a connection although the abort watcher may have closed it")
					continue
				}
			}
			if p.Events[last].Results[0] != pathxDialResult(p) {
				dc.fail(p, last, "the connection returned is not the one the Dialer produced")
				continue
			}
		}
		dc.pass()
	}
	dc.done(3, "identifier comes from the checked Load; a connection is returned only after a nil handshake and a nil abort")

	// (d) connect: clean session only until the first connection; failure exits
	cs := c.acc("ORD-7", cn, "CleanSession-cleared-iff-previous-connection-existed")
	fail := c.acc("ORD-7", cn, "failure-after-dial⇒connection-closed∧connDown-deposited")
	dfail := c.acc("ORD-7", cn, "failed-dial⇒connDown-deposited(unless-cancelled)")
	pub := c.acc("ORD-7", cn, "readConn/bufr-installed-only-on-success-from-dialAndConnect")
	for _, p := range c.Paths("ORD-7", cn) {
		if p.End != pathx.KReturn {
			continue
		}
		last := len(p.Events) - 1
		id := p.Index(0, func(e *pathx.Event) bool { return isCallTo(e, dial) })
		if id < 0 {
			continue
		}
		// previous connection value
		ir := p.Index(0, func(e *pathx.Event) bool { return e.Kind == pathx.KRecv && tokenOf(e.Chan) == tkConn })
		if ir >= 0 {
			prev := p.Events[ir].Result
			rel, _, known := p.Known(prev, ir, id)
			stored := 0
			var cfgAlloc ssa.Value
			for i := ir; i < id; i++ {
				e := &p.Events[i]
				if e.Kind == pathx.KStore && pathx.RoleOfAddr(e.Addr).Key() == "Config.CleanSession" {
					if b, ok := e.Val.(*ssa.Const); ok && b.Value != nil && b.Value.Kind() == constant.Bool && !constant.BoolVal(b.Value) {
						stored = 1
						cfgAlloc = pathx.RoleOfAddr(e.Addr).Base
					} else {
						stored = 2
					}
				}
			}
			argOK := true
			if stored == 1 && len(p.Events[id].Args) == 2 && cfgAlloc != nil && p.Events[id].Args[1] != cfgAlloc {
				argOK = false
			}
			switch {
			case !known:
				cs.fail(p, id, "the connect does not distinguish a first connect from a reconnect")
			case rel == pathx.RNotNil && stored != 1:
				cs.fail(p, id, "a reconnect (previous connection existed) requests the configured CleanSession again: the broker discards the session and every pending transfer")
			case rel == pathx.RNil && stored != 0:
				cs.fail(p, id, "the very first connect modifies CleanSession")
			case !argOK:
				cs.fail(p, id, "dialAndConnect is not given the Config copy whose CleanSession was cleared")
			default:
				cs.pass()
			}
		}
		derr := pathx.ErrResult(p.Events[id].Result)
		conn := pathx.ResultAt(p.Events[id].Result, 0)
		drel, _, dknown := p.Known(derr, id, last)
		re := retErr(p, last)
		down := p.Index(id, func(e *pathx.Event) bool {
			return e.Kind == pathx.KSend && tokenOf(e.Chan) == tkWrite && pathx.ConstKey(e.Val) == "connSignal:1"
		})
		switch {
		case dknown && drel == pathx.RNotNil:
			// cancelled?
			cancelled := false
			for _, cm := range assumed(p, id, last) {
				for _, k := range []cmp{cm, cm.swapped()} {
					if k.Op == token.EQL && strip(k.X) == derr {
						if u, ok := strip(k.Y).(*ssa.UnOp); ok {
							if g, ok := u.X.(*ssa.Global); ok && g.Name() == "Canceled" {
								cancelled = true
							}
						}
					}
				}
			}
			if cancelled || down >= 0 {
				dfail.pass()
			} else {
				dfail.fail(p, last, "a failed connect attempt leaves writeSem untouched: requests keep waiting for its outcome instead of getting ErrDown")
			}
		case dknown && drel == pathx.RNil && re != triNil:
			closed := p.Index(id, func(e *pathx.Event) bool {
				return isInvoke(e, "net.Conn", "Close") && len(e.Args) > 0 && e.Args[0] == conn
			})
			switch {
			case down < 0:
				fail.fail(p, last, "connect fails after the handshake without depositing connDown")
			case closed < 0:
				fail.fail(p, last, "connect fails after the handshake without closing the new connection: the broker keeps a half-set-up session open and Close never sees this connection")
			default:
				fail.pass()
			}
		}
		// readConn / bufr
		for i := id; i < last; i++ {
			e := &p.Events[i]
			if e.Kind != pathx.KStore {
				continue
			}
			k := pathx.RoleOfAddr(e.Addr).Key()
			if k != "Client.readConn" && k != "Client.bufr" {
				continue
			}
			want := conn
			if k == "Client.bufr" {
				want = pathx.ResultAt(p.Events[id].Result, 1)
			}
			resendsOK := true
			for j := id; j < i; j++ {
				if isCallTo(&p.Events[j], rs) {
					if n, kk := nilResult(p, j, i); !n || !kk {
						resendsOK = false
					}
				}
			}
			if e.Val == want && dknown && drel == pathx.RNil && resendsOK && re == triNil {
				pub.pass()
			} else {
				pub.fail(p, i, "%s is set to %s on a path where the connect did not fully succeed", k, Expr(e.Val))
			}
		}
	}
	cs.done(2, "CleanSession=false is stored exactly on paths where the previous connection is non-nil, on the copy that is passed down")
	fail.done(2, "both resend failure exits close the connection and deposit connDown")
	dfail.done(1, "a failed dial/handshake deposits connDown")
	pub.done(2, "the read routine adopts the connection only on the success path")
	c.ord7Close(dial, hk)
	// one buffered reader per connection: what handshake returns is the reader
	// the CONNACK was read through — bytes that arrived with the CONNACK sit in
	// its buffer, and a second reader on the same connection would never see them
	one := c.acc("ORD-7", hk, "success⇒the-reader-that-read-CONNACK-is-returned(one-reader-per-connection)")
	for _, p := range c.Paths("ORD-7", hk) {
		if p.End != pathx.KReturn || p.Start != hk.Blocks[0] {
			continue
		}
		last := len(p.Events) - 1
		if retErr(p, last) != triNil {
			continue
		}
		var readers []ssa.Value
		var peeked ssa.Value
		for i := range p.Events {
			e := &p.Events[i]
			if e.Kind != pathx.KCall || e.Callee == nil {
				continue
			}
			switch stdName(e.Callee) {
			case "bufio.NewReaderSize", "bufio.NewReader":
				readers = append(readers, e.Result)
			case "(*bufio.Reader).Peek", "(*bufio.Reader).ReadByte", "(*bufio.Reader).Read", "io.ReadFull", "(*bufio.Reader).Discard":
				if len(e.Args) > 0 && peeked == nil {
					peeked = e.Args[0]
				}
			}
		}
		ret := p.Events[last].Results[0]
		switch {
		case len(readers) != 1:
			one.fail(p, last, "handshake makes %d buffered readers on the connection, want exactly one", len(readers))
		case peeked == nil || peeked != readers[0] || ret != readers[0]:
			one.fail(p, last, "handshake returns %s but read the CONNACK through %s: what the first reader buffered behind the CONNACK is lost, and the stream resumes in the middle of a packet", Expr(ret), Expr(peeked))
		default:
			one.pass()
		}
	}
	one.done(1, "a single reader is made, reads the CONNACK and is returned")
	// Close must be able to interrupt the retransmission round: the new
	// connection is handed to connSem (from where Close takes and closes it)
	// before the first resend
	if rs != nil {
		pubc := c.acc("ORD-7", cn, "connection-handed-to-connSem-before-resend")
		for _, p := range c.Paths("ORD-7", cn) {
			ir := p.Index(0, func(e *pathx.Event) bool { return isCallTo(e, rs) })
			if ir < 0 {
				continue
			}
			is := -1
			for i := 0; i < ir; i++ {
				e := &p.Events[i]
				if e.Kind == pathx.KSend && tokenOf(e.Chan) == tkConn {
					is = i
				}
			}
			if is >= 0 && p.Events[is].Val == p.Events[ir].Args[1] {
				pubc.pass()
			} else {
				pubc.fail(p, ir, "the retransmission round starts before the new connection was handed to connSem: Close waits for the whole round, which with a stalled broker does not end")
			}
		}
		pubc.done(1, "connSem receives the connection that resend is about to use")
	}
	// the dial can be interrupted by Close (its context derives from the
	// client's) and is bounded by PauseTimeout when one is configured
	dctx := c.acc("ORD-7", dial, "Dialer-context-derives-from-client-context,bounded-by-PauseTimeout")
	for _, p := range c.Paths("ORD-7", dial) {
		if p.Start != dial.Blocks[0] {
			continue
		}
		di := p.Index(0, func(e *pathx.Event) bool {
			return e.Kind == pathx.KCall && e.Callee == nil && e.Method == nil && e.Call != nil && roleKey(e.Call.Value) == "Config.Dialer"
		})
		if di < 0 {
			continue
		}
		arg := p.Events[di].Args[0]
		nonZero := false
		for _, cm := range assumed(p, 0, di) {
			if roleKey(cm.X) == "Config.PauseTimeout" && isK(cm.Y, 0) && cm.Op == token.NEQ {
				nonZero = true
			}
		}
		fromClient := roleKey(arg) == "Client.ctx"
		bounded := false
		if ex, ok := arg.(*ssa.Extract); ok {
			if call, ok := ex.Tuple.(*ssa.Call); ok && call.Call.StaticCallee() != nil && stdName(call.Call.StaticCallee()) == "context.WithTimeout" {
				for j := 0; j < di; j++ {
					e := &p.Events[j]
					if e.Instr == ssa.Instruction(call) && len(e.Args) == 2 {
						fromClient = roleKey(e.Args[0]) == "Client.ctx"
						bounded = roleKey(e.Args[1]) == "Config.PauseTimeout"
					}
				}
			}
		}
		switch {
		case !fromClient:
			dctx.fail(p, di, "the Dialer is called with a context that does not derive from the client's: Close cannot interrupt a dial in progress")
		case nonZero && !bounded:
			dctx.fail(p, di, "PauseTimeout is set, yet the Dialer is called with a context without that timeout: a dial that hangs blocks the read routine beyond it")
		default:
			dctx.pass()
		}
	}
	dctx.done(2, "the context is c.ctx, wrapped in WithTimeout(PauseTimeout) when that is non-zero")

	// a dial that fails because the client was closed reports that, not the
	// dialer's view of it: connect tells the two apart by the returned value
	// (context.Canceled → ErrClosed, anything else → connDown and a retry)
	cerr := c.acc("ORD-7", dial, "client-context-ended⇒its-error-is-returned")
	for _, p := range c.Paths("ORD-7", dial) {
		if p.End != pathx.KReturn {
			continue
		}
		last := len(p.Events) - 1
		res := p.Events[last].Results
		if len(res) == 0 {
			continue
		}
		for i := range p.Events {
			e := &p.Events[i]
			if e.Kind != pathx.KCall || e.Method == nil || e.Method.Name() != "Err" || len(e.Args) == 0 || roleKey(e.Args[0]) != "Client.ctx" || !c.inRegion(dial, e) {
				continue
			}
			rel, _, ok := p.Known(e.Result, i, last)
			if !ok || rel != pathx.RNotNil {
				continue
			}
			// the very next decision is the return of that error
			onlyAssumes := true
			for j := i + 1; j < last; j++ {
				if ev := &p.Events[j]; ev.Kind == pathx.KCall && !ev.Deferred {
					onlyAssumes = false
				}
			}
			if !onlyAssumes {
				continue
			}
			if stripConv(res[len(res)-1]) == stripConv(e.Result) {
				cerr.pass()
			} else {
				cerr.fail(p, last, "the client's context reports an error (Close or Disconnect during the dial), yet %s is returned instead of it: connect takes the interruption for a failed attempt — connDown, a retry, and ReadSlices returns a dial error where ErrClosed is due", Expr(res[len(res)-1]))
			}
		}
	}
	cerr.done(1, "the return behind c.ctx.Err() != nil carries that error")
}

func pathxDialResult(p *pathx.Path) ssa.Value {
	for i := range p.Events {
		e := &p.Events[i]
		if e.Kind == pathx.KCall && e.Callee == nil && e.Method == nil && e.Call != nil && roleKey(e.Call.Value) == "Config.Dialer" {
			return pathx.ResultAt(e.Result, 0)
		}
	}
	return nil
}

// ---- ORD-9: fileSystem.Save ----

func (c *Ctx) ord9() {
	sv := c.Fn("ORD-9", "(fileSystem).Save")
	ld := c.Fn("ORD-9", "(fileSystem).Load")
	dl := c.Fn("ORD-9", "(fileSystem).Delete")
	if sv == nil {
		return
	}
	seq := c.acc("ORD-9", sv, "nil⇒Create(spool)→WriteTo=nil→Sync=nil→Close→Rename(spool,final)=nil")
	ren := c.acc("ORD-9", sv, "Rename-only-behind-nil-write-and-nil-Sync")
	rem := c.acc("ORD-9", sv, "failure-after-Create⇒spool-removed")
	tgt := c.acc("ORD-9", sv, "only-the-spool-file-is-opened-for-writing")
	rmt := c.acc("ORD-9", sv, "failure-cleanup-removes-the-spool-file-only")
	for _, p := range c.Paths("ORD-9", sv) {
		if p.End != pathx.KReturn {
			continue
		}
		last := len(p.Events) - 1
		idx := map[string]int{}
		for i := range p.Events {
			e := &p.Events[i]
			if e.Kind != pathx.KCall || e.Callee == nil {
				continue
			}
			switch stdName(e.Callee) {
			case "os.Create", "os.OpenFile", "os.WriteFile":
				idx["create"] = i
				// target must be spoolFile(key)
				arg := e.Args[0]
				okT := false
				if call, ok := arg.(*ssa.Call); ok {
					if f := call.Call.StaticCallee(); f != nil && f.Name() == "spoolFile" {
						// the key as resolved on this path (a parameter captured by a function literal lives in a cell)
						key := call.Call.Args[len(call.Call.Args)-1]
						for j := 0; j < i; j++ {
							if ce := &p.Events[j]; ce.Kind == pathx.KCall && ce.Result == ssa.Value(call) && len(ce.Args) > 0 {
								key = ce.Args[len(ce.Args)-1]
							}
						}
						if pr, ok := key.(*ssa.Parameter); ok && pr.Type().String() == "uint" {
							okT = true
						}
					}
				}
				if okT && stdName(e.Callee) == "os.Create" {
					tgt.pass()
				} else {
					tgt.fail(p, i, "Save opens %s for writing, want os.Create(dir.spoolFile(key)): writing the final name in place exposes a partial value after a crash", Expr(arg))
				}
			case "(*net.Buffers).WriteTo":
				idx["write"] = i
			case "(*os.File).Sync":
				idx["sync"] = i
			case "(*os.File).Close":
				idx["close"] = i
			case "os.Rename":
				idx["rename"] = i
				wOK, sOK := false, false
				if w, ok := idx["write"]; ok {
					n, k := nilResult(p, w, i)
					wOK = n && k
				}
				if s, ok := idx["sync"]; ok {
					n, k := nilResult(p, s, i)
					sOK = n && k
				}
				_, closed := idx["close"]
				dst, _ := e.Args[1].(*ssa.Call)
				dstOK := dst != nil && dst.Call.StaticCallee() != nil && dst.Call.StaticCallee().Name() == "file"
				switch {
				case !wOK || !sOK:
					ren.fail(p, i, "the spool file is renamed over the key although the data write (%v) or the Sync (%v) has not returned nil on this path: a prefix or unflushed value becomes visible under the key", wOK, sOK)
				case !closed || idx["close"] > i:
					ren.fail(p, i, "Rename before Close")
				case !dstOK:
					ren.fail(p, i, "Rename target is %s, want dir.file(key)", Expr(e.Args[1]))
				default:
					ren.pass()
				}
			case "os.Remove":
				idx["remove"] = i
				// what is removed must be the spool file
				okR := false
				switch a := e.Args[0].(type) {
				case *ssa.Call:
					if f := a.Call.StaticCallee(); f != nil {
						if f.Name() == "spoolFile" || stdName(f) == "(*os.File).Name" {
							okR = true
						}
					}
				}
				if okR {
					rmt.pass()
				} else {
					rmt.fail(p, i, "the failure path removes %s instead of the spool file: a failed overwrite deletes the previous value of the key", Expr(e.Args[0]))
				}
			}
		}
		ci, created := idx["create"]
		createOK := false
		if created {
			n, k := nilResult(p, ci, last)
			createOK = n && k
		}
		switch retErr(p, last) {
		case triNil:
			ri, renamed := idx["rename"]
			okAll := created && createOK && renamed
			if okAll {
				n, k := nilResult(p, ri, last)
				okAll = n && k && idx["create"] < idx["write"] && idx["write"] < idx["sync"] && idx["sync"] < idx["close"] && idx["close"] < idx["rename"]
			}
			if okAll {
				seq.pass()
			} else {
				seq.fail(p, last, "Save returns nil without the complete Create→write→Sync→Close→Rename sequence with nil results")
			}
		default:
			if createOK {
				if _, ok := idx["remove"]; ok {
					rem.pass()
				} else {
					rem.fail(p, last, "a failed Save leaves its spool file behind")
				}
			}
		}
	}
	seq.done(1, "the only success path is the full sequence")
	ren.done(1, "Rename lies behind nil WriteTo, nil Sync and Close")
	rem.done(1, "every failure after Create removes the spool file")
	tgt.done(1, "the only file opened for writing is the spool file of the key")
	rmt.done(1, "os.Remove is only applied to the spool file")

	// no other function writes files
	n := 0
	c.eachInstr(func(fn *ssa.Function, ins ssa.Instruction) {
		call, ok := ins.(ssa.CallInstruction)
		if !ok {
			return
		}
		sc := call.Common().StaticCallee()
		if sc == nil {
			return
		}
		switch stdName(sc) {
		case "os.Create", "os.OpenFile", "os.WriteFile", "os.Rename", "os.Truncate", "os.Link", "os.Symlink":
			n++
			key := "ORD-9|" + stdName(sc) + "|in(" + load.FuncName(load.TopLevel(fn)) + ")"
			if c.allowedSite(fn, set("(fileSystem).Save"), c.callers(), map[*ssa.Function]bool{}) {
				c.S.OK("ORD-9", key, c.P.Pos(ins.Pos()), load.FuncName(fn), "file creation/rename inside Save", false)
			} else {
				c.S.Bad("ORD-9", key, c.P.Pos(ins.Pos()), load.FuncName(fn), stdName(sc)+" outside fileSystem.Save: a second writer of the store's files breaks per-key atomicity", nil)
			}
		}
	})
	c.S.Floor("ORD-9", "file creating/renaming call sites", n, 2)

	// Load and Delete map not-exist to absent
	for _, fn := range []*ssa.Function{ld, dl} {
		if fn == nil {
			continue
		}
		a := c.acc("ORD-9", fn, "ErrNotExist⇒absent(nil,nil)")
		for _, p := range c.Paths("ORD-9", fn) {
			if p.End != pathx.KReturn {
				continue
			}
			for i := range p.Events {
				e := &p.Events[i]
				if isStd(e, "errors.Is") && len(e.Args) == 2 {
					if u, ok := strip(e.Args[1]).(*ssa.UnOp); ok {
						if g, ok := u.X.(*ssa.Global); ok && g.Name() == "ErrNotExist" {
							if rel, _, k := p.Known(e.Result, i, -1); k && rel == pathx.RTrue {
								if retErr(p, len(p.Events)-1) == triNil {
									a.pass()
								} else {
									a.fail(p, len(p.Events)-1, "a missing file is reported as an error instead of absent")
								}
							}
						}
					}
				}
			}
		}
		a.done(1, "the not-exist branch returns a nil error")
	}
}

// ---- ORD-13: retry loops resume with the remainder ----

func (c *Ctx) ord13() {
	wt := c.Fn("ORD-13", "writeTo")
	wb := c.Fn("ORD-13", "writeBuffersTo")
	dc := c.Fn("ORD-13", "(*Client).discard")

	// generic: the argument of the I/O call is phi(param, f(phi, count))
	carried := func(fn *ssa.Function, isIO func(call *ssa.Call) (arg ssa.Value, count ssa.Value, ok bool), wantOp string) {
		if fn == nil {
			return
		}
		a := c.acc("ORD-13", fn, "retry-continues-with-the-unsent/unskipped-remainder")
		found := false
		for _, b := range fn.Blocks {
			for _, ins := range b.Instrs {
				call, ok := ins.(*ssa.Call)
				if !ok {
					continue
				}
				arg, count, ok := isIO(call)
				if !ok {
					continue
				}
				found = true
				phi, isPhi := arg.(*ssa.Phi)
				if !isPhi {
					a.failAt(c.P.Pos(call.Pos()), "the %s is retried with the same argument %s on every iteration: after a partial transfer the already transferred part is transferred again", call.Call.Value.Name(), Expr(arg))
					continue
				}
				okCarry, hasParam := false, false
				for _, e := range phi.Edges {
					switch x := e.(type) {
					case *ssa.Parameter:
						hasParam = true
					case *ssa.Slice:
						if wantOp == "slice" && x.X == phi && x.Low == count && x.High == nil {
							okCarry = true
						}
					case *ssa.BinOp:
						if wantOp == "sub" && x.Op == token.SUB && x.X == phi && x.Y == count {
							okCarry = true
						}
					}
				}
				if okCarry && hasParam {
					a.pass()
				} else {
					a.failAt(c.P.Pos(call.Pos()), "the loop-carried argument %s is not (previous %s count)", Expr(arg), map[string]string{"slice": "[count:]", "sub": "−"}[wantOp])
				}
			}
		}
		if !found {
			a.failAt(c.P.Pos(fn.Pos()), "no I/O call found in the retry loop")
		}
		a.done(1, "the I/O argument is a phi of the parameter and the previous value advanced by the returned count")
	}
	carried(wt, func(call *ssa.Call) (ssa.Value, ssa.Value, bool) {
		if call.Call.IsInvoke() && call.Call.Method.Name() == "Write" {
			return call.Call.Args[0], pathx.ResultAt(call, 0), true
		}
		return nil, nil, false
	}, "slice")
	carried(dc, func(call *ssa.Call) (ssa.Value, ssa.Value, bool) {
		if f := call.Call.StaticCallee(); f != nil && stdName(f) == "(*bufio.Reader).Discard" {
			return call.Call.Args[1], pathx.ResultAt(call, 0), true
		}
		return nil, nil, false
	}, "sub")

	// writeBuffersTo: net.Buffers.WriteTo consumes its receiver; no store to it
	if wb != nil {
		a := c.acc("ORD-13", wb, "vectored-retry-does-not-advance-the-consumed-buffers-again")
		for _, b := range wb.Blocks {
			for _, ins := range b.Instrs {
				call, ok := ins.(*ssa.Call)
				if !ok {
					continue
				}
				f := call.Call.StaticCallee()
				if f == nil || stdName(f) != "(*net.Buffers).WriteTo" {
					continue
				}
				recv, isAlloc := call.Call.Args[0].(*ssa.Alloc)
				if !isAlloc {
					a.failAt(c.P.Pos(call.Pos()), "WriteTo receiver is not the local buffers variable")
					continue
				}
				stores := 0
				for _, r := range *recv.Referrers() {
					if st, ok := r.(*ssa.Store); ok && st.Addr == recv {
						if _, isParam := st.Val.(*ssa.Parameter); !isParam {
							stores++
							a.failAt(c.P.Pos(st.Pos()), "the buffers are re-assigned (%s) between retries: net.Buffers.WriteTo already advanced them by the bytes written, so advancing again drops bytes from the packet", Expr(st.Val))
						}
					}
				}
				if stores == 0 {
					a.pass()
				}
			}
		}
		a.done(1, "the receiver of WriteTo is never stored to after the initial parameter copy")
	}

	// peekPacket: the retry edge compares the new fill with a baseline taken in the same iteration
	if pp := c.Fn("ORD-13", "(*Client).peekPacket"); pp != nil {
		a := c.acc("ORD-13", pp, "payload-retry-only-after-progress-since-the-previous-attempt∧Timeout()")
		for _, p := range c.Paths("ORD-13", pp) {
			if p.End != pathx.KLoopBack {
				continue
			}
			ip := p.Index(0, func(e *pathx.Event) bool { return isStd(e, "(*bufio.Reader).Peek") })
			if ip < 0 {
				continue
			}
			last := len(p.Events) - 1
			progress, timeout := false, false
			for _, cm := range assumed(p, ip, last) {
				for _, k := range []cmp{cm, cm.swapped()} {
					if k.Op != token.GTR || !lenOf(k.X, "Client.peek") {
						continue
					}
					// the baseline: a len(c.peek) evaluated in this very iteration, before the Peek
					if call, ok := strip(k.Y).(*ssa.Call); ok {
						if arg, isLen := builtinCall(call, "len"); isLen && roleKey(arg) == "Client.peek" {
							for j, b := range p.Blocks {
								if b == call.Block() && p.BlockEv[j] <= ip {
									progress = true
								}
							}
						}
					}
				}
			}
			for i := ip; i < last; i++ {
				e := &p.Events[i]
				if e.Kind == pathx.KCall && e.Method != nil && e.Method.Name() == "Timeout" {
					if rel, _, k := p.Known(e.Result, i, last); k && rel == pathx.RTrue {
						timeout = true
					}
				}
			}
			if progress && timeout {
				a.pass()
			} else {
				a.fail(p, last, "the payload read is retried without (more bytes than at the start of this attempt: %v) and (Timeout(): %v): once a single byte arrived, a stalled broker is retried forever", progress, timeout)
			}
		}
		a.done(1, "every retry of the payload Peek lies behind len(c.peek) > len at the start of that attempt and ne.Timeout()")
	}

	// back edges are control dependent on progress and a timeout; success only behind a nil result
	for _, fn := range []*ssa.Function{wt, wb, dc} {
		if fn == nil {
			continue
		}
		be := c.acc("ORD-13", fn, "retry-only-after-progress∧Timeout()")
		ok := c.acc("ORD-13", fn, "nil-return-only-behind-nil-I/O-result")
		for _, p := range c.Paths("ORD-13", fn) {
			last := len(p.Events) - 1
			io := -1
			for i := range p.Events {
				e := &p.Events[i]
				if e.Kind != pathx.KCall {
					continue
				}
				if isInvoke(e, "net.Conn", "Write") || isStd(e, "(*net.Buffers).WriteTo") || isStd(e, "(*bufio.Reader).Discard") {
					io = i
				}
			}
			switch p.End {
			case pathx.KLoopBack:
				if io < 0 {
					continue
				}
				cnt := pathx.ResultAt(p.Events[io].Result, 0)
				progress, timeout := false, false
				for i := io; i < last; i++ {
					e := &p.Events[i]
					if e.Kind == pathx.KAssume {
						for _, at := range e.Atoms {
							if strip(at.V) == cnt || at.V == cnt {
								if at.Rel == pathx.RNe && (at.C == "int:0") {
									progress = true
								}
							}
						}
					}
					if e.Kind == pathx.KCall && e.Method != nil && e.Method.Name() == "Timeout" {
						if rel, _, k := p.Known(e.Result, i, last); k && rel == pathx.RTrue {
							timeout = true
						}
					}
				}
				if progress && timeout {
					be.pass()
				} else {
					be.fail(p, last, "the I/O is retried on a path without (count ≠ 0: %v) and (Timeout(): %v): a stalled peer is retried forever, or a hard error is retried", progress, timeout)
				}
			case pathx.KReturn:
				if retErr(p, last) != triNil {
					continue
				}
				if io >= 0 {
					if n, k := nilResult(p, io, last); n && k {
						ok.pass()
						continue
					}
				}
				ok.fail(p, last, "success is reported on a path where the last transfer has not returned a nil error: the packet may be incomplete")
			}
		}
		be.done(1, "every back edge lies behind count≠0 and ne.Timeout()")
		ok.done(1, "nil is returned only behind a nil I/O result")
	}
}

// ---- ORD-14: deadline before blocking I/O ----

func (c *Ctx) ord14() {
	type site struct {
		fn    string
		first bool // the first read of peekPacket waits for the next packet without bound, by design
	}
	fns := []string{"(*Client).peekPacket", "(*Client).discard", "writeTo", "writeBuffersTo", "(*Client).handshake", "(*BigMessage).ReadAll"}
	if c.S.Property == "C10" {
		// C10 is about ReadSlices and the writers; BigMessage.ReadAll (F14) is C13's
		fns = fns[:len(fns)-1]
	}
	if c.S.Property == "C18" {
		// C18 is about connection set-up: the wait for CONNACK
		fns = []string{"(*Client).handshake"}
	}
	if c.S.Property == "C06" {
		// C06 is about the packet reader tolerating progress-making expiries
		fns = []string{"(*Client).peekPacket", "(*Client).discard"}
	}
	n := 0
	for _, name := range fns {
		fn := c.Fn("ORD-14", name)
		if fn == nil {
			continue
		}
		a := c.acc("ORD-14", fn, "blocking-I/O-preceded-by-deadline(PauseTimeout≠0)")
		for _, p := range c.Paths("ORD-14", fn) {
			// PauseTimeout known zero on this path → no protection requested
			zero := false
			for _, cm := range assumed(p, 0, -1) {
				if (roleKey(cm.X) == "Config.PauseTimeout" || isParamOfType(cm.X, "time.Duration")) && isK(cm.Y, 0) && cm.Op == token.EQL {
					zero = true
				}
			}
			if zero {
				continue
			}
			armed := false // a deadline was set since the last blocking call
			armedDir := ""
			buffered := false
			var bufferedGE ssa.Value // Buffered() >= this value is known
			seenIO := 0
			for i := range p.Events {
				e := &p.Events[i]
				switch e.Kind {
				case pathx.KCall:
					if e.Deferred {
						continue
					}
					switch {
					case e.Method != nil && (e.Method.Name() == "SetReadDeadline" || e.Method.Name() == "SetWriteDeadline" || e.Method.Name() == "SetDeadline"):
						if z, ok := e.Args[1].(*ssa.Const); ok && z != nil {
							armed = false // time.Time{} disarms
						} else {
							armed = true
							armedDir = e.Method.Name()
						}
					case isBlockingIO(e) && isStd(e, "(*bufio.Reader).Discard") && len(e.Args) == 2 && isLenCall(e.Args[1]):
						// skipping what was just peeked never waits
					case isBlockingIO(e):
						seenIO++
						n++
						switch {
						case name == "(*Client).peekPacket" && seenIO == 1 && p.Start == fn.Blocks[0]:
							a.pass() // idle wait for the next packet
						case armed && armedDir == "SetWriteDeadline" && !isWriteIO(e):
							a.fail(p, i, "%s is a read, but the deadline armed before it is a write deadline: the wait for the broker's bytes has no bound although PauseTimeout is set", strings.TrimSpace(DescribeEvent(c.P, e)))
						case armed && armedDir == "SetReadDeadline" && isWriteIO(e):
							a.fail(p, i, "%s is a write, but the deadline armed before it is a read deadline: a broker that stops reading blocks the client beyond PauseTimeout", strings.TrimSpace(DescribeEvent(c.P, e)))
						case armed || buffered && !needsAmount(e) || bufferedGE != nil && amountOf(e) == bufferedGE:
							a.pass()
						default:
							a.fail(p, i, "%s can block without a deadline although PauseTimeout is set: a stalled broker blocks the client beyond PauseTimeout", strings.TrimSpace(DescribeEvent(c.P, e)))
						}
						armed, buffered, bufferedGE = false, false, nil
					}
				case pathx.KAssume:
					// data known to be buffered already: no wait
					if cm, ok := cmpOf(e.Val, e.Truth); ok {
						if call, ok := strip(cm.X).(*ssa.Call); ok {
							if f := call.Call.StaticCallee(); f != nil && stdName(f) == "(*bufio.Reader).Buffered" {
								if cm.Op == token.NEQ && isK(cm.Y, 0) || cm.Op == token.GEQ || cm.Op == token.GTR {
									buffered = true
								}
								if cm.Op == token.GEQ {
									bufferedGE = strip(cm.Y)
								}
							}
						}
					}
				}
			}
		}
		a.done(1, "every possibly blocking transfer follows a fresh deadline (or data already buffered)")

		// the deadline is a pair: it is armed only when a timeout is configured
		// (PauseTimeout zero means none: now+0 expires at once), and whoever
		// arms it has registered its removal, or the idle wait for the next
		// packet inherits a deadline that is about to expire
		only := c.acc("ORD-14", fn, "deadline-armed-only-with-PauseTimeout≠0")
		pair := c.acc("ORD-14", fn, "deadline-armed⇒removal-deferred")
		for _, p := range c.Paths("ORD-14", fn) {
			if p.Start != fn.Blocks[0] && name != "(*Client).peekPacket" && name != "(*Client).discard" {
				continue
			}
			deferred := false
			for i := range p.Events {
				e := &p.Events[i]
				isDL := func(e *pathx.Event) bool {
					return e.Method != nil && (e.Method.Name() == "SetReadDeadline" || e.Method.Name() == "SetWriteDeadline" || e.Method.Name() == "SetDeadline")
				}
				if e.Kind == pathx.KDefer && isDL(e) {
					if z, ok := e.Args[1].(*ssa.Const); ok && z != nil {
						deferred = true
					}
				}
				if e.Kind != pathx.KCall || e.Deferred || !isDL(e) {
					continue
				}
				if z, ok := e.Args[1].(*ssa.Const); ok && z != nil {
					continue // time.Time{}: removal
				}
				nonZero := false
				for _, cm := range assumed(p, 0, i) {
					if (roleKey(cm.X) == "Config.PauseTimeout" || isParamOfType(cm.X, "time.Duration")) && isK(cm.Y, 0) && cm.Op == token.NEQ {
						nonZero = true
					}
				}
				if nonZero {
					only.pass()
				} else if p.Start == fn.Blocks[0] {
					only.fail(p, i, "a deadline of now+PauseTimeout is set on a path that has not established PauseTimeout != 0: without a configured timeout every transfer that has to wait fails at once")
				}
				if p.Start != fn.Blocks[0] {
					continue // the deferral dominates the loop: judged on entry paths
				}
				later := false
				for k := i + 1; k < len(p.Events); k++ {
					if d := &p.Events[k]; d.Kind == pathx.KDefer && isDL(d) {
						if z, ok := d.Args[1].(*ssa.Const); ok && z != nil {
							later = true
						}
					}
				}
				failedToArm := false
				if n, k := nilResult(p, i, -1); k && !n {
					failedToArm = true
				}
				if deferred || later || failedToArm {
					pair.pass()
				} else {
					pair.fail(p, i, "a deadline is armed without its removal being deferred: it stays in force after the function returns, and the next idle wait is cut short by it")
				}
			}
		}
		only.done(0, "every arming call lies behind PauseTimeout != 0")
		pair.done(0, "every arming call follows a deferred removal")
	}
	c.S.Floor("ORD-14", "blocking I/O sites on protected paths", n, 12)
}

// needsAmount: transfers that wait for a given number of bytes.
func needsAmount(e *pathx.Event) bool {
	return isStd(e, "(*bufio.Reader).Peek") || isStd(e, "(*bufio.Reader).Discard")
}

func amountOf(e *pathx.Event) ssa.Value {
	if needsAmount(e) && e.Call != nil && len(e.Call.Args) == 2 {
		return strip(e.Call.Args[1]) // the operand as written (a phi is compared as such)
	}
	return nil
}

func isLenCall(v ssa.Value) bool {
	_, ok := builtinCall(v, "len")
	return ok
}

func isParamNamed(v ssa.Value, name string) bool {
	p, ok := strip(v).(*ssa.Parameter)
	return ok && p.Name() == name
}

// argIs: v is one of the arguments (a later parameter does not move the identity).
func argIs(args []ssa.Value, v ssa.Value) bool {
	for _, a := range args {
		if a == v && v != nil {
			return true
		}
	}
	return false
}

func isWriteIO(e *pathx.Event) bool {
	return isInvoke(e, "net.Conn", "Write") || (e.Callee != nil && stdName(e.Callee) == "(*net.Buffers).WriteTo")
}

func isBlockingIO(e *pathx.Event) bool {
	if isInvoke(e, "net.Conn", "Write") || isInvoke(e, "net.Conn", "Read") {
		return true
	}
	if e.Callee == nil {
		return false
	}
	switch stdName(e.Callee) {
	case "(*net.Buffers).WriteTo", "(*bufio.Reader).ReadByte", "(*bufio.Reader).Peek", "(*bufio.Reader).Discard", "(*bufio.Reader).Read", "io.ReadFull", "io.ReadAll", "io.ReadAtLeast":
		return true
	}
	return false
}

// ord7Close: a connect attempt that fails after the dial succeeded leaves no
// open connection behind. On every path of dialAndConnect (handshake expanded
// in place) that returns an error after Dialer returned nil, the dialled
// connection is closed, or the error came out of the abort watcher, whose
// every non-nil report is preceded by its own Close of that connection.
func (c *Ctx) ord7Close(dial, hk *ssa.Function) {
	a := c.acc("ORD-7", dial, "failure-after-dial⇒connection-closed")
	w := c.acc("ORD-7", dial, "abort-watcher-closes-before-it-reports")
	isClose := func(e *pathx.Event, conn ssa.Value) bool {
		return e.Kind == pathx.KCall && e.Method != nil && e.Method.Name() == "Close" && recvTypeName(e.Method) == "net.Conn" && len(e.Args) > 0 && e.Args[0] == conn
	}
	// the watcher goroutine(s) started by dialAndConnect
	var watchers []*ssa.Function
	for _, b := range dial.Blocks {
		for _, ins := range b.Instrs {
			if g, ok := ins.(*ssa.Go); ok {
				if mc, ok := g.Call.Value.(*ssa.MakeClosure); ok {
					watchers = append(watchers, mc.Fn.(*ssa.Function))
				}
			}
		}
	}
	abortReports := 0
	for _, wf := range watchers {
		for _, p := range c.Paths("ORD-7", wf) {
			closed := false
			for i := range p.Events {
				e := &p.Events[i]
				if e.Kind == pathx.KCall && e.Method != nil && e.Method.Name() == "Close" && recvTypeName(e.Method) == "net.Conn" {
					closed = true
				}
				if e.Kind == pathx.KSend && e.Val != nil && e.Val.Type().String() == "error" && !pathx.IsNilConst(e.Val) {
					abortReports++
					if closed {
						w.pass()
					} else {
						w.fail(p, i, "the watcher reports an abort without having closed the connection: dialAndConnect returns that error and leaves the connection open")
					}
				}
			}
		}
	}
	if abortReports == 0 {
		w.failAt(c.P.Pos(dial.Pos()), "no abort report found in a goroutine of dialAndConnect")
	}
	w.done(1, "every error sent by the watcher follows conn.Close()")

	for _, p := range c.pathsInline("ORD-7", dial, map[*ssa.Function]bool{hk: true}) {
		if p.Start != dial.Blocks[0] || p.End != pathx.KReturn {
			continue
		}
		last := len(p.Events) - 1
		if retErr(p, last) == triNil {
			continue
		}
		conn := pathxDialResult(p)
		if conn == nil {
			continue // failed before or at the dial
		}
		di := p.Index(0, func(e *pathx.Event) bool {
			return e.Kind == pathx.KCall && e.Callee == nil && e.Method == nil && e.Call != nil && roleKey(e.Call.Value) == "Config.Dialer"
		})
		if n, k := nilResult(p, di, -1); k && !n {
			continue // the dial failed: nothing to close
		}
		// (a return that has not looked at the Dialer's error may hold a connection)
		ok := false
		for i := di; i < len(p.Events); i++ {
			if isClose(&p.Events[i], conn) {
				ok = true
			}
		}
		// the returned error was received from the watcher
		if r := p.Events[last].Results; len(r) > 0 {
			ev := r[len(r)-1]
			for i := di; i < last; i++ {
				e := &p.Events[i]
				if e.Kind == pathx.KRecv && e.Result == ev && e.Fn == dial {
					ok = true
				}
			}
		}
		if ok {
			a.pass()
		} else {
			a.fail(p, last, "dialAndConnect returns an error after a successful dial without closing the connection: a refused, malformed or missing CONNACK leaves the socket open")
		}
	}
	a.done(3, "every failure exit behind the dial closes the connection or reports the watcher's abort")
}
