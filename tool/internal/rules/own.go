package rules

import (
	"fmt"
	"go/token"
	"go/types"
	"sort"
	"strings"

	"golang.org/x/tools/go/ssa"

	"mqttverif/internal/load"
	"mqttverif/internal/pathx"
)

func init() {
	register("OWN", []string{"OWN-1", "OWN-2", "OWN-3", "OWN-4", "OWN-5", "OWN-6", "OWN-7"}, (*Ctx).own)
}

// allowedSite decides whether function f may host a guarded operation:
// its top-level function is in the allow set, or it is unexported and all
// its in-package callers are allowed (so extracting a helper does not
// alarm; a new exported entry point does).
func (c *Ctx) allowedSite(f *ssa.Function, allow map[string]bool, callers map[*ssa.Function][]*ssa.Function, seen map[*ssa.Function]bool) bool {
	top := load.TopLevel(f)
	if allow[load.FuncName(top)] {
		return true
	}
	if isExported(top) || seen[top] || !c.isNewHelper(top) {
		// only helpers introduced after the tables were written inherit
		// the ownership of their callers; a function the tables know is
		// either listed or foreign
		return false
	}
	seen[top] = true
	cs := callers[top]
	if len(cs) == 0 {
		return false
	}
	for _, g := range cs {
		if !c.allowedSite(g, allow, callers, seen) {
			return false
		}
	}
	return true
}

func set(names ...string) map[string]bool {
	m := map[string]bool{}
	for _, n := range names {
		m[n] = true
	}
	return m
}

type ownSite struct {
	fn   *ssa.Function
	pos  token.Pos
	what string
}

func (c *Ctx) checkSites(rule, target string, sites []ownSite, allow map[string]bool, why string, min int) {
	callers := c.callers()
	for _, s := range sites {
		fname := load.FuncName(load.TopLevel(s.fn))
		key := rule + "|" + target + "|in(" + fname + ")"
		if c.allowedSite(s.fn, allow, callers, map[*ssa.Function]bool{}) {
			c.S.OK(rule, key, c.P.Pos(s.pos), fname, s.what+" inside the owning set", false)
		} else {
			var al []string
			for a := range allow {
				al = append(al, a)
			}
			sort.Strings(al)
			c.S.Bad(rule, key, c.P.Pos(s.pos), fname, fmt.Sprintf("%s outside its owners {%s}: %s", s.what, strings.Join(al, ", "), why), nil)
		}
	}
	c.S.Floor(rule, target+" sites", len(sites), min)
}

// eachInstr visits every instruction of every root-package function.
func (c *Ctx) eachInstr(f func(fn *ssa.Function, ins ssa.Instruction)) {
	for _, fn := range c.funcs {
		for _, b := range fn.Blocks {
			for _, ins := range b.Instrs {
				f(fn, ins)
			}
		}
	}
}

func (c *Ctx) fieldWriters(key string) []ownSite {
	var out []ownSite
	c.eachInstr(func(fn *ssa.Function, ins ssa.Instruction) {
		st, ok := ins.(*ssa.Store)
		if !ok {
			return
		}
		if pathx.RoleOfAddr(st.Addr).Key() == key {
			out = append(out, ownSite{fn, st.Pos(), "write of " + key})
		}
	})
	// map updates count as writes of the map field
	c.eachInstr(func(fn *ssa.Function, ins ssa.Instruction) {
		switch x := ins.(type) {
		case *ssa.MapUpdate:
			if roleKey(x.Map) == key {
				out = append(out, ownSite{fn, x.Pos(), "update of " + key})
			}
		case ssa.CallInstruction:
			if b, ok := x.Common().Value.(*ssa.Builtin); ok && b.Name() == "delete" && roleKey(x.Common().Args[0]) == key {
				out = append(out, ownSite{fn, x.Pos(), "delete from " + key})
			}
		}
	})
	return out
}

func (c *Ctx) own(which map[string]bool) {
	if which["OWN-1"] {
		var sites []ownSite
		c.eachInstr(func(fn *ssa.Function, ins ssa.Instruction) {
			call, ok := ins.(ssa.CallInstruction)
			if !ok {
				return
			}
			cc := call.Common()
			if cc.IsInvoke() && cc.Method.Name() == "Write" && recvTypeName(cc.Method) == "net.Conn" {
				sites = append(sites, ownSite{fn, ins.Pos(), "net.Conn.Write"})
			}
			if sc := cc.StaticCallee(); sc != nil && stdName(sc) == "(*net.Buffers).WriteTo" && len(cc.Args) == 2 && namedIs(cc.Args[1], "net", "Conn") {
				sites = append(sites, ownSite{fn, ins.Pos(), "net.Buffers.WriteTo(conn)"})
			}
			// any other way to push bytes into a net.Conn: io.Copy / io.WriteString / fmt.Fprint with a net.Conn writer
			if sc := cc.StaticCallee(); sc != nil && sc.Pkg != nil && sc.Pkg != c.P.Root {
				for _, a := range cc.Args {
					if namedIs(a, "net", "Conn") {
						switch stdName(sc) {
						case "io.Copy", "io.CopyN", "io.WriteString", "fmt.Fprintf", "fmt.Fprint", "fmt.Fprintln", "(*bufio.Writer).Flush", "bufio.NewWriter", "bufio.NewWriterSize":
							sites = append(sites, ownSite{fn, ins.Pos(), stdName(sc) + " on a net.Conn"})
						}
					}
				}
			}
		})
		c.checkSites("OWN-1", "raw-wire-write", sites, set("writeTo", "writeBuffersTo"),
			"a byte could reach the connection outside the deadline/retry loops and outside the write token", 2)
	}
	if which["OWN-2"] {
		ww := c.wireWriters()
		var sites []ownSite
		c.eachInstr(func(fn *ssa.Function, ins ssa.Instruction) {
			if call, ok := ins.(ssa.CallInstruction); ok {
				if sc := call.Common().StaticCallee(); sc != nil && ww[sc] {
					sites = append(sites, ownSite{fn, ins.Pos(), "call of " + sc.Name()})
				}
			}
		})
		// a packet that arrives as net.Buffers leaves as a whole, under one holding
		// of the write token: no buffer of it is handed to a writer on its own
		parts := 0
		c.eachInstr(func(fn *ssa.Function, ins ssa.Instruction) {
			call, ok := ins.(ssa.CallInstruction)
			if !ok {
				return
			}
			sc := call.Common().StaticCallee()
			if sc == nil || !(ww[sc] || c.wireCapable()[sc]) {
				return
			}
			for _, a := range call.Common().Args {
				u, ok := a.(*ssa.UnOp)
				if !ok || u.Op != token.MUL {
					continue
				}
				ia, ok := u.X.(*ssa.IndexAddr)
				if !ok {
					continue
				}
				if strings.HasSuffix(ia.X.Type().String(), "net.Buffers") {
					parts++
					c.S.Bad("OWN-2", "OWN-2|packet-written-as-a-whole|in("+load.FuncName(load.TopLevel(fn))+")", c.P.Pos(ins.Pos()), load.FuncName(fn), "one buffer of a multi-buffer packet is passed to "+sc.Name()+" on its own: the write token is released between the parts, and another goroutine's packet can land inside this one", nil)
				}
			}
		})
		if parts == 0 {
			c.S.OK("OWN-2", "OWN-2|packet-written-as-a-whole", "", "", "no element of a net.Buffers value is passed to a wire writer", true)
		}
		c.checkSites("OWN-2", "wire-writer-callers", sites,
			set("(*Client).write", "(*Client).writeNoWait", "(*Client).writeBuffers", "(*Client).writeBuffersNoWait", "(*Client).resend", "(*Client).handshake", "(*Client).Disconnect"),
			"each listed caller is verified by the TOK rules to hold the write token or to own a connection not yet published", 6)
	}
	if which["OWN-3"] {
		tab := []struct {
			key   string
			allow map[string]bool
			min   int
			why   string
		}{
			{"orderedTxs.Acked", set("(*Client).onPUBACK", "AdoptSession"), 2, "the at-least-once acknowledgement counter decides where resend starts"},
			{"orderedTxs.Received", set("(*Client).onPUBREC", "AdoptSession"), 2, "decides which exactly-once transfers are at the PUBREL stage"},
			{"orderedTxs.Completed", set("(*Client).onPUBCOMP", "AdoptSession"), 2, "decides where the exactly-once resend starts"},
			{"seq.acceptN", set("(*Client).submitPersisted", "AdoptSession"), 2, "the next sequence number; only acceptance may advance it"},
			{"seq.submitN", set("(*Client).submitPersisted", "(*Client).resend", "AdoptSession"), 3, "decides the DUP flag"},
			{"Client.readConn", set("(*Client).connect", "(*Client).toOffline"), 2, "nil triggers the redial; only the read routine's connect/toOffline may change it"},
			{"Client.bufr", set("(*Client).connect", "(*Client).toOffline"), 2, "the buffered reader belongs to readConn"},
			{"Client.peek", set("(*Client).peekPacket", "(*Client).readSlices", "(*Client).toOffline"), 4, "the current packet body"},
			{"Client.pendingAck", set("(*Client).onPUBLISH", "(*Client).onPUBREC", "(*Client).onPUBREL", "(*Client).readSlices"), 6, "the acknowledgement owed for the last delivery must survive everything but its own successful write"},
			{"Client.bigMessage", set("(*Client).readSlices", "(*Client).toOffline", "(*BigMessage).ReadAll"), 4, "parked reception"},
			{"unorderedTxs.perPacketID", set("(*unorderedTxs).startTx", "(*unorderedTxs).endTx", "(*unorderedTxs).breakAll", "newClient"), 4, "the callback registry, guarded by its mutex"},
		}
		for _, t := range tab {
			sites := c.fieldWriters(t.key)
			if t.key == "Client.bigMessage" {
				// errors.As(err, &c.bigMessage) writes through the address
				c.eachInstr(func(fn *ssa.Function, ins ssa.Instruction) {
					if call, ok := ins.(ssa.CallInstruction); ok {
						if sc := call.Common().StaticCallee(); sc != nil && stdName(sc) == "errors.As" {
							for _, a := range call.Common().Args {
								if mi, ok := a.(*ssa.MakeInterface); ok && pathx.RoleOfAddr(mi.X).Key() == t.key {
									sites = append(sites, ownSite{fn, ins.Pos(), "errors.As target " + t.key})
								}
							}
						}
					}
				})
			}
			c.checkSites("OWN-3", "write("+t.key+")", sites, t.allow, t.why, t.min)
		}
		// the settings are read only once the client exists (the path engine
		// relies on it: loads of Client.Config fields are taken to be stable)
		nCfg := 0
		c.eachInstr(func(fn *ssa.Function, ins ssa.Instruction) {
			st, ok := ins.(*ssa.Store)
			if !ok {
				return
			}
			r := pathx.RoleOfAddr(st.Addr)
			if !strings.HasPrefix(r.Path, "Client.Config.") && r.Path != "Client.Config" {
				return
			}
			nCfg++
			name := load.FuncName(load.TopLevel(fn))
			key := "OWN-3|write(Client.Config)|in(" + name + ")"
			if name == "newClient" {
				c.S.OK("OWN-3", key, c.P.Pos(st.Pos()), name, "the settings are installed by the constructor", false)
			} else {
				c.S.Bad("OWN-3", key, c.P.Pos(st.Pos()), name, "a setting of a live client is modified: Config is documented read only, and every rule that compares two reads of a setting relies on it", nil)
			}
		})
		c.S.Floor("OWN-3", "stores to Client.Config", nCfg, 1)
		// no address of a guarded field escapes to a foreign callee
		esc := 0
		c.eachInstr(func(fn *ssa.Function, ins ssa.Instruction) {
			call, ok := ins.(ssa.CallInstruction)
			if !ok {
				return
			}
			for _, a := range call.Common().Args {
				if fa, ok := a.(*ssa.FieldAddr); ok {
					k := pathx.RoleOfAddr(fa).Key()
					switch k {
					case "orderedTxs.Acked", "orderedTxs.Received", "orderedTxs.Completed", "seq.acceptN", "seq.submitN", "Client.pendingAck", "Client.readConn":
						esc++
						c.S.Bad("OWN-3", "OWN-3|address-of("+k+")|in("+load.FuncName(fn)+")", c.P.Pos(ins.Pos()), load.FuncName(fn), "the address of "+k+" is passed to a call: writes through it escape the ownership table", nil)
					}
				}
			}
		})
		if esc == 0 {
			c.S.OK("OWN-3", "OWN-3|no-guarded-field-address-escapes", "", "", "no &field of a guarded counter is passed to any call", true)
		}
	}
	if which["OWN-4"] {
		ops := map[string][]ownSite{}
		c.eachInstr(func(fn *ssa.Function, ins ssa.Instruction) {
			call, ok := ins.(ssa.CallInstruction)
			if !ok {
				return
			}
			cc := call.Common()
			if cc.IsInvoke() && recvTypeName(cc.Method) == "Persistence" {
				// calls through the embedded delegate of ruggedPersistence are the wrapper itself
				ops[cc.Method.Name()] = append(ops[cc.Method.Name()], ownSite{fn, ins.Pos(), "Persistence." + cc.Method.Name()})
			}
		})
		c.checkSites("OWN-4", "Persistence.Delete", ops["Delete"],
			set("(*Client).onPUBACK", "(*Client).onPUBCOMP", "(*Client).onPUBREL", "AdoptSession"),
			"a record may leave the store only through the in-order acknowledgement of its transfer (or as corrupt at adoption)", 4)
		c.checkSites("OWN-4", "Persistence.Save", ops["Save"],
			set("(*Client).applySeqNoAndEnqueue", "(*Client).onPUBREC", "(*Client).readSlices", "initSession", "(*ruggedPersistence).Save"),
			"under an exactly-once key only the accepted PUBLISH and the PUBREL after PUBREC may be stored", 5)
		c.checkSites("OWN-4", "Persistence.Load", ops["Load"],
			set("(*Client).resend", "(*Client).dialAndConnect", "(*Client).onPUBLISH", "(*ruggedPersistence).Load", "AdoptSession"),
			"every value the client reads must pass the integrity check", 5)
		// every Persistence handed to newClient is rugged or volatile
		nc := c.Fn("OWN-4", "newClient")
		if nc != nil {
			n := 0
			c.eachInstr(func(fn *ssa.Function, ins ssa.Instruction) {
				call, ok := ins.(ssa.CallInstruction)
				if !ok || call.Common().StaticCallee() != nc {
					return
				}
				n++
				arg := call.Common().Args[0]
				srcs := c.ifaceSources(arg, 0)
				okAll := len(srcs) > 0
				var names []string
				for _, s := range srcs {
					names = append(names, s)
					if s != "*ruggedPersistence" && s != "*volatile" {
						okAll = false
					}
				}
				sort.Strings(names)
				key := "OWN-4|newClient-persistence|in(" + load.FuncName(fn) + ")"
				if okAll {
					c.S.OK("OWN-4", key, c.P.Pos(ins.Pos()), load.FuncName(fn), "client persistence is "+strings.Join(names, "|"), true)
				} else {
					c.S.Bad("OWN-4", key, c.P.Pos(ins.Pos()), load.FuncName(fn), "a Persistence of dynamic type {"+strings.Join(names, ",")+"} reaches newClient unwrapped: stored records would be used without sequence number and checksum", nil)
				}
			})
			c.S.Floor("OWN-4", "newClient call sites", n, 2)
		}
	}
	if which["OWN-5"] {
		// close by channel class
		type cls struct {
			name  string
			allow map[string]bool
		}
		var sites = map[string][]ownSite{}
		g := c.alias()
		c.eachInstr(func(fn *ssa.Function, ins ssa.Instruction) {
			call, ok := ins.(ssa.CallInstruction)
			if !ok {
				return
			}
			b, ok := call.Common().Value.(*ssa.Builtin)
			if !ok || b.Name() != "close" {
				return
			}
			ch := call.Common().Args[0]
			k := c.chanClass(g, ch)
			sites[k] = append(sites[k], ownSite{fn, ins.Pos(), "close of a " + k + " channel"})
		})
		allow := map[string]map[string]bool{
			"token":    set("(*Client).Close", "(*Client).Disconnect", "(*Client).termCallbacks"),
			"queue":    set("(*Client).termCallbacks"),
			"exchange": set("(*Client).onPUBACK", "(*Client).onPUBCOMP"),
			"callback": set("(*Client).onSUBACK", "(*Client).onUNSUBACK", "(*Client).onPINGRESP"),
			"signal":   set("clearSignalChan", "newClient"),
			"local":    nil,
		}
		var ks []string
		for k := range sites {
			ks = append(ks, k)
		}
		sort.Strings(ks)
		total := 0
		for _, k := range ks {
			total += len(sites[k])
			if k == "local" {
				for _, s := range sites[k] {
					c.S.OK("OWN-5", "OWN-5|close(local)|in("+load.FuncName(load.TopLevel(s.fn))+")", c.P.Pos(s.pos), load.FuncName(s.fn), "close of a channel made in the same function", false)
				}
				continue
			}
			al, ok := allow[k]
			if !ok {
				for _, s := range sites[k] {
					c.S.Unknown("OWN-5", "OWN-5|close("+k+")|in("+load.FuncName(load.TopLevel(s.fn))+")", c.P.Pos(s.pos), load.FuncName(s.fn), "close of a channel whose class could not be determined")
				}
				continue
			}
			c.checkSites("OWN-5", "close("+k+")", sites[k], al, "a second closer makes double close (panic) or a false confirmation possible", 1)
		}
		c.S.Floor("OWN-5", "close sites classified", total, 12)
	}
	if which["OWN-6"] {
		df := c.constInt("dupeFlag")
		var sites []ownSite
		c.eachInstr(func(fn *ssa.Function, ins ssa.Instruction) {
			bo, ok := ins.(*ssa.BinOp)
			if !ok || bo.Op != token.OR {
				return
			}
			for _, op := range []ssa.Value{bo.X, bo.Y} {
				if k, ok := intConst(op); ok && k&df != 0 && k < 16 {
					if b, ok := bo.Type().Underlying().(*types.Basic); ok && b.Kind() == types.Uint8 {
						sites = append(sites, ownSite{fn, bo.Pos(), fmt.Sprintf("OR with %#b (contains the DUP bit)", k)})
					}
				}
			}
		})
		// constants passed as packet head with the DUP bit
		c.eachInstr(func(fn *ssa.Function, ins ssa.Instruction) {
			call, ok := ins.(ssa.CallInstruction)
			if !ok {
				return
			}
			if sc := call.Common().StaticCallee(); sc != nil && sc.Name() == "publishPacket" {
				args := call.Common().Args
				if k, ok := intConst(args[len(args)-1]); ok && k&df != 0 {
					sites = append(sites, ownSite{fn, ins.Pos(), fmt.Sprintf("PUBLISH head %#x with the DUP bit", k)})
				}
			}
		})
		c.checkSites("OWN-6", "DUP-flag", sites, set("(*Client).resend"), "a first transmission must never carry DUP", 1)
	}
	if which["OWN-7"] {
		// confinement of the read routine's fields
		confined := []string{"Client.readConn", "Client.bufr", "Client.peek", "Client.pendingAck", "Client.bigMessage", "Client.reconnectWait", "orderedTxs.Acked", "orderedTxs.Received", "orderedTxs.Completed"}
		roots := set("(*Client).ReadSlices", "(*Client).ReadBackoff", "(*BigMessage).ReadAll", "AdoptSession", "InitSession", "VolatileSession", "(*BigMessage).Error")
		callers := c.callers()
		n := 0
		seenKey := map[string]bool{}
		c.eachInstr(func(fn *ssa.Function, ins ssa.Instruction) {
			var addr ssa.Value
			switch x := ins.(type) {
			case *ssa.Store:
				addr = x.Addr
			case *ssa.UnOp:
				if x.Op == token.MUL {
					addr = x.X
				}
			}
			if addr == nil {
				return
			}
			k := pathx.RoleOfAddr(addr).Key()
			hit := false
			for _, cf := range confined {
				if cf == k {
					hit = true
				}
			}
			if !hit {
				return
			}
			n++
			top := load.TopLevel(fn)
			key := "OWN-7|access(" + k + ")|in(" + load.FuncName(top) + ")"
			if seenKey[key] {
				return
			}
			seenKey[key] = true
			if rootsOnly(top, roots, callers, map[*ssa.Function]bool{}) {
				c.S.OK("OWN-7", key, c.P.Pos(ins.Pos()), load.FuncName(top), "reachable only from the read routine's entry points", false)
			} else {
				c.S.Bad("OWN-7", key, c.P.Pos(ins.Pos()), load.FuncName(top), k+" is accessed from a function reachable outside the read routine (ReadSlices/ReadBackoff/ReadAll/session constructors): unsynchronised access from request goroutines", nil)
			}
		})
		c.S.Floor("OWN-7", "accesses to read-routine fields", n, 60)
		// callers of connect / toOffline / termCallbacks
		for _, name := range []string{"(*Client).connect", "(*Client).toOffline", "(*Client).termCallbacks"} {
			f := c.Fn("OWN-7", name)
			if f == nil {
				continue
			}
			key := "OWN-7|callers(" + name + ")"
			if rootsOnly(f, set("(*Client).ReadSlices"), callers, map[*ssa.Function]bool{}) && !isExported(f) {
				c.S.OK("OWN-7", key, c.P.Pos(f.Pos()), name, "called from the read routine only", true)
			} else {
				c.S.Bad("OWN-7", key, c.P.Pos(f.Pos()), name, name+" is reachable from outside ReadSlices: connection control would run concurrently with the read routine", nil)
			}
		}
	}
}

// rootsOnly: every chain of in-package callers of f ends in one of roots.
func rootsOnly(f *ssa.Function, roots map[string]bool, callers map[*ssa.Function][]*ssa.Function, seen map[*ssa.Function]bool) bool {
	if roots[load.FuncName(f)] {
		return true
	}
	if seen[f] {
		return true
	}
	seen[f] = true
	if isExported(f) {
		return false
	}
	cs := callers[f]
	if len(cs) == 0 {
		return f.Name() == "init"
	}
	for _, g := range cs {
		if !rootsOnly(load.TopLevel(g), roots, callers, seen) {
			return false
		}
	}
	return true
}

// ifaceSources lists the dynamic types that may flow into an interface value
// (through parameters of unexported functions, phis and conversions).
func (c *Ctx) ifaceSources(v ssa.Value, depth int) []string {
	if depth > 6 {
		return []string{"?"}
	}
	switch x := v.(type) {
	case *ssa.MakeInterface:
		return []string{types.TypeString(x.X.Type(), func(*types.Package) string { return "" })}
	case *ssa.ChangeInterface:
		return c.ifaceSources(x.X, depth+1)
	case *ssa.Phi:
		var out []string
		for _, e := range x.Edges {
			out = append(out, c.ifaceSources(e, depth+1)...)
		}
		return out
	case *ssa.Call:
		if f := x.Call.StaticCallee(); f != nil && len(f.Blocks) > 0 {
			var out []string
			for _, b := range f.Blocks {
				for _, ins := range b.Instrs {
					if r, ok := ins.(*ssa.Return); ok && len(r.Results) > 0 {
						out = append(out, c.ifaceSources(r.Results[0], depth+1)...)
					}
				}
			}
			return out
		}
	case *ssa.Parameter:
		fn := x.Parent()
		if isExported(fn) {
			return []string{"user:" + x.Name()}
		}
		idx := -1
		for i, p := range fn.Params {
			if p == x {
				idx = i
			}
		}
		var out []string
		c.eachInstr(func(g *ssa.Function, ins ssa.Instruction) {
			if call, ok := ins.(ssa.CallInstruction); ok && call.Common().StaticCallee() == fn && idx >= 0 {
				out = append(out, c.ifaceSources(call.Common().Args[idx], depth+1)...)
			}
		})
		return out
	}
	return []string{"?" + v.Name()}
}

// chanClass classifies a channel value for OWN-5.
func (c *Ctx) chanClass(g *aliasGraph, ch ssa.Value) string {
	if t := tokenOf(ch); t != "" {
		if t == tkOn || t == tkOff || t == tkSigP {
			return "signal-holder"
		}
		return "token"
	}
	switch roleKey(ch) {
	case "outbound.queue":
		return "queue"
	}
	// by alias class: does it share a class with the element of a known registry?
	for _, probe := range c.registryProbes() {
		if g.same(ch, probe.v) {
			return probe.class
		}
	}
	if _, ok := ch.(*ssa.MakeChan); ok {
		return "local"
	}
	if par := chParent(ch); par != nil {
		for _, m := range g.makesOf(ch) {
			if load.TopLevel(m.Parent()) == load.TopLevel(par) {
				return "local"
			}
		}
		if u, ok := ch.(*ssa.UnOp); ok {
			if _, isGlobal := u.X.(*ssa.Global); isGlobal && strings.HasPrefix(load.TopLevel(par).Name(), "init") {
				return "local" // package level channel closed by its own initialiser
			}
		}
	}
	if p, ok := ch.(*ssa.Parameter); ok && p.Type().String() == "chan struct{}" {
		return "signal"
	}
	return "unclassified(" + Expr(ch) + ")"
}

func chParent(v ssa.Value) *ssa.Function {
	if i, ok := v.(ssa.Instruction); ok {
		return i.Parent()
	}
	if p, ok := v.(*ssa.Parameter); ok {
		return p.Parent()
	}
	return nil
}

type probe struct {
	v     ssa.Value
	class string
}

// registryProbes finds representative values for the channel classes: what
// is received from the queues (exchange), from pingAck and the done field of
// unorderedCallback (callback), from the signal holders (signal).
func (c *Ctx) registryProbes() []probe {
	if c.probes != nil {
		return c.probes
	}
	c.eachInstr(func(fn *ssa.Function, ins ssa.Instruction) {
		switch x := ins.(type) {
		case *ssa.UnOp:
			if x.Op != token.ARROW {
				return
			}
			var res ssa.Value = x
			if x.CommaOk {
				for _, r := range *x.Referrers() {
					if ex, ok := r.(*ssa.Extract); ok && ex.Index == 0 {
						res = ex
					}
				}
			}
			switch {
			case roleKey(x.X) == "outbound.queue":
				c.probes = append(c.probes, probe{res, "exchange"})
			case roleKey(x.X) == "Client.pingAck":
				c.probes = append(c.probes, probe{res, "callback"})
			case tokenOf(x.X) == tkOn || tokenOf(x.X) == tkOff || tokenOf(x.X) == tkSigP:
				c.probes = append(c.probes, probe{res, "signal"})
			}
		case *ssa.Select:
			ri := 0
			for _, st := range x.States {
				if st.Dir == types.SendOnly {
					continue
				}
				if roleKey(st.Chan) == "Client.pingAck" {
					for _, r := range *x.Referrers() {
						if ex, ok := r.(*ssa.Extract); ok && ex.Index == 2+ri {
							c.probes = append(c.probes, probe{ex, "callback"})
						}
					}
				}
				ri++
			}
		case *ssa.Field:
			if roleKey(x) == "unorderedCallback.done" {
				c.probes = append(c.probes, probe{x, "callback"})
			}
		case *ssa.FieldAddr:
			if pathx.RoleOfAddr(x).Key() == "unorderedCallback.done" {
				for _, r := range *x.Referrers() {
					if u, ok := r.(*ssa.UnOp); ok && u.Op == token.MUL {
						c.probes = append(c.probes, probe{u, "callback"})
					}
				}
			}
		}
	})
	return c.probes
}

// ---- OWN-8: values handed out by Persistence.Load are read-only ----

func init() {
	register("OWN-8", []string{"OWN-8"}, func(c *Ctx, _ map[string]bool) { c.own8() })
}

func (c *Ctx) own8() {
	n := 0
	c.eachInstr(func(fn *ssa.Function, ins ssa.Instruction) {
		call, ok := ins.(*ssa.Call)
		if !ok || !call.Call.IsInvoke() || call.Call.Method.Name() != "Load" || recvTypeName(call.Call.Method) != "Persistence" {
			return
		}
		n++
		// the loaded slice and everything derived from it (phis, re-slices)
		derived := map[ssa.Value]bool{}
		var work []ssa.Value
		for _, r := range *call.Referrers() {
			if ex, ok := r.(*ssa.Extract); ok && ex.Index == 0 {
				derived[ex] = true
				work = append(work, ex)
			}
		}
		name := load.FuncName(load.TopLevel(fn))
		key := "OWN-8|" + name + "|Load-result-not-modified"
		bad := false
		for len(work) > 0 {
			v := work[0]
			work = work[1:]
			refs := v.Referrers()
			if refs == nil {
				continue
			}
			for _, r := range *refs {
				switch x := r.(type) {
				case *ssa.Phi:
					if !derived[x] {
						derived[x] = true
						work = append(work, x)
					}
				case *ssa.Slice:
					if x.X == v && !derived[x] {
						derived[x] = true
						work = append(work, x)
					}
				case *ssa.IndexAddr:
					if x.X != v {
						continue
					}
					for _, rr := range *x.Referrers() {
						if st, ok := rr.(*ssa.Store); ok && st.Addr == x {
							bad = true
							c.S.Bad("OWN-8", key, c.P.Pos(st.Pos()), name, "the slice returned by Persistence.Load is modified in place ("+Expr(st.Val)+"): a Persistence that hands out its own memory gets its record altered, and the integrity check refuses the record from then on", nil)
						}
					}
				case *ssa.Call:
					// append(loaded, …) may write into spare capacity; copy(loaded, …) writes
					if b, ok := x.Call.Value.(*ssa.Builtin); ok && len(x.Call.Args) > 0 && x.Call.Args[0] == v && (b.Name() == "append" || b.Name() == "copy") {
						bad = true
						c.S.Bad("OWN-8", key, c.P.Pos(x.Pos()), name, b.Name()+" with the slice returned by Persistence.Load as destination", nil)
					}
				}
			}
		}
		if !bad {
			c.S.OK("OWN-8", key, c.P.Pos(call.Pos()), name, "no store, append or copy targets the loaded slice or a re-slice of it", true)
		}
	})
	c.S.Floor("OWN-8", "Persistence.Load call sites", n, 5)
}

// ---- OWN-9: the in-memory store keeps private copies ----

func init() {
	register("OWN-9", []string{"OWN-9"}, func(c *Ctx, _ map[string]bool) { c.own9() })
}

func (c *Ctx) own9() {
	sv := c.Fn("OWN-9", "(*volatile).Save")
	ld := c.Fn("OWN-9", "(*volatile).Load")
	if sv == nil || ld == nil {
		return
	}
	a := c.acc("OWN-9", sv, "stored-value-is-a-fresh-copy")
	for _, b := range sv.Blocks {
		for _, ins := range b.Instrs {
			mu, ok := ins.(*ssa.MapUpdate)
			if !ok {
				continue
			}
			var fresh func(v ssa.Value) bool
			fresh = func(v ssa.Value) bool {
				if ms, ok := v.(*ssa.MakeSlice); ok {
					return ms.Parent() == sv || c.isNewHelper(ms.Parent())
				}
				// a helper extracted from Save that returns its own allocation
				if call, ok := v.(*ssa.Call); ok {
					f := call.Call.StaticCallee()
					if f == nil || !c.isNewHelper(f) {
						return false
					}
					n := 0
					for _, b := range f.Blocks {
						for _, ins := range b.Instrs {
							if r, ok := ins.(*ssa.Return); ok && len(r.Results) > 0 {
								n++
								if ms, ok := r.Results[0].(*ssa.MakeSlice); !ok || ms.Parent() != f {
									return false
								}
							}
						}
					}
					return n > 0
				}
				return false
			}
			okV := fresh(mu.Value)
			if phi, isPhi := mu.Value.(*ssa.Phi); isPhi {
				okV = true
				for _, e := range phi.Edges {
					if !fresh(e) {
						okV = false
					}
				}
			}
			if okV {
				a.pass()
			} else {
				a.failAt(c.P.Pos(mu.Pos()), "the volatile store keeps %s, which is not a slice allocated by this Save: callers reuse their buffers (onPUBREC composes the PUBREL in the client's scratch buffer), so the stored record changes behind the store's back", Expr(mu.Value))
			}
		}
	}
	a.done(1, "the map only ever receives a slice made inside Save")
}
