package rules

import (
	"go/constant"
	"go/token"
	"go/types"
	"sort"

	"golang.org/x/tools/go/ssa"

	"mqttverif/internal/load"
)

// dispatchArm is one case of the packet-type switch of the read routine.
type dispatchArm struct {
	Type     int64
	Handler  *ssa.Function // handler called in the arm, if any
	Sentinel *ssa.Global   // error sentinel assigned in the arm, if any
	Pos      token.Pos
}

// packetTypes evaluates the sixteen type constants from the package scope.
func (c *Ctx) packetTypes() map[string]int64 {
	out := map[string]int64{}
	sc := c.P.Root.Pkg.Scope()
	for _, n := range sc.Names() {
		k, ok := sc.Lookup(n).(*types.Const)
		if !ok || len(n) < 5 || n[:4] != "type" {
			continue
		}
		if v, ok := constant.Int64Val(k.Val()); ok {
			out[n] = v
		}
	}
	return out
}

// dispatch locates the switch on head>>4 inside fn (readSlices) and lists
// its arms.
func (c *Ctx) dispatch(fn *ssa.Function) []dispatchArm {
	var arms []dispatchArm
	testBlocks := map[*ssa.BasicBlock]bool{}
	for _, b := range c.regionBlocks(fn) {
		if len(b.Instrs) == 0 {
			continue
		}
		iff, ok := b.Instrs[len(b.Instrs)-1].(*ssa.If)
		if !ok {
			continue
		}
		cond, ok := iff.Cond.(*ssa.BinOp)
		if !ok || cond.Op != token.EQL {
			continue
		}
		if !c.isTypeNibble(cond.X, 0) {
			continue
		}
		k, ok := intConst(cond.Y)
		if !ok {
			continue
		}
		arm := dispatchArm{Type: k, Pos: cond.Pos()}
		tb := b.Succs[0]
		for _, ins := range tb.Instrs {
			if call, ok := ins.(*ssa.Call); ok {
				if sc := call.Call.StaticCallee(); sc != nil && load.TopLevel(sc).Pkg == c.P.Root {
					arm.Handler = sc
					break
				}
			}
			if u, ok := ins.(*ssa.UnOp); ok && u.Op == token.MUL {
				if g, ok := u.X.(*ssa.Global); ok {
					arm.Sentinel = g
				}
			}
		}
		arms = append(arms, arm)
		testBlocks[b] = true
	}
	// a default arm that looks the error up in a table indexed by the packet
	// type — err = table[head>>4] with table a package-level array that only
	// its initialiser writes — stands for one arm per non-nil element
	have := map[int64]bool{}
	for _, a := range arms {
		have[a.Type] = true
	}
	for b := range testBlocks {
		d := b.Succs[1]
		if testBlocks[d] {
			continue
		}
		for _, ins := range d.Instrs {
			ia, ok := ins.(*ssa.IndexAddr)
			if !ok {
				continue
			}
			g, ok := ia.X.(*ssa.Global)
			if !ok {
				continue
			}
			if !c.isTypeNibble(ia.Index, 0) {
				continue
			}
			tab, ok := c.constTable(g)
			if !ok {
				continue
			}
			for k, v := range tab {
				if have[k] {
					continue
				}
				if u, ok := v.(*ssa.UnOp); ok && u.Op == token.MUL {
					if sg, ok := u.X.(*ssa.Global); ok {
						arms = append(arms, dispatchArm{Type: k, Sentinel: sg, Pos: ia.Pos()})
						have[k] = true
					}
				}
			}
		}
	}
	// a table of handlers indexed by the packet type — err =
	// inboundHandlers[head>>4](c), the table a package-level array of function
	// values that only its initialiser writes — stands for one arm per entry: a
	// method expression is the arm that calls that method, a literal that
	// returns a sentinel is the arm that assigns it
	for _, b := range c.regionBlocks(fn) {
		for _, ins := range b.Instrs {
			call, ok := ins.(*ssa.Call)
			if !ok || call.Call.IsInvoke() {
				continue
			}
			ld, ok := call.Call.Value.(*ssa.UnOp)
			if !ok || ld.Op != token.MUL {
				continue
			}
			ia, ok := ld.X.(*ssa.IndexAddr)
			if !ok || !c.isTypeNibble(ia.Index, 0) {
				continue
			}
			g, ok := ia.X.(*ssa.Global)
			if !ok {
				continue
			}
			tab, ok := c.constTable(g)
			if !ok {
				continue
			}
			for k, v := range tab {
				if have[k] {
					continue
				}
				var f *ssa.Function
				switch x := v.(type) {
				case *ssa.Function:
					f = x
				case *ssa.MakeClosure:
					f, _ = x.Fn.(*ssa.Function)
				case *ssa.ChangeType:
					f, _ = x.X.(*ssa.Function)
				}
				if f == nil {
					continue
				}
				arm := dispatchArm{Type: k, Pos: call.Pos()}
				// what the entry does: call one method of the package, or return a sentinel
				for _, fb := range f.Blocks {
					for _, fi := range fb.Instrs {
						switch y := fi.(type) {
						case *ssa.Call:
							if sc := y.Call.StaticCallee(); sc != nil && load.TopLevel(sc).Pkg == c.P.Root && arm.Handler == nil {
								arm.Handler = sc
							}
						case *ssa.Return:
							if len(y.Results) == 1 {
								if u, isU := y.Results[0].(*ssa.UnOp); isU && u.Op == token.MUL {
									if sg, isG := u.X.(*ssa.Global); isG {
										arm.Sentinel = sg
									}
								}
							}
						}
					}
				}
				if arm.Handler != nil {
					arm.Sentinel = nil
				}
				arms = append(arms, arm)
				have[k] = true
			}
		}
	}
	sort.SliceStable(arms, func(i, j int) bool { return arms[i].Type < arms[j].Type })
	return arms
}

// constTable returns the elements the initialiser of a package-level array
// stores at constant indexes, provided nothing else in the package writes
// the array or lets its address escape.
func (c *Ctx) constTable(g *ssa.Global) (map[int64]ssa.Value, bool) {
	if _, ok := g.Type().(*types.Pointer).Elem().Underlying().(*types.Array); !ok {
		return nil, false
	}
	out := map[int64]ssa.Value{}
	pkgInit := c.P.Root.Func("init")
	for _, fn := range c.funcs { // (the package initialiser is among them)
		isInit := fn == pkgInit
		for _, b := range fn.Blocks {
			for _, ins := range b.Instrs {
				uses := false
				for _, op := range ins.Operands(nil) {
					if op != nil && *op == ssa.Value(g) {
						uses = true
					}
				}
				if !uses {
					continue
				}
				ia, ok := ins.(*ssa.IndexAddr)
				if !ok {
					// a load of the whole array is a read; anything else may write
					if u, ok := ins.(*ssa.UnOp); ok && u.Op == token.MUL {
						continue
					}
					// the initialiser builds a composite literal in a local
					// and stores it as a whole
					if st, ok := ins.(*ssa.Store); ok && isInit && st.Addr == ssa.Value(g) && len(out) == 0 {
						if lit, ok := c.litElems(st.Val); ok {
							out = lit
							continue
						}
					}
					return nil, false
				}
				for _, r := range *ia.Referrers() {
					switch r := r.(type) {
					case *ssa.UnOp:
						if r.Op != token.MUL {
							return nil, false
						}
					case *ssa.Store:
						if r.Addr != ssa.Value(ia) || !isInit {
							return nil, false
						}
						k, ok := intConst(ia.Index)
						if !ok {
							return nil, false
						}
						if _, dup := out[k]; dup {
							return nil, false
						}
						out[k] = r.Val
					case *ssa.DebugRef:
					default:
						return nil, false
					}
				}
			}
		}
	}
	return out, true
}

// handlers returns the dispatch handlers keyed by packet type constant name.
func (c *Ctx) handlers(rule string) map[string]*ssa.Function {
	rs := c.Fn(rule, "(*Client).readSlices")
	out := map[string]*ssa.Function{}
	if rs == nil {
		return out
	}
	names := map[int64]string{}
	for n, v := range c.packetTypes() {
		names[v] = n
	}
	for _, a := range c.dispatch(rs) {
		if a.Handler != nil {
			out[names[a.Type]] = a.Handler
		}
	}
	return out
}

// litElems: the elements of an array composite literal, from the value that
// loads the finished literal.
func (c *Ctx) litElems(v ssa.Value) (map[int64]ssa.Value, bool) {
	u, ok := v.(*ssa.UnOp)
	if !ok || u.Op != token.MUL {
		return nil, false
	}
	al, ok := u.X.(*ssa.Alloc)
	if !ok {
		return nil, false
	}
	out := map[int64]ssa.Value{}
	for _, r := range *al.Referrers() {
		switch r := r.(type) {
		case *ssa.UnOp:
			if r != u {
				return nil, false
			}
		case *ssa.IndexAddr:
			k, ok := intConst(r.Index)
			if !ok {
				return nil, false
			}
			for _, rr := range *r.Referrers() {
				st, ok := rr.(*ssa.Store)
				if !ok || st.Addr != ssa.Value(r) {
					return nil, false
				}
				if _, dup := out[k]; dup {
					return nil, false
				}
				out[k] = st.Val
			}
		case *ssa.DebugRef:
		default:
			return nil, false
		}
	}
	return out, true
}

// isTypeNibble: v is x>>4 — written in place, kept in a local (a phi of one
// value), or computed by an accessor introduced later that returns its
// parameter shifted by 4 (head.packetType()).
func (c *Ctx) isTypeNibble(v ssa.Value, depth int) bool {
	if depth > 4 {
		return false
	}
	switch x := strip(v).(type) {
	case *ssa.BinOp:
		if x.Op != token.SHR {
			return false
		}
		n, ok := intConst(x.Y)
		if !ok || n != 4 {
			return false
		}
		// (the type nibble of the acknowledgement that is owed is not the packet being dispatched)
		if u, isLoad := strip(x.X).(*ssa.UnOp); isLoad && u.Op == token.MUL {
			if ia, isIA := u.X.(*ssa.IndexAddr); isIA && roleKey(ia.X) == "Client.pendingAck" {
				return false
			}
		}
		return true
	case *ssa.Call:
		f := x.Call.StaticCallee()
		if f == nil || !c.isNewHelper(f) {
			return false
		}
		n := 0
		for _, b := range f.Blocks {
			for _, ins := range b.Instrs {
				if r, ok := ins.(*ssa.Return); ok {
					if len(r.Results) != 1 || !c.isTypeNibble(r.Results[0], depth+1) {
						return false
					}
					n++
				}
			}
		}
		return n > 0
	}
	return false
}
