package rules

import (
	"go/constant"
	"go/token"
	"go/types"

	"golang.org/x/tools/go/ssa"

	"mqttverif/internal/load"
)

// dispatchArm is one case of the packet-type switch of the read routine.
type dispatchArm struct {
	Type     int64
	Handler  *ssa.Function // handler called in the arm, if any
	Sentinel *ssa.Global   // error sentinel assigned in the arm, if any
	Pos      token.Pos
}

// packetTypes evaluates the sixteen type constants from the package scope.
func (c *Ctx) packetTypes() map[string]int64 {
	out := map[string]int64{}
	sc := c.P.Root.Pkg.Scope()
	for _, n := range sc.Names() {
		k, ok := sc.Lookup(n).(*types.Const)
		if !ok || len(n) < 5 || n[:4] != "type" {
			continue
		}
		if v, ok := constant.Int64Val(k.Val()); ok {
			out[n] = v
		}
	}
	return out
}

// dispatch locates the switch on head>>4 inside fn (readSlices) and lists
// its arms.
func (c *Ctx) dispatch(fn *ssa.Function) []dispatchArm {
	var arms []dispatchArm
	for _, b := range c.regionBlocks(fn) {
		if len(b.Instrs) == 0 {
			continue
		}
		iff, ok := b.Instrs[len(b.Instrs)-1].(*ssa.If)
		if !ok {
			continue
		}
		cond, ok := iff.Cond.(*ssa.BinOp)
		if !ok || cond.Op != token.EQL {
			continue
		}
		sh, ok := strip(cond.X).(*ssa.BinOp)
		if !ok || sh.Op != token.SHR {
			continue
		}
		if n, ok := intConst(sh.Y); !ok || n != 4 {
			continue
		}
		k, ok := intConst(cond.Y)
		if !ok {
			continue
		}
		arm := dispatchArm{Type: k, Pos: cond.Pos()}
		tb := b.Succs[0]
		for _, ins := range tb.Instrs {
			if call, ok := ins.(*ssa.Call); ok {
				if sc := call.Call.StaticCallee(); sc != nil && load.TopLevel(sc).Pkg == c.P.Root {
					arm.Handler = sc
					break
				}
			}
			if u, ok := ins.(*ssa.UnOp); ok && u.Op == token.MUL {
				if g, ok := u.X.(*ssa.Global); ok {
					arm.Sentinel = g
				}
			}
		}
		arms = append(arms, arm)
	}
	return arms
}

// handlers returns the dispatch handlers keyed by packet type constant name.
func (c *Ctx) handlers(rule string) map[string]*ssa.Function {
	rs := c.Fn(rule, "(*Client).readSlices")
	out := map[string]*ssa.Function{}
	if rs == nil {
		return out
	}
	names := map[int64]string{}
	for n, v := range c.packetTypes() {
		names[v] = n
	}
	for _, a := range c.dispatch(rs) {
		if a.Handler != nil {
			out[names[a.Type]] = a.Handler
		}
	}
	return out
}
