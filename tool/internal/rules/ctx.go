package rules

import (
	"fmt"
	"go/token"
	"go/types"
	"sort"
	"strings"

	"golang.org/x/tools/go/ssa"

	"mqttverif/internal/load"
	"mqttverif/internal/oblig"
	"mqttverif/internal/pathx"
)

// Ctx is the state of one check run for one property.
type Ctx struct {
	P    *load.Program
	S    *oblig.Set
	Tier string

	paths map[*ssa.Function][]*pathx.Path
	stats map[*ssa.Function]pathx.Stats
	funcs []*ssa.Function // source functions of the root package

	blockMemo map[*ssa.Function]bool
	acqMemo   map[*ssa.Function]map[string]bool
	aliasMemo *aliasGraph
	errMemo   *errFlow
	probes    []probe
	verif     string
	Extras    map[string]any
	tableMemo map[*ssa.Global][]*ssa.Function
}

func NewCtx(p *load.Program, prop, tier string) *Ctx {
	c := &Ctx{P: p, S: oblig.NewSet(prop), Tier: tier,
		paths: map[*ssa.Function][]*pathx.Path{}, stats: map[*ssa.Function]pathx.Stats{}, Extras: map[string]any{}}
	c.funcs = p.SourceFuncs(p.Root)
	// fields moved into a struct introduced later keep the name the rules know
	pathx.FieldAlias = map[string][2]string{}
	for _, r := range p.Renames {
		if r.Kind != "moved-field" {
			continue
		}
		nw := r.New
		if i := strings.Index(nw, " ("); i >= 0 {
			nw = nw[:i]
		}
		nw = strings.TrimPrefix(nw, "mqtttest.")
		old := strings.TrimPrefix(r.Old, "mqtttest.")
		if j := strings.LastIndex(old, "."); j > 0 {
			pathx.FieldAlias[nw] = [2]string{old[:j], old[j+1:]}
		}
	}
	// parameters that stand for one thing: every call site of an unexported
	// function (or of a literal that is only ever called) passes the same
	// constant, or a value read from the same place
	pathx.StaticParam = map[*ssa.Parameter]ssa.Value{}
	staticParam = pathx.StaticParam
	{
		var all []*ssa.Function
		for _, pk := range []*ssa.Package{p.Root, p.Test} {
			if pk != nil {
				all = append(all, p.SourceFuncs(pk)...)
			}
		}
		sites := map[*ssa.Function][]*ssa.CallCommon{}
		escapes := map[*ssa.Function]bool{}
		for _, f := range all {
			for _, b := range f.Blocks {
				for _, ins := range b.Instrs {
					var called *ssa.Function
					if ci, ok := ins.(ssa.CallInstruction); ok {
						if called = ci.Common().StaticCallee(); called != nil {
							sites[called] = append(sites[called], ci.Common())
						}
					}
					for _, op := range ins.Operands(nil) {
						if op == nil || *op == nil {
							continue
						}
						g, isFn := (*op).(*ssa.Function)
						if mc, isMC := (*op).(*ssa.MakeClosure); isMC {
							g, isFn = mc.Fn.(*ssa.Function)
						}
						if !isFn || g == called {
							continue
						}
						if _, isMC := ins.(*ssa.MakeClosure); isMC {
							continue // judged where the closure value is used
						}
						escapes[g] = true
					}
				}
			}
		}
		for _, f := range all {
			if escapes[f] || len(sites[f]) == 0 {
				continue
			}
			if o := f.Object(); o != nil && o.Exported() {
				continue
			}
			for i, pr := range f.Params {
				var rep ssa.Value
				same := true
				key := ""
				for k, cc := range sites[f] {
					if i >= len(cc.Args) {
						same = false
						break
					}
					a := cc.Args[i]
					for {
						if cv, ok := a.(*ssa.Convert); ok {
							a = cv.X
						} else if ct, ok := a.(*ssa.ChangeType); ok {
							a = ct.X
						} else {
							break
						}
					}
					var ak string
					if kc, ok := a.(*ssa.Const); ok && kc.Value != nil {
						ak = "const:" + kc.Value.ExactString()
					} else if r := pathx.RoleOfValue(a); r.Path != "" {
						ak = "role:" + r.Key() + "@" + r.Path
					}
					if ak == "" || (k > 0 && ak != key) {
						same = false
						break
					}
					key, rep = ak, cc.Args[i]
				}
				if same && rep != nil {
					pathx.StaticParam[pr] = rep
				}
			}
		}
	}
	// error sentinels: package-level variables of an interface type that only
	// the package initialiser assigns (loads of them compare like constants)
	assigned := map[*ssa.Global]bool{}
	pkgInit := p.Root.Func("init")
	for _, pk := range []*ssa.Package{p.Root, p.Test} {
		if pk == nil {
			continue
		}
		for _, f := range p.SourceFuncs(pk) {
			if f == pkgInit || (f.Name() == "init" && f.Synthetic != "") {
				continue
			}
			for _, b := range f.Blocks {
				for _, ins := range b.Instrs {
					if st, ok := ins.(*ssa.Store); ok {
						if g, ok := st.Addr.(*ssa.Global); ok {
							assigned[g] = true
						}
					}
					// an address that escapes may be written through
					if call, ok := ins.(ssa.CallInstruction); ok {
						for _, a := range call.Common().Args {
							if g, ok := a.(*ssa.Global); ok {
								assigned[g] = true
							}
						}
					}
				}
			}
		}
	}
	sentinel := map[*ssa.Global]bool{}
	pathx.SentinelGlobal = func(g *ssa.Global) bool {
		if v, ok := sentinel[g]; ok {
			return v
		}
		ok := false
		if g.Pkg == p.Root || g.Pkg == p.Test {
			if pt, isP := g.Type().(*types.Pointer); isP && types.IsInterface(pt.Elem()) && !assigned[g] {
				ok = true
			}
		}
		sentinel[g] = ok
		return ok
	}
	return c
}

// Fn resolves an anchor function; an unresolved anchor is an undecided
// obligation, never silently skipped.
func (c *Ctx) Fn(rule, name string) *ssa.Function {
	f := c.P.Func(name)
	if f == nil {
		for _, g := range c.funcs {
			if load.FuncName(g) == name {
				return g
			}
		}
		c.S.Unknown(rule, rule+"|anchor|"+name, "", name, "anchor function "+name+" no longer resolves; the rule cannot be decided")
	}
	return f
}

func (c *Ctx) TestFn(rule, name string) *ssa.Function {
	f := c.P.TestFunc(name)
	if f == nil {
		for g := range c.P.AllFuncs {
			if load.TopLevel(g).Pkg == c.P.Test && load.FuncName(g) == name {
				return g
			}
		}
		c.S.Unknown(rule, rule+"|anchor|mqtttest."+name, "", name, "anchor function mqtttest."+name+" no longer resolves")
	}
	return f
}

// Paths enumerates (and caches) the segments of fn with deferred closures
// expanded and field loads recorded.
func (c *Ctx) Paths(rule string, fn *ssa.Function) []*pathx.Path {
	if fn == nil {
		return nil
	}
	if ps, ok := c.paths[fn]; ok {
		return ps
	}
	var ps []*pathx.Path
	st, err := pathx.Enumerate(fn, pathx.Config{Loads: true, InlineLoops: true, StableLoad: stableConfigLoad, Inline: c.expandInPlace}, func(p *pathx.Path) { ps = append(ps, p) })
	if err != nil {
		c.S.Unknown(rule, rule+"|paths|"+load.FuncName(fn), c.P.Pos(fn.Pos()), load.FuncName(fn), "path enumeration failed: "+err.Error())
	}
	c.paths[fn] = ps
	c.stats[fn] = st
	c.S.Count("functions_path_explored", 1)
	c.S.Count("segments_enumerated", st.Paths)
	c.S.Count("infeasible_branches_pruned", st.Pruned)
	return ps
}

func (c *Ctx) pos(i ssa.Instruction) string {
	if i == nil {
		return ""
	}
	p := i.Pos()
	if !p.IsValid() {
		if iff, ok := i.(*ssa.If); ok {
			p = iff.Cond.Pos()
		}
	}
	if !p.IsValid() {
		// fall back on the enclosing block's first positioned instruction
		if b := i.Block(); b != nil {
			for _, j := range b.Instrs {
				if j.Pos().IsValid() {
					p = j.Pos()
					break
				}
			}
		}
	}
	return c.P.Pos(p)
}

func (c *Ctx) vpos(v ssa.Value) string {
	if v == nil {
		return ""
	}
	return c.P.Pos(v.Pos())
}

// Trace renders the branch decisions and rule-relevant events of a path up
// to event index upto (inclusive; <0 for all).
func (c *Ctx) Trace(p *pathx.Path, upto int) []string {
	var out []string
	for i := range p.Events {
		if upto >= 0 && i > upto {
			break
		}
		e := &p.Events[i]
		switch e.Kind {
		case pathx.KLoad, pathx.KEnter, pathx.KLeave, pathx.KRunDefers, pathx.KDefer:
			continue
		case pathx.KStore:
			if pathx.RoleOfAddr(e.Addr).Path == "" {
				continue
			}
		}
		out = append(out, strings.TrimSpace(DescribeEvent(c.P, e)))
	}
	if len(out) > 40 {
		out = append(out[:20], append([]string{"…"}, out[len(out)-19:]...)...)
	}
	return out
}

// ---- callee classification ----

func isCallTo(e *pathx.Event, fn *ssa.Function) bool {
	return (e.Kind == pathx.KCall) && fn != nil && e.Callee == fn
}

// isMethod matches an interface invocation by declaring interface and name,
// e.g. ("Persistence","Save") or ("net.Conn","Write").
func isInvoke(e *pathx.Event, iface, name string) bool {
	if e.Kind != pathx.KCall || e.Method == nil || e.Method.Name() != name {
		return false
	}
	return recvTypeName(e.Method) == iface
}

func recvTypeName(m *types.Func) string {
	sig := m.Type().(*types.Signature)
	if sig.Recv() == nil {
		return ""
	}
	t := sig.Recv().Type()
	if p, ok := t.(*types.Pointer); ok {
		t = p.Elem()
	}
	switch n := t.(type) {
	case *types.Named:
		if n.Obj().Pkg() != nil && n.Obj().Pkg().Path() != load.RootPath {
			return n.Obj().Pkg().Name() + "." + n.Obj().Name()
		}
		return n.Obj().Name()
	}
	// method of an embedded anonymous interface: use receiver string
	return types.TypeString(t, func(p *types.Package) string { return p.Name() })
}

// isStd matches a static call to pkgpath.name or pkgpath.(T).name.
func isStd(e *pathx.Event, full string) bool {
	if e.Kind != pathx.KCall && e.Kind != pathx.KDefer && e.Kind != pathx.KGo {
		return false
	}
	return e.Callee != nil && stdName(e.Callee) == full
}

func stdName(f *ssa.Function) string {
	if f == nil {
		return ""
	}
	if o := f.Object(); o != nil {
		if fn, ok := o.(*types.Func); ok {
			return fn.FullName()
		}
	}
	return f.String()
}

// persistenceOp reports whether e calls Load/Save/Delete/List on a value of
// the repository's Persistence interface (or an implementation through it).
func persistenceOp(e *pathx.Event) string {
	if e.Kind != pathx.KCall || e.Method == nil {
		return ""
	}
	if recvTypeName(e.Method) == "Persistence" {
		return e.Method.Name()
	}
	return ""
}

// ---- wire functions ----

// wireWriters are the functions that directly invoke net.Conn.Write or
// (*net.Buffers).WriteTo on a net.Conn: discovered, not named.
func (c *Ctx) wireWriters() map[*ssa.Function]bool {
	out := map[*ssa.Function]bool{}
	for _, f := range c.funcs {
		for _, b := range f.Blocks {
			for _, ins := range b.Instrs {
				call, ok := ins.(ssa.CallInstruction)
				if !ok {
					continue
				}
				cc := call.Common()
				if cc.IsInvoke() && cc.Method.Name() == "Write" && recvTypeName(cc.Method) == "net.Conn" {
					out[f] = true
				}
				if sc := cc.StaticCallee(); sc != nil && stdName(sc) == "(*net.Buffers).WriteTo" && len(cc.Args) == 2 {
					if namedIs(cc.Args[1], "net", "Conn") {
						out[f] = true
					}
				}
			}
		}
	}
	return out
}

func namedIs(v ssa.Value, pkg, name string) bool {
	t := v.Type()
	if mi, ok := v.(*ssa.MakeInterface); ok {
		t = mi.X.Type()
	}
	if ci, ok := v.(*ssa.ChangeInterface); ok {
		t = ci.X.Type()
	}
	n, ok := t.(*types.Named)
	return ok && n.Obj().Pkg() != nil && n.Obj().Pkg().Name() == pkg && n.Obj().Name() == name
}

// wireCapable is the closure of wireWriters under static calls inside the
// root package: any function from which a byte can reach a connection.
func (c *Ctx) wireCapable() map[*ssa.Function]bool {
	out := c.wireWriters()
	for changed := true; changed; {
		changed = false
		for _, f := range c.funcs {
			if out[f] {
				continue
			}
			for _, callee := range c.staticCallees(f) {
				if out[callee] {
					out[f] = true
					changed = true
					break
				}
			}
		}
	}
	// new helpers are expanded inside their callers by the path engine: a
	// call to one is not an event of its own, its body is
	for f := range out {
		if c.isNewHelper(f) {
			delete(out, f)
		}
	}
	return out
}

// staticCallees lists in-package static callees and closures made in f.
func (c *Ctx) staticCallees(f *ssa.Function) []*ssa.Function {
	seen := map[*ssa.Function]bool{}
	var out []*ssa.Function
	add := func(g *ssa.Function) {
		if g != nil && !seen[g] && len(g.Blocks) > 0 && load.TopLevel(g).Pkg == f.Pkg {
			seen[g] = true
			out = append(out, g)
		}
	}
	for _, b := range f.Blocks {
		for _, ins := range b.Instrs {
			switch x := ins.(type) {
			case ssa.CallInstruction:
				add(x.Common().StaticCallee())
				if mc, ok := x.Common().Value.(*ssa.MakeClosure); ok {
					add(mc.Fn.(*ssa.Function))
				}
				// a call through a package-level table of function values that
				// only its initialiser writes: every entry may be the callee
				for _, g := range c.tableTargets(x.Common()) {
					add(g)
				}
			case *ssa.MakeClosure:
				add(x.Fn.(*ssa.Function))
			}
		}
	}
	return out
}

// callers maps every in-package function to the functions that reference it
// (static call, go, defer, closure creation).
func (c *Ctx) callers() map[*ssa.Function][]*ssa.Function {
	out := map[*ssa.Function][]*ssa.Function{}
	for _, f := range c.funcs {
		for _, g := range c.staticCallees(f) {
			out[g] = append(out[g], f)
		}
	}
	return out
}

// reachableFrom computes the in-package functions reachable from roots via
// static calls and closures.
func (c *Ctx) reachableFrom(roots ...*ssa.Function) map[*ssa.Function]bool {
	out := map[*ssa.Function]bool{}
	var walk func(f *ssa.Function)
	walk = func(f *ssa.Function) {
		if f == nil || out[f] {
			return
		}
		out[f] = true
		for _, g := range c.staticCallees(f) {
			walk(g)
		}
	}
	for _, r := range roots {
		walk(r)
	}
	return out
}

func sortedNames(m map[*ssa.Function]bool) []string {
	var out []string
	for f := range m {
		out = append(out, load.FuncName(f))
	}
	sort.Strings(out)
	return out
}

func isExported(f *ssa.Function) bool {
	return f.Parent() == nil && token.IsExported(f.Name()) && (f.Signature.Recv() == nil || exportedRecv(f))
}

func exportedRecv(f *ssa.Function) bool {
	n := pathxNamed(f.Signature.Recv().Type())
	return n != "" && token.IsExported(n)
}

func pathxNamed(t types.Type) string {
	for {
		switch x := t.(type) {
		case *types.Pointer:
			t = x.Elem()
			continue
		case *types.Named:
			return x.Obj().Name()
		}
		return ""
	}
}

func fmtPath(c *Ctx, p *pathx.Path, upto int) []string { return c.Trace(p, upto) }

var _ = fmt.Sprintf

// isNewHelper: an unexported function of the analysed packages that did not
// exist when the rules were written (see knownFuncs). Such helpers are
// expanded inside their callers by the path engine.
func (c *Ctx) isNewHelper(f *ssa.Function) bool {
	if f == nil || len(f.Blocks) == 0 {
		return false
	}
	top := load.TopLevel(f)
	name := load.FuncName(top)
	switch top.Pkg {
	case c.P.Root:
	case c.P.Test:
		name = "mqtttest." + name
	default:
		return false
	}
	if top.Synthetic != "" || isExported(top) {
		return false
	}
	return !knownFuncs[name]
}

// analysed lists the root-package functions that rules judge on their own
// (new helpers are judged through their callers).
func (c *Ctx) analysed() []*ssa.Function {
	var out []*ssa.Function
	for _, f := range c.funcs {
		if !c.isNewHelper(f) {
			out = append(out, f)
		}
	}
	return out
}

// expandInPlace: callees the path engine walks through instead of treating the
// call as opaque: helpers introduced after the rules were written, and
// function literals of the caller that are called directly (an immediately
// invoked literal is a block with its own scope).
func (c *Ctx) expandInPlace(caller, callee *ssa.Function) bool {
	if c.isNewHelper(callee) {
		return true
	}
	return callee.Parent() != nil && load.TopLevel(callee) == load.TopLevel(caller)
}

// stableConfigLoad: the settings embedded in Client ("The applied settings are
// read only") are not changed by any callee; OWN-10 checks that nothing in the
// package stores to them after newClient.
func stableConfigLoad(key string) bool {
	return strings.HasPrefix(key, "Client.Config.") || strings.HasPrefix(key, "Config.")
}

// inRegion: the event happens in fn itself or in a helper introduced later that
// is expanded in place (at any depth), not inside a known callee a rule asked
// to have expanded.
func (c *Ctx) inRegion(fn *ssa.Function, e *pathx.Event) bool {
	if e.Fn == nil || e.Depth == 0 {
		return true
	}
	return load.TopLevel(e.Fn) == load.TopLevel(fn) || c.isNewHelper(e.Fn)
}

// tableTargets: the functions a call through tbl[i](…) can reach, for a
// constant package-level table; method-expression wrappers are looked through.
func (c *Ctx) tableTargets(cc *ssa.CallCommon) []*ssa.Function {
	if cc.IsInvoke() {
		return nil
	}
	ld, ok := cc.Value.(*ssa.UnOp)
	if !ok || ld.Op != token.MUL {
		return nil
	}
	ia, ok := ld.X.(*ssa.IndexAddr)
	if !ok {
		return nil
	}
	g, ok := ia.X.(*ssa.Global)
	if !ok {
		return nil
	}
	if c.tableMemo == nil {
		c.tableMemo = map[*ssa.Global][]*ssa.Function{}
	}
	if out, ok := c.tableMemo[g]; ok {
		return out
	}
	c.tableMemo[g] = nil
	tab, ok := c.constTable(g)
	if !ok {
		return nil
	}
	var out []*ssa.Function
	for _, v := range tab {
		var f *ssa.Function
		switch x := v.(type) {
		case *ssa.Function:
			f = x
		case *ssa.MakeClosure:
			f, _ = x.Fn.(*ssa.Function)
		case *ssa.ChangeType:
			f, _ = x.X.(*ssa.Function)
		}
		if f == nil {
			continue
		}
		if f.Synthetic != "" { // wrapper of a method expression: the method it calls
			for _, b := range f.Blocks {
				for _, ins := range b.Instrs {
					if call, ok := ins.(*ssa.Call); ok && call.Call.StaticCallee() != nil {
						out = append(out, call.Call.StaticCallee())
					}
				}
			}
			continue
		}
		out = append(out, f)
	}
	c.tableMemo[g] = out
	return out
}
