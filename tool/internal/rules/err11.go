package rules

import (
	"fmt"
	"go/types"
	"sort"
	"strings"

	"golang.org/x/tools/go/ssa"
)

// ---- ERR-11: what the package's error sentinels wrap ----
//
// The read routine, Backoff/ReadBackoff and the applications classify errors
// with errors.Is. A sentinel that wraps another class answers to that class as
// well: errProtoReset wrapping net.ErrClosed makes every protocol violation
// look like a locally closed connection (silent reconnect, no error, no
// backoff); ErrAbandoned wrapping ErrCanceled makes "submitted, not confirmed"
// look like "nothing was sent". Each sentinel wraps exactly what the table
// lists (read from the declarations and confirmed by hand); a new sentinel
// may wrap sentinels of this package only.

func init() {
	register("ERR-11", []string{"ERR-11"}, func(c *Ctx, _ map[string]bool) { c.err11() })
}

var sentinelWraps = map[string][]string{
	"errBrokerTerm": {"io.EOF", "EOF"}, // documented: "io.EOF from the broker": errors.Is(err, io.EOF) holds
}

func (c *Ctx) err11() {
	ef := c.errflow()
	errT := types.Universe.Lookup("error").Type()
	var names []string
	globs := map[string]*ssa.Global{}
	for name, m := range c.P.Root.Members {
		g, ok := m.(*ssa.Global)
		if !ok {
			continue
		}
		pt, ok := g.Type().(*types.Pointer)
		if !ok || !types.Identical(pt.Elem(), errT) {
			continue
		}
		names = append(names, name)
		globs[name] = g
	}
	sort.Strings(names)
	n := 0
	for _, name := range names {
		g := globs[name]
		key := "ERR-11|sentinel|" + name
		allowed := set(sentinelWraps[name]...)
		var foreign []string
		for cl := range classes(ef.ofGlobal(g)) {
			switch {
			case cl == name, strings.HasPrefix(cl, "opaque:"):
			case allowed[cl]:
			case globs[cl] != nil:
				// wraps another sentinel of the package: judged by the class rules (ERR-1…ERR-4)
			default:
				foreign = append(foreign, cl)
			}
		}
		n++
		if len(foreign) == 0 {
			c.S.OK("ERR-11", key, c.P.Pos(g.Pos()), "", "wraps nothing outside the package beyond "+fmt.Sprint(sentinelWraps[name]), true)
		} else {
			sort.Strings(foreign)
			c.S.Bad("ERR-11", key, c.P.Pos(g.Pos()), "", fmt.Sprintf("%s wraps %v: every error built on it answers errors.Is for that class too, and the read routine, the backoff functions or the application take it for something else (a protocol violation for a closed connection, a refusal for a timeout, …)", name, foreign), nil)
		}
	}
	c.S.Floor("ERR-11", "error sentinels of the package", n, 20)
}
