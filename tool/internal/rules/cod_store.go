package rules

import (
	"fmt"
	"go/constant"
	"go/token"
	"go/types"
	"strings"

	"golang.org/x/tools/go/ssa"

	"mqttverif/internal/pathx"
)

func init() {
	register("COD-8", []string{"COD-8"}, func(c *Ctx, _ map[string]bool) { c.cod8() })
	register("COD-9", []string{"COD-9", "COD-10", "COD-11"}, (*Ctx).cod9)
}

// lenMinus matches len(buf)-k and returns k.
func lenMinus(v ssa.Value, buf ssa.Value) (int64, bool) {
	if v == nil {
		return 0, false
	}
	b, ok := stripConv(v).(*ssa.BinOp)
	if !ok || b.Op != token.SUB {
		return 0, false
	}
	x, ok := builtinCall(b.X, "len")
	if !ok || x != buf {
		return 0, false
	}
	return intConstOK(b.Y)
}

func intConstOK(v ssa.Value) (int64, bool) { return intConst(v) }

func recvTypeOf(call *ssa.Call) string {
	f := call.Call.StaticCallee()
	if f == nil || f.Signature.Recv() == nil {
		return ""
	}
	return types.TypeString(f.Signature.Recv().Type(), func(*types.Package) string { return "" })
}

// ---- COD-8: stored record layout, writer and reader agree ----

func (c *Ctx) cod8() {
	enc := c.Fn("COD-8", "encodeValue")
	dec := c.Fn("COD-8", "decodeValue")
	rl := c.Fn("COD-8", "(*ruggedPersistence).Load")
	rsv := c.Fn("COD-8", "(*ruggedPersistence).Save")
	if enc == nil || dec == nil {
		return
	}
	type layout struct {
		hashCtor            string
		trailer             int64
		seqOrder, sumOrder  string
		seqLo, seqHi, sumLo int64 // offsets inside the trailer
		hashedTrailer       int64 // how many trailer bytes are hashed
		fresh               bool
		found               map[string]bool
	}
	w := layout{found: map[string]bool{}}
	var trailerAlloc *ssa.Alloc
	for _, b := range enc.Blocks {
		for _, ins := range b.Instrs {
			switch x := ins.(type) {
			case *ssa.Alloc:
				if arr, ok := x.Type().Underlying().(*types.Pointer).Elem().Underlying().(*types.Array); ok {
					if bt, ok := arr.Elem().Underlying().(*types.Basic); ok && bt.Kind() == types.Uint8 {
						trailerAlloc = x
						w.trailer = arr.Len()
						w.fresh = true
					}
				}
			case *ssa.Call:
				f := x.Call.StaticCallee()
				if f == nil {
					if x.Call.IsInvoke() && x.Call.Method.Name() == "Write" {
						if sl, ok := x.Call.Args[0].(*ssa.Slice); ok && sl.X == ssa.Value(trailerAlloc) {
							hi, _ := intConst(sl.High)
							w.hashedTrailer = hi
							w.found["hash-trailer"] = true
						}
					}
					continue
				}
				switch {
				case f.Pkg != nil && f.Pkg.Pkg.Path() == "hash/fnv":
					w.hashCtor = f.Name()
				case f.Name() == "PutUint64":
					w.seqOrder = recvTypeOf(x)
					if sl, ok := x.Call.Args[1].(*ssa.Slice); ok {
						w.seqLo, _ = intConst(sl.Low)
						w.seqHi, _ = intConst(sl.High)
						if sl.X != ssa.Value(trailerAlloc) {
							w.fresh = false
						}
					}
					w.found["seq"] = true
				case f.Name() == "PutUint32":
					w.sumOrder = recvTypeOf(x)
					if sl, ok := x.Call.Args[1].(*ssa.Slice); ok {
						w.sumLo, _ = intConst(sl.Low)
						if sl.X != ssa.Value(trailerAlloc) {
							w.fresh = false
						}
					}
					w.found["sum"] = true
				}
			}
		}
	}
	if trailerAlloc == nil {
		w.fresh = false
	}
	// reader
	r := layout{found: map[string]bool{}}
	var buf ssa.Value
	if len(dec.Params) == 1 {
		buf = dec.Params[0]
	}
	var minLen int64 = -1
	var hashHi, sumLo, pktHi, seqLo int64 = -1, -1, -1, -1
	// the record buffer: the parameter, also when handed on to a helper introduced later
	isBuf := func(v ssa.Value) bool {
		if v == buf {
			return true
		}
		pr, ok := v.(*ssa.Parameter)
		return ok && pr.Type().String() == "[]byte" && pr.Parent() != dec && c.isNewHelper(pr.Parent())
	}
	lenMinusBuf := func(v ssa.Value) (int64, bool) {
		if k, ok := lenMinus(v, buf); ok {
			return k, true
		}
		for _, b := range c.regionBlocks(dec) {
			if b.Parent() != dec {
				for _, pr := range b.Parent().Params {
					if isBuf(pr) {
						if k, ok := lenMinus(v, pr); ok {
							return k, true
						}
					}
				}
			}
		}
		return lenMinus(v, buf)
	}
	for _, b := range c.regionBlocks(dec) {
		for _, ins := range b.Instrs {
			switch x := ins.(type) {
			case *ssa.BinOp:
				if x.Op == token.LSS && b == dec.Blocks[0] {
					if arg, ok := builtinCall(x.X, "len"); ok && isBuf(arg) {
						minLen, _ = intConst(x.Y)
					}
				}
			case *ssa.Call:
				f := x.Call.StaticCallee()
				if f == nil {
					if x.Call.IsInvoke() && x.Call.Method.Name() == "Write" {
						if sl, ok := x.Call.Args[0].(*ssa.Slice); ok && isBuf(sl.X) && sl.Low == nil {
							hashHi, _ = lenMinusBuf(sl.High)
						}
					}
					continue
				}
				switch {
				case f.Pkg != nil && f.Pkg.Pkg.Path() == "hash/fnv":
					r.hashCtor = f.Name()
				case f.Name() == "Uint32":
					r.sumOrder = recvTypeOf(x)
					if sl, ok := x.Call.Args[1].(*ssa.Slice); ok && isBuf(sl.X) {
						sumLo, _ = lenMinusBuf(sl.Low)
					}
				case f.Name() == "Uint64":
					r.seqOrder = recvTypeOf(x)
					if sl, ok := x.Call.Args[1].(*ssa.Slice); ok && isBuf(sl.X) {
						seqLo, _ = lenMinusBuf(sl.Low)
					}
				}
			case *ssa.Return:
				if len(x.Results) == 3 && pathx.IsNilConst(x.Results[2]) {
					if sl, ok := x.Results[0].(*ssa.Slice); ok && sl.X == buf && sl.Low == nil {
						pktHi, _ = lenMinus(sl.High, buf)
					}
				}
			}
		}
	}
	chk := func(name string, ok bool, good, bad string) {
		key := "COD-8|record|" + name
		if ok {
			c.S.OK("COD-8", key, c.P.Pos(dec.Pos()), "encodeValue/decodeValue", good, true)
		} else {
			c.S.Bad("COD-8", key, c.P.Pos(dec.Pos()), "encodeValue/decodeValue", bad, nil)
		}
	}
	chk("hash-constructor", w.hashCtor != "" && w.hashCtor == r.hashCtor, "both sides use fnv."+w.hashCtor, fmt.Sprintf("writer hashes with fnv.%s, reader with fnv.%s", w.hashCtor, r.hashCtor))
	chk("trailer-size", w.trailer == 12 && pktHi == w.trailer && minLen == w.trailer, "12-byte trailer appended, stripped and required", fmt.Sprintf("writer appends %d bytes, reader strips %d and requires at least %d", w.trailer, pktHi, minLen))
	chk("sequence-number", w.seqOrder != "" && w.seqOrder == r.seqOrder && strings.Contains(w.seqOrder, "little") && w.seqLo == 0 && w.seqHi == 8 && seqLo == w.trailer-w.seqLo, "8 bytes little-endian at trailer offset 0", fmt.Sprintf("writer: %s at [%d:%d]; reader: %s at len-%d", w.seqOrder, w.seqLo, w.seqHi, r.seqOrder, seqLo))
	chk("checksum", w.sumOrder != "" && w.sumOrder == r.sumOrder && strings.Contains(w.sumOrder, "big") && w.sumLo == 8 && sumLo == w.trailer-w.sumLo, "4 bytes big-endian at trailer offset 8", fmt.Sprintf("writer: %s at [%d:]; reader: %s at len-%d", w.sumOrder, w.sumLo, r.sumOrder, sumLo))
	chk("hashed-extent", w.found["hash-trailer"] && w.hashedTrailer == w.sumLo && hashHi == w.trailer-w.sumLo, "everything but the last four bytes is hashed on both sides", fmt.Sprintf("writer hashes %d trailer bytes, reader hashes up to len-%d", w.hashedTrailer, hashHi))
	chk("trailer-buffer-is-per-call", w.fresh, "the trailer is built in a buffer local to the call (Save may run concurrently)", "the trailer buffer is shared between calls: two overlapping Saves write each other's sequence number and checksum")

	// every slicing in the reader lies behind the length test; failures return nil packet
	guard := c.acc("COD-8", dec, "length-test-dominates-slicing;failure⇒(nil,0,err)")
	for _, p := range c.Paths("COD-8", dec) {
		if p.End != pathx.KReturn {
			continue
		}
		last := len(p.Events) - 1
		res := p.Events[last].Results
		if retErr(p, last) == triNil {
			ok := false
			for _, cm := range assumed(p, 0, last) {
				if arg, isLen := builtinCall(cm.X, "len"); isLen && arg == buf && cm.Op == token.GEQ && isK(cm.Y, 12) {
					ok = true
				}
			}
			sumOK := false
			for _, cm := range assumed(p, 0, last) {
				if cm.Op == token.EQL {
					_, cx := stripConv(cm.X).(*ssa.Call)
					_, cy := stripConv(cm.Y).(*ssa.Call)
					if cx && cy {
						sumOK = true
					}
				}
			}
			if ok && sumOK {
				guard.pass()
			} else {
				guard.fail(p, last, "a value is accepted without (length ≥ 12: %v) and (checksum equal: %v)", ok, sumOK)
			}
		} else {
			if pathx.IsNilConst(res[0]) {
				guard.pass()
			} else {
				guard.fail(p, last, "a rejected value still returns packet bytes")
			}
		}
	}
	guard.done(3, "acceptance requires both tests; each rejection returns a nil packet")

	if rl != nil {
		a := c.acc("COD-8", rl, "value-returned-only-after-decodeValue=nil;absent-only-for-nil")
		intact := c.acc("COD-8", rl, "decodeValue=nil⇒its-value-returned-without-error")
		for _, p := range c.Paths("COD-8", rl) {
			if p.End != pathx.KReturn {
				continue
			}
			last := len(p.Events) - 1
			res := p.Events[last].Results
			il := p.Index(0, func(e *pathx.Event) bool { return persistenceOp(e) == "Load" })
			id := p.Index(0, func(e *pathx.Event) bool { return isCallTo(e, dec) })
			// an intact record is served: once decodeValue accepted the
			// value nothing else may turn the Load into a failure
			if id >= 0 {
				if n, k := nilResult(p, id, last); n && k {
					if res[0] == pathx.ResultAt(p.Events[id].Result, 0) && retErr(p, last) != triNonNil {
						intact.pass()
					} else {
						intact.fail(p, last, "a record that passed decodeValue (length, checksum) is not returned as it is: Load fails, or yields something else, for an intact record — the stored packet, or the client identifier, becomes unavailable although nothing is damaged")
					}
				}
			}
			switch {
			case !pathx.IsNilConst(res[0]):
				if id >= 0 {
					if n, k := nilResult(p, id, last); n && k && res[0] == pathx.ResultAt(p.Events[id].Result, 0) {
						a.pass()
						continue
					}
				}
				a.fail(p, last, "a stored value reaches the client without having passed decodeValue")
			case retErr(p, last) == triNil:
				// "not found": only when the delegate returned a nil slice
				ok := false
				if il >= 0 {
					if v := pathx.ResultAt(p.Events[il].Result, 0); v != nil {
						if rel, _, k := p.Known(v, il, last); k && rel == pathx.RNil {
							ok = true
						}
					}
				}
				if ok {
					a.pass()
				} else {
					a.fail(p, last, "a record is reported absent although the delegate returned a (possibly empty or truncated) value: a record shorter than 12 bytes must be reported as corrupt")
				}
			default:
				a.pass()
			}
		}
		a.done(3, "present ⇒ decoded without error; absent ⇒ delegate returned nil; everything else is an error")
		intact.done(1, "the integrity check is the only condition between the delegate's value and the caller")
	}
	if rsv != nil {
		a := c.acc("COD-8", rsv, "Save=delegate.Save(key,encodeValue(value,seqNo.Add(1)))")
		ok := false
		for _, p := range c.Paths("COD-8", rsv) {
			ie := p.Index(0, func(e *pathx.Event) bool { return isCallTo(e, enc) })
			is := p.Index(0, func(e *pathx.Event) bool { return persistenceOp(e) == "Save" })
			ia := p.Index(0, func(e *pathx.Event) bool { return isStd(e, "(*sync/atomic.Uint64).Add") })
			if ie >= 0 && is > ie && ia >= 0 && ia < ie && len(p.Events[is].Args) == 3 && p.Events[is].Args[2] == p.Events[ie].Result &&
				p.Events[ie].Args[1] == p.Events[ia].Result && isK(p.Events[ia].Args[1], 1) {
				ok = true
			}
		}
		if ok {
			a.pass()
		} else {
			a.failAt(c.P.Pos(rsv.Pos()), "the rugged Save does not store exactly the encoded value with a freshly incremented sequence number")
		}
		// one value, one delegate Save, its verdict returned: a net.Buffers
		// value is consumed by whoever writes it (WriteTo empties it), so a
		// second Save of the same value stores nothing and reports success
		once := c.acc("COD-8", rsv, "one-delegate-Save-per-call,its-error-returned")
		for _, p := range c.Paths("COD-8", rsv) {
			if p.End != pathx.KReturn {
				continue
			}
			last := len(p.Events) - 1
			var saves []int
			for i := range p.Events {
				if persistenceOp(&p.Events[i]) == "Save" {
					saves = append(saves, i)
				}
			}
			switch {
			case len(saves) == 0:
				once.fail(p, last, "the rugged Save returns without having called the delegate's Save")
			case len(saves) > 1:
				once.fail(p, saves[1], "the delegate's Save is called a second time on this path: the first call may have consumed the buffers (net.Buffers.WriteTo empties its receiver) or left a partial record, and the retry's success is reported for a value that was not stored")
			default:
				// … of exactly what encodeValue returned: nothing re-packs the
				// record between the trailer and the store
				ie := p.Index(0, func(e *pathx.Event) bool { return isCallTo(e, enc) })
				if sv := &p.Events[saves[0]]; ie < 0 || ie > saves[0] || len(sv.Args) != 3 || sv.Args[2] != p.Events[ie].Result {
					once.fail(p, saves[0], "the delegate's Save is not given the value encodeValue returned (%s): what is stored is not the documented layout of packet, sequence number and checksum", Expr(sv.Args[len(sv.Args)-1]))
					continue
				}
				res := p.Events[last].Results
				if len(res) == 1 && derivesFromB(res[0], pathx.ErrResult(p.Events[saves[0]].Result), pathBindings(p), 0) {
					once.pass()
				} else if len(res) == 1 && res[0] == p.Events[saves[0]].Result {
					once.pass()
				} else {
					once.fail(p, last, "the rugged Save returns %s instead of the delegate's verdict", Expr(res[0]))
				}
			}
		}
		once.done(1, "exactly one delegate Save on every path, and its result is the result")
		a.done(1, "every saved value carries a new sequence number and the checksum")
	}
}

// ---- COD-9/10/11 ----

func (c *Ctx) cod9(which map[string]bool) {
	if which["COD-9"] {
		ad := c.Fn("COD-9", "AdoptSession")
		if ad != nil {
			want := map[string]bool{}
			has := func(name string) { want[name] = true }
			for _, b := range ad.Blocks {
				for _, ins := range b.Instrs {
					bo, ok := ins.(*ssa.BinOp)
					if !ok {
						continue
					}
					switch bo.Op {
					case token.EQL, token.NEQ:
						if k, ok := intConst(bo.Y); ok {
							and, isAnd := stripConv(bo.X).(*ssa.BinOp)
							isAnd = isAnd && and.Op == token.AND
							switch {
							case k == 0 && isAnd && isK(and.Y, c.constInt("remoteIDKeyFlag")):
								has("remoteIDKeyFlag")
							case k == c.constInt("clientIDKey") && !isAnd:
								has("clientIDKey")
							case k == c.constInt("atLeastOnceIDSpace"):
								has("atLeastOnceIDSpace")
							case k == c.constInt("exactlyOnceIDSpace"):
								has("exactlyOnceIDSpace")
							case k == c.packetTypes()["typePUBLISH"]:
								has("typePUBLISH")
							case k == c.packetTypes()["typePUBREL"]:
								has("typePUBREL")
							}
						}
					}
				}
			}
			for _, k := range []string{"clientIDKey", "remoteIDKeyFlag", "atLeastOnceIDSpace", "exactlyOnceIDSpace", "typePUBLISH", "typePUBREL"} {
				key := "COD-9|AdoptSession|recognises(" + k + ")"
				if want[k] {
					c.S.OK("COD-9", key, c.P.Pos(ad.Pos()), "AdoptSession", "key space / record type used by the Save sites is classified at adoption", true)
				} else {
					c.S.Bad("COD-9", key, c.P.Pos(ad.Pos()), "AdoptSession", "AdoptSession no longer classifies "+k+": records saved under it are ignored or misfiled after a restart", nil)
				}
			}
		}
	}
	if which["COD-10"] {
		file := c.Fn("COD-10", "(fileSystem).file")
		spool := c.Fn("COD-10", "(fileSystem).spoolFile")
		list := c.Fn("COD-10", "(fileSystem).List")
		ff, sf := sprintfFormat(file), sprintfFormat(spool)
		key := "COD-10|file-name-formats"
		okF := ff == "%s%05x" && strings.HasPrefix(sf, ff) && len(sf) > len(ff)
		if okF {
			c.S.OK("COD-10", key, "", "fileSystem", fmt.Sprintf("final %q, spool %q (a longer name)", ff, sf), true)
		} else {
			c.S.Bad("COD-10", key, "", "fileSystem", fmt.Sprintf("file name formats %q / %q: want 5 hex digits, and a spool name that List cannot take for a key", ff, sf), nil)
		}
		if list != nil {
			// a name becomes a key only behind both filters: five characters, and ParseUint without error
			ap := c.acc("COD-10", list, "name-listed-only-behind-len=5-and-ParseUint=nil")
			for _, p := range c.Paths("COD-10", list) {
				for i := range p.Events {
					e := &p.Events[i]
					if !isAppendTo(e, "[]uint") {
						continue
					}
					five, parsed := false, false
					for _, cm := range assumed(p, 0, i) {
						if arg, isLen := builtinCall(cm.X, "len"); isLen && arg.Type().String() == "string" && cm.Op == token.EQL && isK(cm.Y, 5) {
							five = true
						}
					}
					for j := 0; j < i; j++ {
						x := &p.Events[j]
						if x.Kind == pathx.KCall && (stdName(x.Callee) == "strconv.ParseUint" || stdName(x.Callee) == "strconv.ParseInt") {
							if n, k := nilResult(p, j, i); n && k {
								parsed = true
							}
						}
					}
					if five && parsed {
						ap.pass()
					} else {
						ap.fail(p, i, "a directory entry is reported as a key on a path without (five characters: %v, parsed without error: %v): spool files and foreign names are listed, and Load cannot return them", five, parsed)
					}
				}
			}
			ap.done(1, "every append lies behind both filters")
			lenOK, baseOK, bitsOK := false, false, false
			for _, b := range list.Blocks {
				for _, ins := range b.Instrs {
					switch x := ins.(type) {
					case *ssa.BinOp:
						if x.Op == token.NEQ || x.Op == token.EQL {
							if arg, ok := builtinCall(x.X, "len"); ok && arg.Type().String() == "string" && isK(x.Y, 5) {
								lenOK = true
							}
						}
					case *ssa.Call:
						if f := x.Call.StaticCallee(); f != nil && stdName(f) == "strconv.ParseUint" {
							baseOK = isK(x.Call.Args[1], 16)
							bitsOK = isK(x.Call.Args[2], 17)
						}
					}
				}
			}
			key := "COD-10|List-filter"
			if lenOK && baseOK && bitsOK && c.constInt("remoteIDKeyFlag") == 1<<16 {
				c.S.OK("COD-10", key, c.P.Pos(list.Pos()), "(fileSystem).List", "exactly five characters, base 16, 17 bits: matches %05x of a 17-bit key and excludes *.spool", true)
			} else {
				c.S.Bad("COD-10", key, c.P.Pos(list.Pos()), "(fileSystem).List", fmt.Sprintf("List filter (len==5: %v, base 16: %v, 17 bits: %v) does not match the file name format: spool files or foreign names are reported as keys, or keys are missed", lenOK, baseOK, bitsOK), nil)
			}
		}
	}
	if which["COD-10"] {
		// a name that is skipped does not fail the listing: what List returns
		// as its error is decided on every path — nil, or a failure the path
		// has established — never the leftover of a skipped entry
		if list := c.Fn("COD-10", "(fileSystem).List"); list != nil {
			a := c.acc("COD-10", list, "returned-error-decided-on-the-path(no-leftover-of-a-skipped-name)")
			for _, p := range c.Paths("COD-10", list) {
				if p.End != pathx.KReturn {
					continue
				}
				last := len(p.Events) - 1
				if retErr(p, last) == triUnknown {
					a.fail(p, last, "List returns %s as its error on a path that has not decided it: after the scan this is whatever the last skipped name left behind (a parse failure of a foreign file name), and AdoptSession fails on a directory with a stray file", Expr(p.Events[last].Results[len(p.Events[last].Results)-1]))
				} else {
					a.pass()
				}
			}
			a.done(2, "every return carries nil or an error the path established")
			// every name is examined: the scan ends by exhaustion (or an error), never
			// by leaving the loop from inside an iteration — a `break` where `continue`
			// is meant stops at the first foreign name and the keys behind it are missed
			ex := c.acc("COD-10", list, "scan-ends-by-exhaustion-only")
			for _, p := range c.Paths("COD-10", list) {
				if p.End != pathx.KReturn || retErr(p, len(p.Events)-1) == triNonNil {
					continue
				}
				inBody := hasCmp(assumed(p, 0, -1), func(k cmp) bool {
					if k.Op != token.LSS {
						return false
					}
					_, isLen := builtinCall(k.Y, "len")
					return isLen
				})
				if inBody {
					ex.fail(p, len(p.Events)-1, "List returns its result from inside an iteration of the scan: the names behind this one are never looked at, and their records are missing from the adopted session")
				} else {
					ex.pass()
				}
			}
			ex.done(1, "every successful return follows the loop condition found false")
		}
	}
	if which["COD-11"] {
		flag := c.constInt("remoteIDKeyFlag")
		n := 0
		for _, name := range []string{"(*Client).readSlices", "(*Client).onPUBLISH", "(*Client).onPUBREL"} {
			fn := c.Fn("COD-11", name)
			if fn == nil {
				continue
			}
			for _, b := range c.regionBlocks(fn) {
				for _, ins := range b.Instrs {
					call, ok := ins.(*ssa.Call)
					if !ok || !call.Call.IsInvoke() || recvTypeName(call.Call.Method) != "Persistence" {
						continue
					}
					n++
					k := stripConv(call.Call.Args[0])
					key := "COD-11|" + name + "|" + call.Call.Method.Name() + "-key"
					// the key computed by an accessor introduced later (id.key()):
					// judged on what it returns, with its parameters read as the arguments
					sub := func(v ssa.Value) ssa.Value { return v }
					if hc, isCall := k.(*ssa.Call); isCall {
						if ret, bind, ok := c.singleReturnHelper(hc); ok {
							k = stripConv(ret)
							sub = func(v ssa.Value) ssa.Value {
								if pr, isP := stripConv(v).(*ssa.Parameter); isP {
									if a, has := bind[pr]; has {
										return a
									}
								}
								return v
							}
						}
					}
					or, isOr := k.(*ssa.BinOp)
					okK := isOr && or.Op == token.OR && (isK(or.Y, flag) && parsedID(sub(or.X)) || isK(or.X, flag) && parsedID(sub(or.Y)))
					if okK {
						c.S.OK("COD-11", key, c.P.Pos(call.Pos()), name, "marker key = identifier parsed from the packet | remoteIDKeyFlag", true)
					} else {
						c.S.Bad("COD-11", key, c.P.Pos(call.Pos()), name, "the inbound marker is addressed with "+Expr(k)+", want <parsed identifier>|remoteIDKeyFlag: Save, Load and Delete of one reception would use different keys (or collide with outbound records)", nil)
					}
				}
			}
		}
		c.S.Floor("COD-11", "marker key expressions", n, 3)
	}
}

// sprintfFormat returns the constant format of the single fmt.Sprintf in fn.
func sprintfFormat(fn *ssa.Function) string {
	if fn == nil {
		return ""
	}
	for _, b := range fn.Blocks {
		for _, ins := range b.Instrs {
			if call, ok := ins.(*ssa.Call); ok {
				if f := call.Call.StaticCallee(); f != nil && stdName(f) == "fmt.Sprintf" {
					if k, ok := call.Call.Args[0].(*ssa.Const); ok && k.Value != nil && k.Value.Kind() == constant.String {
						return constant.StringVal(k.Value)
					}
				}
			}
		}
	}
	return ""
}

// singleReturnHelper: for a call of a helper introduced later that has
// exactly one return statement with one result, that result and the binding
// of the helper's parameters to the arguments of this call.
func (c *Ctx) singleReturnHelper(call *ssa.Call) (ret ssa.Value, bind map[*ssa.Parameter]ssa.Value, ok bool) {
	f := call.Call.StaticCallee()
	if f == nil || !c.isNewHelper(f) {
		return nil, nil, false
	}
	n := 0
	for _, b := range f.Blocks {
		for _, ins := range b.Instrs {
			if r, isR := ins.(*ssa.Return); isR {
				if len(r.Results) != 1 {
					return nil, nil, false
				}
				ret = r.Results[0]
				n++
			}
		}
	}
	if n != 1 {
		return nil, nil, false
	}
	bind = map[*ssa.Parameter]ssa.Value{}
	for i, pr := range f.Params {
		if i < len(call.Call.Args) {
			bind[pr] = call.Call.Args[i]
		}
	}
	return ret, bind, true
}
