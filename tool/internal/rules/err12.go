package rules

import (
	"golang.org/x/tools/go/ssa"

	"mqttverif/internal/pathx"
)

// ---- ERR-12: a constructor that gives no Client gives an error ----
//
// VolatileSession, InitSession and AdoptSession return a Client and an error
// as their last result. Callers test the error and go on with the Client. A
// return of (nil, …, nil) — the named result returned where the local error
// was meant, a forgotten assignment — passes that test and the first method
// call dereferences nil: an invalid Config, or a Persistence that fails, is
// "accepted" and panics later, far from the cause. On every return path of
// each constructor: the Client result is nil only if the error result is
// known non-nil on that path, and the Client is non-nil only with a nil error.

func init() {
	register("ERR-12", []string{"ERR-12"}, func(c *Ctx, _ map[string]bool) { c.err12() })
}

func (c *Ctx) err12() {
	n := 0
	for _, name := range []string{"VolatileSession", "InitSession", "initSession", "AdoptSession"} {
		fn := c.Fn("ERR-12", name)
		if fn == nil {
			continue
		}
		a := c.acc("ERR-12", fn, "nil-Client⇔non-nil-error")
		for _, p := range c.Paths("ERR-12", fn) {
			if p.End != pathx.KReturn {
				continue
			}
			last := len(p.Events) - 1
			res := p.Events[last].Results
			if len(res) < 2 {
				continue
			}
			n++
			clientNil, clientKnown := false, false
			if pathx.IsNilConst(res[0]) {
				clientNil, clientKnown = true, true
			} else if rel, _, ok := p.Known(res[0], 0, last); ok && (rel == pathx.RNil || rel == pathx.RNotNil) {
				clientNil, clientKnown = rel == pathx.RNil, true
			} else if _, isCall := stripConv(res[0]).(*ssa.Call); isCall {
				// newClient(…) and the like: an allocation
				clientNil, clientKnown = false, true
			} else if _, isAlloc := stripConv(res[0]).(*ssa.Alloc); isAlloc {
				clientNil, clientKnown = false, true
			}
			switch e := retErr(p, last); {
			case clientKnown && clientNil && e != triNonNil:
				a.fail(p, last, "%s returns a nil Client with an error that is not known to be non-nil on this path (%s): the caller's err != nil test passes and the first use of the Client dereferences nil", name, Expr(res[len(res)-1]))
			case clientKnown && !clientNil && e == triNonNil:
				a.fail(p, last, "%s returns a Client together with a non-nil error", name)
			default:
				a.pass()
			}
		}
		a.done(1, "every return gives either a Client and a nil error, or no Client and an error the path has established")
	}
	c.S.Floor("ERR-12", "constructor return paths", n, 8)
}
