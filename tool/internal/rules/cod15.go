package rules

import (
	"fmt"
	"go/constant"
	"go/types"

	"golang.org/x/tools/go/ssa"

	"mqttverif/internal/load"
)

// ---- COD-15: the subscribe entry points request their own maximum level ----
//
// Subscribe, SubscribeLimitAtLeastOnce and SubscribeLimitAtMostOnce differ in
// one byte: the requested quality of service that follows each topic filter in
// the SUBSCRIBE packet. Each entry point hands exactly one constant of byte
// type to the function that composes the packet, and that constant is the
// level its name and documentation state (2, 1, 0); the composing function
// stores its byte parameter into the packet. A wrong sibling here is invisible
// to the caller until the broker delivers at a level the application did not
// ask for: QoS 2 traffic (and its Persistence cost) on a subscription limited
// to fire-and-forget, or messages dropped that were to be acknowledged.

func init() {
	register("COD-15", []string{"COD-15"}, func(c *Ctx, _ map[string]bool) { c.cod15() })
}

func isByteType(t types.Type) bool {
	b, ok := t.Underlying().(*types.Basic)
	return ok && b.Kind() == types.Uint8
}

func (c *Ctx) cod15() {
	rows := []struct {
		name  string
		level string
	}{
		{"(*Client).Subscribe", "exactlyOnceLevel"},
		{"(*Client).SubscribeLimitAtLeastOnce", "atLeastOnceLevel"},
		{"(*Client).SubscribeLimitAtMostOnce", "atMostOnceLevel"},
	}
	composers := map[*ssa.Function]int{} // composing function → index of its level parameter
	for _, r := range rows {
		fn := c.Fn("COD-15", r.name)
		if fn == nil {
			continue
		}
		want := c.constInt(r.level)
		a := c.acc("COD-15", fn, "requests-"+r.level)
		seen := 0
		var walk func(f *ssa.Function, d int)
		walk = func(f *ssa.Function, d int) {
			for _, b := range f.Blocks {
				for _, ins := range b.Instrs {
					call, ok := ins.(ssa.CallInstruction)
					if !ok {
						continue
					}
					callee := call.Common().StaticCallee()
					if callee == nil || load.TopLevel(callee).Pkg != c.P.Root {
						continue
					}
					hit := false
					for k, arg := range call.Common().Args {
						if !isByteType(arg.Type()) {
							continue
						}
						hit = true
						// (receiver counts as an argument in SSA: the parameter list is aligned)
						if k < len(callee.Params) {
							composers[callee] = k
						}
						seen++
						kv, isConst := stripConv(arg).(*ssa.Const)
						switch {
						case !isConst || kv.Value == nil || kv.Value.Kind() != constant.Int:
							a.failAt(c.P.Pos(ins.Pos()), "the level handed to %s is %s, not a constant: the entry point requests one fixed level", callee.Name(), Expr(arg))
						case kv.Int64() != want:
							a.failAt(c.P.Pos(ins.Pos()), "%s requests level %d from %s, want %s (%d) as its name and documentation state", r.name, kv.Int64(), callee.Name(), r.level, want)
						default:
							a.pass()
						}
					}
					// a helper introduced later that only forwards
					if !hit && c.isNewHelper(callee) && d < 3 {
						walk(callee, d+1)
					}
				}
			}
		}
		walk(fn, 0)
		if seen == 0 {
			a.failAt(c.P.Pos(fn.Pos()), "%s hands no level of byte type to a composing function of the package", r.name)
		}
		a.done(1, fmt.Sprintf("one constant level, equal to %s", r.level))
	}
	// the composing function puts the level it was given into the packet
	for f, k := range composers {
		a := c.acc("COD-15", f, "level-parameter-is-stored-into-the-packet")
		if k >= len(f.Params) {
			continue
		}
		stored := false
		var follow func(v ssa.Value, d int)
		follow = func(v ssa.Value, d int) {
			if d > 4 || stored || v.Referrers() == nil {
				return
			}
			for _, r := range *v.Referrers() {
				switch x := r.(type) {
				case *ssa.Store:
					if x.Val == v {
						if _, ok := x.Addr.(*ssa.IndexAddr); ok {
							stored = true
						}
					}
				case *ssa.Convert:
					follow(x, d+1)
				case *ssa.ChangeType:
					follow(x, d+1)
				case *ssa.Phi:
					follow(x, d+1)
				case *ssa.BinOp:
					follow(x, d+1)
				case ssa.CallInstruction:
					// handed on to a helper introduced later (appendFilter(packet, filter, level))
					if cal := x.Common().StaticCallee(); cal != nil && c.isNewHelper(cal) {
						for i, arg := range x.Common().Args {
							if arg == v && i < len(cal.Params) {
								follow(cal.Params[i], d+1)
							}
						}
					}
				}
			}
		}
		follow(f.Params[k], 0)
		if stored {
			a.pass()
		} else {
			a.failAt(c.P.Pos(f.Pos()), "the level parameter %s of %s is never stored into a packet byte: every subscription is requested at whatever is written instead", f.Params[k].Name(), f.Name())
		}
		a.done(1, "the byte parameter reaches an element store (append)")
	}
}
