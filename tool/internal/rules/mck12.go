package rules

import (
	"go/token"
	"go/types"

	"golang.org/x/tools/go/ssa"

	"mqttverif/internal/pathx"
)

// ---- MCK-12: a double answers nil only when it has reported, or was told to ----
//
// Every stub and mock returns the error the test author fixed (Transfer.Err,
// Filter.Err, the fix parameter) — that is how a test drives the code under
// test into its failure handling. A double that returns the constant nil in
// its place compiles, and the test then exercises the success path while its
// author believes the failure path is covered. On every path of every function
// of mqtttest whose last result is an error: a return of the constant nil
// follows a report to testing.TB on that path (the "unwanted call" branches)
// or a test that found the fixed error nil,
// and any other return takes its error from somewhere (a fixture, a parameter,
// a sentinel).

func init() {
	register("MCK-12", []string{"MCK-12"}, func(c *Ctx, _ map[string]bool) { c.mck12() })
}

func (c *Ctx) mck12() {
	errT := types.Universe.Lookup("error").Type()
	n := 0
	for _, f := range c.testFuncs() {
		res := f.Signature.Results()
		if res.Len() == 0 || !types.Identical(res.At(res.Len()-1).Type(), errT) || len(f.Blocks) == 0 {
			continue
		}
		a := c.acc("MCK-12", f, "constant-nil-error-only-behind-a-report")
		for _, p := range c.Paths("MCK-12", f) {
			if p.End != pathx.KReturn {
				continue
			}
			last := len(p.Events) - 1
			rs := p.Events[last].Results
			if len(rs) == 0 {
				continue
			}
			n++
			if k, isK := rs[len(rs)-1].(*ssa.Const); !isK || k.Value != nil {
				a.pass()
				continue
			}
			reported := false
			for i := range p.Events {
				e := &p.Events[i]
				if e.Kind == pathx.KCall && e.Method != nil && recvTypeName(e.Method) == "testing.TB" {
					switch e.Method.Name() {
					case "Error", "Errorf", "Fatal", "Fatalf", "Fail", "FailNow":
						reported = true
					}
				}
			}
			// (or the fixture's error was looked at and is nil on this path)
			for _, cm := range assumed(p, 0, -1) {
				if cm.Op == token.EQL && pathx.IsNilConst(cm.Y) && types.Identical(cm.X.Type(), errT) {
					reported = true
				}
			}
			if reported {
				a.pass()
			} else {
				a.fail(p, last, "%s returns the constant nil as its error on a path that has reported nothing to the test: the error the test author fixed for this call is withheld, and the code under test sees a success", f.Name())
			}
		}
		if a.n > 0 {
			a.done(1, "every constant-nil error return follows a report to testing.TB")
		}
	}
	c.S.Floor("MCK-12", "return paths of doubles with an error result", n, 8)
}
