package rules

import (
	"go/types"

	"golang.org/x/tools/go/ssa"
)

// ---- MCK-8: what the test author hands to a mock is read only ----
//
// An expectation (Transfer.Message, Filter.Topics, the want lists) and the
// arguments of an invocation stay the caller's memory. A mock that edits them
// in place changes what a later invocation, or a second mock built from the
// same slice, is compared with: a matching invocation is then reported as a
// deviation ("never for a matching one"). Decided for every function of the
// mqtttest package: no element store, copy or append lands in a slice that is
// rooted in a parameter or a captured parameter.

func init() {
	register("MCK-8", []string{"MCK-8"}, func(c *Ctx, _ map[string]bool) { c.mck8() })
}

// callerRooted reports whether the slice v (or the memory behind address v)
// derives from a parameter or a captured variable, without passing through an
// allocation of the function itself.
func callerRooted(v ssa.Value, seen map[ssa.Value]bool, depth int) bool {
	if v == nil || seen[v] || depth > 24 {
		return false
	}
	seen[v] = true
	switch x := v.(type) {
	case *ssa.Parameter:
		return true
	case *ssa.FreeVar:
		// a captured cell: its content is the enclosing function's variable —
		// caller memory when that variable is a parameter
		par := x.Parent()
		for i, fv := range par.FreeVars {
			if fv != x {
				continue
			}
			for _, mc := range closureSites(par) {
				if i >= len(mc.Bindings) {
					continue
				}
				b := mc.Bindings[i]
				if al, ok := b.(*ssa.Alloc); ok {
					for _, r := range *al.Referrers() {
						if st, ok := r.(*ssa.Store); ok && st.Addr == al && callerRooted(st.Val, seen, depth+1) {
							return true
						}
					}
					continue
				}
				if callerRooted(b, seen, depth+1) {
					return true
				}
			}
		}
		return false
	case *ssa.UnOp: // load
		return callerRooted(x.X, seen, depth+1)
	case *ssa.Alloc:
		// a local variable: rooted if something rooted is stored in it
		for _, r := range *x.Referrers() {
			if st, ok := r.(*ssa.Store); ok && st.Addr == x && callerRooted(st.Val, seen, depth+1) {
				return true
			}
		}
		return false
	case *ssa.IndexAddr:
		return callerRooted(x.X, seen, depth+1)
	case *ssa.Index:
		return callerRooted(x.X, seen, depth+1)
	case *ssa.FieldAddr:
		return callerRooted(x.X, seen, depth+1)
	case *ssa.Field:
		return callerRooted(x.X, seen, depth+1)
	case *ssa.Slice:
		return callerRooted(x.X, seen, depth+1)
	case *ssa.Phi:
		for _, e := range x.Edges {
			if callerRooted(e, seen, depth+1) {
				return true
			}
		}
		return false
	case *ssa.ChangeType:
		return callerRooted(x.X, seen, depth+1)
	case *ssa.Convert:
		// []byte(s) and string(b) allocate
		if b, ok := x.X.Type().Underlying().(*types.Basic); ok && b.Info()&types.IsString != 0 {
			return false
		}
		if b, ok := x.Type().Underlying().(*types.Basic); ok && b.Info()&types.IsString != 0 {
			return false
		}
		return callerRooted(x.X, seen, depth+1)
	case *ssa.Extract:
		// range over a rooted map/slice, lookups: elements of caller memory
		return callerRooted(x.Tuple, seen, depth+1)
	case *ssa.Next:
		return callerRooted(x.Iter, seen, depth+1)
	case *ssa.Range:
		return callerRooted(x.X, seen, depth+1)
	case *ssa.Lookup:
		return callerRooted(x.X, seen, depth+1)
	case *ssa.Call:
		// append(s, …) may return s's array
		if b, ok := x.Call.Value.(*ssa.Builtin); ok && b.Name() == "append" && len(x.Call.Args) > 0 {
			return callerRooted(x.Call.Args[0], seen, depth+1)
		}
		return false
	}
	return false
}

func (c *Ctx) mck8() {
	n := 0
	for _, f := range c.testFuncs() {
		a := c.acc("MCK-8", f, "no-write-into-caller-supplied-slices")
		for _, b := range f.Blocks {
			for _, ins := range b.Instrs {
				switch x := ins.(type) {
				case *ssa.Store:
					ia, ok := x.Addr.(*ssa.IndexAddr)
					if !ok {
						continue
					}
					n++
					if callerRooted(ia.X, map[ssa.Value]bool{}, 0) {
						a.failAt(c.P.Pos(x.Pos()), "an element of %s is overwritten: that slice is the test author's (an expectation, or the argument of the call) — a later invocation, or another mock built from the same slice, is compared with the edited content and a matching call is reported as a deviation", Expr(ia.X))
					} else {
						a.pass()
					}
				case *ssa.Call:
					bi, ok := x.Call.Value.(*ssa.Builtin)
					if !ok {
						continue
					}
					switch bi.Name() {
					case "copy":
						n++
						if callerRooted(x.Call.Args[0], map[ssa.Value]bool{}, 0) {
							a.failAt(c.P.Pos(x.Pos()), "copy writes into %s, which is the test author's memory", Expr(x.Call.Args[0]))
						} else {
							a.pass()
						}
					case "append":
						n++
						// appending to a slice of caller memory writes behind its length
						if sl, isSl := x.Call.Args[0].(*ssa.Slice); isSl && callerRooted(sl.X, map[ssa.Value]bool{}, 0) {
							a.failAt(c.P.Pos(x.Pos()), "append extends a re-slice of %s: the elements land in the test author's array", Expr(sl.X))
						} else if pr, isParam := x.Call.Args[0].(*ssa.Parameter); isParam {
							// (directly: with spare capacity the element is written into the caller's array)
							a.failAt(c.P.Pos(x.Pos()), "append extends %s, the caller's own slice: with spare capacity the element lands in the caller's array, and the result is not the list that was meant", pr.Name())
						} else {
							a.pass()
						}
					}
				}
			}
		}
		a.done(0, "every element store, copy and append targets memory allocated by the package itself")
		// "returned slices are private copies": a byte slice a double hands
		// out is not the expectation's (or the caller's) own memory
		if f.Signature.Results().Len() > 0 {
			r := c.acc("MCK-8", f, "returned-byte-slices-are-private-copies")
			for _, b := range f.Blocks {
				for _, ins := range b.Instrs {
					ret, ok := ins.(*ssa.Return)
					if !ok {
						continue
					}
					for _, v := range ret.Results {
						if v.Type().String() != "[]byte" {
							continue
						}
						if k, isK := v.(*ssa.Const); isK && k.Value == nil {
							r.pass()
							continue
						}
						n++
						if callerRooted(v, map[ssa.Value]bool{}, 0) {
							r.failAt(c.P.Pos(ret.Pos()), "%s is returned to the code under test: it is the test author's slice (an expectation, a fixture), so a consumer that works on the message in place — as it may with what ReadSlices returns — edits the fixture, and the next expectation built from it", Expr(v))
						} else {
							r.pass()
						}
					}
				}
			}
			r.done(0, "every []byte result is allocated by the double (or nil)")
		}
	}
	c.S.Floor("MCK-8", "element stores, copies and appends examined in mqtttest", n, 6)
}
