package rules

import (
	"go/types"
	"strings"

	"golang.org/x/tools/go/ssa"
)

// ---- MCK-10: a ReadSlices double returns the fixture's fields in their places ----
//
// mqtt.Client.ReadSlices returns (message, topic, err). Both slices have the
// same type, so a double that hands out the payload in the topic position, or
// the topic twice, compiles and passes every test that looks at one of them
// only. Decided for every function of the mqtttest package with that result
// signature that reads a Transfer: in each return statement the first result
// is made of Transfer.Message (a copy of it), the second of Transfer.Topic,
// the third of Transfer.Err — followed through conversions, copies into fresh
// memory, local cells and phis.

func init() {
	register("MCK-10", []string{"MCK-10"}, func(c *Ctx, _ map[string]bool) { c.mck10() })
}

func fieldNameOf(fa ssa.Value) (owner, field string) {
	switch x := fa.(type) {
	case *ssa.FieldAddr:
		pt, ok := x.X.Type().Underlying().(*types.Pointer)
		if !ok {
			return "", ""
		}
		st, ok := pt.Elem().Underlying().(*types.Struct)
		if !ok {
			return "", ""
		}
		if n, ok := pt.Elem().(*types.Named); ok {
			owner = n.Obj().Name()
		}
		return owner, st.Field(x.Field).Name()
	case *ssa.Field:
		st, ok := x.X.Type().Underlying().(*types.Struct)
		if !ok {
			return "", ""
		}
		if n, ok := x.X.Type().(*types.Named); ok {
			owner = n.Obj().Name()
		}
		return owner, st.Field(x.Field).Name()
	}
	return "", ""
}

// transferSources: the Transfer fields whose content reaches v.
func transferSources(v ssa.Value, out map[string]bool, seen map[ssa.Value]bool, d int) {
	if v == nil || seen[v] || d > 20 {
		return
	}
	seen[v] = true
	switch x := v.(type) {
	case *ssa.Convert:
		transferSources(x.X, out, seen, d+1)
	case *ssa.ChangeType:
		transferSources(x.X, out, seen, d+1)
	case *ssa.Field:
		if o, f := fieldNameOf(x); o == "Transfer" {
			out[f] = true
		}
	case *ssa.UnOp:
		if o, f := fieldNameOf(x.X); o == "Transfer" {
			out[f] = true
			return
		}
		transferSources(x.X, out, seen, d+1)
	case *ssa.Alloc:
		if x.Referrers() != nil {
			for _, r := range *x.Referrers() {
				if st, ok := r.(*ssa.Store); ok && st.Addr == ssa.Value(x) {
					transferSources(st.Val, out, seen, d+1)
				}
			}
		}
	case *ssa.Phi:
		for _, e := range x.Edges {
			transferSources(e, out, seen, d+1)
		}
	case *ssa.Slice:
		transferSources(x.X, out, seen, d+1)
	case *ssa.MakeSlice:
		// fresh memory: what is copied into it
		if x.Referrers() != nil {
			for _, r := range *x.Referrers() {
				if call, ok := r.(*ssa.Call); ok {
					if bl, ok := call.Call.Value.(*ssa.Builtin); ok && bl.Name() == "copy" && len(call.Call.Args) == 2 && call.Call.Args[0] == ssa.Value(x) {
						transferSources(call.Call.Args[1], out, seen, d+1)
					}
				}
			}
		}
	case *ssa.Call:
		if bl, ok := x.Call.Value.(*ssa.Builtin); ok && bl.Name() == "append" {
			for _, a := range x.Call.Args {
				transferSources(a, out, seen, d+1)
			}
			return
		}
		switch stdName(x.Call.StaticCallee()) {
		case "bytes.Clone", "slices.Clone", "strings.Clone":
			transferSources(x.Call.Args[0], out, seen, d+1)
		}
	case *ssa.Extract:
		transferSources(x.Tuple, out, seen, d+1)
	}
}

func (c *Ctx) mck10() {
	n := 0
	for _, f := range c.testFuncs() {
		res := f.Signature.Results()
		if res.Len() != 3 || res.At(0).Type().String() != "[]byte" || res.At(1).Type().String() != "[]byte" || res.At(2).Type().String() != "error" {
			continue
		}
		a := c.acc("MCK-10", f, "results=(Transfer.Message,Transfer.Topic,Transfer.Err)")
		for _, b := range f.Blocks {
			for _, ins := range b.Instrs {
				ret, ok := ins.(*ssa.Return)
				if !ok || len(ret.Results) != 3 {
					continue
				}
				var got [3]map[string]bool
				any := false
				for i, v := range ret.Results {
					got[i] = map[string]bool{}
					transferSources(v, got[i], map[ssa.Value]bool{}, 0)
					if len(got[i]) > 0 {
						any = true
					}
				}
				if !any {
					continue // forwards another double's results, or fails the test: no fixture read here
				}
				n++
				want := [3]string{"Message", "Topic", "Err"}
				bad := ""
				for i := range want {
					for k := range got[i] {
						if k != want[i] {
							bad += " result " + []string{"message", "topic", "err"}[i] + " is made of Transfer." + k + ";"
						}
					}
				}
				if bad == "" && (!got[0]["Message"] || !got[1]["Topic"]) {
					bad = " the fixture's Message and Topic do not both reach their result (" + strings.Join(keysOf(got[0]), ",") + " / " + strings.Join(keysOf(got[1]), ",") + ");"
				}
				if bad == "" {
					a.pass()
				} else {
					a.failAt(c.P.Pos(ret.Pos()), "%s returns the fixture out of place:%s the code under test receives a payload where ReadSlices gives the topic (or the other way round)", f.Name(), strings.TrimSuffix(bad, ";"))
				}
			}
		}
		a.done(0, "every return that reads the fixture puts Message, Topic and Err in their own positions")
	}
	c.S.Floor("MCK-10", "returns of ReadSlices doubles that read a Transfer", n, 1)
}
