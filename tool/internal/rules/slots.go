package rules

import (
	"fmt"
	"go/token"
	"go/types"
	"strings"

	"golang.org/x/tools/go/ssa"

	"mqttverif/internal/load"
	"mqttverif/internal/pathx"
)

func init() {
	register("TOK-7", []string{"TOK-7"}, func(c *Ctx, _ map[string]bool) { c.tok7() })
	register("TOK-9", []string{"TOK-9", "TOK-10", "TOK-16"}, func(c *Ctx, w map[string]bool) { c.tok9(w) })
	register("TOK-11", []string{"TOK-11"}, func(c *Ctx, _ map[string]bool) { c.tok11() })
	register("PAN-2", []string{"PAN-2"}, func(c *Ctx, _ map[string]bool) { c.pan2() })
	register("PAN-4", []string{"PAN-4"}, func(c *Ctx, _ map[string]bool) { c.pan4() })
}

// ---- TOK-7: rendezvous between a function and the goroutine it starts ----

func (c *Ctx) tok7() {
	n := 0
	for _, fn := range c.funcs {
		// channels made here and captured by a go closure
		var gos []*ssa.Function
		for _, b := range fn.Blocks {
			for _, ins := range b.Instrs {
				if g, ok := ins.(*ssa.Go); ok {
					if mc, ok := g.Call.Value.(*ssa.MakeClosure); ok {
						gos = append(gos, mc.Fn.(*ssa.Function))
					}
				}
			}
		}
		if len(gos) == 0 {
			continue
		}
		g := c.alias()
		for _, b := range fn.Blocks {
			for _, ins := range b.Instrs {
				mk, ok := ins.(*ssa.MakeChan)
				if !ok {
					continue
				}
				capK, isConst := intConst(mk.Size)
				for _, child := range gos {
					if !c.usesChan(g, child, mk) {
						continue
					}
					n++
					name := load.FuncName(fn)
					cname := mk.Name()
					if al := allocOf(mk); al != "" {
						cname = al
					}
					// (1) parent blocking sends on an unbuffered channel need a receive on every child path
					// (2) parent blocking receives need a send or close on every child path
					pSend, pRecv := c.chanOps(g, fn, mk)
					cSendAll, cRecvAll := c.childAlways(g, child, mk)
					key := "TOK-7|" + name + "|chan(" + cname + ")|with(" + load.FuncName(child) + ")"
					switch {
					case pSend && (!isConst || capK == 0) && !cRecvAll:
						c.S.Bad("TOK-7", key+"|parent-send", c.P.Pos(mk.Pos()), name, "the function sends on an unbuffered channel, but its goroutine has an exit path that never receives from it: the function blocks forever (here: while holding connSem, taking Close and ReadSlices with it)", nil)
					case pRecv && !cSendAll:
						c.S.Bad("TOK-7", key+"|parent-recv", c.P.Pos(mk.Pos()), name, "the function waits for a value its goroutine does not send or close on every exit path", nil)
					default:
						c.S.OK("TOK-7", key, c.P.Pos(mk.Pos()), name, fmt.Sprintf("parent sends:%v receives:%v; goroutine always receives:%v, always sends/closes:%v", pSend, pRecv, cRecvAll, cSendAll), true)
					}
				}
			}
		}
		// wait groups: every go closure counted by Add must Done on all paths
		for _, child := range gos {
			usesWG := false
			for _, b := range child.Blocks {
				for _, ins := range b.Instrs {
					if d, ok := ins.(*ssa.Defer); ok {
						if sc := d.Call.StaticCallee(); sc != nil && stdName(sc) == "(*sync.WaitGroup).Done" {
							usesWG = true
						}
					}
					if cl, ok := ins.(*ssa.Call); ok {
						if sc := cl.Call.StaticCallee(); sc != nil && stdName(sc) == "(*sync.WaitGroup).Done" {
							usesWG = true
						}
					}
				}
			}
			waits := false
			for _, b := range fn.Blocks {
				for _, ins := range b.Instrs {
					if cl, ok := ins.(*ssa.Call); ok {
						if sc := cl.Call.StaticCallee(); sc != nil && stdName(sc) == "(*sync.WaitGroup).Wait" {
							waits = true
						}
					}
				}
			}
			if !waits {
				continue
			}
			n++
			key := "TOK-7|" + load.FuncName(fn) + "|waitgroup|with(" + load.FuncName(child) + ")"
			all := usesWG
			for _, p := range c.Paths("TOK-7", child) {
				if p.End != pathx.KReturn {
					continue
				}
				if p.Index(0, func(e *pathx.Event) bool { return isStd(e, "(*sync.WaitGroup).Done") }) < 0 {
					all = false
				}
			}
			if all {
				c.S.OK("TOK-7", key, c.P.Pos(child.Pos()), load.FuncName(fn), "the goroutine signals Done on every exit path", true)
			} else {
				c.S.Bad("TOK-7", key, c.P.Pos(child.Pos()), load.FuncName(fn), "the function waits on a WaitGroup, but its goroutine has an exit path without Done", nil)
			}
		}
	}
	c.S.Floor("TOK-7", "parent/goroutine rendezvous points", n, 3)
}

func allocOf(mk *ssa.MakeChan) string {
	for _, r := range *mk.Referrers() {
		if st, ok := r.(*ssa.Store); ok && st.Val == mk {
			if al, ok := st.Addr.(*ssa.Alloc); ok {
				return al.Comment
			}
		}
	}
	return ""
}

func (c *Ctx) usesChan(g *aliasGraph, fn *ssa.Function, mk *ssa.MakeChan) bool {
	found := false
	for _, b := range fn.Blocks {
		for _, ins := range b.Instrs {
			for _, op := range ins.Operands(nil) {
				if *op != nil && isChan((*op).Type()) && g.same(*op, mk) {
					found = true
				}
			}
		}
	}
	return found
}

func isChan(t types.Type) bool {
	_, ok := t.Underlying().(*types.Chan)
	return ok
}

// chanOps: does fn (outside select-with-alternatives) send to / receive from mk?
func (c *Ctx) chanOps(g *aliasGraph, fn *ssa.Function, mk *ssa.MakeChan) (send, recv bool) {
	for _, b := range fn.Blocks {
		for _, ins := range b.Instrs {
			switch x := ins.(type) {
			case *ssa.Send:
				if g.same(x.Chan, mk) {
					send = true
				}
			case *ssa.UnOp:
				if x.Op == token.ARROW && g.same(x.X, mk) {
					recv = true
				}
			}
		}
	}
	return
}

// childAlways: on every path of the goroutine to its exit, is there a send
// or close on mk (sendAll), respectively a receive from mk (recvAll)?
func (c *Ctx) childAlways(g *aliasGraph, child *ssa.Function, mk *ssa.MakeChan) (sendAll, recvAll bool) {
	sendAll, recvAll = true, true
	any := false
	for _, p := range c.Paths("TOK-7", child) {
		if p.End != pathx.KReturn || p.Start != child.Blocks[0] {
			continue
		}
		any = true
		s, r := false, false
		for i := range p.Events {
			e := &p.Events[i]
			switch e.Kind {
			case pathx.KSend, pathx.KClose:
				if e.Chan != nil && g.same(e.Chan, mk) {
					s = true
				}
			case pathx.KRecv:
				if e.Chan != nil && g.same(e.Chan, mk) {
					r = true
				}
			}
		}
		if !s {
			sendAll = false
		}
		if !r {
			recvAll = false
		}
	}
	if !any {
		return false, false
	}
	return
}

// ---- TOK-9 / TOK-10: request slots ----

// pingSlotCapacity: the ping slot is one slot. Ping withdraws "its" callback
// with a receive that takes whatever is at the head, toOffline and
// termCallbacks answer one entry, onPINGRESP answers the head: all of that is
// right only while there can be no second entry. The channel stored into
// Client.pingAck is made with capacity exactly 1.
func (c *Ctx) pingSlotCapacity() {
	nc := c.Fn("TOK-9", "newClient")
	if nc == nil {
		return
	}
	a := c.acc("TOK-9", nc, "pingAck-has-capacity-1")
	found := false
	for _, f := range c.funcs {
		for _, b := range f.Blocks {
			for _, ins := range b.Instrs {
				st, ok := ins.(*ssa.Store)
				if !ok || pathx.RoleOfAddr(st.Addr).Key() != "Client.pingAck" {
					continue
				}
				found = true
				mk, isMk := stripConv(st.Val).(*ssa.MakeChan)
				if !isMk {
					a.failAt(c.P.Pos(st.Pos()), "Client.pingAck is assigned %s, not a channel made on the spot", Expr(st.Val))
					continue
				}
				if isK(mk.Size, 1) {
					a.pass()
				} else {
					a.failAt(c.P.Pos(st.Pos()), "the ping slot is made with capacity %s, want 1: with room for a second callback Ping's withdrawal, toOffline and termCallbacks take or answer the wrong entry — a Ping gets another Ping's answer, or none", Expr(mk.Size))
				}
			}
		}
	}
	if !found {
		// (a composite literal: the field is set in the literal's store sequence, which the loop above sees as well)
		a.failAt(c.P.Pos(nc.Pos()), "no assignment of Client.pingAck found")
	}
	a.done(1, "make(chan …, 1)")
}

func (c *Ctx) tok9(which map[string]bool) {
	if which["TOK-9"] {
		c.pingSlotCapacity()
	}
	start := c.Fn("TOK-9", "(*unorderedTxs).startTx")
	end := c.Fn("TOK-9", "(*unorderedTxs).endTx")
	n := 0
	for _, name := range []string{"(*Client).subscribeLevel", "(*Client).Unsubscribe"} {
		fn := c.Fn("TOK-9", name)
		if fn == nil || start == nil || end == nil {
			continue
		}
		a := c.acc("TOK-9", fn, "slot-installed⇒own-response-received-or-slot-removed-on-every-exit")
		for _, p := range c.Paths("TOK-9", fn) {
			if p.End != pathx.KReturn {
				continue
			}
			is := p.Index(0, func(e *pathx.Event) bool { return isCallTo(e, start) })
			if is < 0 {
				continue
			}
			if nl, k := nilResult(p, is, -1); !k || !nl {
				continue // slot was not assigned
			}
			n++
			id := pathx.ResultAt(p.Events[is].Result, 0)
			done := pathx.ResultAt(p.Events[is].Result, 1)
			got, removed := false, false
			for i := is; i < len(p.Events); i++ {
				e := &p.Events[i]
				if e.Kind == pathx.KRecv && e.Chan == done {
					got = true
				}
				if isCallTo(e, end) && len(e.Args) == 2 && e.Args[1] == id {
					removed = true
				}
			}
			switch {
			case got && removed:
				a.fail(p, len(p.Events)-1, "the response was received and the slot removed again: a later request's slot could be dropped")
			case got || removed:
				a.pass()
			default:
				a.fail(p, len(p.Events)-1, "an exit leaves the slot installed without having received the response: the slot leaks and a late response is handed to nobody (or the window fills up with ErrMax)")
			}
		}
		a.done(3, "every exit either received from its own callback or removed its own identifier")
	}
	// Ping
	ping := c.Fn("TOK-9", "(*Client).Ping")
	if ping != nil {
		a := c.acc("TOK-9", ping, "slot-installed⇒own-response-received-or-slot-emptied-on-every-exit")
		for _, p := range c.Paths("TOK-9", ping) {
			if p.End != pathx.KReturn {
				continue
			}
			is := p.Index(0, func(e *pathx.Event) bool { return e.Kind == pathx.KSend && roleKey(e.Chan) == "Client.pingAck" })
			if is < 0 {
				continue
			}
			n++
			done := p.Events[is].Val
			ok := false
			for i := is + 1; i < len(p.Events); i++ {
				e := &p.Events[i]
				if e.Kind == pathx.KRecv && (e.Chan == done || roleKey(e.Chan) == "Client.pingAck") {
					ok = true
				}
				if e.Kind == pathx.KSelect {
					for _, st := range e.Select.States {
						if st.Dir == types.RecvOnly && roleKey(st.Chan) == "Client.pingAck" {
							ok = true
						}
					}
				}
			}
			if ok {
				a.pass()
			} else {
				a.fail(p, len(p.Events)-1, "Ping exits with its callback still in the slot: every later Ping gets ErrMax")
			}
		}
		a.done(3, "every exit received its response or attempted to empty the slot")
	}
	c.S.Floor("TOK-9", "request exits with an installed slot", n, 10)

	if (which["TOK-10"] || which["TOK-16"]) && ping != nil {
		// requester-side removal from the shared ping slot must be
		// conditional on identity with the installed channel
		k := 0
		for _, b := range ping.Blocks {
			for _, ins := range b.Instrs {
				var chans []ssa.Value
				var results []ssa.Value
				switch x := ins.(type) {
				case *ssa.UnOp:
					if x.Op == token.ARROW && roleKey(x.X) == "Client.pingAck" {
						chans = append(chans, x.X)
						results = append(results, x)
					}
				case *ssa.Select:
					ri := 0
					for _, st := range x.States {
						if st.Dir != types.RecvOnly {
							continue
						}
						if roleKey(st.Chan) == "Client.pingAck" {
							chans = append(chans, st.Chan)
							var res ssa.Value
							for _, r := range *x.Referrers() {
								if ex, ok := r.(*ssa.Extract); ok && ex.Index == 2+ri {
									res = ex
								}
							}
							results = append(results, res)
						}
						ri++
					}
				}
				for i := range chans {
					k++
					// taking the callback back must not wait: the slot may have been
					// emptied already — by the PINGRESP handler or by toOffline — and
					// then a plain receive blocks until a later Ping fills it (and
					// steals that Ping's callback)
					wkey := fmt.Sprintf("TOK-16|(*Client).Ping|withdrawal-does-not-block#%d", k)
					if !which["TOK-16"] {
						// (listed separately: TOK-10 carries the known finding F7)
					} else if sel, isSel := ins.(*ssa.Select); isSel && !sel.Blocking {
						c.S.OK("TOK-16", wkey, c.P.Pos(ins.Pos()), "(*Client).Ping", "the slot is emptied in a select with a default arm", true)
					} else {
						c.S.Bad("TOK-16", wkey, c.P.Pos(ins.Pos()), "(*Client).Ping", "Ping takes its callback back with a receive that waits: when the read routine emptied the slot first (a PINGRESP that came early or late, or the connection loss that made the write fail) the call blocks for good, and the next Ping's callback is taken instead", nil)
					}
					key := fmt.Sprintf("TOK-10|(*Client).Ping|recv(pingAck)#%d", k)
					if !which["TOK-10"] {
						continue
					}
					compared := false
					if results[i] != nil {
						if refs := results[i].Referrers(); refs != nil {
							for _, r := range *refs {
								if bo, ok := r.(*ssa.BinOp); ok && (bo.Op == token.EQL || bo.Op == token.NEQ) {
									compared = true
								}
							}
						}
					}
					if compared {
						c.S.OK("TOK-10", key, c.P.Pos(ins.Pos()), "(*Client).Ping", "the value taken is compared with the caller's own callback", true)
					} else {
						c.S.Bad("TOK-10", key, c.P.Pos(ins.Pos()), "(*Client).Ping", "Ping takes whatever callback is in the shared slot without checking that it is its own: after its own was answered (or removed) it removes a later Ping's callback, which then waits forever", nil)
					}
				}
			}
		}
		// perPacketID is keyed: endTx(packetID) with the requester's own id satisfies TOK-10 by construction (checked in TOK-9)
		if which["TOK-10"] {
			c.S.OK("TOK-10", "TOK-10|unorderedTxs|keyed-removal", "", "", "Subscribe/Unsubscribe remove by their own packet identifier (TOK-9 checks the argument)", true)
		}
	}
}

// ---- TOK-11: callback capacity ----

func (c *Ctx) tok11() {
	g := c.alias()
	need := map[string]int64{"callback": 1, "exchange": 1}
	n := 0
	for _, mk := range g.makes {
		if load.TopLevel(mk.Parent()).Pkg != c.P.Root {
			continue
		}
		cls := c.chanClass(g, mk)
		if cls == "local" {
			// may still flow into a registry: classify by alias with probes
			for _, pr := range c.registryProbes() {
				if g.same(mk, pr.v) {
					cls = pr.class
				}
			}
		}
		want, ok := need[cls]
		if !ok {
			continue
		}
		fname := load.FuncName(mk.Parent())
		if cls == "exchange" && fname == "(*Client).applySeqNoAndEnqueue" {
			want = 2 // one write error from submitPersisted + ErrClosed from termCallbacks
		}
		n++
		key := "TOK-11|" + fname + "|make(" + cls + ")"
		k, isConst := intConst(mk.Size)
		switch {
		case !isConst:
			c.S.Bad("TOK-11", key, c.P.Pos(mk.Pos()), fname, "capacity of a "+cls+" channel is not a constant", nil)
		case k < want:
			c.S.Bad("TOK-11", key, c.P.Pos(mk.Pos()), fname, fmt.Sprintf("a %s channel is made with capacity %d, but its life cycle can see %d sends before anybody receives: the responder (the read routine, under a mutex or sequence lock) would block", cls, k, want), nil)
		default:
			c.S.OK("TOK-11", key, c.P.Pos(mk.Pos()), fname, fmt.Sprintf("capacity %d ≥ %d", k, want), true)
		}
	}
	c.S.Floor("TOK-11", "callback/exchange channel make sites", n, 5)

	// at most one send on the own exchange per submitPersisted path
	if sp := c.Fn("TOK-11", "(*Client).submitPersisted"); sp != nil {
		a := c.acc("TOK-11", sp, "≤1-send-on-own-exchange")
		for _, p := range c.Paths("TOK-11", sp) {
			k := 0
			for _, e := range p.Events {
				if e.Kind == pathx.KSend && tokenOf(e.Chan) == "" && roleKey(e.Chan) != "outbound.queue" {
					k++
				}
			}
			if k <= 1 {
				a.pass()
			} else {
				a.fail(p, len(p.Events)-1, "%d sends on the exchange channel on one path (capacity 2 minus the shutdown notice leaves room for one)", k)
			}
		}
		a.done(3, "at most one error is reported on the exchange per submission")
	}
	// responders take the callback out of its registry before answering
	resp := c.acc("TOK-11", nil, "callback-answered-only-after-removal-from-registry")
	for _, fn := range c.analysed() {
		for _, p := range c.Paths("TOK-11", fn) {
			for i := range p.Events {
				e := &p.Events[i]
				if e.Kind != pathx.KSend && e.Kind != pathx.KClose {
					continue
				}
				if e.Chan == nil || c.chanClass(g, e.Chan) != "callback" {
					continue
				}
				removed := false
				switch src := e.Chan.(type) {
				case *ssa.Extract:
					switch t := src.Tuple.(type) {
					case *ssa.Call:
						if f := t.Call.StaticCallee(); f != nil && f.Name() == "endTx" {
							removed = true
						}
					case *ssa.Select, *ssa.UnOp:
						removed = true // received from the ping slot
					}
				case *ssa.UnOp:
					if src.Op == token.ARROW {
						removed = true
					}
				}
				if !removed {
					// breakAll: ranging over the registry, delete precedes the send
					for j := 0; j < i; j++ {
						if d := &p.Events[j]; d.Kind == pathx.KCall && d.Call != nil {
							if b, ok := d.Call.Value.(*ssa.Builtin); ok && b.Name() == "delete" {
								removed = true
							}
						}
					}
				}
				if removed {
					resp.pass()
					continue
				}
				resp.fail(p, i, "%s answers a callback channel (%s) that it did not first take out of its registry: two responders could answer the same request", load.FuncName(fn), Expr(e.Chan))
			}
		}
	}
	resp.fn = "responders"
	resp.done(6, "every send/close on a callback uses a channel just removed from pingAck or perPacketID")
}

// ---- PAN-2: no method call on a connection signal or nil connection ----

func (c *Ctx) pan2() {
	lockWrite := c.Fn("PAN-2", "(*Client).lockWrite")
	n := 0
	for _, fn := range c.analysed() {
		var a *acc
		for _, p := range c.Paths("PAN-2", fn) {
			for i := range p.Events {
				e := &p.Events[i]
				if e.Kind != pathx.KCall {
					continue
				}
				var conns []ssa.Value
				if e.Method != nil && recvTypeName(e.Method) == "net.Conn" {
					conns = append(conns, e.Args[0])
				} else if e.Callee != nil && load.TopLevel(e.Callee).Pkg == c.P.Root && !c.isNewHelper(e.Callee) {
					// (a helper introduced later is expanded in place: what it does with the value shows up as events of its own)
					for _, arg := range e.Args {
						if t, ok := arg.Type().(*types.Named); ok && t.Obj().Name() == "Conn" && t.Obj().Pkg().Name() == "net" {
							conns = append(conns, arg)
						}
					}
				}
				for _, v := range conns {
					src := ""
					for j := 0; j < i; j++ {
						r := &p.Events[j]
						if r.Kind == pathx.KRecv && r.Result == v {
							src = tokenOf(r.Chan)
						}
						if isCallTo(r, lockWrite) && lockWrite != nil && pathx.ResultAt(r.Result, 0) == v {
							src = "lockWrite"
						}
					}
					if src != tkWrite && src != tkConn {
						continue
					}
					if a == nil {
						a = c.acc("PAN-2", fn, "connection-from-token-used-only-when-real")
					}
					n++
					switch src {
					case tkWrite:
						ex := excluded(p, v, i)
						if ex["connSignal:0"] && ex["connSignal:1"] {
							a.pass()
						} else {
							a.fail(p, i, "a value taken from writeSem is used as a connection on a path that has not excluded connPending and connDown: the signal's methods panic")
						}
					case tkConn:
						if rel, _, ok := p.Known(v, 0, i); ok && rel == pathx.RNotNil {
							a.pass()
						} else {
							a.fail(p, i, "the previous connection from connSem is used without a nil test: nil before the first connect")
						}
					}
				}
			}
		}
		if a != nil {
			a.done(1, "every use lies behind the tests against both signals (writeSem) or nil (connSem)")
		}
	}
	c.S.Floor("PAN-2", "uses of a connection taken from a token", n, 8)
}

// ---- PAN-4: explicit panics ----

func (c *Ctx) pan4() {
	n := 0
	check := func(fns []*ssa.Function, allowed func(f *ssa.Function) bool, pkg string) {
		for _, fn := range fns {
			for _, b := range fn.Blocks {
				for _, ins := range b.Instrs {
					pn, ok := ins.(*ssa.Panic)
					if !ok {
						continue
					}
					if k, ok := pn.X.(*ssa.MakeInterface); ok {
						if cst, ok := k.X.(*ssa.Const); ok && cst.Value != nil && cst.Value.ExactString() == `"blocking select matched no case"` {
							continue
						}
					}
					n++
					name := load.FuncName(fn)
					key := "PAN-4|" + pkg + "|panic|in(" + name + ")"
					if allowed(fn) {
						c.S.OK("PAN-4", key, c.P.Pos(pn.Pos()), name, "documented argument check / unreachable signal method", false)
					} else {
						c.S.Bad("PAN-4", key, c.P.Pos(pn.Pos()), name, "explicit panic in a function reachable from the API", nil)
					}
				}
			}
		}
	}
	check(c.funcs, func(f *ssa.Function) bool {
		r := f.Signature.Recv()
		return r != nil && pathxNamed(r.Type()) == "connSignal"
	}, "mqtt")
	check(c.P.SourceFuncs(c.P.Test), func(f *ssa.Function) bool {
		// a stub has no testing.TB: a panic is its only way to refuse misuse (its
		// documented argument checks); a mock reports through t and never panics
		top := load.TopLevel(f)
		if !strings.HasSuffix(top.Name(), "Stub") {
			return false
		}
		for _, p := range top.Params {
			if strings.HasSuffix(p.Type().String(), "testing.TB") {
				return false
			}
		}
		return true
	}, "mqtttest")
	c.S.Floor("PAN-4", "explicit panic sites", n, 10)
}

// ---- TOK-12: the callback registry (perPacketID) ----

func init() {
	register("TOK-12", []string{"TOK-12"}, func(c *Ctx, _ map[string]bool) { c.tok12() })
}

func (c *Ctx) tok12() {
	um := c.constInt("unorderedIDMask")
	n := 0
	for _, fn := range c.analysed() {
		touches := false
		for _, b := range c.regionBlocks(fn) {
			for _, ins := range b.Instrs {
				switch x := ins.(type) {
				case *ssa.MapUpdate:
					touches = touches || roleKey(x.Map) == "unorderedTxs.perPacketID"
				case *ssa.Lookup:
					touches = touches || roleKey(x.X) == "unorderedTxs.perPacketID"
				case *ssa.Range:
					touches = touches || roleKey(x.X) == "unorderedTxs.perPacketID"
				case ssa.CallInstruction:
					if b, ok := x.Common().Value.(*ssa.Builtin); ok && (b.Name() == "delete" || b.Name() == "len") && roleKey(x.Common().Args[0]) == "unorderedTxs.perPacketID" {
						touches = true
					}
				}
			}
		}
		if !touches || fn.Name() == "newClient" {
			continue
		}
		n++
		lock := c.acc("TOK-12", fn, "registry-access-under-mutex(Lock…defer-Unlock)")
		for _, p := range c.Paths("TOK-12", fn) {
			if p.Start != fn.Blocks[0] {
				continue
			}
			locked, deferred := -1, false
			for i := range p.Events {
				e := &p.Events[i]
				if isStd(e, "(*sync.Mutex).Lock") && e.Kind == pathx.KCall {
					locked = i
				}
				if e.Kind == pathx.KDefer && isStd(e, "(*sync.Mutex).Unlock") {
					deferred = true
				}
				if e.Kind == pathx.KCall && !e.Deferred && isStd(e, "(*sync.Mutex).Unlock") {
					locked = -1
				}
				acc := false
				switch e.Kind {
				case pathx.KMapUpdate, pathx.KLookup:
					acc = roleKey(e.Addr) == "unorderedTxs.perPacketID"
				case pathx.KCall:
					if e.Call != nil {
						if b, ok := e.Call.Value.(*ssa.Builtin); ok && (b.Name() == "delete" || b.Name() == "len") && len(e.Args) > 0 && roleKey(e.Args[0]) == "unorderedTxs.perPacketID" {
							acc = true
						}
					}
				}
				if acc {
					// (that the mutex is given back on every exit — by a deferred Unlock or by
					// one before each return — is TOK-18's balance on every path)
					_ = deferred
					if locked >= 0 {
						lock.pass()
					} else {
						lock.fail(p, i, "the callback registry is accessed without holding its mutex: concurrent requests and the read routine race on the map")
					}
				}
			}
		}
		lock.done(1, "every access lies between Lock and Unlock")
	}
	c.S.Floor("TOK-12", "functions touching the callback registry", n, 3)

	// the identifier counter only moves forward, and only at assignment:
	// stepping it back gives the identifier of a request that was written —
	// and may still be answered — to the next request
	c.checkSites("TOK-12", "write(unorderedTxs.n)", c.fieldWriters("unorderedTxs.n"), set("(*unorderedTxs).startTx"),
		"the subscribe/unsubscribe identifier counter advances at assignment only", 1)
	fwd := c.acc("TOK-12", c.Fn("TOK-12", "(*unorderedTxs).startTx"), "identifier-counter-only-incremented(package-wide)")
	c.eachInstr(func(fn *ssa.Function, ins ssa.Instruction) {
		st, ok := ins.(*ssa.Store)
		if !ok || pathx.RoleOfAddr(st.Addr).Key() != "unorderedTxs.n" {
			return
		}
		if isIncrementOf(st.Val, st.Addr) {
			fwd.pass()
		} else {
			fwd.failAt(c.P.Pos(st.Pos()), "%s sets the identifier counter to %s, which is not counter+1: an identifier handed out before can be handed out again while its request is still awaiting the broker's answer", load.FuncName(fn), Expr(st.Val))
		}
	})
	fwd.done(1, "every store to the counter is counter+1")

	st := c.Fn("TOK-12", "(*unorderedTxs).startTx")
	if st == nil {
		return
	}
	win := c.acc("TOK-12", st, "insert⇒window-limit-tested")
	col := c.acc("TOK-12", st, "insert⇒identifier-proven-free(collision-skip)")
	idc := c.acc("TOK-12", st, "identifier=counter&unorderedIDMask|space,counter++")
	for _, p := range c.Paths("TOK-12", st) {
		for i := range p.Events {
			e := &p.Events[i]
			if e.Kind != pathx.KMapUpdate || roleKey(e.Addr) != "unorderedTxs.perPacketID" {
				continue
			}
			key := e.Chan
			// collision test: a comma-ok lookup of the same key assumed absent
			free := false
			for j := 0; j < i; j++ {
				l := &p.Events[j]
				if l.Kind == pathx.KLookup && l.Chan == key && roleKey(l.Addr) == "unorderedTxs.perPacketID" && l.OkVal != nil {
					if rel, _, ok := p.Known(l.OkVal, j, i); ok && rel == pathx.RFalse {
						free = true
					}
				}
			}
			if !free {
				// the zero-value form: perPacketID[id].done == nil, sound because
				// every stored callback carries the channel made a few lines up
				for j := 0; j < i; j++ {
					l := &p.Events[j]
					if l.Kind != pathx.KLookup || l.Chan != key || roleKey(l.Addr) != "unorderedTxs.perPacketID" || l.OkVal != nil {
						continue
					}
					lk, ok := l.Instr.(*ssa.Lookup)
					if !ok || lk.Referrers() == nil {
						continue
					}
					for _, r := range *lk.Referrers() {
						fld, ok := r.(*ssa.Field)
						if !ok {
							continue
						}
						if _, isChan := fld.Type().Underlying().(*types.Chan); !isChan {
							continue
						}
						if rel, _, ok := p.Known(fld, j, i); ok && rel == pathx.RNil {
							if mu, isMU := e.Instr.(*ssa.MapUpdate); isMU && storesMadeChan(mu.Value) {
								free = true
							}
						}
					}
				}
			}
			if free {
				col.pass()
			} else {
				col.fail(p, i, "a callback is stored under an identifier that was not tested to be free: a request still awaiting a (late) response is overwritten, its caller waits forever and its response goes to the newcomer")
			}
			// identifier shape
			okID := false
			if or, ok := strip(key).(*ssa.BinOp); ok && or.Op == token.OR {
				if and, ok := strip(or.X).(*ssa.BinOp); ok && and.Op == token.AND && isK(and.Y, um) && roleKey(and.X) == "unorderedTxs.n" {
					okID = true
				}
			}
			inc := false
			for j := 0; j < i; j++ {
				s := &p.Events[j]
				if s.Kind == pathx.KStore && pathx.RoleOfAddr(s.Addr).Key() == "unorderedTxs.n" && isIncrementOf(s.Val, s.Addr) {
					inc = true
				}
			}
			if okID && (inc || p.Start != st.Blocks[0]) {
				idc.pass()
			} else if p.Start == st.Blocks[0] {
				idc.fail(p, i, "identifier %s is not counter&unorderedIDMask|space with the counter advanced", Expr(key))
			}
			// window: only decidable on entry segments (the test precedes the loop)
			if p.Start == st.Blocks[0] {
				okW := false
				for _, cm := range assumed(p, 0, i) {
					for _, k := range []cmp{cm, cm.swapped()} {
						if x, ok := builtinCall(k.X, "len"); ok && roleKey(x) == "unorderedTxs.perPacketID" && (k.Op == token.LEQ || k.Op == token.LSS) {
							if lim, ok := intConst(k.Y); ok && lim <= um {
								okW = true
							}
						}
					}
				}
				if okW {
					win.pass()
				} else {
					win.fail(p, i, "a slot is assigned without the test on the number of pending requests: the window can grow until identifiers of requests in flight collide")
				}
			}
		}
	}
	win.done(1, "the insert is dominated by len(perPacketID) ≤ limit ≤ unorderedIDMask")
	col.done(1, "the insert is dominated by a failed lookup of the same identifier")
	idc.done(1, "identifier derived from the advancing counter, mask and space")
}

// ---- RCH-1: the read routine never waits for a state only it can produce ----

func init() {
	register("RCH-1", []string{"RCH-1"}, func(c *Ctx, _ map[string]bool) { c.rch1() })
	register("TOK-13", []string{"TOK-13"}, func(c *Ctx, _ map[string]bool) { c.tok13() })
}

func (c *Ctx) rch1() {
	rs := c.Fn("RCH-1", "(*Client).readSlices")
	if rs == nil {
		return
	}
	// pending-waiters: functions with a CFG cycle that contains a receive from writeSem
	waiters := map[*ssa.Function]bool{}
	for _, fn := range c.funcs {
		for _, p := range c.Paths("RCH-1", fn) {
			if p.End != pathx.KLoopBack {
				continue
			}
			for _, e := range p.Events {
				if e.Kind == pathx.KRecv && tokenOf(e.Chan) == tkWrite {
					waiters[fn] = true
				}
			}
		}
	}
	c.S.Floor("RCH-1", "functions that wait for a pending connect (cycle through <-writeSem)", len(waiters), 1)
	reach := c.reachableFrom(rs)
	n := 0
	callers := c.callers()
	for w := range waiters {
		key := "RCH-1|readSlices↛" + load.FuncName(w)
		if !reach[w] {
			c.S.OK("RCH-1", key, c.P.Pos(w.Pos()), "(*Client).readSlices", load.FuncName(w)+" (waits while writeSem holds connPending) is not reachable from the read routine", true)
			continue
		}
		// report each call chain readSlices → … → waiter
		var chain func(f *ssa.Function, seen map[*ssa.Function]bool) []string
		chain = func(f *ssa.Function, seen map[*ssa.Function]bool) []string {
			if f == rs {
				return []string{load.FuncName(f)}
			}
			if seen[f] {
				return nil
			}
			seen[f] = true
			for _, g := range callers[f] {
				if reach[g] {
					if ch := chain(g, seen); ch != nil {
						return append(ch, load.FuncName(f))
					}
				}
			}
			return nil
		}
		for _, g := range callers[w] {
			if !reach[g] {
				continue
			}
			n++
			ch := chain(g, map[*ssa.Function]bool{})
			c.S.Bad("RCH-1", key+"|via("+load.FuncName(g)+")", c.P.Pos(g.Pos()), load.FuncName(g),
				"the read routine can call "+load.FuncName(w)+", which waits as long as writeSem holds connPending; after another goroutine's failed write only the read routine itself can replace connPending, so ReadSlices would wait for itself and never redial", append(ch, load.FuncName(w)))
		}
	}
	// every request-side writer may wait (documented); nothing to check there
	_ = n
	c.S.Count("functions_reachable_from_readSlices", len(reach))
}

// ---- TOK-13: a response is applied to the request it belongs to ----

func (c *Ctx) tok13() {
	hs := c.handlers("TOK-13")
	endTx := c.Fn("TOK-13", "(*unorderedTxs).endTx")
	if endTx == nil {
		return
	}
	for _, typ := range []string{"typeSUBACK", "typeUNSUBACK"} {
		fn := hs[typ]
		if fn == nil {
			c.S.Unknown("TOK-13", "TOK-13|anchor|"+typ, "", "", "no handler for "+typ)
			continue
		}
		a := c.acc("TOK-13", fn, "answer-goes-to-the-callback-of-the-identifier-in-this-packet")
		for _, p := range c.Paths("TOK-13", fn) {
			var ends []int
			for i := range p.Events {
				if isCallTo(&p.Events[i], endTx) {
					ends = append(ends, i)
				}
			}
			if len(ends) > 1 {
				a.fail(p, ends[1], "endTx is called twice: the second call removes another request's callback")
				continue
			}
			if len(ends) == 0 {
				continue
			}
			e := &p.Events[ends[0]]
			if len(e.Args) != 2 || !parsedID(e.Args[1]) {
				a.fail(p, ends[0], "endTx is called with %s, not with the identifier parsed from this packet", Expr(e.Args[len(e.Args)-1]))
				continue
			}
			done := pathx.ResultAt(e.Result, 0)
			filters := pathx.ResultAt(e.Result, 1)
			ok := true
			for i := ends[0]; i < len(p.Events); i++ {
				x := &p.Events[i]
				if (x.Kind == pathx.KSend || x.Kind == pathx.KClose) && x.Chan != done {
					if tokenOf(x.Chan) == "" {
						ok = false
						a.fail(p, i, "a channel other than the one returned by this endTx call is answered")
					}
				}
			}
			// SubscribeError elements come from this call's filters
			if typ == "typeSUBACK" {
				for i := ends[0]; i < len(p.Events); i++ {
					x := &p.Events[i]
					if isAppendTo(x, "github.com/pascaldekloe/mqtt.SubscribeError") {
						_, el := appendLiteral(p, i)
						for _, v := range el {
							base, ok2 := indexBaseOf(v)
							if ok2 {
								// (a helper's parameter stands for the argument it was called with)
								binds := pathBindings(p)
								for d := 0; d < 4; d++ {
									b, bound := binds[base]
									if !bound || b == base {
										break
									}
									base = b
								}
							}
							if ok2 && base != filters {
								ok = false
								a.fail(p, i, "the failed filters are taken from %s, not from the request this SUBACK answers", Expr(base))
							}
						}
					}
				}
			}
			// a removed callback must be answered on every return (unless nil)
			if p.End == pathx.KReturn {
				isNil := false
				if rel, _, k := p.Known(done, ends[0], -1); k && rel == pathx.RNil {
					isNil = true
				}
				answered := p.Index(ends[0], func(x *pathx.Event) bool { return (x.Kind == pathx.KSend || x.Kind == pathx.KClose) && x.Chan == done }) >= 0
				if !isNil && !answered {
					ok = false
					a.fail(p, len(p.Events)-1, "the callback was taken out of the registry but is neither answered nor closed on this return: breakAll no longer knows it, so its caller waits until quit")
				}
			}
			if ok {
				a.pass()
			}
		}
		a.done(1, "one endTx per packet, keyed by the parsed identifier; only its channel is answered, with its own filters")
	}
}

func indexBaseOf(v ssa.Value) (ssa.Value, bool) {
	u, ok := stripConv(v).(*ssa.UnOp)
	if !ok || u.Op != token.MUL {
		return nil, false
	}
	ia, ok := u.X.(*ssa.IndexAddr)
	if !ok {
		return nil, false
	}
	return ia.X, true
}

// ---- TOK-14: nobody waits for the write token without interrupting its holder ----
//
// Close, Disconnect and toOffline take the write token for good. Where they do
// so with a receive that may have to wait (not an arm of a select that has a
// default), the holder may be a request stuck in a write on a connection that
// accepts nothing any more; only closing that connection gets the token back.
// So the wait follows a Close of the connection, or the knowledge that there
// is none (the connSem token is nil: a connect attempt holds the write token
// and ends by itself once the context is cancelled).

func init() {
	register("TOK-14", []string{"TOK-14"}, func(c *Ctx, _ map[string]bool) { c.tok14() })
}

func (c *Ctx) tok14() {
	n := 0
	for _, name := range []string{"(*Client).Close", "(*Client).Disconnect", "(*Client).toOffline"} {
		fn := c.Fn("TOK-14", name)
		if fn == nil {
			continue
		}
		a := c.acc("TOK-14", fn, "wait-for-write-token⇒connection-closed-first(or-none)")
		for _, p := range c.Paths("TOK-14", fn) {
			// the connection this function learnt about from connSem, if any
			var fromConn ssa.Value
			for i := range p.Events {
				e := &p.Events[i]
				if e.Kind == pathx.KRecv && tokenOf(e.Chan) == tkConn && fromConn == nil {
					fromConn = pathx.ResultAt(e.Result, 0)
					if fromConn == nil {
						fromConn = e.Result
					}
				}
				if e.Kind != pathx.KRecv || tokenOf(e.Chan) != tkWrite || (e.InSelect && e.NonBlocking) || e.Deferred {
					continue
				}
				if e.InSelect {
					// an arm of a blocking select: the other arm (quit) bounds the wait
					continue
				}
				n++
				closed := false
				for j := 0; j < i; j++ {
					r := &p.Events[j]
					if isInvoke(r, "net.Conn", "Close") {
						closed = true
					}
				}
				none := false
				if fromConn != nil {
					if rel, _, k := p.Known(fromConn, 0, i); k && rel == pathx.RNil {
						none = true
					}
				}
				if closed || none {
					a.pass()
				} else {
					a.fail(p, i, "%s waits for the write token without having closed the connection its holder may be stuck on: with a stalled peer the call blocks for as long as the write does", name)
				}
			}
		}
		a.done(1, "every plain receive of the write token follows a Close of the connection (or there is none)")
	}
	c.S.Floor("TOK-14", "plain receives of the write token in the three terminators", n, 3)
}

// ---- TOK-15: a sequence token goes back to the semaphore it came from ----
//
// The two publish sequences are values that travel through their semaphores.
// What a function puts into a sequence semaphore is the value it took from
// that same semaphore (possibly updated in place) — never the other
// sequence's value: the levels would continue each other's numbering.

func init() {
	register("TOK-15", []string{"TOK-15"}, func(c *Ctx, _ map[string]bool) { c.tok15() })
}

func (c *Ctx) tok15() {
	n := 0
	inst := func(ch ssa.Value) string {
		r := pathx.RoleOfValue(ch)
		if r.Field != "seqSem" && !strings.HasSuffix(r.Key(), "seqSem") {
			return ""
		}
		switch {
		case r.Has("atLeastOnce"):
			return "atLeastOnce"
		case r.Has("exactlyOnce"):
			return "exactlyOnce"
		}
		return "?" // a sequence semaphore reached through a parameter: one instance per call
	}
	for _, fn := range c.analysed() {
		var a *acc
		for _, p := range c.Paths("TOK-15", fn) {
			// where each taken sequence lives: the received value, or the cell it was stored in
			origin := map[ssa.Value]string{}
			for i := range p.Events {
				e := &p.Events[i]
				switch e.Kind {
				case pathx.KRecv:
					if k := inst(e.Chan); k != "" {
						v := pathx.ResultAt(e.Result, 0)
						if v == nil {
							v = e.Result
						}
						if v != nil {
							origin[v] = k
						}
					}
				case pathx.KStore:
					if k, ok := origin[e.Val]; ok {
						if al, isCell := e.Addr.(*ssa.Alloc); isCell {
							origin[al] = k
						}
					}
				case pathx.KSend:
					k := inst(e.Chan)
					if k == "" {
						continue
					}
					if a == nil {
						a = c.acc("TOK-15", fn, "sequence-returned-to-its-own-semaphore")
					}
					n++
					v := e.Val
					from, known := origin[v]
					if !known {
						if u, ok := v.(*ssa.UnOp); ok && u.Op == token.MUL {
							from, known = origin[u.X]
						}
					}
					if !known {
						// a sequence constructed here (newClient) or handed in
						if _, isAlloc := v.(*ssa.Alloc); !isAlloc && p.Start == fn.Blocks[0] && len(origin) > 0 {
							a.fail(p, i, "the value put into %s.seqSem is not one this function took from a sequence semaphore", k)
						} else {
							a.pass()
						}
						continue
					}
					if from == k || from == "?" || k == "?" {
						a.pass()
					} else {
						a.fail(p, i, "the sequence taken from %s.seqSem is put into %s.seqSem: that level continues with the other level's counters — pending transfers are skipped at the next resend and identifiers are handed out again", from, k)
					}
				}
			}
		}
		if a != nil {
			a.done(1, "every deposit is the value taken from the same semaphore")
		}
	}
	c.S.Floor("TOK-15", "deposits into a sequence semaphore", n, 6)
}

// storesMadeChan: the struct value stored has a channel field that is a
// channel made in this function (never nil).
func storesMadeChan(v ssa.Value) bool {
	// a composite literal is built in a local and loaded
	u, ok := v.(*ssa.UnOp)
	if !ok {
		return false
	}
	al, ok := u.X.(*ssa.Alloc)
	if !ok {
		return false
	}
	for _, r := range *al.Referrers() {
		fa, ok := r.(*ssa.FieldAddr)
		if !ok {
			continue
		}
		for _, rr := range *fa.Referrers() {
			if st, ok := rr.(*ssa.Store); ok && st.Addr == ssa.Value(fa) {
				val := st.Val
				if ct, isCT := val.(*ssa.ChangeType); isCT {
					val = ct.X
				}
				if _, isMake := val.(*ssa.MakeChan); isMake {
					return true
				}
			}
		}
	}
	return false
}
