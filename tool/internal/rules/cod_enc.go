package rules

import (
	"fmt"
	"go/token"
	"go/types"
	"sort"
	"strings"

	"golang.org/x/tools/go/ssa"

	"mqttverif/internal/load"
	"mqttverif/internal/pathx"
)

func init() {
	register("COD-5", []string{"COD-5", "COD-6", "COD-7"}, (*Ctx).codEnc)
}

// lin is a linear form over named symbols.
type lin struct {
	c int64
	t map[string]int64
}

func lconst(c int64) lin { return lin{c: c} }
func lsym(s string) lin  { return lin{t: map[string]int64{s: 1}} }

func (a lin) add(b lin, k int64) lin {
	out := lin{c: a.c + k*b.c, t: map[string]int64{}}
	for s, v := range a.t {
		out.t[s] = v
	}
	for s, v := range b.t {
		out.t[s] += k * v
	}
	for s, v := range out.t {
		if v == 0 {
			delete(out.t, s)
		}
	}
	return out
}

func (a lin) scale(k int64) lin { return lin{}.add(a, k) }

func (a lin) String() string {
	var ks []string
	for s := range a.t {
		ks = append(ks, s)
	}
	sort.Strings(ks)
	var parts []string
	if a.c != 0 || len(ks) == 0 {
		parts = append(parts, fmt.Sprint(a.c))
	}
	for _, s := range ks {
		if a.t[s] == 1 {
			parts = append(parts, s)
		} else {
			parts = append(parts, fmt.Sprintf("%d·%s", a.t[s], s))
		}
	}
	return strings.Join(parts, " + ")
}

func (a lin) eq(b lin) bool {
	d := a.add(b, -1)
	return d.c == 0 && len(d.t) == 0
}

// canon names the thing whose length is taken.
func canon(v ssa.Value) string {
	v = strip(v)
	if u, ok := v.(*ssa.UnOp); ok && u.Op == token.MUL {
		if ia, ok := u.X.(*ssa.IndexAddr); ok {
			return "elem(" + canon(ia.X) + ")"
		}
	}
	if r := pathx.RoleOfValue(v); r.Path != "" {
		// drop the receiver variable name: Config.UserName etc.
		return r.Owner + "." + r.Field
	}
	if p, ok := v.(*ssa.Parameter); ok {
		return p.Name()
	}
	return Expr(v)
}

// symEnv evaluates integer values and byte counts along one path.
type symEnv struct {
	ints  map[ssa.Value]lin
	bytes map[ssa.Value]lin
	last  ssa.Value               // most recent []byte append result
	binds map[ssa.Value]ssa.Value // callees expanded in place: parameter → argument, call → result
}

func (s *symEnv) intOf(v ssa.Value) lin {
	v = stripConv(v)
	if l, ok := s.ints[v]; ok {
		return l
	}
	if b, ok := s.binds[v]; ok && b != v {
		return s.intOf(b)
	}
	switch x := v.(type) {
	case *ssa.Const:
		if k, ok := intConst(x); ok {
			return lconst(k)
		}
	case *ssa.BinOp:
		switch x.Op {
		case token.ADD:
			return s.intOf(x.X).add(s.intOf(x.Y), 1)
		case token.SUB:
			return s.intOf(x.X).add(s.intOf(x.Y), -1)
		case token.MUL:
			if k, ok := intConst(x.Y); ok {
				return s.intOf(x.X).scale(k)
			}
			if k, ok := intConst(x.X); ok {
				return s.intOf(x.Y).scale(k)
			}
		}
	case *ssa.Call:
		if arg, ok := builtinCall(x, "len"); ok {
			return lsym("len(" + canon(arg) + ")")
		}
	}
	return lsym(Expr(v))
}

func stripConv(v ssa.Value) ssa.Value {
	for {
		switch x := v.(type) {
		case *ssa.Convert:
			v = x.X
		case *ssa.ChangeType:
			v = x.X
		default:
			return v
		}
	}
}

func isByteSlice(t types.Type) bool {
	s, ok := t.Underlying().(*types.Slice)
	if !ok {
		return false
	}
	b, ok := s.Elem().Underlying().(*types.Basic)
	return ok && b.Kind() == types.Uint8
}

func (s *symEnv) bytesOf(v ssa.Value) (lin, bool) {
	if l, ok := s.bytes[v]; ok {
		return l, true
	}
	if b, ok := s.binds[v]; ok && b != v {
		return s.bytesOf(b)
	}
	switch x := v.(type) {
	case *ssa.Slice:
		if hi, ok := intConst(x.High); ok && hi == 0 && x.Low == nil {
			return lconst(0), true
		}
	case *ssa.MakeSlice:
		if k, ok := intConst(x.Len); ok {
			return lconst(k), true
		}
	}
	return lin{}, false
}

// run walks the blocks of path p in order. start gives initial values for
// the phis of the first block (nil: resolve nothing).
// symRunWith is symRun with some byte-slice values (parameters) pre-bound.
func symRunWith(p *pathx.Path, pre map[ssa.Value]lin) *symEnv {
	return symRunInit(p, nil, pre)
}

func symRun(p *pathx.Path, init func(phi *ssa.Phi) (lin, bool)) *symEnv {
	return symRunInit(p, init, nil)
}

func symRunInit(p *pathx.Path, init func(phi *ssa.Phi) (lin, bool), pre map[ssa.Value]lin) *symEnv {
	s := &symEnv{ints: map[ssa.Value]lin{}, bytes: map[ssa.Value]lin{}, binds: pathBindings(p)}
	for k, v := range pre {
		s.bytes[k] = v
	}
	blocks := p.AllBlocks
	if len(blocks) == 0 {
		blocks = p.Blocks
	}
	preds := map[*ssa.Function]*ssa.BasicBlock{}
	for bi, b := range blocks {
		pred := preds[b.Parent()]
		// phis first, simultaneously
		type upd struct {
			phi *ssa.Phi
			i   lin
			b   lin
			hb  bool
		}
		var ups []upd
		for _, ins := range b.Instrs {
			phi, ok := ins.(*ssa.Phi)
			if !ok {
				break
			}
			if bi == 0 {
				if init != nil {
					if l, ok := init(phi); ok {
						if isByteSlice(phi.Type()) {
							ups = append(ups, upd{phi: phi, b: l, hb: true})
						} else {
							ups = append(ups, upd{phi: phi, i: l})
						}
					}
				}
				continue
			}
			idx := -1
			for i, pb := range b.Preds {
				if pb == pred {
					idx = i
				}
			}
			if idx < 0 {
				continue
			}
			e := phi.Edges[idx]
			if isByteSlice(phi.Type()) {
				if l, ok := s.bytesOf(e); ok {
					ups = append(ups, upd{phi: phi, b: l, hb: true})
				}
			} else if _, isInt := phi.Type().Underlying().(*types.Basic); isInt {
				ups = append(ups, upd{phi: phi, i: s.intOf(e)})
			}
		}
		for _, u := range ups {
			if u.hb {
				s.bytes[u.phi] = u.b
			} else {
				s.ints[u.phi] = u.i
			}
		}
		for _, ins := range b.Instrs {
			call, ok := ins.(*ssa.Call)
			if !ok {
				continue
			}
			if f := call.Call.StaticCallee(); f != nil && symHelper != nil && isByteSlice(call.Type()) {
				if d, argIdx, ok := symHelper(f); ok && argIdx < len(call.Call.Args) {
					if base, okb := s.bytesOf(call.Call.Args[argIdx]); okb {
						s.bytes[call] = base.add(d, 1)
						s.last = call
						continue
					}
				}
			}
			if dst, _, n, isAU := appendUintN(call); isAU {
				if base, okb := s.bytesOf(dst); okb {
					s.bytes[call] = base.add(lconst(n), 1)
					s.last = call
				}
				continue
			}
			bl, ok := call.Call.Value.(*ssa.Builtin)
			if !ok || bl.Name() != "append" || len(call.Call.Args) != 2 || !isByteSlice(call.Type()) {
				continue
			}
			base, okb := s.bytesOf(call.Call.Args[0])
			if !okb {
				continue
			}
			add := lin{}
			switch a := call.Call.Args[1].(type) {
			case *ssa.Slice:
				if al, ok := a.X.(*ssa.Alloc); ok {
					if arr, ok := al.Type().Underlying().(*types.Pointer).Elem().Underlying().(*types.Array); ok {
						add = lconst(arr.Len())
						break
					}
				}
				add = lsym("len(" + canon(a) + ")")
			default:
				add = lsym("len(" + canon(a) + ")")
			}
			s.bytes[call] = base.add(add, 1)
			s.last = call
		}
		preds[b.Parent()] = b
	}
	return s
}

// symHelper gives, for a helper that appends to its byte-slice parameter and
// returns the result, the number of bytes it appends on its loop-free path
// (set by the rule that owns the Ctx).
var symHelper func(f *ssa.Function) (delta lin, argIdx int, ok bool)

type encoder struct {
	name     string
	fn       *ssa.Function
	lphi     *ssa.Phi  // the remaining-length loop variable
	size     ssa.Value // the value converted into it
	guarded  bool
	extraBuf string // symbol for a second buffer that is not appended (publish payload)
}

// findEncoder locates the remaining-length encoding loop in fn:
// l := uint(size); for ; l > 0x7f; l >>= 7 { append(byte(l|0x80)) }; append(byte(l))
// appendOfElem: the append call one of whose variadic elements is v
// (append(s, v) or append(s, a, v, b)); nil when v is not used that way.
func appendOfElem(v ssa.Value) *ssa.Call {
	if v.Referrers() == nil {
		return nil
	}
	for _, r := range *v.Referrers() {
		st, ok := r.(*ssa.Store)
		if !ok || st.Val != v {
			continue
		}
		ia, ok := st.Addr.(*ssa.IndexAddr)
		if !ok {
			continue
		}
		al, ok := ia.X.(*ssa.Alloc)
		if !ok || al.Referrers() == nil {
			continue
		}
		for _, ar := range *al.Referrers() {
			sl, ok := ar.(*ssa.Slice)
			if !ok || sl.Referrers() == nil {
				continue
			}
			for _, sr := range *sl.Referrers() {
				if call, ok := sr.(*ssa.Call); ok {
					if bl, isB := call.Call.Value.(*ssa.Builtin); isB && bl.Name() == "append" && len(call.Call.Args) == 2 && call.Call.Args[1] == ssa.Value(sl) {
						return call
					}
				}
			}
		}
	}
	return nil
}

func (c *Ctx) findEncoder(fn *ssa.Function) (*ssa.Phi, ssa.Value, string) {
	for _, b := range c.regionBlocks(fn) {
		for _, ins := range b.Instrs {
			phi, ok := ins.(*ssa.Phi)
			if !ok || len(phi.Edges) != 2 {
				continue
			}
			var init ssa.Value
			shifted := false
			for _, e := range phi.Edges {
				if bo, ok := e.(*ssa.BinOp); ok && bo.Op == token.SHR && bo.X == phi && isK(bo.Y, 7) {
					shifted = true
				} else {
					init = e
				}
			}
			if !shifted || init == nil {
				continue
			}
			// loop condition l > 0x7f; body appends byte(l|0x80); exit appends byte(l)
			condOK, bodyOK, tailOK := false, false, false
			for _, r := range *phi.Referrers() {
				switch x := r.(type) {
				case *ssa.BinOp:
					if x.X == phi && (x.Op == token.GTR && isK(x.Y, 0x7f) || x.Op == token.GEQ && isK(x.Y, 0x80)) {
						condOK = true
					}
					// the same test as the exit condition (for { if l <= 0x7f { break } … }):
					// the continuation byte is emitted on the branch where it is false
					if x.X == phi && (x.Op == token.LEQ && isK(x.Y, 0x7f) || x.Op == token.LSS && isK(x.Y, 0x80)) && x.Referrers() != nil {
						for _, rr := range *x.Referrers() {
							iff, isIf := rr.(*ssa.If)
							if !isIf || len(iff.Block().Succs) != 2 {
								continue
							}
							cont := iff.Block().Succs[1]
							for _, r2 := range *phi.Referrers() {
								if or, isOr := r2.(*ssa.BinOp); isOr && or.Op == token.OR && isK(or.Y, 0x80) && cont.Dominates(or.Block()) {
									condOK = true
								}
							}
						}
					}
					if x.Op == token.OR && x.X == phi && isK(x.Y, 0x80) {
						bodyOK = true
					}
				case *ssa.Convert:
					if b, ok := x.Type().Underlying().(*types.Basic); ok && b.Kind() == types.Uint8 {
						tailOK = true
					}
				}
			}
			why := ""
			switch {
			case !condOK:
				why = "loop condition is not l > 0x7f"
			case !bodyOK:
				why = "continuation byte is not l|0x80"
			case !tailOK:
				why = "final byte is not byte(l)"
			}
			// both bytes go onto the packet being built: the continuation byte is
			// appended to the loop-carried slice (whose other edge is that very
			// append), the final byte to the same slice
			if why == "" {
				var bodyApp, tailApp *ssa.Call
				for _, r := range *phi.Referrers() {
					switch x := r.(type) {
					case *ssa.BinOp:
						if x.Op == token.OR && x.X == phi && isK(x.Y, 0x80) && x.Referrers() != nil {
							for _, rr := range *x.Referrers() {
								if cv, ok := rr.(*ssa.Convert); ok {
									if a := appendOfElem(cv); a != nil {
										bodyApp = a
									}
								}
							}
						}
					case *ssa.Convert:
						if a := appendOfElem(x); a != nil {
							tailApp = a
						}
					}
				}
				if bodyApp != nil && tailApp != nil {
					base, isPhi := stripConv(bodyApp.Call.Args[0]).(*ssa.Phi)
					carried := false
					if isPhi {
						for _, e := range base.Edges {
							if stripConv(e) == ssa.Value(bodyApp) {
								carried = true
							}
						}
					}
					switch {
					case !isPhi || !carried:
						why = "the continuation byte is appended to " + Expr(bodyApp.Call.Args[0]) + ", not to the packet being built (the slice the loop carries)"
					case stripConv(tailApp.Call.Args[0]) != ssa.Value(base):
						why = "the final length byte is appended to " + Expr(tailApp.Call.Args[0]) + ", not to the packet the continuation bytes went to"
					}
				}
			}
			size := stripConv(init)
			// the encoder may live in a helper extracted from fn: map its
			// parameter back to the argument at the (single) call site in fn
			if pr, isParam := size.(*ssa.Parameter); isParam && pr.Parent() != fn {
				for _, cb := range fn.Blocks {
					for _, ci := range cb.Instrs {
						if call, ok := ci.(*ssa.Call); ok && call.Call.StaticCallee() == pr.Parent() {
							for i, p := range pr.Parent().Params {
								if p == pr && i < len(call.Call.Args) {
									size = stripConv(call.Call.Args[i])
								}
							}
						}
					}
				}
			}
			return phi, size, why
		}
	}
	return nil, nil, "no remaining-length loop (l; l>>7) found"
}

func (c *Ctx) codEnc(which map[string]bool) {
	memo := map[*ssa.Function]*struct {
		d   lin
		idx int
		ok  bool
	}{}
	symHelper = func(f *ssa.Function) (lin, int, bool) {
		if m, ok := memo[f]; ok {
			return m.d, m.idx, m.ok
		}
		r := &struct {
			d   lin
			idx int
			ok  bool
		}{}
		memo[f] = r
		if !c.isNewHelper(f) {
			return lin{}, 0, false
		}
		idx := -1
		for i, p := range f.Params {
			if isByteSlice(p.Type()) && idx < 0 {
				idx = i
			}
		}
		if idx < 0 {
			return lin{}, 0, false
		}
		for _, p := range c.Paths("COD-6", f) {
			if p.Start != f.Blocks[0] || p.End != pathx.KReturn {
				continue
			}
			env := symRun(p, nil)
			env2 := &symEnv{ints: env.ints, bytes: map[ssa.Value]lin{f.Params[idx]: lsym("base")}}
			_ = env2
			// re-run with the parameter bound
			envB := symRunWith(p, map[ssa.Value]lin{f.Params[idx]: lsym("base")})
			res := p.Events[len(p.Events)-1].Results
			if len(res) == 0 {
				continue
			}
			if l, ok := envB.bytesOf(res[0]); ok {
				r.d, r.idx, r.ok = l.add(lsym("base"), -1), idx, true
				return r.d, r.idx, r.ok
			}
		}
		return lin{}, 0, false
	}
	defer func() { symHelper = nil }()
	pm := c.constInt("packetMax")
	sm := c.constInt("stringMax")
	encs := []*encoder{
		{name: "(*Config).newCONNREQ"},
		{name: "(*Client).subscribeLevel", guarded: true},
		{name: "(*Client).Unsubscribe", guarded: true},
		{name: "publishPacket", guarded: true, extraBuf: "len(message)"},
	}
	found := 0
	for _, e := range encs {
		e.fn = c.Fn("COD-5", e.name)
		if e.fn == nil {
			continue
		}
		phi, size, why := c.findEncoder(e.fn)
		e.lphi, e.size = phi, size
		if which["COD-5"] {
			key := "COD-5|" + e.name + "|remaining-length-encoder"
			if phi == nil || why != "" {
				c.S.Bad("COD-5", key, c.P.Pos(e.fn.Pos()), e.name, "the remaining-length encoder deviates from its siblings: "+why, nil)
			} else {
				found++
				c.S.OK("COD-5", key, c.P.Pos(phi.Pos()), e.name, "l:=uint(size); for l>0x7f {byte(l|0x80); l>>=7}; byte(l)", true)
			}
		}
		if phi == nil {
			continue
		}
		// size limit: the very value that is encoded is compared with packetMax
		if which["COD-5"] && e.guarded {
			a := c.acc("COD-5", e.fn, "encoded-size-is-the-size-tested-against-packetMax")
			okG := false
			for _, b := range e.fn.Blocks {
				for _, ins := range b.Instrs {
					bo, ok := ins.(*ssa.BinOp)
					if !ok || bo.Op != token.GTR || !isK(bo.Y, pm) {
						continue
					}
					if stripConv(bo.X) == size {
						// and the test dominates the encoder (or the call of the helper that holds it)
						at := phi.Block()
						if at.Parent() != e.fn {
							for _, cb := range e.fn.Blocks {
								for _, ci := range cb.Instrs {
									if call, ok := ci.(*ssa.Call); ok && call.Call.StaticCallee() == at.Parent() {
										at = cb
									}
								}
							}
						}
						if bo.Block().Dominates(at) {
							okG = true
						}
					}
				}
			}
			if !okG {
				// the same fact in another spelling (size <= packetMax kept, a
				// negated conjunction, …): established on every path to the encoder
				at := phi.Block()
				if at.Parent() != e.fn {
					for _, cb := range e.fn.Blocks {
						for _, ci := range cb.Instrs {
							if call, ok := ci.(*ssa.Call); ok && call.Call.StaticCallee() == at.Parent() {
								at = cb
							}
						}
					}
				}
				reached, all := 0, true
				for _, p := range c.Paths("COD-5", e.fn) {
					if p.Start != e.fn.Blocks[0] {
						continue
					}
					for j, b := range p.Blocks {
						if b != at {
							continue
						}
						reached++
						binds := pathBindings(p)
						choice := phiChoicesAll(p)
						res := func(v ssa.Value) ssa.Value {
							v = stripConv(v)
							for d := 0; d < 12; d++ {
								if b, ok := binds[v]; ok && b != v {
									v = stripConv(b)
									continue
								}
								if phi, ok := v.(*ssa.Phi); ok {
									if ch, ok := choice[phi]; ok {
										v = stripConv(ch)
										continue
									}
								}
								break
							}
							return v
						}
						if !hasCmp(assumed(p, 0, p.BlockEv[j]), func(k cmp) bool {
							// (the size may be computed and tested by a helper that returns it)
							if res(k.X) != res(size) {
								return false
							}
							n, ok := intConst(k.Y)
							return ok && (k.Op == token.LEQ && n == pm || k.Op == token.LSS && n == pm+1) // exactly the protocol limit: a stricter test refuses a valid packet
						}) {
							all = false
						}
						break
					}
				}
				okG = reached > 0 && all
			}
			// … and the branch on which the test fails refuses with an error
			rf := c.acc("COD-5", e.fn, "size>packetMax⇒refused-with-an-error")
			for _, p := range c.Paths("COD-5", e.fn) {
				if p.End != pathx.KReturn {
					continue
				}
				binds := pathBindings(p)
				choice := phiChoicesAll(p)
				res := func(v ssa.Value) ssa.Value {
					v = stripConv(v)
					for d := 0; d < 12; d++ {
						if b, ok := binds[v]; ok && b != v {
							v = stripConv(b)
							continue
						}
						if phi, ok := v.(*ssa.Phi); ok {
							if ch, ok := choice[phi]; ok {
								v = stripConv(ch)
								continue
							}
						}
						break
					}
					return v
				}
				over := hasCmp(assumed(p, 0, -1), func(k cmp) bool {
					n, ok := intConst(k.Y)
					// (the size may be computed and tested by a helper that returns it)
					return ok && (stripConv(k.X) == size || res(k.X) == res(size)) && (k.Op == token.GTR && n == pm || k.Op == token.GEQ && n == pm+1)
				})
				if !over {
					continue
				}
				if retErr(p, len(p.Events)-1) == triNonNil {
					rf.pass()
				} else {
					rf.fail(p, len(p.Events)-1, "the size is found beyond packetMax and the function returns without an error: the caller goes on with no packet (or a malformed one) as if the request were valid")
				}
			}
			rf.done(0, "every path with size > packetMax returns a non-nil error")
			if okG {
				a.pass()
			} else {
				a.failAt(c.P.Pos(phi.Pos()), "the size put into the remaining-length field (%s) is not the value compared with packetMax before: a packet beyond the protocol limit can be accepted (and gets a 5-byte length)", Expr(size))
			}
			a.done(1, "the encoder's input is dominated by the test of that same value against packetMax")
		}
	}
	if which["COD-5"] {
		c.cod5Head()
		c.S.Floor("COD-5", "remaining-length encoders", found, 4)
		// CONNECT is bounded by the validated component lengths
		bound := int64(12) + sm + (2 + sm) + (2 + sm) + (4 + sm + sm)
		if bound <= pm {
			c.S.OK("COD-5", "COD-5|(*Config).newCONNREQ|size-bounded-by-validated-strings", "", "(*Config).newCONNREQ", fmt.Sprintf("12 + 5 strings of at most stringMax = %d ≤ packetMax (each string is validated, COD-7)", bound), true)
		} else {
			c.S.Bad("COD-5", "COD-5|(*Config).newCONNREQ|size-bounded-by-validated-strings", "", "(*Config).newCONNREQ", "CONNECT can exceed packetMax", nil)
		}
	}

	if which["COD-6"] {
		for _, e := range encs {
			if e.fn == nil || e.lphi == nil {
				continue
			}
			c.cod6(e)
		}
	}
	if which["COD-7"] {
		c.cod7(encs)
	}
}

// cod6: bytes appended after the length field = size, on every guard
// combination, and per iteration of every loop.
func (c *Ctx) cod6(e *encoder) {
	fn := e.fn
	a := c.acc("COD-6", fn, "remaining-length=bytes-that-follow")
	paths := c.Paths("COD-6", fn)
	// loop deltas (excluding the length loop itself)
	type delta struct{ size, bytes lin }
	deltas := map[*ssa.BasicBlock][]delta{}
	for _, p := range paths {
		if p.Start == fn.Blocks[0] || p.End != pathx.KLoopBack || p.Start == e.lphi.Block() {
			continue
		}
		if p.Events[len(p.Events)-1].Target != p.Start {
			continue
		}
		env := symRun(p, func(phi *ssa.Phi) (lin, bool) { return lsym("φ:" + phi.Name()), true })
		// value flowing around the back edge
		var d delta
		last := lastBlockOf(p)
		if last == nil {
			continue
		}
		idx := -1
		for i, pb := range p.Start.Preds {
			if pb == last {
				idx = i
			}
		}
		if idx < 0 {
			continue
		}
		for _, ins := range p.Start.Instrs {
			phi, ok := ins.(*ssa.Phi)
			if !ok {
				break
			}
			edge := phi.Edges[idx]
			if isByteSlice(phi.Type()) {
				if l, ok := env.bytesOf(edge); ok {
					d.bytes = d.bytes.add(l.add(lsym("φ:"+phi.Name()), -1), 1)
				}
			} else if stripConv(edge) != nil {
				if _, isInt := phi.Type().Underlying().(*types.Basic); isInt && c.flowsToSize(phi, e) {
					d.size = d.size.add(env.intOf(edge).add(lsym("φ:"+phi.Name()), -1), 1)
				}
			}
		}
		deltas[p.Start] = append(deltas[p.Start], d)
	}
	var perIter delta
	var hs []*ssa.BasicBlock
	for h := range deltas {
		hs = append(hs, h)
	}
	sort.Slice(hs, func(i, j int) bool { return hs[i].Index < hs[j].Index })
	for _, h := range hs {
		ds := deltas[h]
		for _, d := range ds[1:] {
			if !d.size.eq(ds[0].size) || !d.bytes.eq(ds[0].bytes) {
				a.failAt(c.P.Pos(h.Instrs[0].Pos()), "iterations of one loop add different amounts to the size or the packet")
			}
		}
		perIter.size = perIter.size.add(ds[0].size, 1)
		perIter.bytes = perIter.bytes.add(ds[0].bytes, 1)
	}
	// the constant part per filter may be accounted for outside the loops
	// as k·len(topicFilters); the symbolic parts must agree here
	kDelta := perIter.bytes.c - perIter.size.c
	if len(hs) > 0 {
		ps, pb := perIter.size, perIter.bytes
		ps.c, pb.c = 0, 0
		if ps.eq(pb) {
			a.pass()
		} else {
			a.failAt(c.P.Pos(hs[0].Instrs[0].Pos()), "per filter the size grows by [%s] but the packet by [%s]", perIter.size, perIter.bytes)
		}
	}
	// acyclic entry paths: every guard combination
	n := 0
	for _, p := range paths {
		if p.Start != fn.Blocks[0] || p.End != pathx.KReturn {
			continue
		}
		last := len(p.Events) - 1
		// must pass the encoder
		passes := false
		for _, b := range p.Blocks {
			if b == e.lphi.Block() {
				passes = true
			}
			if e.lphi.Parent() != fn {
				for _, ci := range b.Instrs {
					if call, ok := ci.(*ssa.Call); ok && call.Call.StaticCallee() == e.lphi.Parent() {
						passes = true
					}
				}
			}
		}
		if !passes {
			continue
		}
		env := symRun(p, nil)
		if env.last == nil {
			continue
		}
		total, ok := env.bytesOf(env.last)
		if !ok {
			continue
		}
		n++
		size := env.intOf(e.size)
		if e.extraBuf != "" {
			total = total.add(lsym(e.extraBuf), 1)
		}
		// with zero loop iterations the per-filter constant is still in size
		// (len(topicFilters)*k); move it to the byte side for the comparison
		body := total.add(lconst(2), -1) // head byte + one length byte
		diff := size.add(body, -1)
		for s, k := range diff.t {
			if strings.HasPrefix(s, "len(topicFilters)") && k == kDelta {
				// k bytes per filter are appended inside the loops
				delete(diff.t, s)
			}
		}
		if kDelta != 0 && len(hs) > 0 {
			if _, had := size.t["len(topicFilters)"]; !had {
				diff.t["missing "+fmt.Sprint(kDelta)+"·len(topicFilters)"] = 1
			}
		}
		if diff.c == 0 && len(diff.t) == 0 {
			a.pass()
		} else {
			a.fail(p, last, "remaining length is [%s] but [%s] bytes follow the length field on this path: the packet is malformed for this combination of options", size, body)
		}
	}
	if n == 0 {
		a.failAt(c.P.Pos(fn.Pos()), "no complete encoding path could be evaluated")
	}
	a.done(1, "size and appended bytes agree on every option combination and per loop iteration")
}

// flowsToSize: is phi part of the computation of the encoded size?
func (c *Ctx) flowsToSize(phi *ssa.Phi, e *encoder) bool {
	seen := map[ssa.Value]bool{}
	var walk func(v ssa.Value) bool
	walk = func(v ssa.Value) bool {
		v = stripConv(v)
		if v == phi {
			return true
		}
		if seen[v] {
			return false
		}
		seen[v] = true
		switch x := v.(type) {
		case *ssa.Phi:
			for _, ed := range x.Edges {
				if walk(ed) {
					return true
				}
			}
		case *ssa.BinOp:
			return walk(x.X) || walk(x.Y)
		case *ssa.Extract:
			// the size computed by a helper introduced later: what it returns at that position
			if call, ok := x.Tuple.(*ssa.Call); ok {
				if f := call.Call.StaticCallee(); f != nil && c.isNewHelper(f) {
					for _, b := range f.Blocks {
						for _, ins := range b.Instrs {
							if r, ok := ins.(*ssa.Return); ok && x.Index < len(r.Results) && walk(r.Results[x.Index]) {
								return true
							}
						}
					}
				}
			}
		case *ssa.Call:
			if f := x.Call.StaticCallee(); f != nil && c.isNewHelper(f) {
				for _, b := range f.Blocks {
					for _, ins := range b.Instrs {
						if r, ok := ins.(*ssa.Return); ok && len(r.Results) == 1 && walk(r.Results[0]) {
							return true
						}
					}
				}
			}
		case *ssa.Parameter:
			// handed down to the encoding helper: the caller's argument
			if c.isNewHelper(x.Parent()) {
				idx := -1
				for i, pr := range x.Parent().Params {
					if pr == x {
						idx = i
					}
				}
				for _, b := range c.regionBlocks(e.fn) {
					for _, ins := range b.Instrs {
						if ci, ok := ins.(ssa.CallInstruction); ok && ci.Common().StaticCallee() == x.Parent() && idx >= 0 && idx < len(ci.Common().Args) {
							if walk(ci.Common().Args[idx]) {
								return true
							}
						}
					}
				}
			}
		}
		return false
	}
	return walk(e.size)
}

// cod7: every 16-bit length prefix is emitted for a validated string.
func (c *Ctx) cod7(encs []*encoder) {
	sm := c.constInt("stringMax")
	valid := c.Fn("COD-7", "(*Config).valid")
	// which Config fields does valid() bound?
	bounded := map[string]string{}
	if valid != nil {
		for _, b := range valid.Blocks {
			for _, ins := range b.Instrs {
				switch x := ins.(type) {
				case *ssa.Call:
					if f := x.Call.StaticCallee(); f != nil && (f.Name() == "stringCheck" || f.Name() == "topicCheck") {
						bounded[canon(x.Call.Args[0])] = f.Name()
					}
				case *ssa.BinOp:
					if x.Op == token.GTR && isK(x.Y, sm) {
						if arg, ok := builtinCall(x.X, "len"); ok {
							bounded[canon(arg)] = "len>stringMax"
						}
					}
				}
			}
		}
		// each test must lead to an error return: every path with the test true returns non-nil
		for _, p := range c.Paths("COD-7", valid) {
			if p.End != pathx.KReturn || retErr(p, len(p.Events)-1) != triNil {
				continue
			}
			for _, cm := range assumed(p, 0, -1) {
				if cm.Op == token.GTR && isK(cm.Y, sm) {
					if arg, ok := builtinCall(cm.X, "len"); ok {
						delete(bounded, canon(arg)) // too long yet accepted
					}
				}
			}
			// validators whose error was not checked on a success path
			for i := range p.Events {
				e := &p.Events[i]
				if e.Kind == pathx.KCall && e.Callee != nil && (e.Callee.Name() == "stringCheck" || e.Callee.Name() == "topicCheck") {
					if nl, k := nilResult(p, i, -1); !k || !nl {
						delete(bounded, canon(e.Args[0]))
					}
				}
			}
		}
	}
	// the condition that enables the Will in the encoder is the condition
	// under which valid() demands a non-empty, well-formed will topic
	if enc := c.Fn("COD-7", "(*Config).newCONNREQ"); enc != nil && valid != nil {
		// the condition, normalised, under which a block with the picked
		// content is entered: on the true or on the false edge of its test
		condOf := func(fn *ssa.Function, pick func(tb *ssa.BasicBlock) bool) []string {
			var out []string
			for _, b := range c.regionBlocks(fn) {
				iff, ok := b.Instrs[len(b.Instrs)-1].(*ssa.If)
				if !ok {
					continue
				}
				for side := 0; side < 2; side++ {
					if !pick(b.Succs[side]) || pick(b.Succs[1-side]) {
						continue
					}
					truth := side == 0
					if cm, ok := cmpOf(iff.Cond, truth); ok {
						x := roleKey(cm.X)
						if x == "" {
							x = Expr(cm.X)
						}
						out = append(out, x+" "+cm.Op.String()+" "+Expr(cm.Y))
					} else if truth {
						out = append(out, Expr(iff.Cond))
					} else {
						out = append(out, "!("+Expr(iff.Cond)+")")
					}
				}
			}
			return out
		}
		vc := condOf(valid, func(tb *ssa.BasicBlock) bool {
			for _, ins := range tb.Instrs {
				if call, ok := ins.(*ssa.Call); ok {
					if f := call.Call.StaticCallee(); f != nil && f.Name() == "topicCheck" {
						return true
					}
				}
			}
			return false
		})
		ec := condOf(enc, func(tb *ssa.BasicBlock) bool {
			for _, ins := range tb.Instrs {
				if call, ok := ins.(*ssa.Call); ok {
					if arg, isLen := builtinCall(call, "len"); isLen && strings.HasSuffix(canon(arg), "Will.Topic") {
						return true
					}
					// … or appends the topic itself (the lengths may be taken ahead of the test)
					if bl, isB := call.Call.Value.(*ssa.Builtin); isB && bl.Name() == "append" && len(call.Call.Args) == 2 && strings.HasSuffix(canon(call.Call.Args[1]), "Will.Topic") {
						return true
					}
				}
			}
			return false
		})
		key := "COD-7|(*Config).valid/newCONNREQ|will-enabled-under-the-same-condition"
		same := len(vc) > 0 && len(ec) > 0
		for _, e := range ec {
			if same && e != vc[0] {
				same = false
			}
		}
		if same {
			c.S.OK("COD-7", key, c.P.Pos(valid.Pos()), "(*Config).valid", "topicCheck(Will.Topic) and the Will fields of CONNECT are both conditional on "+vc[0], true)
		} else {
			c.S.Bad("COD-7", key, c.P.Pos(valid.Pos()), "(*Config).valid", fmt.Sprintf("valid() demands a proper will topic under %v, but newCONNREQ emits the Will under %v: a Config can pass validation and still produce a CONNECT with an empty will topic", vc, ec), nil)
		}
	}
	c.cod7Flags()
	n := 0
	for _, e := range encs {
		if e.fn == nil {
			continue
		}
		seen := map[string]bool{}
		for _, b := range c.regionBlocks(e.fn) {
			for _, ins := range b.Instrs {
				var arg ssa.Value
				var pos token.Pos
				switch x := ins.(type) {
				case *ssa.BinOp:
					if x.Op != token.SHR || !isK(x.Y, 8) {
						continue
					}
					a, ok := builtinCall(x.X, "len")
					if !ok {
						continue
					}
					arg, pos = a, x.Pos()
				case *ssa.Call:
					_, val, n, ok := appendUintN(x)
					if !ok || n != 2 {
						continue
					}
					a, ok := builtinCall(val, "len")
					if !ok {
						continue
					}
					arg, pos = a, x.Pos()
				default:
					continue
				}
				bo := posHolder{pos}
				x := canon(arg)
				if seen[x] {
					continue
				}
				seen[x] = true
				n++
				key := "COD-7|" + e.name + "|prefix(len(" + x + "))"
				how := ""
				switch {
				case bounded[x] != "":
					how = "Config.valid: " + bounded[x]
				case x == "topic" || x == "elem(topicFilters)":
					if c.validatedInFunc(e.fn, arg) {
						how = "topicCheck on the same value before the packet is composed"
					}
				case x == "clientID":
					if is := c.Fn("COD-7", "initSession"); is != nil && c.validatedInFunc(is, nil) {
						how = "stringCheck(clientID) in initSession; later values come from the integrity-checked record"
					}
				}
				if how != "" {
					c.S.OK("COD-7", key, c.P.Pos(bo.Pos()), e.name, "≤ stringMax by "+how, true)
				} else {
					c.S.Bad("COD-7", key, c.P.Pos(bo.Pos()), e.name, "a 16-bit length prefix is emitted for "+x+", which no validator bounds to 65,535 bytes: the prefix wraps and the packet is malformed", nil)
				}
			}
		}
	}
	c.S.Floor("COD-7", "length-prefixed strings", n, 8)
}

// validatedInFunc: fn calls topicCheck/stringCheck (on the element class of
// arg when given) and returns on its error.
func (c *Ctx) validatedInFunc(fn *ssa.Function, arg ssa.Value) bool {
	want := ""
	if arg != nil {
		want = canon(arg)
	}
	for _, p := range c.Paths("COD-7", fn) {
		for i := range p.Events {
			e := &p.Events[i]
			if e.Kind != pathx.KCall || e.Callee == nil {
				continue
			}
			if e.Callee.Name() != "topicCheck" && e.Callee.Name() != "stringCheck" {
				continue
			}
			if want != "" && canon(e.Args[0]) != want {
				continue
			}
			// error branch returns non-nil
			if nl, k := nilResult(p, i, -1); k && !nl && p.End == pathx.KReturn && retErr(p, len(p.Events)-1) != triNil {
				return true
			}
		}
	}
	return false
}

type posHolder struct{ p token.Pos }

func (h posHolder) Pos() token.Pos { return h.p }

// regionBlocks: the blocks of fn and of the new helpers it calls (helpers
// extracted from it after the rules were written).
func (c *Ctx) regionBlocks(fn *ssa.Function) []*ssa.BasicBlock {
	out := append([]*ssa.BasicBlock(nil), fn.Blocks...)
	seen := map[*ssa.Function]bool{fn: true}
	var walk func(f *ssa.Function, d int)
	walk = func(f *ssa.Function, d int) {
		if d > 3 {
			return
		}
		for _, g := range c.staticCallees(f) {
			if seen[g] || !c.isNewHelper(g) {
				continue
			}
			seen[g] = true
			out = append(out, g.Blocks...)
			walk(g, d+1)
		}
	}
	walk(fn, 0)
	return out
}

var _ = load.FuncName

// cod5Head: the fixed header byte each publish method asks for —
// PUBLISH type nibble, the method's quality-of-service level in bits 1–2, the
// retain bit only in the …Retained variants — and the identifier space that
// goes with the level.
func (c *Ctx) cod5Head() {
	pt := c.packetTypes()
	alo, eo := c.constInt("atLeastOnceIDSpace"), c.constInt("exactlyOnceIDSpace")
	base := pt["typePUBLISH"] << 4
	tab := []struct {
		name  string
		head  int64
		space int64
	}{
		{"(*Client).Publish", base, 0},
		{"(*Client).PublishRetained", base | 1, 0},
		{"(*Client).PublishAtLeastOnce", base | 1<<1, alo},
		{"(*Client).PublishAtLeastOnceRetained", base | 1<<1 | 1, alo},
		{"(*Client).PublishExactlyOnce", base | 2<<1, eo},
		{"(*Client).PublishExactlyOnceRetained", base | 2<<1 | 1, eo},
	}
	for _, t := range tab {
		fn := c.Fn("COD-5", t.name)
		if fn == nil {
			continue
		}
		key := "COD-5|" + t.name + "|fixed-header-byte-and-identifier-space"
		var head, space int64 = -1, -1
		n := 0
		for _, b := range c.regionBlocks(fn) {
			for _, ins := range b.Instrs {
				call, ok := ins.(*ssa.Call)
				if !ok || call.Call.StaticCallee() == nil || load.TopLevel(call.Call.StaticCallee()).Pkg != c.P.Root {
					continue
				}
				args := call.Call.Args
				if len(args) == 0 {
					continue
				}
				last := args[len(args)-1]
				if bt, ok := last.Type().Underlying().(*types.Basic); !ok || bt.Kind() != types.Uint8 {
					continue
				}
				k, isK := intConst(last)
				if !isK {
					continue
				}
				n++
				head = k
				// the identifier space travels next to the header byte when there is one;
				// the QoS 0 methods go through publish(), which passes identifier 0
				space = 0
				if len(args) >= 2 {
					if k2, isConst := args[len(args)-2].(*ssa.Const); isConst && k2.Type().String() == "uint" {
						if s, ok := intConst(k2); ok {
							space = s
						}
					}
				}
			}
		}
		switch {
		case n != 1:
			c.S.Unknown("COD-5", key, c.P.Pos(fn.Pos()), t.name, fmt.Sprintf("found %d calls that pass a constant header byte, want 1", n))
		case head != t.head || space != t.space:
			c.S.Bad("COD-5", key, c.P.Pos(fn.Pos()), t.name, fmt.Sprintf("the method asks for header byte %#x in identifier space %#x, want %#x in %#x: the PUBLISH goes out with another quality of service or retain flag than the method promises", head, space, t.head, t.space), nil)
		default:
			c.S.OK("COD-5", key, c.P.Pos(fn.Pos()), t.name, fmt.Sprintf("header byte %#x, identifier space %#x", head, space), true)
		}
	}
}
