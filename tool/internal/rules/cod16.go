package rules

import (
	"go/types"
	"strings"

	"golang.org/x/tools/go/ssa"
)

// ---- COD-16: NewDialer/NewTLSDialer hand network and address on in that order ----
//
// Both constructors take (network, address string) and return a Dialer whose
// only job is dialer.DialContext(ctx, network, address). The two strings are
// interchangeable for the compiler; exchanged, every connect attempt fails
// with an "unknown network" error and the client never gets online — which no
// test of the package notices, since they dial through net.Pipe. Per
// constructor: the DialContext call inside the returned function receives the
// constructor's first string parameter as network and the second as address.

func init() {
	register("COD-16", []string{"COD-16"}, func(c *Ctx, _ map[string]bool) { c.cod16() })
}

func (c *Ctx) cod16() {
	n := 0
	for _, name := range []string{"NewDialer", "NewTLSDialer"} {
		fn := c.Fn("COD-16", name)
		if fn == nil {
			continue
		}
		a := c.acc("COD-16", fn, "DialContext(ctx,network,address)-in-parameter-order")
		var strs []*ssa.Parameter
		for _, p := range fn.Params {
			if b, ok := p.Type().Underlying().(*types.Basic); ok && b.Kind() == types.String {
				strs = append(strs, p)
			}
		}
		if len(strs) != 2 {
			a.failAt(c.P.Pos(fn.Pos()), "%s no longer takes exactly two strings", name)
			a.done(1, "")
			continue
		}
		// what a value of the closure stands for: a captured parameter
		origin := func(v ssa.Value) *ssa.Parameter {
			v = stripConv(v)
			if u, ok := v.(*ssa.UnOp); ok {
				v = u.X
			}
			fv, ok := v.(*ssa.FreeVar)
			if !ok {
				if p, isP := v.(*ssa.Parameter); isP {
					return p
				}
				return nil
			}
			for i, g := range fv.Parent().FreeVars {
				if g != fv {
					continue
				}
				for _, mc := range closureSites(fv.Parent()) {
					if i >= len(mc.Bindings) {
						continue
					}
					b := mc.Bindings[i]
					if p, isP := b.(*ssa.Parameter); isP {
						return p
					}
					if al, isA := b.(*ssa.Alloc); isA && al.Referrers() != nil {
						for _, r := range *al.Referrers() {
							if st, isSt := r.(*ssa.Store); isSt && st.Addr == ssa.Value(al) {
								if p, isP := st.Val.(*ssa.Parameter); isP {
									return p
								}
							}
						}
					}
				}
			}
			return nil
		}
		fns := append([]*ssa.Function{fn}, fn.AnonFuncs...)
		for _, f := range fns {
			for _, b := range f.Blocks {
				for _, ins := range b.Instrs {
					ci, ok := ins.(ssa.CallInstruction)
					if !ok {
						continue
					}
					cc := ci.Common()
					sc := cc.StaticCallee()
					if sc == nil || !strings.HasSuffix(stdName(sc), ".DialContext") || len(cc.Args) != 4 {
						continue
					}
					n++
					if origin(cc.Args[2]) == strs[0] && origin(cc.Args[3]) == strs[1] {
						a.pass()
					} else {
						a.failAt(c.P.Pos(ins.Pos()), "%s dials with (%s, %s), want its parameters (%s, %s) in that order: exchanged, every connect attempt fails and the client never gets online", name, Expr(cc.Args[2]), Expr(cc.Args[3]), strs[0].Name(), strs[1].Name())
					}
				}
			}
		}
		a.done(1, "the dial receives the constructor's two strings in order")
	}
	c.S.Floor("COD-16", "DialContext calls of the dialer constructors", n, 2)
}
