package rules

import (
	"golang.org/x/tools/go/ssa"

	"mqttverif/internal/pathx"
)

// ---- OWN-12: the acknowledgement buffer is its own memory and what is sent ----
//
// Client.pendingAck holds the one acknowledgement the read routine owes. Three
// structural facts make it so:
//   - what is stored into the field is the field itself (sliced, appended to),
//     fresh memory or nil — never a slice of the read buffer (Client.peek) or
//     of anything else: a buffer that aliases peek is overwritten by the next
//     packet, and composing the next acknowledgement in it overwrites the
//     topic and payload slices the application was just handed;
//   - every packet the read routine puts on the wire with writeNoWait is the
//     field's content, not the packet under inspection;
//   - every record the owners of the field save from it (the inbound marker,
//     the PUBREL that replaces a PUBLISH) consists of the field's content;
//   - a function that never stores the field (is not one of its owners, OWN-1)
//     does not append to, copy into or store through a load of it: borrowing
//     the array as scratch space destroys an acknowledgement kept for retry.

func init() {
	register("OWN-12", []string{"OWN-12"}, func(c *Ctx, _ map[string]bool) { c.own12() })
}

// sliceLitElems: the element values of a composite literal T{a, b, …} of
// slice type as go/ssa builds it (slice of a fresh array with one store per
// element); nil when v is not of that shape.
func sliceLitElems(v ssa.Value) []ssa.Value {
	sl, ok := v.(*ssa.Slice)
	if !ok {
		return nil
	}
	al, ok := sl.X.(*ssa.Alloc)
	if !ok || al.Referrers() == nil {
		return nil
	}
	var out []ssa.Value
	for _, r := range *al.Referrers() {
		ia, ok := r.(*ssa.IndexAddr)
		if !ok || ia.Referrers() == nil {
			continue
		}
		for _, rr := range *ia.Referrers() {
			if st, ok := rr.(*ssa.Store); ok && st.Addr == ssa.Value(ia) {
				out = append(out, st.Val)
			}
		}
	}
	return out
}

func (c *Ctx) own12() {
	const role = "Client.pendingAck"
	// the field's content, possibly handed through the parameter of a helper introduced later
	var isAck func(v ssa.Value, d int) bool
	isAck = func(v ssa.Value, d int) bool {
		v = stripConv(v)
		if roleKey(v) == role {
			return true
		}
		if d > 3 {
			return false
		}
		// what a helper introduced later returns: the field on every return (or nil next to an error)
		{
			var call *ssa.Call
			idx := 0
			switch x := v.(type) {
			case *ssa.Call:
				call = x
			case *ssa.Extract:
				call, _ = x.Tuple.(*ssa.Call)
				idx = x.Index
			}
			if call != nil {
				if f := call.Call.StaticCallee(); f != nil && c.isNewHelper(f) {
					n := 0
					for _, b := range f.Blocks {
						for _, ins := range b.Instrs {
							ret, isRet := ins.(*ssa.Return)
							if !isRet || idx >= len(ret.Results) {
								continue
							}
							r := ret.Results[idx]
							if k, isK := r.(*ssa.Const); isK && k.Value == nil {
								continue
							}
							if !isAck(r, d+1) {
								return false
							}
							n++
						}
					}
					return n > 0
				}
			}
		}
		if pr, ok := v.(*ssa.Parameter); ok && c.isNewHelper(pr.Parent()) {
			idx := -1
			for i, q := range pr.Parent().Params {
				if q == pr {
					idx = i
				}
			}
			n := 0
			for _, f := range c.funcs {
				for _, b := range f.Blocks {
					for _, ins := range b.Instrs {
						ci, ok := ins.(ssa.CallInstruction)
						if !ok || ci.Common().StaticCallee() != pr.Parent() || idx >= len(ci.Common().Args) {
							continue
						}
						n++
						if !isAck(ci.Common().Args[idx], d+1) {
							return false
						}
					}
				}
			}
			return n > 0
		}
		return false
	}
	var derives func(v ssa.Value, seen map[ssa.Value]bool) bool
	derives = func(v ssa.Value, seen map[ssa.Value]bool) bool {
		v = stripConv(v)
		if seen[v] {
			return true
		}
		seen[v] = true
		if isAck(v, 0) {
			return true
		}
		switch x := v.(type) {
		case *ssa.Const:
			return x.Value == nil
		case *ssa.MakeSlice:
			return true
		case *ssa.Slice:
			if _, fresh := x.X.(*ssa.Alloc); fresh {
				return true
			}
			return derives(x.X, seen)
		case *ssa.Phi:
			for _, e := range x.Edges {
				if !derives(e, seen) {
					return false
				}
			}
			return true
		case *ssa.Call:
			if bl, ok := x.Call.Value.(*ssa.Builtin); ok && bl.Name() == "append" && len(x.Call.Args) > 0 {
				return derives(x.Call.Args[0], seen)
			}
			if dst, _, _, ok := appendUintN(x); ok {
				return derives(dst, seen)
			}
			// a helper introduced later that composes in the buffer it was given
			if f := x.Call.StaticCallee(); f != nil && c.isNewHelper(f) {
				ok := false
				for _, b := range f.Blocks {
					for _, ins := range b.Instrs {
						if ret, isRet := ins.(*ssa.Return); isRet {
							for _, r := range ret.Results {
								if !isByteSlice(r.Type()) {
									continue
								}
								if !derives(r, seen) {
									return false
								}
								ok = true
							}
						}
					}
				}
				return ok
			}
		case *ssa.Extract:
			return derives(x.Tuple, seen)
		}
		return false
	}

	stores := c.accKeyless("OWN-12", "Client.pendingAck", "stored-value-is-the-buffer-itself-or-fresh")
	sent := c.accKeyless("OWN-12", "(*Client).writeNoWait", "every-caller-sends-pendingAck")
	saved := c.accKeyless("OWN-12", "Client.pendingAck", "records-saved-by-its-owners-are-its-content")
	foreign := c.accKeyless("OWN-12", "Client.pendingAck", "no-write-into-its-memory-by-a-function-that-does-not-own-it")
	wnw := c.Fn("OWN-12", "(*Client).writeNoWait")
	for _, f := range c.funcs {
		ownsAck := false
		for _, b := range f.Blocks {
			for _, ins := range b.Instrs {
				if st, ok := ins.(*ssa.Store); ok && pathx.RoleOfAddr(st.Addr).Key() == role {
					ownsAck = true
					if derives(st.Val, map[ssa.Value]bool{}) {
						stores.pass()
					} else {
						stores.failAt(c.P.Pos(st.Pos()), "%s stores %s into pendingAck: the acknowledgement buffer must stay its own memory (the field sliced or appended to, fresh memory, or nil) — a slice of the read buffer is overwritten by the next packet, and composing in it overwrites what the application was handed", f.Name(), Expr(st.Val))
					}
				}
			}
		}
		// who does not own the field does not write into its memory either
		if !ownsAck {
			var written func(v ssa.Value, d int) ssa.Instruction
			written = func(v ssa.Value, d int) ssa.Instruction {
				if d > 5 || v.Referrers() == nil {
					return nil
				}
				for _, r := range *v.Referrers() {
					switch x := r.(type) {
					case *ssa.Slice:
						if x.X == v {
							if w := written(x, d+1); w != nil {
								return w
							}
						}
					case *ssa.IndexAddr:
						if x.X == v && x.Referrers() != nil {
							for _, rr := range *x.Referrers() {
								if st, ok := rr.(*ssa.Store); ok && st.Addr == ssa.Value(x) {
									return st
								}
							}
						}
					case *ssa.Phi:
						if w := written(x, d+1); w != nil {
							return w
						}
					case *ssa.Call:
						if bl, ok := x.Call.Value.(*ssa.Builtin); ok && len(x.Call.Args) > 0 && x.Call.Args[0] == v {
							switch bl.Name() {
							case "append", "copy", "clear":
								return x
							}
						}
						if dst, _, _, ok := appendUintN(x); ok && dst == v {
							return x
						}
					}
				}
				return nil
			}
			for _, b := range f.Blocks {
				for _, ins := range b.Instrs {
					u, ok := ins.(*ssa.UnOp)
					if !ok || roleKey(u) != role {
						continue
					}
					if w := written(u, 0); w != nil {
						foreign.failAt(c.P.Pos(w.Pos()), "%s writes into the memory of pendingAck (%s) without owning the field: an acknowledgement kept for retry after a failed write is overwritten, and what goes out at the next ReadSlices is not the packet that was composed", f.Name(), w.String())
					} else {
						foreign.pass()
					}
				}
			}
		}
		for _, b := range f.Blocks {
			for _, ins := range b.Instrs {
				ci, ok := ins.(ssa.CallInstruction)
				if !ok {
					continue
				}
				cc := ci.Common()
				if wnw != nil && cc.StaticCallee() == wnw && len(cc.Args) >= 2 {
					if isAck(cc.Args[1], 0) {
						sent.pass()
					} else {
						sent.failAt(c.P.Pos(ins.Pos()), "%s writes %s with writeNoWait: the read routine sends the acknowledgement it composed in pendingAck, nothing else — the bytes of the packet under inspection would go back to the broker in place of the acknowledgement", f.Name(), Expr(cc.Args[1]))
					}
				}
				if ownsAck && cc.IsInvoke() && cc.Method.Name() == "Save" && recvTypeName(cc.Method) == "Persistence" && len(cc.Args) == 2 {
					elems := sliceLitElems(stripConv(cc.Args[1]))
					if elems == nil {
						// (a list built elsewhere: judged by COD-8 and ORD-1 at its composer)
						continue
					}
					okAll := true
					for _, e := range elems {
						if !isAck(e, 0) {
							okAll = false
							saved.failAt(c.P.Pos(ins.Pos()), "%s saves a record made of %s: the owners of pendingAck record the packet they composed in it (inbound marker, PUBREL), not the packet under inspection", f.Name(), Expr(e))
						}
					}
					if okAll {
						saved.pass()
					}
				}
			}
		}
	}
	// BigMessage.ReadAll "returns the message in a new/dedicated buffer": what it
	// returns is made by that call, not kept in (or taken from) a field — a
	// buffer reused across calls turns the previous message into the next one
	// under the application's hands
	if ra := c.Fn("OWN-12", "(*BigMessage).ReadAll"); ra != nil {
		fr := c.acc("OWN-12", ra, "result-is-memory-made-by-this-call")
		for _, b := range ra.Blocks {
			for _, ins := range b.Instrs {
				ret, ok := ins.(*ssa.Return)
				if !ok || len(ret.Results) == 0 || !isByteSlice(ret.Results[0].Type()) {
					continue
				}
				v := stripConv(ret.Results[0])
				if k, isK := v.(*ssa.Const); isK && k.Value == nil {
					fr.pass()
					continue
				}
				var fromField func(v ssa.Value, d int) bool
				fromField = func(v ssa.Value, d int) bool {
					if d > 8 {
						return false
					}
					switch x := stripConv(v).(type) {
					case *ssa.Slice:
						return fromField(x.X, d+1)
					case *ssa.Phi:
						for _, e := range x.Edges {
							if fromField(e, d+1) {
								return true
							}
						}
					case *ssa.UnOp:
						if _, isFA := x.X.(*ssa.FieldAddr); isFA {
							return true
						}
						if al, isAl := x.X.(*ssa.Alloc); isAl && al.Referrers() != nil {
							for _, r := range *al.Referrers() {
								if st, isSt := r.(*ssa.Store); isSt && st.Addr == ssa.Value(al) && fromField(st.Val, d+1) {
									return true
								}
							}
						}
					case *ssa.Call:
						if bl, isB := x.Call.Value.(*ssa.Builtin); isB && bl.Name() == "append" && len(x.Call.Args) > 0 {
							return fromField(x.Call.Args[0], d+1)
						}
					}
					return false
				}
				if fromField(v, 0) {
					fr.failAt(c.P.Pos(ret.Pos()), "ReadAll returns %s, memory that a field of the client keeps: the next big message is read into the slice the application still holds", Expr(v))
				} else {
					fr.pass()
				}
			}
		}
		fr.done(1, "no returned slice derives from a field load")
	}
	stores.done(9, "every store derives from the field, fresh memory or nil")
	sent.done(4, "every writeNoWait argument is a load of the field")
	foreign.done(0, "no function other than the owners appends to, copies into or stores through a load of the field")
	saved.done(2, "every literal record saved by an owner consists of loads of the field")
}
