package rules

import (
	"go/token"
	"strings"

	"golang.org/x/tools/go/ssa"

	"mqttverif/internal/load"
	"mqttverif/internal/pathx"
)

func init() {
	register("ORD-10", []string{"ORD-10"}, func(c *Ctx, _ map[string]bool) { c.ord10() })
	register("ORD-11", []string{"ORD-11"}, func(c *Ctx, _ map[string]bool) { c.ord11() })
	register("ORD-12", []string{"ORD-12"}, func(c *Ctx, _ map[string]bool) { c.ord12() })
}

// ---- ORD-11: the peeked packet is skipped exactly once and never read stale ----

func (c *Ctx) ord11() {
	rs := c.Fn("ORD-11", "(*Client).readSlices")
	pp := c.Fn("ORD-11", "(*Client).peekPacket")
	off := c.Fn("ORD-11", "(*Client).toOffline")
	if rs == nil || pp == nil || off == nil {
		return
	}
	skip := c.acc("ORD-11", rs, "peeked-packet-skipped-at-most-once")
	stale := c.acc("ORD-11", rs, "peekPacket-entered-with-c.peek=nil(no-stale-progress-baseline)")
	loop := c.acc("ORD-11", rs, "loop-continues-with-c.peek=nil")
	ret := c.acc("ORD-11", rs, "message-returned⇒its-packet-still-pending")
	big := c.acc("ORD-11", rs, "parked-BigMessage-cleared-unless-served")
	entry := c.acc("ORD-11", rs, "entry⇒parked-BigMessage-flushed(discard(Size))-and-cleared-before-the-stream-is-read")
	unpark := c.acc("ORD-11", rs, "parked-BigMessage-found⇒cleared-by-readSlices-itself-on-every-exit")
	disc := c.Fn("ORD-11", "(*Client).discard")
	for _, p := range c.Paths("ORD-11", rs) {
		if p.Start == rs.Blocks[0] {
			// the first use of the stream on this call: skip of the previous packet or the next peek
			first := p.Index(0, func(e *pathx.Event) bool {
				return isCallTo(e, pp) || isStd(e, "(*bufio.Reader).Discard") || isStd(e, "(*bufio.Reader).Peek")
			})
			if first >= 0 {
				// 0 unknown, 1 known nil (tested or cleared), 2 known parked
				st, flushed := 0, false
				for i := 0; i < first; i++ {
					e := &p.Events[i]
					switch {
					case e.Kind == pathx.KAssume:
						if cm, ok := cmpOf(e.Val, e.Truth); ok && roleKey(cm.X) == "Client.bigMessage" && pathx.IsNilConst(cm.Y) {
							if cm.Op == token.EQL {
								st = 1
							} else {
								st = 2
							}
						}
					case e.Kind == pathx.KStore && pathx.RoleOfAddr(e.Addr).Key() == "Client.bigMessage" && pathx.IsNilConst(e.Val):
						if st == 2 && !flushed {
							// cleared: the flush must follow before the stream is used
							st = 3
						} else {
							st = 1
						}
					case isCallTo(e, disc) && disc != nil && len(e.Args) >= 2:
						// (the amount is the first argument behind the receiver, whatever else is passed along)
						if roleKey(e.Args[1]) == "BigMessage.Size" || strings.HasSuffix(roleKey(e.Args[1]), ".Size") {
							flushed = true
							if st == 3 {
								st = 1
							}
						}
					case isCallTo(e, off):
						st, flushed = 1, true
					}
				}
				switch {
				case st == 1:
					entry.pass()
				case st == 0:
					entry.fail(p, first, "the stream is used on a new ReadSlices call without c.bigMessage having been examined: the payload of a BigMessage the application did not read is still in the stream and is parsed as packets")
				default:
					entry.fail(p, first, "a parked BigMessage is not both flushed (discard of its Size) and cleared before the stream is used (flushed: %v): its payload is parsed as packets, or discarded again on the next call", flushed)
				}
			}
		}
		if p.Start == rs.Blocks[0] && p.End == pathx.KReturn {
			// a call that finds a BigMessage parked unparks it whatever the flush
			// does: toOffline does not clear it once the client is closed, and a
			// message that stays parked is flushed again by every later call
			found, cleared := false, false
			firstUse := p.Index(0, func(e *pathx.Event) bool { return isCallTo(e, pp) })
			upto := len(p.Events)
			if firstUse >= 0 {
				upto = firstUse
			}
			for i := 0; i < upto; i++ {
				e := &p.Events[i]
				if e.Kind == pathx.KAssume {
					if cm, ok := cmpOf(e.Val, e.Truth); ok && roleKey(cm.X) == "Client.bigMessage" && pathx.IsNilConst(cm.Y) && cm.Op == token.NEQ {
						found = true
					}
				}
				if found && e.Kind == pathx.KStore && c.inRegion(rs, e) && pathx.RoleOfAddr(e.Addr).Key() == "Client.bigMessage" && pathx.IsNilConst(e.Val) {
					cleared = true
				}
			}
			if found {
				if cleared {
					unpark.pass()
				} else {
					unpark.fail(p, len(p.Events)-1, "ReadSlices found a BigMessage parked and returns without having cleared c.bigMessage itself: when the flush fails on a closed client toOffline leaves the field alone, and every later call flushes again instead of reporting ErrClosed")
				}
			}
		}
		// 0 nil, 1 pending, 2 consumed
		state := 1
		if p.Start != rs.Blocks[0] {
			state = 0
		}
		bigSet := false
		last := len(p.Events) - 1
		for i := range p.Events {
			e := &p.Events[i]
			switch e.Kind {
			case pathx.KStore:
				switch pathx.RoleOfAddr(e.Addr).Key() {
				case "Client.peek":
					if pathx.IsNilConst(e.Val) {
						state = 0
					} else {
						state = 1
					}
				case "Client.bigMessage":
					if pathx.IsNilConst(e.Val) {
						bigSet = false
					}
				}
			case pathx.KCall:
				switch {
				case isStd(e, "(*bufio.Reader).Discard") && len(e.Args) == 2:
					if x, ok := builtinCall(e.Args[1], "len"); ok && roleKey(x) == "Client.peek" {
						switch state {
						case 1:
							state = 2
							skip.pass()
						case 2:
							skip.fail(p, i, "the current packet is skipped a second time: the stream loses alignment and the next packet is parsed from its middle")
						}
					}
				case isCallTo(e, pp):
					if state == 0 {
						stale.pass()
					} else {
						stale.fail(p, i, "peekPacket is entered while c.peek still holds the previous packet: its length is used as the progress baseline, so a deadline expiry after real but smaller progress is taken for a stall and resets the connection")
					}
					state = 1
				case isCallTo(e, off):
					state = 0
					bigSet = false
				case isStd(e, "errors.As"):
					for _, a := range e.Args {
						if mi, ok := a.(*ssa.MakeInterface); ok && pathx.RoleOfAddr(mi.X).Key() == "Client.bigMessage" {
							if rel, _, k := p.Known(e.Result, i, -1); k && rel == pathx.RTrue {
								bigSet = true
							}
						}
					}
				}
			case pathx.KLoopBack:
				if state == 0 {
					loop.pass()
				} else {
					loop.fail(p, i, "the read loop continues while c.peek is non-nil (state %s)", []string{"nil", "pending", "consumed"}[state])
				}
				if bigSet {
					big.fail(p, i, "the read loop continues with a BigMessage still parked although it was neither served nor cleared: the next ReadSlices discards its size again from the stream")
				} else {
					big.pass()
				}
			case pathx.KReturn:
				res := e.Results
				if retErr(p, last) == triNil && len(res) == 3 && !pathx.IsNilConst(res[0]) {
					if state == 1 {
						ret.pass()
					} else {
						ret.fail(p, i, "a message is returned whose packet was already skipped or cleared: the slices point into bytes the next read overwrites, or the packet is delivered twice")
					}
				}
				served := len(res) == 3 && roleKey(unwrapIface(res[2])) == "Client.bigMessage"
				if mi, ok := res[len(res)-1].(*ssa.MakeInterface); ok && roleKey(mi.X) == "Client.bigMessage" {
					served = true
				}
				if bigSet && !served {
					big.fail(p, i, "ReadSlices returns with a BigMessage parked that was not handed to the caller: the next call discards its size from the stream although nothing of it is pending")
				} else if bigSet {
					big.pass()
				}
			}
		}
	}
	if ra := c.Fn("ORD-11", "(*BigMessage).ReadAll"); ra != nil {
		w := c.acc("ORD-11", ra, "ReadAll-reads-only-while-it-is-the-parked-message,-and-unparks-it")
		for _, p := range c.Paths("ORD-11", ra) {
			for i := range p.Events {
				e := &p.Events[i]
				if !isBlockingIO(e) {
					continue
				}
				same, cleared := false, false
				for _, cm := range assumed(p, 0, i) {
					for _, k := range []cmp{cm, cm.swapped()} {
						if roleKey(k.X) == "Client.bigMessage" && k.Op == token.EQL {
							if _, isParam := stripConv(k.Y).(*ssa.Parameter); isParam {
								same = true
							}
						}
					}
				}
				for j := 0; j < i; j++ {
					if st := &p.Events[j]; st.Kind == pathx.KStore && pathx.RoleOfAddr(st.Addr).Key() == "Client.bigMessage" && pathx.IsNilConst(st.Val) {
						cleared = true
					}
				}
				if same && cleared {
					w.pass()
				} else {
					w.fail(p, i, "ReadAll reads from the connection without (being the parked message: %v, having unparked itself: %v): a stale BigMessage consumes bytes of later packets, or its payload is skipped a second time by the next ReadSlices", same, cleared)
				}
			}
		}
		w.done(1, "the read lies behind c.bigMessage == e and c.bigMessage = nil")
	}
	unpark.done(1, "c.bigMessage = nil on every path that found it set, before the first peek or the return")
	entry.done(1, "bigMessage is nil, or its Size was discarded and the field cleared, before the first stream operation")
	skip.done(1, "no path discards len(c.peek) twice without a new peek")
	stale.done(1, "every peekPacket call starts from c.peek == nil")
	loop.done(1, "every back edge has c.peek == nil")
	ret.done(1, "delivered slices belong to a packet that is still pending")
	big.done(1, "a parked BigMessage is served, cleared or dropped by toOffline on every path")
}

// ---- ORD-12: error-ignoring Discard calls stay within the buffer ----

func (c *Ctx) ord12() {
	n := 0
	c.eachInstr(func(fn *ssa.Function, ins ssa.Instruction) {
		call, ok := ins.(*ssa.Call)
		if !ok {
			return
		}
		f := call.Call.StaticCallee()
		if f == nil || stdName(f) != "(*bufio.Reader).Discard" {
			return
		}
		// is the error result used?
		used := false
		for _, r := range *call.Referrers() {
			if ex, ok := r.(*ssa.Extract); ok && ex.Index == 1 && len(*ex.Referrers()) > 0 {
				used = true
			}
		}
		if used {
			return
		}
		n++
		arg := call.Call.Args[1]
		name := load.FuncName(load.TopLevel(fn))
		key := "ORD-12|" + name + "|Discard(" + Expr(arg) + ")"
		ok1 := false
		reason := ""
		if x, isLen := builtinCall(arg, "len"); isLen {
			switch {
			case roleKey(x) == "Client.peek":
				ok1, reason = true, "len(c.peek): c.peek is the current Peek result, so the bytes are buffered"
			case isPeekResult(x):
				ok1, reason = true, "length of the slice Peek just returned"
			}
		}
		if sub, isSub := strip(arg).(*ssa.BinOp); isSub && sub.Op == token.SUB {
			x, okx := builtinCall(sub.X, "len")
			_, oky := builtinCall(sub.Y, "len")
			if okx && oky && roleKey(x) == "Client.peek" {
				ok1, reason = true, "len(c.peek) − len(suffix of c.peek): within the buffered packet"
			}
		}
		if ok1 {
			c.S.OK("ORD-12", key, c.P.Pos(call.Pos()), name, reason, true)
		} else {
			c.S.Bad("ORD-12", key, c.P.Pos(call.Pos()), name, "Discard("+Expr(arg)+") ignores its error, but the count is not derived from the length of the currently peeked slice: when fewer bytes are buffered the skip is short (or blocks) and the stream loses alignment in silence", nil)
		}
	})
	c.S.Floor("ORD-12", "error-ignoring Discard calls", n, 4)
}

func isPeekResult(v ssa.Value) bool {
	ex, ok := v.(*ssa.Extract)
	if !ok || ex.Index != 0 {
		return false
	}
	call, ok := ex.Tuple.(*ssa.Call)
	if !ok {
		return false
	}
	f := call.Call.StaticCallee()
	return f != nil && stdName(f) == "(*bufio.Reader).Peek"
}

// ---- ORD-10: deny before trace ----

func (c *Ctx) ord10() {
	wire := c.wireCapable()
	ef := c.errflow()
	deny, _ := c.denyEnd()
	start := c.P.Func("(*unorderedTxs).startTx")
	validators := map[string]bool{"topicCheck": true, "stringCheck": true, "publishPacket": true, "(*Config).valid": true}
	isEffect := func(e *pathx.Event) bool {
		switch e.Kind {
		case pathx.KCall:
			if e.Callee != nil && (wire[e.Callee] || e.Callee == start && start != nil) {
				return true
			}
			if e.Callee != nil && (e.Callee.Name() == "submitPersisted" || e.Callee.Name() == "newClient") && !c.isNewHelper(e.Callee) {
				return true
			}
			if op := persistenceOp(e); op == "Save" || op == "Delete" {
				return true
			}
		case pathx.KSend:
			return roleKey(e.Chan) == "outbound.queue" || roleKey(e.Chan) == "Client.pingAck"
		case pathx.KStore:
			return pathx.RoleOfAddr(e.Addr).Key() == "seq.acceptN"
		}
		return false
	}
	names := []string{"(*Client).subscribeLevel", "(*Client).Unsubscribe", "(*Client).publish",
		"(*Client).PublishAtLeastOnce", "(*Client).PublishAtLeastOnceRetained", "(*Client).PublishExactlyOnce", "(*Client).PublishExactlyOnceRetained",
		"initSession", "AdoptSession"}
	n := 0
	for _, name := range names {
		fn := c.Fn("ORD-10", name)
		if fn == nil {
			continue
		}
		a := c.acc("ORD-10", fn, "no-side-effect-before-a-validator-or-deny-return")
		v := c.acc("ORD-10", fn, "side-effect⇒validation-passed")
		for _, p := range c.Paths("ORD-10", fn) {
			ie := p.Index(0, isEffect)
			// later validator call or deny-class return after an effect
			if ie >= 0 {
				for i := ie + 1; i < len(p.Events); i++ {
					e := &p.Events[i]
					if e.Kind == pathx.KCall && e.Callee != nil && validators[load.FuncName(e.Callee)] {
						a.fail(p, i, "%s runs after a side effect (%s): an invalid argument leaves a trace (a slot, a stored record or bytes on the wire)", load.FuncName(e.Callee), strings.TrimSpace(DescribeEvent(c.P, &p.Events[ie])))
					}
					if e.Kind == pathx.KReturn && len(e.Results) > 0 {
						for k := range classes(ef.ofOn(p, e.Results[len(e.Results)-1])) {
							if deny[k] {
								a.fail(p, i, "a deny error (%s) is returned after a side effect (%s)", k, strings.TrimSpace(DescribeEvent(c.P, &p.Events[ie])))
							}
						}
					}
				}
				a.pass()
			}
			if ie < 0 || p.Start != fn.Blocks[0] {
				continue
			}
			n++
			// what must have been established before the effect
			switch name {
			case "(*Client).subscribeLevel", "(*Client).Unsubscribe":
				nonEmpty, sized := false, false
				for _, cm := range assumed(p, 0, ie) {
					if x, ok := builtinCall(cm.X, "len"); ok && isParamOfType(x, "[]string") && (cm.Op == token.NEQ || cm.Op == token.GTR) && isK(cm.Y, 0) {
						nonEmpty = true
					}
					if isK(cm.Y, c.constInt("packetMax")) && cm.Op == token.LEQ {
						sized = true
					}
				}
				// the validation loop lies before the effect: the header of a
				// loop whose body calls topicCheck is on the path, earlier
				loopSeen := false
				hdrs := map[*ssa.BasicBlock]bool{}
				for _, q := range c.Paths("ORD-10", fn) {
					if q.Start == fn.Blocks[0] || q.End != pathx.KLoopBack {
						continue
					}
					if q.Index(0, func(e *pathx.Event) bool {
						return e.Kind == pathx.KCall && e.Callee != nil && e.Callee.Name() == "topicCheck"
					}) >= 0 {
						hdrs[q.Start] = true
					}
				}
				blks, blkEv := p.AllBlocks, p.AllBlockEv
				if len(blks) != len(blkEv) || len(blks) == 0 {
					blks, blkEv = p.Blocks, p.BlockEv
				}
				for j, b := range blks { // (the loop may live in a helper expanded in place)
					if hdrs[b] && blkEv[j] <= ie {
						loopSeen = true
					}
				}
				if nonEmpty && sized && loopSeen {
					v.pass()
				} else {
					v.fail(p, ie, "%s is reached without (filters non-empty: %v, size ≤ packetMax: %v, topicCheck loop before it: %v)", strings.TrimSpace(DescribeEvent(c.P, &p.Events[ie])), nonEmpty, sized, loopSeen)
				}
			case "initSession":
				okID, okCfg := false, false
				for i := 0; i < ie; i++ {
					e := &p.Events[i]
					if e.Kind == pathx.KCall && e.Callee != nil {
						if e.Callee.Name() == "stringCheck" {
							if nl, k := nilResult(p, i, ie); nl && k {
								okID = true
							}
						}
						if e.Callee.Name() == "valid" {
							if nl, k := nilResult(p, i, ie); nl && k {
								okCfg = true
							}
						}
					}
				}
				if okID && okCfg {
					v.pass()
				} else {
					v.fail(p, ie, "the session is installed without a passed client identifier check (%v) and Config check (%v)", okID, okCfg)
				}
			case "AdoptSession":
				okCfg := false
				for i := 0; i < ie; i++ {
					e := &p.Events[i]
					if e.Kind == pathx.KCall && e.Callee != nil && e.Callee.Name() == "valid" {
						if nl, k := nilResult(p, i, ie); nl && k {
							okCfg = true
						}
					}
				}
				if okCfg {
					v.pass()
				} else {
					v.fail(p, ie, "AdoptSession touches the Persistence or builds the client before Config.valid passed")
				}
			default:
				okPkt := false
				for i := 0; i < ie; i++ {
					e := &p.Events[i]
					if e.Kind == pathx.KCall && e.Callee != nil && e.Callee.Name() == "publishPacket" {
						if nl, k := nilResult(p, i, ie); nl && k {
							okPkt = true
						}
					}
				}
				if okPkt {
					v.pass()
				} else {
					v.fail(p, ie, "a publish reaches its first side effect without publishPacket having returned a nil error")
				}
			}
		}
		a.done(0, "no validator call or deny return follows a side effect")
		v.done(1, "every entry path to the first side effect passed the validators")
		// an invalid argument is answered with a deny error, whatever state
		// the client is in: nothing but a deny error may be returned before
		// the arguments went through the validators
		if name != "initSession" && name != "AdoptSession" {
			d := c.acc("ORD-10", fn, "error-before-validation⇒deny-class")
			hdrs := map[*ssa.BasicBlock]bool{}
			for _, q := range c.Paths("ORD-10", fn) {
				if q.Start == fn.Blocks[0] || q.End != pathx.KLoopBack {
					continue
				}
				if q.Index(0, func(e *pathx.Event) bool {
					return e.Kind == pathx.KCall && e.Callee != nil && validators[load.FuncName(e.Callee)]
				}) >= 0 {
					hdrs[q.Start] = true
				}
			}
			for _, p := range c.Paths("ORD-10", fn) {
				if p.Start != fn.Blocks[0] || p.End != pathx.KReturn {
					continue
				}
				last := len(p.Events) - 1
				res := p.Events[last].Results
				if len(res) == 0 || retErr(p, last) == triNil {
					continue
				}
				validated := p.Index(0, func(e *pathx.Event) bool {
					return e.Kind == pathx.KCall && e.Callee != nil && validators[load.FuncName(e.Callee)]
				}) >= 0
				blks := p.AllBlocks
				if len(blks) == 0 {
					blks = p.Blocks
				}
				for _, b := range blks {
					if hdrs[b] {
						validated = true
					}
				}
				if validated {
					d.pass()
					continue
				}
				bad := ""
				for k := range classes(ef.ofOn(p, res[len(res)-1])) {
					if !deny[k] {
						bad = k
					}
				}
				if bad == "" {
					d.pass()
				} else {
					d.fail(p, last, "an error of class %s is returned before the arguments were validated: a request with an invalid argument is answered with it instead of an IsDeny error (and Backoff offers a retry for a request that can never succeed)", bad)
				}
			}
			d.done(1, "every failure ahead of the validators is a deny error")
		}
	}
	c.S.Floor("ORD-10", "entry paths reaching a side effect", n, 9)
}
