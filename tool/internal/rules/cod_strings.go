package rules

import (
	"go/token"
	"sort"

	"golang.org/x/tools/go/ssa"

	"mqttverif/internal/pathx"
)

// ---- COD-13: what stringCheck and topicCheck let through ----
//
// Every nil return of stringCheck lies behind: len(s) ≤ stringMax (true at
// stringMax, false at stringMax+1), well-formed UTF-8, and the absence of
// U+0000 established from a search whose "not found" result is told apart
// from position 0. topicCheck additionally excludes the empty string and
// returns nil only behind stringCheck == nil.

func init() {
	register("COD-13", []string{"COD-13"}, func(c *Ctx, _ map[string]bool) { c.cod13() })
}

// holds evaluates an assumed comparison of X with a constant at X = x.
func (m cmp) holds(x int64) (result, ok bool) {
	k, isK := intConst(m.Y)
	if !isK {
		return false, false
	}
	switch m.Op {
	case token.EQL:
		return x == k, true
	case token.NEQ:
		return x != k, true
	case token.LSS:
		return x < k, true
	case token.LEQ:
		return x <= k, true
	case token.GTR:
		return x > k, true
	case token.GEQ:
		return x >= k, true
	}
	return false, false
}

func (c *Ctx) cod13() {
	sc := c.Fn("COD-13", "stringCheck")
	tc := c.Fn("COD-13", "topicCheck")
	sm := c.constInt("stringMax")
	if sc != nil {
		ln := c.acc("COD-13", sc, "nil⇒len(s)≤stringMax")
		u8 := c.acc("COD-13", sc, "nil⇒valid-UTF-8")
		nul := c.acc("COD-13", sc, "nil⇒no-U+0000(search-result-told-apart-from-position-0)")
		for _, p := range c.Paths("COD-13", sc) {
			if p.Start != sc.Blocks[0] || p.End != pathx.KReturn {
				continue
			}
			last := len(p.Events) - 1
			if retErr(p, last) != triNil {
				continue
			}
			// (a) the length bound, judged at its boundary values
			okLen := false
			for _, m := range assumed(p, 0, -1) {
				arg, isLen := builtinCall(m.X, "len")
				if !isLen {
					if a2, ok2 := builtinCall(m.Y, "len"); ok2 {
						m = m.swapped()
						arg, isLen = a2, true
					}
				}
				if !isLen {
					continue
				}
				if _, isParam := stripConv(arg).(*ssa.Parameter); !isParam {
					continue
				}
				at, ok1 := m.holds(sm)
				over, ok2 := m.holds(sm + 1)
				if ok1 && ok2 && at && !over {
					okLen = true
				}
			}
			if okLen {
				ln.pass()
			} else {
				ln.fail(p, last, "stringCheck accepts on a path that has not established len(s) ≤ %d exactly (true at %d, false at %d): the 16-bit length prefix wraps or a legal string is refused", sm, sm, sm+1)
			}
			// (b) UTF-8, (c) NUL
			okU, okN := false, false
			for i := range p.Events {
				e := &p.Events[i]
				if e.Kind != pathx.KCall || e.Callee == nil {
					continue
				}
				switch stdName(e.Callee) {
				case "unicode/utf8.ValidString", "unicode/utf8.Valid":
					if rel, _, k := p.Known(e.Result, i, -1); k && rel == pathx.RTrue {
						okU = true
					}
				case "strings.IndexByte", "strings.IndexRune", "strings.Index", "bytes.IndexByte", "bytes.IndexRune", "bytes.Index":
					if !searchesNUL(e) {
						continue
					}
					for _, m := range assumed(p, i, -1) {
						if stripConv(m.X) != ssa.Value(e.Result) {
							if stripConv(m.Y) == ssa.Value(e.Result) {
								m = m.swapped()
							} else {
								continue
							}
						}
						miss, k1 := m.holds(-1)
						at0, k2 := m.holds(0)
						at7, k3 := m.holds(7)
						if k1 && k2 && k3 && miss && !at0 && !at7 {
							okN = true
						}
					}
				case "strings.ContainsRune", "strings.Contains", "strings.ContainsAny", "bytes.ContainsRune", "bytes.Contains", "bytes.ContainsAny":
					if !searchesNUL(e) {
						continue
					}
					if rel, _, k := p.Known(e.Result, i, -1); k && rel == pathx.RFalse {
						okN = true
					}
				}
			}
			if okU {
				u8.pass()
			} else {
				u8.fail(p, last, "stringCheck accepts on a path where utf8.ValidString(s) is not known to be true")
			}
			if okN {
				nul.pass()
			} else {
				nul.fail(p, last, "stringCheck accepts on a path that has not excluded U+0000 at every position: the search result must be told apart from \"not found\" (-1), so that position 0 counts as found")
			}
		}
		ln.done(1, "the bound holds at stringMax and fails at stringMax+1")
		u8.done(1, "utf8.ValidString(s) is true on every accepting path")
		nul.done(1, "a search for byte 0 returned \"not found\" on every accepting path")
	}
	if tc != nil {
		a := c.acc("COD-13", tc, "nil⇒non-empty∧stringCheck=nil")
		for _, p := range c.Paths("COD-13", tc) {
			if p.Start != tc.Blocks[0] || p.End != pathx.KReturn {
				continue
			}
			last := len(p.Events) - 1
			if retErr(p, last) == triNonNil {
				continue
			}
			nonEmpty, checked := false, false
			for _, m := range assumed(p, 0, -1) {
				if m.Op == token.NEQ {
					if k, ok := m.Y.(*ssa.Const); ok && k.Value != nil && k.Value.ExactString() == `""` {
						nonEmpty = true
					}
					if _, isLen := builtinCall(m.X, "len"); isLen && isK(m.Y, 0) {
						nonEmpty = true
					}
				}
			}
			for i := range p.Events {
				e := &p.Events[i]
				if e.Kind == pathx.KCall && e.Callee == sc {
					if n, k := nilResult(p, i, -1); n && k {
						checked = true
					}
					// a direct `return stringCheck(s)`: the result is the return value
					if r := p.Events[last].Results; len(r) == 1 && r[0] == ssa.Value(e.Result) {
						checked = true
					}
				}
			}
			if nonEmpty && checked {
				a.pass()
			} else {
				a.fail(p, last, "topicCheck accepts without (non-empty: %v, stringCheck nil: %v)", nonEmpty, checked)
			}
		}
		a.done(1, "every accepting path excludes the empty string and passed stringCheck")
	}
	c.cod13Valid(sc, tc)
}

// cod13Valid: every Config that valid() accepts has its four variable-length
// CONNECT fields bounded on that very path — an early "nothing to check"
// return ahead of one of the tests lets a Will topic or message beyond 65,535
// bytes (or with an illegal string) into newCONNREQ, whose 16-bit length
// prefix then describes other bytes than the ones that follow.
func (c *Ctx) cod13Valid(sc, tc *ssa.Function) {
	vf := c.Fn("COD-13", "(*Config).valid")
	if vf == nil {
		return
	}
	sm := c.constInt("stringMax")
	a := c.acc("COD-13", vf, "nil⇒UserName,Password,Will.Topic,Will.Message-bounded-on-the-path")
	want := []string{"Config.UserName", "Config.Password", "Config.Will.Topic", "Config.Will.Message"}
	for _, p := range c.Paths("COD-13", vf) {
		if p.Start != vf.Blocks[0] || p.End != pathx.KReturn {
			continue
		}
		last := len(p.Events) - 1
		if retErr(p, last) == triNonNil {
			continue
		}
		got := map[string]bool{}
		for _, m := range assumed(p, 0, -1) {
			for _, k := range []cmp{m, m.swapped()} {
				if x, isLen := builtinCall(k.X, "len"); isLen {
					if (k.Op == token.LEQ && isK(k.Y, sm)) || (k.Op == token.LSS && isK(k.Y, sm+1)) {
						got[roleKey(x)] = true
					}
				}
			}
		}
		for i := range p.Events {
			e := &p.Events[i]
			if e.Kind != pathx.KCall || (e.Callee != sc && e.Callee != tc) || e.Callee == nil || len(e.Args) == 0 {
				continue
			}
			if n, k := nilResult(p, i, -1); n && k {
				got[roleKey(e.Args[0])] = true
			}
		}
		var miss []string
		for _, w := range want {
			if !got[w] {
				miss = append(miss, w)
			}
		}
		if len(miss) == 0 {
			a.pass()
		} else {
			a.fail(p, last, "valid() accepts a Config on a path that has not bounded %v (bounded: %v): newCONNREQ emits these behind a 16-bit length prefix", miss, keysOf(got))
		}
	}
	a.done(2, "every accepting path passed stringCheck/topicCheck or the stringMax test for each of the four fields")
}

func keysOf(m map[string]bool) []string {
	var out []string
	for k := range m {
		out = append(out, k)
	}
	sort.Strings(out)
	return out
}

// searchesNUL: the needle argument is the zero byte/rune or the string "\x00".
func searchesNUL(e *pathx.Event) bool {
	if len(e.Args) < 2 {
		return false
	}
	k, ok := stripConv(e.Args[1]).(*ssa.Const)
	if !ok || k.Value == nil {
		return false
	}
	if n, ok := intConst(k); ok {
		return n == 0
	}
	s := k.Value.ExactString()
	return s == `"\x00"` || s == `"\u0000"` || s == "\"\\x00\""
}
