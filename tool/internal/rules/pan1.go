package rules

import (
	"bufio"
	"bytes"
	"fmt"
	"go/ast"
	"go/token"
	"go/types"
	"os"
	"os/exec"
	"path/filepath"
	"regexp"
	"sort"
	"strconv"
	"strings"

	"golang.org/x/tools/go/packages"
	"golang.org/x/tools/go/ssa"

	"mqttverif/internal/load"
	"mqttverif/internal/pathx"
)

func init() {
	register("PAN-1", []string{"PAN-1"}, func(c *Ctx, _ map[string]bool) { c.pan1() })
}

// BCESite is one bounds check the compiler's prove pass could not remove.
type BCESite struct {
	File string
	Line int
	Col  int
	Kind string // IsInBounds | IsSliceInBounds
	Func string
	Expr string
}

var bceLine = regexp.MustCompile(`^(?:\./)?([^:]+\.go):(\d+):(\d+): Found (IsInBounds|IsSliceInBounds)`)

// listBCE compiles package dir (relative to the repository) with the
// compiler's bounds-check debugging on and maps each report to the
// enclosing function and indexing expression.
func (c *Ctx) listBCE(pkg *packages.Package, goarch string) ([]BCESite, error) {
	dir := filepath.Dir(pkg.GoFiles[0])
	cmd := exec.Command("go", "build", "-gcflags=-d=ssa/check_bce/debug=1", ".")
	cmd.Dir = dir
	env := []string{}
	for _, kv := range os.Environ() {
		if strings.HasPrefix(kv, "GOFLAGS=") || strings.HasPrefix(kv, "GOWORK=") || strings.HasPrefix(kv, "GOARCH=") {
			continue
		}
		env = append(env, kv)
	}
	env = append(env, "GOFLAGS=-mod=mod", "GOWORK=off", "GOPROXY=off", "GOSUMDB=off", "GOTOOLCHAIN=local")
	if goarch != "" {
		env = append(env, "GOARCH="+goarch)
	}
	cmd.Env = env
	var out bytes.Buffer
	cmd.Stdout = &out
	cmd.Stderr = &out
	if err := cmd.Run(); err != nil {
		return nil, fmt.Errorf("go build for the bounds-check listing failed: %v\n%s", err, out.String())
	}
	var sites []BCESite
	sc := bufio.NewScanner(&out)
	for sc.Scan() {
		m := bceLine.FindStringSubmatch(sc.Text())
		if m == nil {
			continue
		}
		ln, _ := strconv.Atoi(m[2])
		col, _ := strconv.Atoi(m[3])
		s := BCESite{File: m[1], Line: ln, Col: col, Kind: m[4]}
		s.Func, s.Expr = locate(pkg, filepath.Join(dir, m[1]), ln, col)
		sites = append(sites, s)
	}
	sort.Slice(sites, func(i, j int) bool {
		if sites[i].File != sites[j].File {
			return sites[i].File < sites[j].File
		}
		if sites[i].Line != sites[j].Line {
			return sites[i].Line < sites[j].Line
		}
		return sites[i].Col < sites[j].Col
	})
	return sites, nil
}

// locate finds the function and the smallest index/slice expression at a
// position.
func locate(pkg *packages.Package, file string, line, col int) (fn, expr string) {
	for _, f := range pkg.Syntax {
		pos := pkg.Fset.Position(f.Pos())
		if filepath.Clean(pos.Filename) != filepath.Clean(file) {
			continue
		}
		tf := pkg.Fset.File(f.Pos())
		if line > tf.LineCount() {
			return "?", "?"
		}
		p := tf.LineStart(line) + token.Pos(col-1)
		var best ast.Node
		var enclosing string
		ast.Inspect(f, func(n ast.Node) bool {
			if n == nil {
				return false
			}
			if n.Pos() > p || n.End() < p {
				return false
			}
			switch x := n.(type) {
			case *ast.FuncDecl:
				enclosing = x.Name.Name
				if x.Recv != nil && len(x.Recv.List) > 0 {
					enclosing = "(" + types.ExprString(x.Recv.List[0].Type) + ")." + x.Name.Name
				}
			case *ast.IndexExpr, *ast.SliceExpr:
				best = n
			case *ast.CallExpr:
				// copy / append / conversions to array may carry checks too
				if best == nil {
					best = n
				}
			}
			return true
		})
		if best != nil {
			return enclosing, normExpr(pkg, best.(ast.Expr))
		}
		return enclosing, "?"
	}
	return "?", "?"
}

// DumpBCE prints the list (debugging / table maintenance).
func DumpBCE(c *Ctx) {
	for _, pk := range []*packages.Package{c.P.RootPkg, c.P.TestPkg} {
		sites, err := c.listBCE(pk, "")
		if err != nil {
			fmt.Println(err)
			return
		}
		for _, s := range sites {
			fmt.Printf("%s:%d:%d\t%s\t%s\t%s\n", s.File, s.Line, s.Col, s.Kind, s.Func, s.Expr)
		}
	}
}

// bceRow is one accepted unproven bounds check: why it cannot fail, and the
// guard (if any) the engine re-verifies on every path to it. Expressions are
// keyed in normalised form (local variables replaced by their types).
type bceRow struct {
	pkg            string // "" = mqtt
	fn, kind, expr string
	reason         string
	guard          func(c *Ctx, cms []cmp, site []ssa.Instruction) bool
}

func hasCmp(cms []cmp, f func(cmp) bool) bool {
	for _, cm := range cms {
		if f(cm) || f(cm.swapped()) {
			return true
		}
	}
	return false
}

func lenOfLocal(v ssa.Value, typ string) bool {
	x, ok := builtinCall(v, "len")
	return ok && x.Type().String() == typ
}

// sameSlice: two values denote the same slice (same SSA value, or loads of
// the same local variable).
func sameSlice(a, b ssa.Value) bool {
	a, b = stripConv(a), stripConv(b)
	if a == b {
		return true
	}
	ua, ok1 := a.(*ssa.UnOp)
	ub, ok2 := b.(*ssa.UnOp)
	return ok1 && ok2 && ua.Op == token.MUL && ub.Op == token.MUL && ua.X == ub.X
}

// nonEmptyIndexed: every slice indexed at the site is known non-empty.
func nonEmptyIndexed(c *Ctx, cms []cmp, site []ssa.Instruction) bool {
	n := 0
	for _, ins := range site {
		ia, ok := ins.(*ssa.IndexAddr)
		if !ok {
			continue
		}
		n++
		if !hasCmp(cms, func(k cmp) bool {
			arg, isLen := builtinCall(k.X, "len")
			return isLen && sameSlice(arg, ia.X) && k.Op == token.NEQ && isK(k.Y, 0)
		}) {
			return false
		}
	}
	return n > 0
}

// guardExpand resolves a value through the phi choices of the path a guard
// is being verified on (set by pan1 before each call of a guard).
var guardExpand = func(v ssa.Value) ssa.Value { return v }

// peekWithin: every slicing of c.peek at the site, c.peek[lo:hi] or
// c.peek[lo:], lies behind a comparison that bounds exactly its upper end
// (hi, or lo when hi is absent) plus extra by len(c.peek) — the same value,
// not just any comparison with the length.
func peekWithin(extra int64) func(c *Ctx, cms []cmp, site []ssa.Instruction) bool {
	return func(c *Ctx, cms []cmp, site []ssa.Instruction) bool {
		n := 0
		for _, ins := range site {
			sl, ok := ins.(*ssa.Slice)
			if !ok || roleKey(sl.X) != "Client.peek" {
				continue
			}
			base := sl.High
			if base == nil {
				base = sl.Low
			}
			if base == nil {
				continue
			}
			n++
			base = guardExpand(stripConv(base))
			if !hasCmp(cms, func(k cmp) bool {
				if !lenOf(k.Y, "Client.peek") || (k.Op != token.LEQ && k.Op != token.LSS && k.Op != token.EQL) {
					return false
				}
				x := guardExpand(stripConv(k.X))
				if extra == 0 {
					return sameValue(x, base)
				}
				bo, ok := x.(*ssa.BinOp)
				return ok && bo.Op == token.ADD && isK(bo.Y, extra) && sameValue(guardExpand(stripConv(bo.X)), base)
			}) {
				return false
			}
		}
		return n > 0
	}
}

func loopLSS(c *Ctx, cms []cmp, _ []ssa.Instruction) bool {
	return hasCmp(cms, func(k cmp) bool { return lenOfLocal(k.Y, "[]uint") && k.Op == token.LSS })
}

var bceTable = []bceRow{
	{pkg: "mqtttest", fn: "NewPublishMock", kind: "IsInBounds", expr: "‹[]Transfer›[‹uint64›]", reason: "behind i >= uint64(len(want)) ⇒ return; only unproven with a 32-bit int (GOARCH=386); MCK-2 re-verifies the guard on every path"},
	{pkg: "mqtttest", fn: "NewReadSlicesMock", kind: "IsInBounds", expr: "‹[]Transfer›[‹uint64›]", reason: "behind i >= uint64(len(want)) ⇒ return; only unproven with a 32-bit int; MCK-2 re-verifies the guard"},
	{pkg: "mqtttest", fn: "newSubscribeMock", kind: "IsInBounds", expr: "‹[]Filter›[‹uint64›]", reason: "behind i >= uint64(len(want)) ⇒ return; only unproven with a 32-bit int; MCK-2 re-verifies the guard"},
	{fn: "writeTo", kind: "IsSliceInBounds", expr: "‹[]byte›[‹int›:]", reason: "the count returned by conn.Write(p): 0 ≤ n ≤ len(p) by the io.Writer contract (trusted)"},
	{fn: "(*Client).resend", kind: "IsInBounds", expr: "‹[]byte›[0]", reason: "the loaded record is non-nil (tested) and every record saved under an outbound key is a PUBLISH or PUBREL of at least 4 bytes (OWN-4 lists the Save sites, COD-8 the integrity check)"},
	{fn: "(*Client).handshake", kind: "IsInBounds", expr: "‹[]byte›[3]", reason: "behind err == nil of Peek(4): bufio returns 4 bytes with a nil error"},
	{fn: "(*Client).readSlices", kind: "IsSliceInBounds", expr: "‹*Client›.pendingAck[2:4]", reason: "pendingAck is non-empty (tested) and only ever left holding 4-byte packets (checked on every path)",
		guard: func(c *Ctx, cms []cmp, _ []ssa.Instruction) bool {
			return hasCmp(cms, func(k cmp) bool { return lenOf(k.X, "Client.pendingAck") && k.Op == token.NEQ && isK(k.Y, 0) })
		}},
	{fn: "(*Client).onPUBLISH", kind: "IsSliceInBounds", expr: "‹*Client›.peek[2:‹int›]", reason: "behind i ≤ len(c.peek); i = 2 + uint16 ≥ 2", guard: peekWithin(0)},
	{fn: "(*Client).onPUBLISH", kind: "IsInBounds", expr: "binary.BigEndian.Uint16(‹*Client›.peek[‹int›:])", reason: "behind len(c.peek) ≥ i+2", guard: peekWithin(2)},
	{fn: "(*Client).onPUBLISH", kind: "IsInBounds", expr: "uint(binary.BigEndian.Uint16(‹*Client›.peek[‹int›:]))", reason: "behind len(c.peek) ≥ i+2", guard: peekWithin(2)},
	{fn: "(*Client).onPUBLISH", kind: "IsSliceInBounds", expr: "‹*Client›.peek[‹int›:]", reason: "i ≤ len(c.peek) from the topic test, respectively i+2 ≤ len(c.peek) before i += 2", guard: peekWithin(0)},
	{fn: "(*volatile).Save", kind: "IsSliceInBounds", expr: "‹[]byte›[‹int›:]", reason: "the offset is the sum of the lengths copied so far and the destination was made with the sum of all lengths"},
	{fn: "(*Client).applySeqNoAndEnqueue", kind: "IsInBounds", expr: "‹Buffers›[0]", reason: "submitPersisted is only called with the two-element net.Buffers of publishPacket (checked: every call site)"},
	{fn: "(*Client).applySeqNoAndEnqueue", kind: "IsSliceInBounds", expr: "‹Buffers›[0][len(‹Buffers›[0]) - 2:]", reason: "the first buffer is the header built by publishPacket with a packet identifier: it ends in the two identifier bytes, so len-2 ≥ 0"},
	{fn: "AdoptSession", kind: "IsInBounds", expr: "‹[]byte›[0]", reason: "the decoded packet of an outbound or marker key: every Save site stores at least one packet byte; the only possibly empty record (client identifier) is skipped before"},
	{fn: "AdoptSession", kind: "IsInBounds", expr: "‹[]uint›[‹int›]", reason: "inside the less function of sort.Slice, which is called with 0 ≤ i,j < len (trusted)"},
	{fn: "AdoptSession", kind: "IsInBounds", expr: "‹[]uint›[0]", reason: "the indexed list is tested non-empty on every path to the access", guard: nonEmptyIndexed},
	{fn: "AdoptSession", kind: "IsInBounds", expr: "‹[]uint›[len(‹[]uint›) - 1]", reason: "the indexed list is tested non-empty on every path to the access", guard: nonEmptyIndexed},
	{fn: "cleanSequence", kind: "IsInBounds", expr: "‹[]uint›[‹int›]", reason: "loop condition i < len(keys)", guard: loopLSS},
	{fn: "cleanSequence", kind: "IsInBounds", expr: "‹[]uint›[‹int› - 1]", reason: "i starts at 1 and only grows; i < len(keys)", guard: loopLSS},
}

func (c *Ctx) pan1() {
	arches := []string{""}
	if c.Tier == "thorough" {
		arches = append(arches, "386")
	}
	total := 0
	for _, arch := range arches {
		for _, pk := range []*packages.Package{c.P.RootPkg, c.P.TestPkg} {
			sites, err := c.listBCE(pk, arch)
			if err != nil {
				c.S.Unknown("PAN-1", "PAN-1|listing|"+pk.PkgPath+"|"+arch, "", "", err.Error())
				continue
			}
			pkgName := pk.Name
			for _, s := range sites {
				if i := strings.Index(s.Expr, "("); i > 0 {
					hn := s.Expr[:i]
					if pkgName == "mqtttest" {
						hn = "mqtttest." + hn
					}
					if !strings.ContainsAny(s.Expr[:i], ".[‹") && !knownFuncs[hn] && s.Kind != "" {
						// the compiler inlined a helper and reports its bounds check at the
						// call site as well; the report inside the helper is the one judged
						if _, isConv := map[string]bool{"uint": true, "int": true, "byte": true, "string": true, "uint16": true, "uint64": true}[s.Expr[:i]]; !isConv {
							continue
						}
					}
				}
				total++
				key := "PAN-1|" + pkgName + "|" + s.Func + "|" + s.Kind + "|" + s.Expr
				if arch != "" {
					key += "|GOARCH=" + arch
				}
				pos := fmt.Sprintf("%s:%d", s.File, s.Line)
				var row *bceRow
				helperName := s.Func
				if pkgName == "mqtttest" {
					helperName = "mqtttest." + s.Func
				}
				isHelper := !knownFuncs[helperName] && s.Func != "?"
				for i := range bceTable {
					r := &bceTable[i]
					rp := r.pkg
					if rp == "" {
						rp = "mqtt"
					}
					if pkgName == rp && r.kind == s.Kind && r.expr == s.Expr && (r.fn == s.Func || isHelper) {
						row = r
						if r.fn == s.Func {
							break
						}
					}
				}
				if row == nil && isHelper {
					hf := c.P.Func(s.Func)
					if pkgName == "mqtttest" {
						hf = c.P.TestFunc(s.Func)
					}
					if hf != nil {
						if ok, why := c.helperPrecondition(hf, s.Line); ok {
							c.S.OK("PAN-1", key, pos, s.Func, "helper introduced later: "+why, true)
							continue
						}
					}
				}
				if row == nil {
					c.S.Unknown("PAN-1", key, pos, s.Func, "the compiler cannot prove this bounds check and no reasoned table row covers it: a new index or slice expression that may panic on hostile or damaged input")
					continue
				}
				if row.guard == nil || arch != "" || row.fn != s.Func {
					why := row.reason
					if row.fn != s.Func {
						why += " (the access now lives in helper " + s.Func + ", extracted from " + row.fn + ")"
					}
					c.S.OK("PAN-1", key, pos, s.Func, why, false)
					continue
				}
				// re-verify the guard on every entry path to the line
				fn := c.P.Func(s.Func)
				if fn == nil {
					c.S.Unknown("PAN-1", key, pos, s.Func, "function not resolved")
					continue
				}
				okAll, seen := true, 0
				var failP *pathx.Path
				failI := 0
				for _, p := range c.Paths("PAN-1", fn) {
					for j, b := range p.Blocks {
						if !blockHasIndexOnLine(c, b, s.Line) {
							continue
						}
						seen++
						// facts established up to the end of the block's entry; loop headers carry their own condition
						upto := p.BlockEv[j]
						choice := phiChoices(p, fn)
						guardExpand = func(v ssa.Value) ssa.Value {
							for d := 0; d < 20; d++ {
								phi, isPhi := v.(*ssa.Phi)
								if !isPhi || choice[phi] == nil {
									break
								}
								v = stripConv(choice[phi])
							}
							return v
						}
						if !row.guard(c, assumed(p, 0, upto), indexInstrsOnLine(c, b, s.Line)) {
							okAll = false
							failP, failI = p, upto
						}
					}
				}
				switch {
				case seen == 0:
					c.S.Unknown("PAN-1", key, pos, s.Func, "the indexing instruction was not found on any path")
				case okAll:
					c.S.OK("PAN-1", key, pos, s.Func, row.reason+fmt.Sprintf(" — guard re-verified on %d path visits", seen), true)
				default:
					c.S.Bad("PAN-1", key, pos, s.Func, "the guard this unproven bounds check relies on ("+row.reason+") is not established on every path to it: the access can panic", c.Trace(failP, failI))
				}
			}
		}
	}
	c.S.Count("bce_unproven", total)
	c.S.Floor("PAN-1", "unproven bounds checks matched against the table", total, 12)
	// supporting facts of the table
	// (a) every append to pendingAck has four literal elements
	a := c.acc("PAN-1", nil, "pendingAck-only-filled-with-4-byte-packets")
	a.fn = "table-support"
	for _, fn := range c.funcs {
		for _, p := range c.Paths("PAN-1", fn) {
			// what the buffer holds when the path ends (intermediate states of a
			// packet composed in two steps do not matter)
			sts := pendingAckStores(p)
			if len(sts) == 0 {
				continue
			}
			st := sts[len(sts)-1]
			switch st.kind {
			case "append":
				if len(st.elems) == 4 {
					a.pass()
				} else {
					a.fail(p, st.idx, "pendingAck is left with %d bytes (or unknown content): readSlices slices [2:4] of it", len(st.elems))
				}
			case "other":
				a.fail(p, st.idx, "pendingAck is assigned something that is not a 4-byte packet or a truncation")
			}
		}
	}
	a.done(4, "all appends are four-element literals")
	// (b) submitPersisted call sites pass publishPacket results
	if sp := c.P.Func("(*Client).submitPersisted"); sp != nil {
		b := c.acc("PAN-1", sp, "callers-pass-publishPacket-buffers")
		c.eachInstr(func(fn *ssa.Function, ins ssa.Instruction) {
			call, ok := ins.(*ssa.Call)
			if !ok || call.Call.StaticCallee() != sp {
				return
			}
			arg := call.Call.Args[1]
			if ex, ok := arg.(*ssa.Extract); ok && ex.Index == 0 {
				if cc, ok := ex.Tuple.(*ssa.Call); ok && cc.Call.StaticCallee() != nil && cc.Call.StaticCallee().Name() == "publishPacket" {
					b.pass()
					return
				}
			}
			b.failAt(c.P.Pos(ins.Pos()), "%s passes %s to submitPersisted, not a publishPacket result", load.FuncName(fn), Expr(arg))
		})
		b.done(1, "every call site passes the first result of publishPacket")
	}
}

func blockHasIndexOnLine(c *Ctx, b *ssa.BasicBlock, line int) bool {
	for _, ins := range b.Instrs {
		switch x := ins.(type) {
		case *ssa.IndexAddr, *ssa.Slice, *ssa.Index, *ssa.Call:
			if ins.Pos().IsValid() && c.P.Fset.Position(ins.Pos()).Line == line {
				if call, isCall := ins.(*ssa.Call); isCall {
					for _, a := range call.Call.Args {
						if sl, ok := a.(*ssa.Slice); ok && c.P.Fset.Position(sl.Pos()).Line != line {
							return true
						}
					}
					continue
				}
				_ = x
				return true
			}
		}
	}
	return false
}

// normExpr renders an expression with every local variable (parameters and
// receivers included) replaced by its type, so that renaming a variable does
// not change the key: c.peek[2:i] becomes ‹*Client›.peek[2:‹int›].
func normExpr(pkg *packages.Package, e ast.Expr) string {
	defs := singleDefs(pkg)
	depth := 0
	var render func(n ast.Expr) string
	render = func(n ast.Expr) string {
		switch x := n.(type) {
		case *ast.Ident:
			if obj, ok := pkg.TypesInfo.Uses[x].(*types.Var); ok && !obj.IsField() && obj.Parent() != pkg.Types.Scope() && obj.Pkg() == pkg.Types {
				// a local that is defined once, by a plain expression, and never
				// assigned again reads as that expression: n := len(x); x[n-1]
				// is x[len(x)-1]
				if d, ok := defs[obj]; ok && depth < 3 {
					depth++
					s := render(d)
					depth--
					if _, isBin := d.(*ast.BinaryExpr); isBin {
						s = "(" + s + ")"
					}
					return s
				}
				return "‹" + types.TypeString(obj.Type(), func(*types.Package) string { return "" }) + "›"
			}
			// a named integer constant reads as its value (packet[connackReturnIndex] is packet[3])
			if k, ok := pkg.TypesInfo.Uses[x].(*types.Const); ok && k.Pkg() == pkg.Types {
				if b, isB := k.Type().Underlying().(*types.Basic); isB && b.Info()&types.IsInteger != 0 {
					return k.Val().ExactString()
				}
			}
			return x.Name
		case *ast.SelectorExpr:
			// a field moved into a struct introduced later reads under the name
			// the table knows: c.rx.pendingAck is c.pendingAck
			if sel := pkg.TypesInfo.Selections[x]; sel != nil && sel.Kind() == types.FieldVal {
				t := sel.Recv()
				if pt, ok := t.(*types.Pointer); ok {
					t = pt.Elem()
				}
				if nt, ok := t.(*types.Named); ok {
					if al, moved := pathx.FieldAlias[nt.Obj().Name()+"."+x.Sel.Name]; moved {
						if holder, isSel := x.X.(*ast.SelectorExpr); isSel {
							return render(holder.X) + "." + al[1]
						}
					}
				}
			}
			return render(x.X) + "." + x.Sel.Name
		case *ast.IndexExpr:
			return render(x.X) + "[" + bareParens(render(x.Index)) + "]"
		case *ast.SliceExpr:
			s := render(x.X) + "["
			if x.Low != nil {
				s += bareParens(render(x.Low))
			}
			s += ":"
			if x.High != nil {
				s += bareParens(render(x.High))
			}
			if x.Max != nil {
				s += ":" + bareParens(render(x.Max))
			}
			return s + "]"
		case *ast.CallExpr:
			var as []string
			for _, a := range x.Args {
				as = append(as, render(a))
			}
			return render(x.Fun) + "(" + strings.Join(as, ", ") + ")"
		case *ast.BinaryExpr:
			return render(x.X) + " " + x.Op.String() + " " + render(x.Y)
		case *ast.ParenExpr:
			return "(" + render(x.X) + ")"
		case *ast.UnaryExpr:
			return x.Op.String() + render(x.X)
		case *ast.StarExpr:
			return "*" + render(x.X)
		case *ast.BasicLit:
			return x.Value
		}
		return types.ExprString(n)
	}
	return render(e)
}

func indexInstrsOnLine(c *Ctx, b *ssa.BasicBlock, line int) []ssa.Instruction {
	var out []ssa.Instruction
	for _, ins := range b.Instrs {
		switch x := ins.(type) {
		case *ssa.IndexAddr, *ssa.Slice, *ssa.Index:
			if ins.Pos().IsValid() && c.P.Fset.Position(ins.Pos()).Line == line {
				out = append(out, ins)
			}
		case *ssa.Call:
			// a slice taken into a local on an earlier line and handed to an
			// inlined accessor here (binary.BigEndian.Uint16(rest)): the bounds
			// check reported on this line is about that slice
			if ins.Pos().IsValid() && c.P.Fset.Position(ins.Pos()).Line == line {
				for _, a := range x.Call.Args {
					if sl, ok := a.(*ssa.Slice); ok && c.P.Fset.Position(sl.Pos()).Line != line {
						out = append(out, sl)
					}
				}
			}
		}
	}
	return out
}

// helperPrecondition decides an unproven bounds check inside a helper
// introduced after the table was written, when the access is on a parameter
// with constant offsets (p[k], p[:k], p[len(p)-k:] …): the length the access
// needs must be established, by comparisons, on every path to every call of
// the helper. (Inside the function the code came from the compiler proved the
// check from the very same comparisons; extracting it hid them.)
func (c *Ctx) helperPrecondition(fn *ssa.Function, line int) (ok bool, why string) {
	var need int64 = -1
	var param *ssa.Parameter
	lenOff := func(v ssa.Value, p *ssa.Parameter) (int64, bool) { // len(p) - k
		bo, isB := stripConv(v).(*ssa.BinOp)
		if !isB || bo.Op != token.SUB {
			return 0, false
		}
		if arg, isLen := builtinCall(bo.X, "len"); !isLen || arg != ssa.Value(p) {
			return 0, false
		}
		return intConst(bo.Y)
	}
	bound := func(v ssa.Value, p *ssa.Parameter, index bool) (int64, bool) {
		if v == nil {
			return 0, true
		}
		if k, isK := intConst(v); isK && k >= 0 {
			if index {
				return k + 1, true
			}
			return k, true
		}
		if k, isOff := lenOff(v, p); isOff && k >= 0 {
			if index && k == 0 {
				return 0, false
			}
			return k, true
		}
		return 0, false
	}
	n := 0
	for _, b := range fn.Blocks {
		for _, ins := range indexInstrsOnLine(c, b, line) {
			var x ssa.Value
			var parts []ssa.Value
			index := false
			switch v := ins.(type) {
			case *ssa.Slice:
				x, parts = v.X, []ssa.Value{v.Low, v.High}
			case *ssa.IndexAddr:
				x, parts, index = v.X, []ssa.Value{v.Index}, true
			case *ssa.Index:
				x, parts, index = v.X, []ssa.Value{v.Index}, true
			}
			p, isParam := x.(*ssa.Parameter)
			if !isParam {
				return false, "the access is not on a parameter"
			}
			// p[i] with i running below len(q) for another parameter q: needs len(p) ≥ len(q)
			if index && len(parts) == 1 {
				if _, isConst := intConst(parts[0]); !isConst {
					if q := c.boundingParam(fn, b, parts[0]); q != nil && q != p {
						return c.lenRelationAtCalls(fn, p, q)
					}
				}
			}
			if param != nil && param != p {
				return false, "accesses on several parameters share the line"
			}
			param = p
			for _, part := range parts {
				k, okB := bound(part, p, index)
				if !okB {
					return false, "the offset is not a constant or len(p)-constant"
				}
				if k > need {
					need = k
				}
			}
			n++
		}
	}
	if n == 0 || param == nil {
		return false, "the indexing instruction was not found"
	}
	pi := -1
	for i, p := range fn.Params {
		if p == param {
			pi = i
		}
	}
	sites := 0
	for _, g := range c.analysed() {
		calls := false
		for _, callee := range c.staticCallees(g) {
			if callee == fn {
				calls = true
			}
		}
		if !calls {
			continue
		}
		for _, p := range c.Paths("PAN-1", g) {
			for i := range p.Events {
				e := &p.Events[i]
				if e.Kind != pathx.KCall || e.Callee != fn || e.Depth != 0 || pi >= len(e.Args) {
					continue
				}
				sites++
				arg := e.Args[pi]
				var raw ssa.Value
				if e.Call != nil && pi < len(e.Call.Args) {
					raw = e.Call.Args[pi]
				}
				have := false
				for _, cm := range assumed(p, 0, i) {
					for _, k := range []cmp{cm, cm.swapped()} {
						a, isLen := builtinCall(k.X, "len")
						if !isLen || (a != arg && a != raw) {
							continue
						}
						y, isK := intConst(k.Y)
						if !isK {
							continue
						}
						switch k.Op {
						case token.GEQ, token.EQL:
							have = have || y >= need
						case token.GTR:
							have = have || y+1 >= need
						}
					}
				}
				if !have {
					return false, fmt.Sprintf("a call from %s reaches the helper on a path that has not established len ≥ %d", load.FuncName(g), need)
				}
			}
		}
	}
	if sites == 0 {
		return false, "no call of the helper was found on any path"
	}
	return true, fmt.Sprintf("the access needs len ≥ %d of its parameter; every one of the %d path visits of a call has established that by comparison before the call", need, sites)
}

// boundingParam: on every path of fn to block b, the index idx is known to be
// below len(q) for one and the same parameter q.
func (c *Ctx) boundingParam(fn *ssa.Function, b *ssa.BasicBlock, idx ssa.Value) *ssa.Parameter {
	var q *ssa.Parameter
	seen := false
	for _, p := range c.Paths("PAN-1", fn) {
		for j, pb := range p.Blocks {
			if pb != b {
				continue
			}
			seen = true
			var found *ssa.Parameter
			for _, cm := range assumed(p, 0, p.BlockEv[j]) {
				for _, k := range []cmp{cm, cm.swapped()} {
					if k.Op != token.LSS || !sameValue(k.X, idx) {
						continue
					}
					if arg, isLen := builtinCall(k.Y, "len"); isLen {
						if pr, ok := arg.(*ssa.Parameter); ok {
							found = pr
						}
					}
				}
			}
			if found == nil || q != nil && q != found {
				return nil
			}
			q = found
		}
	}
	if !seen {
		return nil
	}
	return q
}

// lenRelationAtCalls: every call of fn has established len(arg p) ≥ len(arg q).
func (c *Ctx) lenRelationAtCalls(fn *ssa.Function, p, q *ssa.Parameter) (bool, string) {
	pi, qi := -1, -1
	for i, x := range fn.Params {
		if x == p {
			pi = i
		}
		if x == q {
			qi = i
		}
	}
	sites := 0
	for _, g := range c.analysed() {
		calls := false
		for _, callee := range c.staticCallees(g) {
			if callee == fn {
				calls = true
			}
		}
		if !calls {
			continue
		}
		for _, path := range c.Paths("PAN-1", g) {
			for i := range path.Events {
				e := &path.Events[i]
				if e.Kind != pathx.KCall || e.Callee != fn || e.Depth != 0 || pi >= len(e.Args) || qi >= len(e.Args) {
					continue
				}
				sites++
				ap, aq := e.Args[pi], e.Args[qi]
				have := false
				for _, cm := range assumed(path, 0, i) {
					for _, k := range []cmp{cm, cm.swapped()} {
						x, okx := builtinCall(k.X, "len")
						y, oky := builtinCall(k.Y, "len")
						if !okx || !oky || !sameValue(x, ap) || !sameValue(y, aq) {
							continue
						}
						if k.Op == token.EQL || k.Op == token.GEQ || k.Op == token.GTR {
							have = true
						}
					}
				}
				if !have {
					return false, fmt.Sprintf("a call from %s reaches the helper without len(%s) ≥ len(%s) established", load.FuncName(g), p.Name(), q.Name())
				}
			}
		}
	}
	if sites == 0 {
		return false, "no call of the helper was found on any path"
	}
	return true, fmt.Sprintf("%s is indexed below len(%s); every one of the %d path visits of a call has established len(%s) ≥ len(%s) before the call", p.Name(), q.Name(), sites, p.Name(), q.Name())
}

var singleDefCache = map[*packages.Package]map[*types.Var]ast.Expr{}

// singleDefs: the local variables of pkg that are defined exactly once (x := e
// or var x = e), by an expression without calls other than len, cap and
// conversions, and are never assigned, incremented, ranged over or
// address-taken afterwards.
func singleDefs(pkg *packages.Package) map[*types.Var]ast.Expr {
	if m, ok := singleDefCache[pkg]; ok {
		return m
	}
	def := map[*types.Var]ast.Expr{}
	bad := map[*types.Var]bool{}
	plain := func(e ast.Expr) bool {
		ok := true
		ast.Inspect(e, func(n ast.Node) bool {
			switch x := n.(type) {
			case *ast.CallExpr:
				if id, isID := x.Fun.(*ast.Ident); isID && (id.Name == "len" || id.Name == "cap") {
					return true
				}
				if tv, has := pkg.TypesInfo.Types[x.Fun]; has && tv.IsType() {
					return true
				}
				ok = false
			case *ast.FuncLit, *ast.CompositeLit:
				ok = false
			case *ast.UnaryExpr:
				if x.Op == token.ARROW || x.Op == token.AND {
					ok = false
				}
			}
			return ok
		})
		return ok
	}
	varOf := func(e ast.Expr) *types.Var {
		id, ok := e.(*ast.Ident)
		if !ok {
			return nil
		}
		if v, ok := pkg.TypesInfo.Defs[id].(*types.Var); ok {
			return v
		}
		if v, ok := pkg.TypesInfo.Uses[id].(*types.Var); ok {
			return v
		}
		return nil
	}
	for _, f := range pkg.Syntax {
		ast.Inspect(f, func(n ast.Node) bool {
			switch x := n.(type) {
			case *ast.AssignStmt:
				for i, l := range x.Lhs {
					v := varOf(l)
					if v == nil {
						continue
					}
					id := l.(*ast.Ident)
					_, isDef := pkg.TypesInfo.Defs[id].(*types.Var)
					if x.Tok == token.DEFINE && isDef && len(x.Lhs) == len(x.Rhs) && plain(x.Rhs[i]) {
						if _, dup := def[v]; dup {
							bad[v] = true
						}
						def[v] = x.Rhs[i]
					} else {
						bad[v] = true
					}
				}
			case *ast.ValueSpec:
				for i, id := range x.Names {
					if v, ok := pkg.TypesInfo.Defs[id].(*types.Var); ok {
						if len(x.Values) == len(x.Names) && plain(x.Values[i]) {
							def[v] = x.Values[i]
						} else {
							bad[v] = true
						}
					}
				}
			case *ast.IncDecStmt:
				if v := varOf(x.X); v != nil {
					bad[v] = true
				}
			case *ast.RangeStmt:
				for _, e := range []ast.Expr{x.Key, x.Value} {
					if e != nil {
						if v := varOf(e); v != nil {
							bad[v] = true
						}
					}
				}
			case *ast.UnaryExpr:
				if x.Op == token.AND {
					if v := varOf(x.X); v != nil {
						bad[v] = true
					}
				}
			}
			return true
		})
	}
	for v := range bad {
		delete(def, v)
	}
	// (a definition may read a variable that is reassigned later: the text is
	// only the key that finds the table row — the guard of the row is verified
	// on the SSA values, which are the ones at the definition)
	for v := range def {
		if v.Parent() == pkg.Types.Scope() {
			delete(def, v)
		}
	}
	singleDefCache[pkg] = def
	return def
}

// bareParens drops one pair of parentheses that encloses the whole text.
func bareParens(s string) string {
	if len(s) < 2 || s[0] != '(' || s[len(s)-1] != ')' {
		return s
	}
	d := 0
	for i, r := range s {
		switch r {
		case '(':
			d++
		case ')':
			d--
			if d == 0 && i != len(s)-1 {
				return s
			}
		}
	}
	return s[1 : len(s)-1]
}
