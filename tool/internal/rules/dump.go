package rules

import (
	"fmt"
	"io"
	"strings"

	"golang.org/x/tools/go/ssa"

	"mqttverif/internal/load"
	"mqttverif/internal/pathx"
)

// DescribeEvent renders one event for reports.
func DescribeEvent(p *load.Program, e *pathx.Event) string {
	pos := "-"
	if e.Instr != nil {
		pos = p.Pos(e.Instr.Pos())
	}
	ind := strings.Repeat("  ", e.Depth)
	switch e.Kind {
	case pathx.KCall, pathx.KGo, pathx.KDefer:
		d := ""
		if e.Deferred {
			d = " (deferred)"
		}
		return fmt.Sprintf("%s%s %s%s @%s", ind, e.Kind, calleeName(e), d, pos)
	case pathx.KRecv, pathx.KSend, pathx.KClose:
		s := ""
		if e.InSelect {
			s = " [select]"
		}
		if e.CommaOk {
			s += " [,ok]"
		}
		return fmt.Sprintf("%s%s %s%s @%s", ind, e.Kind, chanName(e.Chan), s, pos)
	case pathx.KStore:
		return fmt.Sprintf("%sstore %s = %s @%s", ind, addrName(e.Addr), valName(e.Val), pos)
	case pathx.KLoad:
		return fmt.Sprintf("%sload %s @%s", ind, addrName(e.Addr), pos)
	case pathx.KAssume:
		var as []string
		for _, a := range e.Atoms {
			as = append(as, atomString(a))
		}
		return fmt.Sprintf("%sassume %s @%s", ind, strings.Join(as, ","), pos)
	case pathx.KReturn:
		var rs []string
		for _, r := range e.Results {
			rs = append(rs, valName(r))
		}
		return fmt.Sprintf("%sreturn %s @%s", ind, strings.Join(rs, ", "), pos)
	case pathx.KMapUpdate:
		return fmt.Sprintf("%smapupdate %s[%s] @%s", ind, chanName(e.Addr), valName(e.Chan), pos)
	case pathx.KLookup:
		return fmt.Sprintf("%slookup %s[%s] @%s", ind, chanName(e.Addr), valName(e.Chan), pos)
	case pathx.KLoopBack:
		return fmt.Sprintf("%sloopback → block %d", ind, e.Target.Index)
	}
	return fmt.Sprintf("%s%s @%s", ind, e.Kind, pos)
}

func atomString(a pathx.Atom) string {
	n := valName(a.V)
	switch a.Rel {
	case pathx.RNil:
		return n + "==nil"
	case pathx.RNotNil:
		return n + "!=nil"
	case pathx.RTrue:
		return n
	case pathx.RFalse:
		return "!" + n
	case pathx.REq:
		return n + "==" + a.C
	case pathx.RNe:
		return n + "!=" + a.C
	}
	return n
}

func calleeName(e *pathx.Event) string {
	if e.Method != nil {
		return e.Method.FullName()
	}
	if e.Callee != nil {
		return load.FuncName(e.Callee)
	}
	if e.Call != nil {
		if b, ok := e.Call.Value.(*ssa.Builtin); ok {
			return "builtin " + b.Name()
		}
		return "dynamic " + e.Call.Value.Name()
	}
	return "?"
}

func chanName(v ssa.Value) string {
	if v == nil {
		return "?"
	}
	if r := pathx.RoleOfValue(v); r.Path != "" {
		return r.Path
	}
	return valName(v)
}

func addrName(v ssa.Value) string {
	if v == nil {
		return "?"
	}
	if r := pathx.RoleOfAddr(v); r.Path != "" {
		return r.Path
	}
	return valName(v)
}

func valName(v ssa.Value) string {
	if v == nil {
		return "<nil>"
	}
	switch x := v.(type) {
	case *ssa.Const:
		return x.String()
	case *ssa.Parameter:
		return "param:" + x.Name()
	case *ssa.FreeVar:
		return "free:" + x.Name()
	case *ssa.Global:
		return "global:" + x.Name()
	case *ssa.Function:
		return "func:" + x.Name()
	case *ssa.MakeInterface:
		return "iface(" + valName(x.X) + ")"
	case *ssa.Call:
		n := "?"
		if x.Call.Method != nil {
			n = x.Call.Method.Name()
		} else if f := x.Call.StaticCallee(); f != nil {
			n = f.Name()
		}
		return x.Name() + ":" + n + "()"
	case *ssa.Extract:
		return fmt.Sprintf("%s#%d", valName(x.Tuple), x.Index)
	case *ssa.UnOp:
		if r := pathx.RoleOfValue(x); r.Path != "" {
			return x.Name() + ":" + r.Path
		}
	}
	return v.Name()
}

// DumpPaths prints all segments of fn.
func DumpPaths(w io.Writer, p *load.Program, fn *ssa.Function, cfg pathx.Config) error {
	n := 0
	st, err := pathx.Enumerate(fn, cfg, func(pa *pathx.Path) {
		n++
		fmt.Fprintf(w, "--- segment %d start=block%d end=%s\n", n, pa.Start.Index, pa.End)
		for i := range pa.Events {
			fmt.Fprintln(w, DescribeEvent(p, &pa.Events[i]))
		}
	})
	fmt.Fprintf(w, "=== %s: %d segments, %d pruned branches, %d loop headers\n", load.FuncName(fn), st.Paths, st.Pruned, st.Headers)
	return err
}
