package rules

import (
	"strings"

	"golang.org/x/tools/go/ssa"

	"mqttverif/internal/pathx"
)

// ---- TOK-17: ErrDown and ErrClosed from a writer mean what the write token says ----
//
// The four writers and lockWrite learn the state of the connection from the
// value they take out of writeSem: a closed channel is ErrClosed, connDown is
// ErrDown, connPending is a wait (or ErrDown for the variants that must not
// wait), anything else is the connection. A writer that answers ErrDown
// without having taken the token — a non-blocking probe that finds another
// goroutine writing — tells a persisted publish that the client is down while
// it is online: the packet is left to a resend that only the next connection
// loss will trigger, and everything published behind it queues up as backlog.
// On every path of these functions that returns the ErrDown or ErrClosed
// sentinel itself: the path has received from writeSem, and for ErrDown has
// found the value equal to a connection signal.

func init() {
	register("TOK-17", []string{"TOK-17"}, func(c *Ctx, _ map[string]bool) { c.tok17() })
}

func (c *Ctx) tok17() {
	n := 0
	for _, name := range []string{"(*Client).lockWrite", "(*Client).write", "(*Client).writeNoWait", "(*Client).writeBuffers", "(*Client).writeBuffersNoWait"} {
		fn := c.Fn("TOK-17", name)
		if fn == nil {
			continue
		}
		a := c.acc("TOK-17", fn, "ErrDown/ErrClosed-only-as-read-from-the-write-token")
		for _, p := range c.Paths("TOK-17", fn) {
			if p.End != pathx.KReturn {
				continue
			}
			last := len(p.Events) - 1
			rs := p.Events[last].Results
			if len(rs) == 0 {
				continue
			}
			u, ok := stripConv(rs[len(rs)-1]).(*ssa.UnOp)
			if !ok {
				continue
			}
			g, ok := u.X.(*ssa.Global)
			if !ok || (g.Name() != "ErrDown" && g.Name() != "ErrClosed") {
				continue
			}
			// (the sentinel may come out of lockWrite expanded in place: judged there)
			if lf := p.Events[last].Fn; lf != nil && lf != fn {
				continue
			}
			n++
			took, signal := false, false
			for i := range p.Events {
				e := &p.Events[i]
				if e.Kind != pathx.KRecv || tokenOf(e.Chan) != tkWrite {
					continue
				}
				took = true
				v := e.Result
				if e.CommaOk {
					v = pathx.ResultAt(e.Result, 0)
				}
				if eq := equalTo(p, v, last); strings.HasPrefix(eq, "connSignal:") {
					signal = true
				}
				// (the value may travel through the select's result tuple: any signal found equal behind the receive)
				for j := i + 1; j < last; j++ {
					if ev := &p.Events[j]; ev.Kind == pathx.KAssume {
						for _, at := range ev.Atoms {
							if at.Rel == pathx.REq && strings.HasPrefix(at.C, "connSignal:") {
								signal = true
							}
						}
					}
				}
				if e.OkVal != nil {
					if rel, _, k := p.Known(e.OkVal, i, last); k && rel == pathx.RFalse {
						signal = true // closed: the zero value
					}
				}
			}
			switch {
			case !took && g.Name() == "ErrDown":
				a.fail(p, last, "%s returns ErrDown on a path that has not taken the write token: \"down\" is what writeSem says, not that another goroutine happens to be writing — a persisted publish is left to a resend that needs the next connection loss, and every publish behind it queues as backlog", name)
			case g.Name() == "ErrDown" && !signal:
				a.fail(p, last, "%s returns ErrDown although the value taken from writeSem was not found to be a connection signal", name)
			default:
				a.pass()
			}
		}
		min := 1
		if name == "(*Client).write" || name == "(*Client).writeBuffers" {
			min = 0 // they hand on what lockWrite returned
		}
		a.done(min, "every return of the sentinels follows a receive from writeSem (a signal value for ErrDown)")
	}
	c.S.Floor("TOK-17", "sentinel returns of the writers", n, 6)
}
