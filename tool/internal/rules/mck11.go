package rules

import (
	"go/types"

	"golang.org/x/tools/go/ssa"
)

// ---- MCK-11: the subscribe mocks compare filter sets element by element ----
//
// newSubscribeMock (behind NewSubscribeMock and NewUnsubscribeMock) puts the
// expectation's topics into a set, strikes out every filter of the invocation
// and reports what was not expected and what is missing. Every value involved
// is a string or a []string, so the wrong one compiles: a loop over the
// (empty) list of complaints instead of the invocation's filters never
// complains; a lookup with the mock's name instead of the loop element
// complains about everything. Decided for every function of mqtttest that
// looks something up in a set of strings:
//   - every lookup in, and delete from, the set is keyed by an element of the
//     function's own []string parameter (the filters of the invocation);
//   - every string that is appended to a list is such an element, or a key
//     taken from ranging over the set (what is still missing);
//   - the set is filled from a []string that is not that parameter (the
//     expectation), keyed by its elements.

func init() {
	register("MCK-11", []string{"MCK-11"}, func(c *Ctx, _ map[string]bool) { c.mck11() })
}

func isStringSet(t types.Type) bool {
	m, ok := t.Underlying().(*types.Map)
	if !ok {
		return false
	}
	b, ok := m.Key().Underlying().(*types.Basic)
	return ok && b.Kind() == types.String
}

func isStringSlice(t types.Type) bool {
	s, ok := t.Underlying().(*types.Slice)
	if !ok {
		return false
	}
	b, ok := s.Elem().Underlying().(*types.Basic)
	return ok && b.Kind() == types.String
}

// elemOf: v is a load of an element of a slice; the slice is returned.
func elemOf(v ssa.Value) ssa.Value {
	u, ok := stripConv(v).(*ssa.UnOp)
	if !ok {
		return nil
	}
	ia, ok := u.X.(*ssa.IndexAddr)
	if !ok {
		return nil
	}
	return ia.X
}

func (c *Ctx) mck11() {
	n := 0
	for _, f := range c.testFuncs() {
		var sets []ssa.Instruction
		for _, b := range f.Blocks {
			for _, ins := range b.Instrs {
				if lk, ok := ins.(*ssa.Lookup); ok && isStringSet(lk.X.Type()) {
					sets = append(sets, ins)
				}
			}
		}
		if len(sets) == 0 {
			continue
		}
		var param *ssa.Parameter
		for _, p := range f.Params {
			if isStringSlice(p.Type()) {
				param = p
			}
		}
		if param == nil {
			continue
		}
		n++
		a := c.acc("MCK-11", f, "set-operations-keyed-by-the-invocation's-own-filters")
		isCallElem := func(v ssa.Value) bool {
			s := elemOf(v)
			return s != nil && stripConv(s) == ssa.Value(param)
		}
		isSetKey := func(v ssa.Value) bool {
			ex, ok := stripConv(v).(*ssa.Extract)
			if !ok {
				return false
			}
			nx, ok := ex.Tuple.(*ssa.Next)
			if !ok {
				return false
			}
			rg, ok := nx.Iter.(*ssa.Range)
			return ok && isStringSet(rg.X.Type()) && ex.Index == 1
		}
		for _, b := range f.Blocks {
			for _, ins := range b.Instrs {
				switch x := ins.(type) {
				case *ssa.Lookup:
					if !isStringSet(x.X.Type()) {
						continue
					}
					if isCallElem(x.Index) {
						a.pass()
					} else {
						a.failAt(c.P.Pos(x.Pos()), "the set of expected topics is consulted with %s, want an element of %s (the filters of this invocation): a matching call is reported, or a deviating one is not", Expr(x.Index), param.Name())
					}
				case *ssa.MapUpdate:
					if !isStringSet(x.Map.Type()) {
						continue
					}
					s := elemOf(x.Key)
					if s != nil && stripConv(s) != ssa.Value(param) && isStringSlice(s.Type()) {
						a.pass()
					} else {
						a.failAt(c.P.Pos(x.Pos()), "the set of expected topics is filled with %s, want the elements of the expectation's topic list", Expr(x.Key))
					}
				case *ssa.Call:
					bl, ok := x.Call.Value.(*ssa.Builtin)
					if !ok {
						continue
					}
					switch bl.Name() {
					case "delete":
						if len(x.Call.Args) == 2 && isStringSet(x.Call.Args[0].Type()) {
							if isCallElem(x.Call.Args[1]) {
								a.pass()
							} else {
								a.failAt(c.P.Pos(x.Pos()), "%s is struck from the set of expected topics, want the filter at hand", Expr(x.Call.Args[1]))
							}
						}
					case "append":
						if !isStringSlice(x.Type()) || len(x.Call.Args) != 2 {
							continue
						}
						for _, el := range sliceLitElems(x.Call.Args[1]) {
							if isCallElem(el) || isSetKey(el) {
								a.pass()
							} else {
								a.failAt(c.P.Pos(x.Pos()), "%s is collected for the report, want the filter at hand (unexpected) or a key still in the set (missing)", Expr(el))
							}
						}
					}
				}
			}
		}
		a.done(3, "lookups, deletes and collected strings are elements of the invocation's filters (or keys left in the set)")
	}
	c.S.Floor("MCK-11", "functions that look filters up in a set", n, 1)
}
