package rules

import (
	"go/token"
	"go/types"

	"golang.org/x/tools/go/ssa"

	"mqttverif/internal/pathx"
)

// ---- ERR-14: a failure that was looked at is not dropped ----
//
// `if err != nil { …; return nil }` — the branch was taken because something
// failed, and the caller is told that nothing did. Decided on every path of
// every function of the module whose last result is an error: when the path
// has established a value of type error as non-nil, and none of the code the
// path runs afterwards refers to that value again (it is not returned,
// wrapped, sent, stored, logged or classified with errors.Is/As), then the
// path does not end in a return whose error result is the constant nil. What
// the error is turned into is the business of the class rules (ERR-1…ERR-8);
// this rule only refuses the silent success.

func init() {
	register("ERR-14", []string{"ERR-14"}, func(c *Ctx, _ map[string]bool) { c.err14() })
}

func (c *Ctx) err14() {
	errT := types.Universe.Lookup("error").Type()
	fns := append([]*ssa.Function{}, c.funcs...)
	fns = append(fns, c.testFuncs()...)
	n := 0
	for _, fn := range fns {
		res := fn.Signature.Results()
		if res.Len() == 0 || !types.Identical(res.At(res.Len()-1).Type(), errT) || len(fn.Blocks) == 0 {
			continue
		}
		a := c.acc("ERR-14", fn, "established-failure-not-answered-with-nil")
		for _, p := range c.Paths("ERR-14", fn) {
			if p.End != pathx.KReturn {
				continue
			}
			last := len(p.Events) - 1
			rs := p.Events[last].Results
			if len(rs) == 0 || !pathx.IsNilConst(rs[len(rs)-1]) {
				continue
			}
			// blocks entered after event i
			after := func(i int) map[*ssa.BasicBlock]bool {
				out := map[*ssa.BasicBlock]bool{}
				for j, b := range p.AllBlocks {
					if j < len(p.AllBlockEv) && p.AllBlockEv[j] > i {
						out[b] = true
					}
				}
				return out
			}
			for i := range p.Events {
				e := &p.Events[i]
				if e.Kind != pathx.KAssume || !c.inRegion(fn, e) {
					continue
				}
				cm, ok := cmpOf(e.Val, e.Truth)
				if !ok || cm.Op != token.NEQ || !pathx.IsNilConst(cm.Y) {
					continue
				}
				x := stripConv(cm.X)
				if !types.Identical(x.Type(), errT) || x.Referrers() == nil {
					continue
				}
				if _, isParam := x.(*ssa.Parameter); isParam {
					continue // the caller's error (Backoff, IsDeny, …): nothing failed here
				}
				n++
				blocks := after(i)
				used := false
				for _, r := range *x.Referrers() {
					if r.Block() == nil || !blocks[r.Block()] {
						continue
					}
					// (a comparison classifies the error only where the path found it equal)
					if bo, isCmp := r.(*ssa.BinOp); isCmp && (bo.Op == token.EQL || bo.Op == token.NEQ) {
						rel, _, known := p.Known(bo, i, last)
						if known && ((bo.Op == token.EQL && rel == pathx.RTrue) || (bo.Op == token.NEQ && rel == pathx.RFalse)) {
							used = true
						}
						continue
					}
					used = true
				}
				// (a named result or a captured variable lives in a cell: a later load of the
				// cell is the same error — until the path stores something else into it)
				if u, isLoad := x.(*ssa.UnOp); isLoad && !used && u.Op == token.MUL {
					cell := u.X
					overwritten := false
					for j, b := range p.AllBlocks {
						if j >= len(p.AllBlockEv) || p.AllBlockEv[j] <= i || overwritten || used {
							continue
						}
						for _, ins := range b.Instrs {
							if st, isSt := ins.(*ssa.Store); isSt && st.Addr == cell {
								overwritten = true
								break
							}
							if ld, isLd := ins.(*ssa.UnOp); isLd && ld != u && ld.Op == token.MUL && ld.X == cell && ld.Referrers() != nil && len(*ld.Referrers()) > 0 {
								used = true
								break
							}
						}
					}
				}
				if used {
					a.pass()
				} else {
					a.fail(p, last, "%s is found non-nil and never looked at again, and the function returns a nil error: the failure is reported as success", Expr(x))
				}
			}
		}
		if a.n > 0 {
			a.done(0, "every error the path found non-nil is returned, wrapped, forwarded or classified before a nil return")
		}
	}
	c.S.Floor("ERR-14", "non-nil error facts on nil-returning paths", n, 3)
}
