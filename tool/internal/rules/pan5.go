package rules

import (
	"go/token"
	"go/types"

	"golang.org/x/tools/go/ssa"

	"mqttverif/internal/load"
	"mqttverif/internal/pathx"
)

// ---- PAN-5: no element access that the path's own tests exclude ----
//
// PAN-1 starts from the bounds checks the compiler could not prove. A check
// the compiler proves to FAIL (x[len(x)-1] right behind len(x) == 0) is folded
// into an unconditional panic and is not in that list. This rule is the
// contradiction counterpart, on go/ssa: on no path is an element x[k] or
// x[len(x)-k] of a slice read or written while a comparison assumed earlier on
// that path bounds len(x) below what the access needs. It has no table: a
// report is always a definite panic on a feasible-looking path.

func init() {
	register("PAN-5", []string{"PAN-5"}, func(c *Ctx, _ map[string]bool) { c.pan5() })
}

func (c *Ctx) pan5() {
	ident := func(v ssa.Value) ssa.Value {
		v = stripConv(v)
		if u, ok := v.(*ssa.UnOp); ok && u.Op == token.MUL {
			if al, ok := u.X.(*ssa.Alloc); ok {
				return al
			}
		}
		return v
	}
	isSlice := func(v ssa.Value) bool {
		_, ok := v.Type().Underlying().(*types.Slice)
		return ok
	}
	fns := append([]*ssa.Function{}, c.analysed()...)
	fns = append(fns, c.testFuncs()...)
	nAcc := 0
	for _, fn := range fns {
		if len(fn.Blocks) == 0 {
			continue
		}
		// only functions that index a slice with a constant or len-relative index
		interesting := false
		for _, b := range fn.Blocks {
			for _, ins := range b.Instrs {
				if ia, ok := ins.(*ssa.IndexAddr); ok && isSlice(ia.X) {
					interesting = true
				}
			}
		}
		if !interesting {
			continue
		}
		a := c.acc("PAN-5", fn, "no-element-access-on-a-slice-the-path-knows-too-short")
		reported := map[ssa.Instruction]bool{}
		for _, p := range c.Paths("PAN-5", fn) {
			maxLen := map[ssa.Value]int64{}
			for j, b := range p.Blocks {
				if b.Parent() != fn {
					continue
				}
				for _, ins := range b.Instrs {
					switch x := ins.(type) {
					case *ssa.Store:
						if al, ok := x.Addr.(*ssa.Alloc); ok {
							delete(maxLen, al)
						}
					case ssa.CallInstruction:
						if _, isBuiltin := x.Common().Value.(*ssa.Builtin); isBuiltin {
							continue
						}
						for k := range maxLen {
							if al, ok := k.(*ssa.Alloc); ok && al.Heap {
								delete(maxLen, k)
							}
						}
					case *ssa.IndexAddr:
						if !isSlice(x.X) {
							continue
						}
						nAcc++
						ml, known := maxLen[ident(x.X)]
						if !known {
							a.pass()
							continue
						}
						need := int64(-1) // the access needs len > need
						idx := stripConv(x.Index)
						if k, ok := intConst(idx); ok {
							need = k
						} else if bo, ok := idx.(*ssa.BinOp); ok && bo.Op == token.SUB {
							if arg, isLen := builtinCall(bo.X, "len"); isLen && ident(arg) == ident(x.X) {
								if k, ok := intConst(bo.Y); ok && k >= 1 {
									need = k - 1
								}
							}
						}
						// bufio contract (trusted, as in ORD-7): Peek(n) with a nil error
						// returns n bytes — a path that assumes both a short result and a
						// nil error does not exist
						if ex, isEx := stripConv(x.X).(*ssa.Extract); isEx && need >= 0 && ml <= need {
							if call, isCall := ex.Tuple.(*ssa.Call); isCall && call.Call.StaticCallee() != nil && stdName(call.Call.StaticCallee()) == "(*bufio.Reader).Peek" {
								for i := range p.Events {
									if p.Events[i].Instr == ssa.Instruction(call) {
										if isNil, known := nilResult(p, i, p.BlockEv[j]); isNil && known {
											if n, ok := intConst(call.Call.Args[1]); ok && n > need {
												need = -1
											}
										}
									}
								}
							}
						}
						if need >= 0 && ml <= need {
							if !reported[ins] {
								reported[ins] = true
								a.fail(p, p.BlockEv[j], "%s is accessed on a path that established len ≤ %d for that slice: the access panics (index out of range) whenever the path is taken", Expr(x), ml)
							}
						} else {
							a.pass()
						}
					}
				}
				// the tests at the end of this block
				end := len(p.Events)
				if j+1 < len(p.BlockEv) {
					end = p.BlockEv[j+1]
				}
				for i := p.BlockEv[j]; i < end; i++ {
					e := &p.Events[i]
					if e.Kind != pathx.KAssume || e.Fn != fn {
						continue
					}
					cm, ok := cmpOf(e.Val, e.Truth)
					if !ok {
						continue
					}
					for _, k := range []cmp{cm, cm.swapped()} {
						arg, isLen := builtinCall(k.X, "len")
						if !isLen || !isSlice(arg) {
							continue
						}
						n, isN := intConst(k.Y)
						if !isN {
							continue
						}
						id := ident(arg)
						switch k.Op {
						case token.EQL, token.LEQ:
							maxLen[id] = n
						case token.LSS:
							maxLen[id] = n - 1
						default:
							delete(maxLen, id)
						}
					}
				}
			}
		}
		a.done(0, "no access contradicts a length test of its own path")
	}
	c.S.Floor("PAN-5", "slice element accesses visited on paths", nAcc, 50)
	_ = load.FuncName
}
