package rules

import (
	"fmt"
	"io"
	"sort"

	"mqttverif/internal/load"
)

// DumpErrors prints the error origins of every exported method (debugging).
func DumpErrors(w io.Writer, p *load.Program) {
	c := NewCtx(p, "debug", "quick")
	ef := c.errflow()
	for _, f := range c.funcs {
		if !isExported(f) || errResultIndex(f) < 0 {
			continue
		}
		fmt.Fprintf(w, "== %s\n", load.FuncName(f))
		seen := map[string]bool{}
		var lines []string
		for _, o := range ef.returnOrigins(f) {
			l := fmt.Sprintf("   {%s} %s @%s", classList(o.Classes), o.What, o.Site)
			if !seen[l] {
				seen[l] = true
				lines = append(lines, l)
			}
		}
		sort.Strings(lines)
		for _, l := range lines {
			fmt.Fprintln(w, l)
		}
	}
}
