package rules

import (
	"fmt"
	"strings"

	"golang.org/x/tools/go/ssa"

	"mqttverif/internal/load"
	"mqttverif/internal/pathx"
)

// ---- OWN-11: a pooled compose buffer has one owner at a time ----
//
// Request methods compose their packet in an array from bufPool. Two
// goroutines composing in the same array interleave their bytes, and the
// packet on the wire is neither's ("complete, unmodified packets … for any
// number of goroutines"). sync.Pool hands an array to one Get at a time only
// if every array is Put at most once per Get, and not before its last use:
//   - what is Put comes from a Get of the same pool in the same function (or
//     is the parameter of a helper introduced later, judged at its callers);
//   - per Get there is exactly one Put site: a defer registered right after
//     the Get — or, without defer, at most one Put on any path and no wire
//     write after it;
//   - the array does not outlive the function: its address is not stored in
//     a field, a global, a map or sent on a channel.

func init() {
	register("OWN-11", []string{"OWN-11"}, func(c *Ctx, _ map[string]bool) { c.own11() })
}

func poolOp(call *ssa.CallCommon) (op string, pool string) {
	sc := call.StaticCallee()
	if sc == nil {
		return "", ""
	}
	switch stdName(sc) {
	case "(*sync.Pool).Get":
		op = "Get"
	case "(*sync.Pool).Put":
		op = "Put"
	default:
		return "", ""
	}
	if len(call.Args) == 0 {
		return "", ""
	}
	if g, ok := call.Args[0].(*ssa.Global); ok {
		return op, g.Name()
	}
	return op, Expr(call.Args[0])
}

func (c *Ctx) own11() {
	wire := c.wireCapable()
	nGet := 0
	for _, fn := range c.analysed() {
		// Get sites of the region (the function and helpers expanded in it)
		type getSite struct {
			call *ssa.Call
			pool string
		}
		var gets []getSite
		type putSite struct {
			ins      ssa.Instruction
			arg      ssa.Value
			pool     string
			deferred bool
		}
		var puts []putSite
		for _, b := range c.regionBlocks(fn) {
			for _, ins := range b.Instrs {
				ci, ok := ins.(ssa.CallInstruction)
				if !ok {
					continue
				}
				op, pool := poolOp(ci.Common())
				switch op {
				case "Get":
					if call, ok := ins.(*ssa.Call); ok {
						gets = append(gets, getSite{call, pool})
					}
				case "Put":
					arg := ci.Common().Args[1]
					if mi, ok := arg.(*ssa.MakeInterface); ok {
						arg = mi.X
					}
					_, isDefer := ins.(*ssa.Defer)
					puts = append(puts, putSite{ins, arg, pool, isDefer})
				}
			}
		}
		if len(gets) == 0 && len(puts) == 0 {
			continue
		}
		name := load.FuncName(fn)
		// which Get a value comes from (through the type assertion)
		fromGet := func(v ssa.Value) *ssa.Call {
			for d := 0; d < 6; d++ {
				switch x := v.(type) {
				case *ssa.TypeAssert:
					v = x.X
					continue
				case *ssa.ChangeType:
					v = x.X
					continue
				case *ssa.Call:
					if op, _ := poolOp(&x.Call); op == "Get" {
						return x
					}
					// a getter introduced later: what it returns
					if f := x.Call.StaticCallee(); f != nil && c.isNewHelper(f) {
						var rv ssa.Value
						for _, b := range f.Blocks {
							for _, ins := range b.Instrs {
								if r, ok := ins.(*ssa.Return); ok && len(r.Results) == 1 {
									rv = r.Results[0]
								}
							}
						}
						if rv != nil {
							v = rv
							continue
						}
					}
				case *ssa.Parameter:
					// a helper introduced later: the caller's argument
					if c.isNewHelper(x.Parent()) {
						idx := -1
						for i, pr := range x.Parent().Params {
							if pr == x {
								idx = i
							}
						}
						for _, b := range c.regionBlocks(fn) {
							for _, ins := range b.Instrs {
								if ci, ok := ins.(ssa.CallInstruction); ok && ci.Common().StaticCallee() == x.Parent() && idx >= 0 && idx < len(ci.Common().Args) {
									v = ci.Common().Args[idx]
								}
							}
						}
						if v != ssa.Value(x) {
							continue
						}
					}
				}
				return nil
			}
			return nil
		}
		for _, g := range gets {
			nGet++
			a := c.acc("OWN-11", fn, "pooled-buffer-released-once-after-last-use")
			var mine []putSite
			for _, p := range puts {
				if fromGet(p.arg) == g.call {
					mine = append(mine, p)
				}
			}
			nDefer, nDirect := 0, 0
			for _, p := range mine {
				if p.deferred {
					nDefer++
				} else {
					nDirect++
				}
			}
			switch {
			case nDefer == 1 && nDirect == 0:
				a.pass()
			case nDefer >= 1 && nDirect >= 1:
				for _, p := range mine {
					if !p.deferred {
						a.failAt(c.P.Pos(p.ins.Pos()), "the array from %s.Get is put back here and again by the deferred Put: the pool hands the same array to two goroutines, whose packets then overwrite each other while being composed or written", g.pool)
						break
					}
				}
			case nDefer > 1:
				a.failAt(c.P.Pos(mine[1].ins.Pos()), "two deferred Puts return the same array from %s.Get", g.pool)
			case nDefer == 0 && nDirect == 0:
				a.pass() // never returned: the pool allocates afresh, nothing is shared
			default:
				// direct Puts only: at most one on any path, and no wire write or
				// store into the array after it
				bad := false
				for _, p := range c.Paths("OWN-11", fn) {
					seen := -1
					for i := range p.Events {
						e := &p.Events[i]
						if e.Kind != pathx.KCall || e.Deferred {
							continue
						}
						if e.Call != nil {
							if op, _ := poolOp(e.Call); op == "Put" && len(e.Args) > 1 {
								arg := e.Args[1]
								if mi, ok := arg.(*ssa.MakeInterface); ok {
									arg = mi.X
								}
								if fromGet(arg) == g.call {
									if seen >= 0 {
										a.fail(p, i, "the array from %s.Get is put back twice on this path", g.pool)
										bad = true
									}
									seen = i
									continue
								}
							}
						}
						if seen >= 0 && e.Callee != nil && wire[e.Callee] {
							a.fail(p, i, "%s writes to the connection after the compose buffer went back to %s: another goroutine may be composing in it already", load.FuncName(e.Callee), g.pool)
							bad = true
						}
					}
				}
				if !bad {
					a.pass()
				}
			}
			a.done(1, "one Put per Get, registered with defer (or the last thing done with the array)")
		}
		// a Put of something that no Get of this function produced
		for _, p := range puts {
			if fromGet(p.arg) == nil && !c.isNewHelper(p.ins.Parent()) {
				c.S.Bad("OWN-11", "OWN-11|"+name+"|put-of-foreign-value", c.P.Pos(p.ins.Pos()), name, fmt.Sprintf("%s.Put receives %s, which is not the result of a Get in this function: an array somebody still uses may enter the pool", p.pool, Expr(p.arg)), nil)
			}
		}
		// the array stays local
		esc := c.acc("OWN-11", fn, "pooled-buffer-address-stays-local")
		for _, g := range gets {
			refs := g.call.Referrers()
			if refs == nil {
				continue
			}
			visited := map[ssa.Value]bool{}
			var walk func(v ssa.Value, d int)
			walk = func(v ssa.Value, d int) {
				if d > 60 || v.Referrers() == nil || visited[v] {
					return
				}
				visited[v] = true
				if false {
					return
				}
				for _, r := range *v.Referrers() {
					switch x := r.(type) {
					case *ssa.TypeAssert:
						walk(x, d+1)
					case *ssa.Slice:
						if x.X == v {
							walk(x, d+1)
						}
					case *ssa.UnOp:
						walk(x, d+1)
					case *ssa.Call:
						// append(s, …) may return s's array
						if bl, isB := x.Call.Value.(*ssa.Builtin); isB && bl.Name() == "append" && len(x.Call.Args) > 0 && x.Call.Args[0] == v {
							walk(x, d+1)
						}
					case *ssa.Phi:
						walk(x, d+1)
					case *ssa.Store:
						if x.Val == v {
							base := x.Addr
							for {
								switch y := base.(type) {
								case *ssa.IndexAddr:
									base = y.X
									continue
								case *ssa.FieldAddr:
									base = y.X
									continue
								}
								break
							}
							if al, local := base.(*ssa.Alloc); local {
								// a local cell (a result slot spilled because of the
								// defer, a variable): what is loaded from it again
								if al == x.Addr {
									for _, lr := range *al.Referrers() {
										if ld, ok := lr.(*ssa.UnOp); ok {
											walk(ld, d+1)
										}
									}
								} else {
									// an element of a local aggregate (net.Buffers{packet, message}):
									// whoever gets the aggregate gets the array
									walk(al, d+1)
								}
							} else if fromGet(base) != g.call {
								esc.failAt(c.P.Pos(x.Pos()), "the pooled array is stored in %s: it is used after it went back to the pool", Expr(x.Addr))
							}
						}
					case *ssa.Send:
						if x.X == v {
							esc.failAt(c.P.Pos(x.Pos()), "the pooled array is sent on a channel")
						}
					case *ssa.MapUpdate:
						if x.Value == v {
							esc.failAt(c.P.Pos(x.Pos()), "the pooled array is stored in a map")
						}
					case *ssa.Return:
						released := false
						for _, pt := range puts {
							if pt.ins.Parent() == x.Parent() && fromGet(pt.arg) == g.call {
								released = true
							}
						}
						if !released {
							continue // a getter introduced later hands the array to the function that releases it
						}
						esc.failAt(c.P.Pos(x.Pos()), "the pooled array is returned to the caller while a deferred Put releases it")
					}
				}
			}
			walk(g.call, 0)
			esc.pass()
		}
		esc.done(0, "the array pointer is only sliced, passed down and Put")
	}
	c.S.Floor("OWN-11", "Get sites of compose-buffer pools", nGet, 5)
	_ = strings.TrimSpace
}
