package rules

import (
	"strings"

	"golang.org/x/tools/go/ssa"

	"mqttverif/internal/load"
)

// ---- MCK-9: an invocation of a double keeps its state to itself ----
//
// The function a constructor of mqtttest returns is called many times, from
// any goroutine, and the exchange stub starts a goroutine per call. A local
// variable of the constructor is shared by all of them. Counting invocations
// through sync/atomic is the one intended use; anything else an invocation
// (or its goroutine) writes into a constructor variable — a scratch value
// filled by errors.As, an index — is a data race between overlapping
// invocations, and one exchange then acts on another's script entry.
// Decided: inside the returned functions and the goroutines they start, a
// captured variable that lives in the constructor is only read, or used as
// the receiver of a sync/atomic method; it is not stored to and its address
// is not handed to any other call. Slices and maps captured by value are
// covered by MCK-8.

func init() {
	register("MCK-9", []string{"MCK-9"}, func(c *Ctx, _ map[string]bool) { c.mck9() })
}

// constructorCell resolves a captured variable to the cell it stands for and
// reports whether that cell belongs to a top-level function.
func constructorCell(fv *ssa.FreeVar) (ssa.Value, bool) {
	var v ssa.Value = fv
	for d := 0; d < 6; d++ {
		x, ok := v.(*ssa.FreeVar)
		if !ok {
			break
		}
		fn := x.Parent()
		var next ssa.Value
		for i, f := range fn.FreeVars {
			if f != x {
				continue
			}
			for _, mc := range closureSites(fn) {
				if i < len(mc.Bindings) {
					next = mc.Bindings[i]
				}
			}
		}
		if next == nil {
			return nil, false
		}
		v = next
	}
	al, ok := v.(*ssa.Alloc)
	if !ok {
		return nil, false
	}
	return al, al.Parent().Parent() == nil
}

func (c *Ctx) mck9() {
	n := 0
	for _, f := range c.testFuncs() {
		if f.Parent() == nil || len(f.FreeVars) == 0 {
			continue
		}
		a := c.acc("MCK-9", f, "constructor-variables-only-read-or-counted-atomically")
		for _, fv := range f.FreeVars {
			cell, ofCtor := constructorCell(fv)
			if !ofCtor || fv.Referrers() == nil {
				continue
			}
			for _, r := range *fv.Referrers() {
				n++
				switch x := r.(type) {
				case *ssa.UnOp: // a read
					a.pass()
				case *ssa.MakeClosure: // handed on to an inner function, judged there
					a.pass()
				case *ssa.Store:
					if x.Addr == ssa.Value(fv) {
						a.failAt(c.P.Pos(x.Pos()), "%s stores to %s, a variable of the constructor %s: every invocation of the double (and every goroutine it starts) shares it", load.FuncName(f), cellName(cell), load.FuncName(load.TopLevel(f)))
					} else {
						a.pass()
					}
				case ssa.CallInstruction:
					cc := x.Common()
					sc := cc.StaticCallee()
					atomicRecv := sc != nil && sc.Pkg != nil && sc.Pkg.Pkg.Path() == "sync/atomic" && len(cc.Args) > 0 && cc.Args[0] == ssa.Value(fv)
					if atomicRecv {
						a.pass()
						continue
					}
					a.failAt(c.P.Pos(x.Pos()), "%s hands the address of %s, a variable of the constructor %s, to %s: what is written through it is shared by all invocations of the double — overlapping exchanges overwrite each other's value", load.FuncName(f), cellName(cell), load.FuncName(load.TopLevel(f)), commonCalleeName(cc))
				case *ssa.MakeInterface:
					// &v boxed as an argument (errors.As(err, &v)): the call that receives it writes through it
					a.failAt(c.P.Pos(x.Pos()), "%s passes the address of %s, a variable of the constructor %s, on as an interface value (the target of errors.As, for one): every invocation of the double writes the same variable", load.FuncName(f), cellName(cell), load.FuncName(load.TopLevel(f)))
				case *ssa.FieldAddr, *ssa.IndexAddr:
					// a field or element of the shared variable: stores through it
					wr := false
					if refs := r.(ssa.Value).Referrers(); refs != nil {
						for _, rr := range *refs {
							if st, ok := rr.(*ssa.Store); ok && st.Addr == r.(ssa.Value) {
								wr = true
							}
						}
					}
					if wr {
						a.failAt(c.P.Pos(r.Pos()), "%s writes a field or element of %s, a variable of the constructor %s", load.FuncName(f), cellName(cell), load.FuncName(load.TopLevel(f)))
					} else {
						a.pass()
					}
				default:
					a.pass()
				}
			}
		}
		a.done(0, "captured constructor variables are read, or are atomic counters")
	}
	c.S.Floor("MCK-9", "uses of constructor variables inside returned functions and their goroutines", n, 10)
}

func cellName(v ssa.Value) string {
	if al, ok := v.(*ssa.Alloc); ok && al.Comment != "" {
		return al.Comment
	}
	return Expr(v)
}

func commonCalleeName(cc *ssa.CallCommon) string {
	if sc := cc.StaticCallee(); sc != nil {
		return strings.TrimPrefix(stdName(sc), "github.com/pascaldekloe/mqtt/")
	}
	if cc.IsInvoke() {
		return cc.Method.Name()
	}
	return Expr(cc.Value)
}
