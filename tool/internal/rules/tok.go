package rules

import (
	"fmt"
	"sort"
	"strings"

	"golang.org/x/tools/go/ssa"

	"mqttverif/internal/load"
	"mqttverif/internal/pathx"
)

// ---- token identification ----

const (
	tkConn  = "connSem"
	tkWrite = "writeSem"
	tkALO   = "seqSem[atLeastOnce]"
	tkEO    = "seqSem[exactlyOnce]"
	tkSeqP  = "seqSem[param]"
	tkOn    = "onlineSig"
	tkOff   = "offlineSig"
	tkSigP  = "signal(param)"
)

// tokenOf names the token a channel value stands for, or "".
func tokenOf(ch ssa.Value) string {
	if ch == nil {
		return ""
	}
	r := pathx.RoleOfValue(ch)
	switch r.Key() {
	case "Client.connSem":
		return tkConn
	case "Client.writeSem":
		return tkWrite
	case "Client.onlineSig":
		return tkOn
	case "Client.offlineSig":
		return tkOff
	case "outbound.seqSem":
		switch {
		case r.Has("atLeastOnce"):
			return tkALO
		case r.Has("exactlyOnce"):
			return tkEO
		}
		return tkSeqP
	}
	if p, ok := ch.(*ssa.Parameter); ok {
		if p.Type().Underlying().String() == "chan chan struct{}" {
			return tkSigP
		}
	}
	return ""
}

func tokenRank(t string) float64 {
	switch t {
	case tkConn:
		return 0
	case tkALO:
		return 1
	case tkSeqP:
		return 1.5
	case tkEO:
		return 2
	case tkWrite:
		return 3
	case tkOn, tkOff, tkSigP:
		return 4
	}
	return -1
}

type tsKind int

const (
	tsNot tsKind = iota
	tsHeld
	tsCond   // held iff cond == nil (after lockWrite)
	tsClosed // consumed and closed by this function
	tsGone   // receive reported the channel closed
	tsFresh  // channel just made; initial deposit pending
)

func (k tsKind) String() string {
	return [...]string{"not-held", "held", "held-iff-err-nil", "closed", "seen-closed", "fresh"}[k]
}

type tokSt struct {
	k     tsKind
	val   ssa.Value // value taken out of the channel
	okVal ssa.Value
	cond  ssa.Value
	since int         // event index of the acquisition
	wire  []ssa.Value // error results of wire-capable calls made while held
}

type tokMap map[string]*tokSt

func (m tokMap) get(t string) *tokSt {
	s := m[t]
	if s == nil {
		s = &tokSt{}
		m[t] = s
	}
	return s
}

func (m tokMap) snapshot() map[string]tsKind {
	out := map[string]tsKind{}
	for k, v := range m {
		out[k] = v.k
	}
	return out
}

func (m tokMap) heldList() []string {
	var out []string
	for k, v := range m {
		if v.k == tsHeld || v.k == tsCond {
			out = append(out, k)
		}
	}
	sort.Strings(out)
	return out
}

// summary kinds
const (
	sumBalanced = iota
	sumLockWrite
	sumCloser
	sumSeqCloser
	sumInit
)

type tokEdge struct{ from, to string }

type tokResult struct {
	funcs      int
	ops        int
	edges      map[tokEdge]string // edge → first site
	flipSites  int
	heldCalls  int
	sendChecks int
}

// hasTokenOps reports whether fn touches a token channel or calls lockWrite.
func (c *Ctx) hasTokenOps(fn *ssa.Function, lockWrite *ssa.Function) bool {
	// (the function and the helpers introduced later that the path engine expands inside it)
	for _, b := range c.regionBlocks(fn) {
		for _, ins := range b.Instrs {
			switch x := ins.(type) {
			case *ssa.UnOp:
				if x.Op.String() == "<-" && tokenOf(x.X) != "" {
					return true
				}
			case *ssa.Send:
				if tokenOf(x.Chan) != "" {
					return true
				}
			case *ssa.Select:
				for _, s := range x.States {
					if tokenOf(s.Chan) != "" {
						return true
					}
				}
			case ssa.CallInstruction:
				cc := x.Common()
				if cc.StaticCallee() == lockWrite && lockWrite != nil {
					return true
				}
				if b, ok := cc.Value.(*ssa.Builtin); ok && b.Name() == "close" && tokenOf(cc.Args[0]) != "" {
					return true
				}
			}
		}
	}
	// closures deferred by fn are expanded in fn's paths
	for _, an := range fn.AnonFuncs {
		if c.hasTokenOps(an, lockWrite) {
			return true
		}
	}
	return false
}

// acquires computes the set of tokens fn may block on (directly or through
// in-package static callees and closures it runs synchronously).
func (c *Ctx) acquires(fn *ssa.Function) map[string]bool {
	if c.acqMemo == nil {
		c.acqMemo = map[*ssa.Function]map[string]bool{}
	}
	if m, ok := c.acqMemo[fn]; ok {
		return m
	}
	m := map[string]bool{}
	c.acqMemo[fn] = m
	for _, b := range fn.Blocks {
		for _, ins := range b.Instrs {
			switch x := ins.(type) {
			case *ssa.UnOp:
				if x.Op.String() == "<-" {
					if t := tokenOf(x.X); t != "" {
						m[t] = true
					}
				}
			case *ssa.Select:
				if x.Blocking {
					for _, s := range x.States {
						if t := tokenOf(s.Chan); t != "" && s.Dir != 1 {
							m[t] = true
						}
					}
				}
			case *ssa.Go:
				// runs concurrently: not an acquisition of the caller
			case ssa.CallInstruction:
				cc := x.Common()
				var callee *ssa.Function
				if sc := cc.StaticCallee(); sc != nil {
					callee = sc
				} else if mc, ok := cc.Value.(*ssa.MakeClosure); ok {
					callee, _ = mc.Fn.(*ssa.Function)
				}
				if callee != nil && len(callee.Blocks) > 0 && load.TopLevel(callee).Pkg == c.P.Root {
					for t := range c.acquires(callee) {
						m[t] = true
					}
				}
			}
		}
	}
	return m
}

// mayBlock reports whether fn can wait on something other than a token, a
// wire transfer or the Persistence (transitively, synchronous callees only).
func (c *Ctx) mayBlock(fn *ssa.Function) bool {
	if c.blockMemo == nil {
		c.blockMemo = map[*ssa.Function]bool{}
	}
	if v, ok := c.blockMemo[fn]; ok {
		return v
	}
	c.blockMemo[fn] = false
	res := false
	for _, b := range fn.Blocks {
		for _, ins := range b.Instrs {
			switch x := ins.(type) {
			case *ssa.UnOp:
				if x.Op.String() == "<-" && tokenOf(x.X) == "" {
					res = true
				}
			case *ssa.Select:
				if x.Blocking {
					for _, s := range x.States {
						if tokenOf(s.Chan) == "" {
							res = true
						}
					}
				}
			case *ssa.Go:
			case ssa.CallInstruction:
				cc := x.Common()
				if sc := cc.StaticCallee(); sc != nil {
					switch stdName(sc) {
					case "time.Sleep", "(*sync.WaitGroup).Wait", "(*sync.Cond).Wait":
						res = true
					}
					if len(sc.Blocks) > 0 && load.TopLevel(sc).Pkg == c.P.Root && c.mayBlock(sc) {
						res = true
					}
				} else if mc, ok := cc.Value.(*ssa.MakeClosure); ok {
					if f, _ := mc.Fn.(*ssa.Function); f != nil && c.mayBlock(f) {
						res = true
					}
				}
			}
		}
	}
	c.blockMemo[fn] = res
	return res
}

// RunTOK runs TOK-1 (balance), TOK-2 (held-only release/close), TOK-3
// (closed-aware receive), TOK-4 (release value), TOK-5 (lock order), TOK-6
// (nothing foreign blocks under the write lock) and TOK-8 (signal flips)
// over every function that touches a token. which selects the sub-rules
// whose obligations are recorded.
func (c *Ctx) RunTOK(which map[string]bool) {
	lockWrite := c.Fn("TOK-1", "(*Client).lockWrite")
	closeFn := c.Fn("TOK-1", "(*Client).Close")
	disc := c.Fn("TOK-1", "(*Client).Disconnect")
	term := c.Fn("TOK-1", "(*Client).termCallbacks")
	newClient := c.Fn("TOK-1", "newClient")
	dial := c.Fn("TOK-4", "(*Client).dialAndConnect")
	blockSig := c.Fn("TOK-8", "blockSignalChan")
	clearSig := c.Fn("TOK-8", "clearSignalChan")
	wire := c.wireCapable()
	readOnly := c.readRoutineOnly()

	res := &tokResult{edges: map[tokEdge]string{}}
	for _, fn := range c.analysed() {
		if fn.Parent() != nil {
			// closures are covered through their parent unless started with go
			if !c.isGoTarget(fn) {
				continue
			}
		}
		if !c.hasTokenOps(fn, lockWrite) {
			continue
		}
		sum := sumBalanced
		switch {
		case fn == lockWrite:
			sum = sumLockWrite
		case fn == closeFn || fn == disc:
			sum = sumCloser
		case fn.Parent() == term && term != nil:
			sum = sumSeqCloser
		case fn == newClient:
			sum = sumInit
		}
		res.funcs++
		c.tokFunc(fn, sum, which, res, tokEnv{lockWrite: lockWrite, dial: dial, blockSig: blockSig, clearSig: clearSig, wire: wire, readOnly: readOnly})
	}
	if which["TOK-1"] {
		c.S.Floor("TOK-1", "functions with token operations", res.funcs, 17)
		c.S.Count("token_operations", res.ops)
	}
	if which["TOK-4"] {
		c.S.Floor("TOK-4", "deposits into writeSem/connSem checked", res.sendChecks, 20)
	}
	if which["TOK-5"] {
		// the graph itself must be acyclic and follow the documented order
		var es []string
		for e, site := range res.edges {
			es = append(es, e.from+" → "+e.to)
			key := "TOK-5|edge|" + e.from + "→" + e.to
			if e.from == e.to {
				c.S.Bad("TOK-5", key, site, "", "token acquired while already held: self-deadlock", nil)
			} else if tokenRank(e.from) >= tokenRank(e.to) {
				c.S.Bad("TOK-5", key, site, "", "acquisition order violates connSem < seqSem[at-least-once] < seqSem[exactly-once] < writeSem < signals", nil)
			} else {
				c.S.OK("TOK-5", key, site, "", "edge follows the documented order", true)
			}
		}
		sort.Strings(es)
		c.S.Floor("TOK-5", "acquisition edges", len(es), 8)
	}
	if which["TOK-8"] {
		c.S.Floor("TOK-8", "signal flip sites", res.flipSites, 4)
		c.tok8Complete(blockSig, clearSig)
	}
}

// tok8Complete: a state change is both halves. Whoever blocks one of the two
// signals releases the other one as its next signal operation, on the same
// path: with Online blocked and Offline never released nobody waiting on
// either is ever woken.
func (c *Ctx) tok8Complete(blockSig, clearSig *ssa.Function) {
	if blockSig == nil || clearSig == nil {
		return
	}
	n := 0
	for _, fn := range c.analysed() {
		calls := false
		for _, g := range c.staticCallees(fn) {
			if g == blockSig {
				calls = true
			}
		}
		if !calls {
			continue
		}
		a := c.acc("TOK-8", fn, "blocked-signal⇒opposite-signal-released-next")
		for _, p := range c.Paths("TOK-8", fn) {
			for i := range p.Events {
				e := &p.Events[i]
				if !isCallTo(e, blockSig) || len(e.Args) != 1 {
					continue
				}
				n++
				sig := tokenOf(e.Args[0])
				opp := tkOff
				if sig == tkOff {
					opp = tkOn
				}
				ok := false
				for k := i + 1; k < len(p.Events); k++ {
					x := &p.Events[k]
					if isCallTo(x, blockSig) {
						break
					}
					if isCallTo(x, clearSig) {
						ok = len(x.Args) == 1 && tokenOf(x.Args[0]) == opp
						break
					}
				}
				if ok {
					a.pass()
				} else {
					a.fail(p, i, "%s is blocked but %s is not released next on this path: the state change is left half done, and callers waiting for the new state never wake", sig, opp)
				}
			}
		}
		a.done(1, "every block of one signal is followed by the release of the other")
	}
	c.S.Floor("TOK-8", "signal blocks paired with a release", n, 2)
}

type tokEnv struct {
	lockWrite, dial, blockSig, clearSig *ssa.Function
	wire                                map[*ssa.Function]bool
	readOnly                            map[*ssa.Function]bool
}

func (c *Ctx) isGoTarget(fn *ssa.Function) bool {
	p := fn.Parent()
	if p == nil {
		return false
	}
	for _, b := range p.Blocks {
		for _, ins := range b.Instrs {
			if g, ok := ins.(*ssa.Go); ok {
				if mc, ok := g.Call.Value.(*ssa.MakeClosure); ok && mc.Fn == fn {
					return true
				}
			}
		}
	}
	return false
}

func (c *Ctx) tokFunc(fn *ssa.Function, sum int, which map[string]bool, res *tokResult, env tokEnv) {
	name := load.FuncName(fn)
	paths := c.Paths("TOK-1", fn)
	headerState := map[*ssa.BasicBlock]map[string]tsKind{}
	report := func(rule, construct string, e *pathx.Event, reason string, p *pathx.Path, upto int) {
		if !which[rule] {
			return
		}
		pos := ""
		if e != nil {
			pos = c.pos(e.Instr)
		}
		c.S.Bad(rule, rule+"|"+name+"|"+construct, pos, name, reason, c.Trace(p, upto))
	}
	okOb := func(rule, construct string, e *pathx.Event, reason string) {
		if !which[rule] {
			return
		}
		pos := ""
		if e != nil {
			pos = c.pos(e.Instr)
		}
		c.S.OK(rule, rule+"|"+name+"|"+construct, pos, name, reason, true)
	}

	defer func() { pathx.ParamBind = nil }()
	for _, p := range paths {
		// token channels reached through a parameter of a helper expanded on
		// this path are the caller's: out.seqSem with out = &c.atLeastOnce
		// (bound as the helpers are entered: one helper called twice on a path
		// stands for two different instances)
		pathx.ParamBind = map[ssa.Value]ssa.Value{}
		m := tokMap{}
		if sum == sumInit {
			for _, t := range []string{tkConn, tkWrite, tkALO, tkEO, tkOn, tkOff} {
				m.get(t).k = tsFresh
			}
		}
		if p.Start != fn.Blocks[0] {
			if hs, ok := headerState[p.Start]; ok {
				for t, k := range hs {
					m.get(t).k = k
				}
			}
		}
		bi := 0
		var lastSig *pathx.Event // last signal-flip call on this path
		// (the blocks of helpers expanded in place count: a loop inside one starts segments of its own)
		blks, blkEv := p.AllBlocks, p.AllBlockEv
		if len(blks) != len(blkEv) || len(blks) == 0 {
			blks, blkEv = p.Blocks, p.BlockEv
		}
		for i := range p.Events {
			for bi < len(blkEv) && blkEv[bi] == i {
				if p.Start == fn.Blocks[0] {
					if _, ok := headerState[blks[bi]]; !ok {
						headerState[blks[bi]] = m.snapshot()
					}
				}
				bi++
			}
			e := &p.Events[i]
			if e.Kind == pathx.KEnter && i > 0 {
				if call := &p.Events[i-1]; call.Kind == pathx.KCall && call.Callee == e.Callee && e.Callee != nil {
					for k, pr := range e.Callee.Params {
						if k < len(call.Args) {
							pathx.ParamBind[pr] = call.Args[k]
						}
					}
				}
			}
			switch e.Kind {
			case pathx.KAssume:
				for _, a := range e.Atoms {
					for _, s := range m {
						if s.k == tsCond && s.cond == a.V {
							switch a.Rel {
							case pathx.RNil:
								s.k = tsHeld
							case pathx.RNotNil:
								s.k = tsNot
							}
						}
						if s.k == tsHeld && s.okVal != nil && s.okVal == a.V && a.Rel == pathx.RFalse {
							s.k = tsGone
						}
					}
				}
			case pathx.KRecv:
				t := tokenOf(e.Chan)
				if t == "" {
					// TOK-6
					if ws := m[tkWrite]; ws != nil && (ws.k == tsHeld) && !e.NonBlocking {
						report("TOK-6", "recv("+chanName(e.Chan)+")|under(writeSem)", e, "blocking receive from a foreign channel while the write lock is held", p, i)
					}
					continue
				}
				res.ops++
				s := m.get(t)
				construct := "recv(" + t + ")"
				switch s.k {
				case tsHeld, tsCond:
					report("TOK-1", construct+"|already-held", e, "token received while this function already holds it: waits for itself", p, i)
				case tsGone, tsClosed:
					report("TOK-3", construct+"|after-closed", e, "token channel used after it was seen or made closed", p, i)
				}
				// TOK-5 edges
				if !e.NonBlocking {
					for _, h := range m.heldList() {
						if h != t {
							ed := tokEdge{h, t}
							if _, ok := res.edges[ed]; !ok {
								res.edges[ed] = c.pos(e.Instr)
							}
						}
					}
				}
				// TOK-3 closed-aware
				if which["TOK-3"] && (t == tkConn || t == tkWrite || t == tkALO || t == tkEO || t == tkSeqP) {
					k := "TOK-3|" + name + "|" + construct
					connHeld := m[tkConn] != nil && m[tkConn].k == tsHeld
					switch {
					case e.OkVal != nil:
						c.S.OK("TOK-3", k, c.pos(e.Instr), name, "comma-ok receive; the closed edge is followed separately", true)
					case t == tkWrite && connHeld:
						c.S.OK("TOK-3", k, c.pos(e.Instr), name, "plain receive under connSem: only a connSem holder may close writeSem", true)
					case (t == tkALO || t == tkEO || t == tkSeqP) && (env.readOnly[load.TopLevel(fn)] || sum == sumInit || name == "AdoptSession"):
						c.S.OK("TOK-3", k, c.pos(e.Instr), name, "plain receive of a sequence token in a function confined to the read routine (its closer termCallbacks runs on the same goroutine) or on an unpublished client", true)
					default:
						c.S.Bad("TOK-3", k, c.pos(e.Instr), name, "receive from a closable token channel without comma-ok and without the closer's lock: after Close it yields a zero value and the next send panics", c.Trace(p, i))
					}
				}
				s.k, s.val, s.okVal, s.cond, s.since, s.wire = tsHeld, e.Result, e.OkVal, nil, i, nil
			case pathx.KSend:
				t := tokenOf(e.Chan)
				if t == "" {
					continue
				}
				res.ops++
				s := m.get(t)
				construct := "send(" + t + ")"
				switch s.k {
				case tsHeld:
					okOb("TOK-2", construct+"|"+c.sendKind(e.Val, s), e, "deposit while holding the token")
				case tsFresh:
					okOb("TOK-2", construct+"|initial", e, "initial deposit into a channel made by this constructor")
				case tsCond:
					report("TOK-2", construct+"|cond", e, "deposit while it is undecided whether lockWrite succeeded", p, i)
				default:
					report("TOK-2", construct+"|"+s.k.String(), e, "deposit into a token channel that is "+s.k.String()+": a second value makes two holders (or panics when closed)", p, i)
				}
				if which["TOK-4"] && (t == tkWrite || t == tkConn) && s.k == tsHeld {
					res.sendChecks++
					c.tok4(fn, name, p, i, t, s, env)
				}
				s.k, s.val, s.okVal, s.wire = tsNot, nil, nil, nil
			case pathx.KClose:
				t := tokenOf(e.Chan)
				if t == "" {
					// close of a queue needs that outbound's sequence token
					r := pathx.RoleOfValue(e.Chan)
					if r.Key() == "outbound.queue" && which["TOK-2"] {
						need := tkSeqP
						if r.Has("atLeastOnce") {
							need = tkALO
						} else if r.Has("exactlyOnce") {
							need = tkEO
						}
						st := m[need]
						k := "TOK-2|" + name + "|close(queue)|under(" + need + ")"
						if st != nil && (st.k == tsHeld || st.k == tsClosed) {
							c.S.OK("TOK-2", k, c.pos(e.Instr), name, "queue closed by the holder of its sequence token", true)
						} else {
							c.S.Bad("TOK-2", k, c.pos(e.Instr), name, "queue closed without holding its sequence token: a concurrent submitPersisted may send on the closed queue", c.Trace(p, i))
						}
					}
					continue
				}
				res.ops++
				s := m.get(t)
				construct := "close(" + t + ")"
				good := s.k == tsHeld
				if good && (t == tkWrite || t == tkConn) {
					other := tkConn
					if t == tkConn {
						other = tkWrite
					}
					o := m[other]
					if o == nil || (o.k != tsHeld && o.k != tsClosed) {
						good = false
					}
				}
				if good {
					okOb("TOK-2", construct, e, "closed while holding the token (and its companion)")
				} else {
					report("TOK-2", construct+"|"+s.k.String(), e, "token channel closed without holding it (and its companion token): a concurrent holder's release would panic, or a second close panics", p, i)
				}
				if sum != sumCloser && sum != sumSeqCloser {
					report("TOK-2", construct+"|by-non-closer", e, "token channel closed outside Close/Disconnect/termCallbacks", p, i)
				}
				s.k = tsClosed
			case pathx.KSelect:
				if ws := m[tkWrite]; ws != nil && ws.k == tsHeld && e.Select.Blocking {
					foreign := false
					for _, st := range e.Select.States {
						if tokenOf(st.Chan) == "" {
							foreign = true
						}
					}
					if foreign {
						report("TOK-6", "select|under(writeSem)", e, "blocking select on foreign channels while the write lock is held", p, i)
					}
				}
			case pathx.KCall:
				if e.Callee == nil {
					continue
				}
				if e.Callee == env.lockWrite && env.lockWrite != nil {
					s := m.get(tkWrite)
					if s.k == tsHeld || s.k == tsCond {
						report("TOK-1", "call(lockWrite)|already-held", e, "lockWrite called while the write lock is held: waits for itself", p, i)
					}
					for _, h := range m.heldList() {
						if h != tkWrite {
							ed := tokEdge{h, tkWrite}
							if _, ok := res.edges[ed]; !ok {
								res.edges[ed] = c.pos(e.Instr)
							}
						}
					}
					s.k, s.cond, s.val, s.okVal, s.since, s.wire = tsCond, pathx.ErrResult(e.Result), pathx.ResultAt(e.Result, 0), nil, i, nil
					continue
				}
				if load.TopLevel(e.Callee).Pkg != c.P.Root || len(e.Callee.Blocks) == 0 {
					// TOK-6: known blocking library calls
					if ws := m[tkWrite]; ws != nil && ws.k == tsHeld {
						switch stdName(e.Callee) {
						case "time.Sleep", "(*sync.WaitGroup).Wait", "(*sync.Cond).Wait":
							report("TOK-6", "call("+stdName(e.Callee)+")|under(writeSem)", e, "blocking library call while the write lock is held", p, i)
						}
					}
					continue
				}
				if c.inlinedHere(p, i) {
					// body expanded in this path: its operations are seen directly
					continue
				}
				held := m.heldList()
				if len(held) > 0 {
					res.heldCalls++
					for t := range c.acquires(e.Callee) {
						for _, h := range held {
							ed := tokEdge{h, t}
							if _, ok := res.edges[ed]; !ok {
								res.edges[ed] = c.pos(e.Instr)
							}
						}
					}
					if ws := m[tkWrite]; ws != nil && ws.k == tsHeld && c.mayBlock(e.Callee) {
						report("TOK-6", "call("+load.FuncName(e.Callee)+")|under(writeSem)", e, "callee may wait on a foreign channel or wait group while the write lock is held", p, i)
					} else if ws != nil && ws.k == tsHeld {
						okOb("TOK-6", "call("+load.FuncName(e.Callee)+")|under(writeSem)", e, "callee never waits on anything but later tokens, the wire or the Persistence")
					}
				}
				if env.wire[e.Callee] {
					if ws := m[tkWrite]; ws != nil && ws.k == tsHeld {
						ws.wire = append(ws.wire, pathx.ErrResult(e.Result))
					}
				}
				// TOK-8
				if e.Callee == env.blockSig || e.Callee == env.clearSig {
					c.tok8(fn, name, p, i, e, lastSig, m, env, which, res)
					lastSig = e
				}
			case pathx.KReturn:
				c.tokExit(fn, name, sum, p, i, e, m, which)
			case pathx.KLoopBack:
				if which["TOK-1"] {
					want := headerState[e.Target]
					got := m.snapshot()
					same := true
					for t, k := range got {
						if norm(k) != norm(want[t]) {
							same = false
						}
					}
					for t, k := range want {
						if norm(k) != norm(got[t]) {
							same = false
						}
					}
					key := "TOK-1|" + name + "|loop-invariant|block" + fmt.Sprint(e.Target.Index)
					if same {
						c.S.OK("TOK-1", key, c.pos(e.Target.Instrs[0]), name, "token state at the back edge equals the state at loop entry", true)
					} else {
						c.S.Bad("TOK-1", key, c.pos(e.Target.Instrs[0]), name, fmt.Sprintf("token state changes around the loop: entry %v, back edge %v", fmtStates(want), fmtStates(got)), c.Trace(p, i))
					}
				}
			}
		}
	}
}

func norm(k tsKind) tsKind {
	if k == tsGone {
		return tsNot
	}
	return k
}

func fmtStates(m map[string]tsKind) string {
	var ks []string
	for t, k := range m {
		if k != tsNot {
			ks = append(ks, t+"="+k.String())
		}
	}
	sort.Strings(ks)
	if len(ks) == 0 {
		return "{}"
	}
	return "{" + strings.Join(ks, ",") + "}"
}

// inlinedHere reports whether the call event at index i is followed by the
// expansion of its callee.
func (c *Ctx) inlinedHere(p *pathx.Path, i int) bool {
	return i+1 < len(p.Events) && p.Events[i+1].Kind == pathx.KEnter && p.Events[i+1].Instr == p.Events[i].Instr
}

func (c *Ctx) sendKind(v ssa.Value, s *tokSt) string {
	switch {
	case pathx.ConstKey(v) != "":
		return pathx.ConstKey(v)
	case v == s.val:
		return "same-value"
	}
	return "other"
}

func (c *Ctx) tokExit(fn *ssa.Function, name string, sum int, p *pathx.Path, i int, e *pathx.Event, m tokMap, which map[string]bool) {
	if !which["TOK-1"] {
		return
	}
	exit := "exit@" + exitLabel(c, e)
	key := "TOK-1|" + name + "|" + exit
	bad := func(reason string) {
		c.S.Bad("TOK-1", key, c.pos(e.Instr), name, reason, c.Trace(p, i))
	}
	switch sum {
	case sumLockWrite:
		ws := m.get(tkWrite)
		errNil := len(e.Results) == 2 && pathx.IsNilConst(e.Results[1])
		if errNil {
			if ws.k != tsHeld {
				bad("lockWrite returns success without holding the write token")
				return
			}
			if e.Results[0] != ws.val {
				bad("lockWrite returns a connection other than the value taken from writeSem")
				return
			}
			if rel, cst, ok := p.Known(ws.val, 0, i); !ok || rel != pathx.RNe || cst == "" {
				// need both signal constants excluded
			}
			ex := excluded(p, ws.val, i)
			if !ex["connSignal:0"] || !ex["connSignal:1"] {
				bad("lockWrite returns success although the value taken may be connPending or connDown")
				return
			}
		} else if ws.k == tsHeld || ws.k == tsCond {
			bad("lockWrite returns an error while still holding the write token")
			return
		}
		for t, s := range m {
			if t != tkWrite && (s.k == tsHeld || s.k == tsCond) {
				bad("token " + t + " leaked on exit")
				return
			}
		}
		c.S.OK("TOK-1", key, c.pos(e.Instr), name, "summary held-iff-nil-error honoured on this exit", true)
	case sumCloser:
		cs, ws := m.get(tkConn), m.get(tkWrite)
		switch {
		case cs.k == tsGone && ws.k == tsNot:
			c.S.OK("TOK-1", key, c.pos(e.Instr), name, "already closed: nothing touched", true)
		case cs.k == tsClosed && ws.k == tsClosed:
			c.S.OK("TOK-1", key, c.pos(e.Instr), name, "both tokens consumed and closed exactly once", true)
		default:
			bad(fmt.Sprintf("closer exits with connSem %s and writeSem %s; want both closed, or connSem seen closed and writeSem untouched", cs.k, ws.k))
		}
		for t, s := range m {
			if t != tkWrite && t != tkConn && (s.k == tsHeld || s.k == tsCond) {
				bad("token " + t + " leaked on exit")
			}
		}
	case sumSeqCloser:
		n := 0
		for t, s := range m {
			switch s.k {
			case tsClosed, tsGone:
				n++
			case tsHeld, tsCond:
				bad("token " + t + " leaked on exit")
				return
			}
		}
		if n != 1 {
			bad("termCallbacks goroutine must leave exactly one sequence token closed or seen closed")
			return
		}
		c.S.OK("TOK-1", key, c.pos(e.Instr), name, "sequence token consumed and closed, or seen closed", true)
	default:
		for t, s := range m {
			switch s.k {
			case tsHeld, tsCond:
				bad("token " + t + " still held on this exit: every later user blocks forever")
				return
			case tsClosed:
				bad("token " + t + " closed by a function that is not a closer")
				return
			case tsFresh:
				if sum == sumInit {
					bad("token " + t + " never received its initial deposit")
					return
				}
			}
		}
		c.S.OK("TOK-1", key, c.pos(e.Instr), name, "all tokens released on this exit", true)
	}
}

// excluded collects the constants v is known to differ from before event i.
func excluded(p *pathx.Path, v ssa.Value, upto int) map[string]bool {
	out := map[string]bool{}
	for i := 0; i < upto && i < len(p.Events); i++ {
		e := &p.Events[i]
		if e.Kind != pathx.KAssume {
			continue
		}
		for _, a := range e.Atoms {
			if a.V == v && a.Rel == pathx.RNe {
				out[a.C] = true
			}
		}
	}
	return out
}

func equalTo(p *pathx.Path, v ssa.Value, upto int) string {
	for i := 0; i < upto && i < len(p.Events); i++ {
		e := &p.Events[i]
		if e.Kind != pathx.KAssume {
			continue
		}
		for _, a := range e.Atoms {
			if a.V == v && a.Rel == pathx.REq {
				return a.C
			}
		}
	}
	return ""
}

// exitLabel names a return by its results so that the key survives moves.
func exitLabel(c *Ctx, e *pathx.Event) string {
	var rs []string
	for _, r := range e.Results {
		rs = append(rs, shortVal(r))
	}
	if len(rs) == 0 {
		return "return"
	}
	return "return(" + strings.Join(rs, ",") + ")"
}

func shortVal(v ssa.Value) string {
	switch x := v.(type) {
	case *ssa.Const:
		if x.Value == nil {
			return "nil"
		}
		return x.Value.String()
	case *ssa.UnOp:
		if g, ok := x.X.(*ssa.Global); ok {
			return g.Name()
		}
	case *ssa.Call:
		if f := x.Call.StaticCallee(); f != nil {
			return f.Name() + "()"
		}
		if x.Call.Method != nil {
			return x.Call.Method.Name() + "()"
		}
	case *ssa.Extract:
		return shortVal(x.Tuple) + fmt.Sprintf("#%d", x.Index)
	case *ssa.MakeInterface:
		return shortVal(x.X)
	case *ssa.Parameter:
		return x.Name()
	}
	if v == nil {
		return "?"
	}
	return "v"
}

// tok4 checks what goes back into writeSem / connSem.
func (c *Ctx) tok4(fn *ssa.Function, name string, p *pathx.Path, i int, t string, s *tokSt, env tokEnv) {
	e := &p.Events[i]
	v := e.Val
	ck := pathx.ConstKey(v)
	key := "TOK-4|" + name + "|send(" + t + ")|"
	wireState := func() (failed, unknown bool) {
		for _, w := range s.wire {
			if w == nil {
				unknown = true
				continue
			}
			rel, _, ok := p.Known(w, s.since, i)
			switch {
			case !ok:
				unknown = true
			case rel == pathx.RNotNil:
				failed = true
			}
		}
		return
	}
	switch {
	case t == tkWrite && ck != "":
		// a signal constant
		if !strings.HasPrefix(ck, "connSignal:") {
			c.S.Bad("TOK-4", key+ck, c.pos(e.Instr), name, "constant that is not a connection signal deposited into writeSem", c.Trace(p, i))
			return
		}
		if eq := equalTo(p, s.val, i); eq != "" && eq != ck {
			c.S.Bad("TOK-4", key+"signal-changed("+eq+"→"+ck+")", c.pos(e.Instr), name, "the signal put back differs from the signal taken: waiting requests would see a different connect state", c.Trace(p, i))
			return
		}
		// connDown is the outcome of a failed connect attempt: only the function
		// that dials deposits it (anyone else puts back the very signal taken)
		if dk, has := c.constIntOK("connDown"); has && ck == fmt.Sprintf("connSignal:%d", dk) && equalTo(p, s.val, i) != ck {
			// (the function itself, a helper introduced later that it calls, or — for
			// such a helper — the function it was split from)
			var region func(f *ssa.Function, d int) bool
			region = func(f *ssa.Function, d int) bool {
				if env.dial == nil || d > 4 {
					return false
				}
				for _, cal := range c.staticCallees(f) {
					if cal == env.dial || (c.isNewHelper(cal) && region(cal, d+1)) {
						return true
					}
				}
				return false
			}
			dials := region(fn, 0)
			if !dials && c.isNewHelper(fn) {
				for _, g := range c.callers()[fn] {
					if region(g, 0) {
						dials = true
					}
				}
			}
			if !dials {
				c.S.Bad("TOK-4", key+ck+"|by-a-function-that-does-not-dial", c.pos(e.Instr), name, "connDown is deposited by a function that made no connect attempt: requests fail with ErrDown (\"after a failed connect attempt\") although the read routine has not even tried to reconnect — the state after a lost connection or a failed write is connPending", c.Trace(p, i))
				return
			}
		}
		c.S.OK("TOK-4", key+ck, c.pos(e.Instr), name, "signal placeholder deposited", true)
	case v == s.val && t == tkWrite:
		if eq := equalTo(p, s.val, i); strings.HasPrefix(eq, "connSignal:") {
			c.S.OK("TOK-4", key+"same-signal", c.pos(e.Instr), name, "the signal taken is put back unchanged", true)
			return
		}
		failed, unknown := wireState()
		switch {
		case failed:
			c.S.Bad("TOK-4", key+"conn|after-failed-write", c.pos(e.Instr), name, "the connection is redeposited after a wire write failed on this path: later packets would follow a partial one", c.Trace(p, i))
		case unknown:
			c.S.Bad("TOK-4", key+"conn|write-result-unchecked", c.pos(e.Instr), name, "the connection is redeposited although the result of a wire write on this path was not tested for nil", c.Trace(p, i))
		default:
			c.S.OK("TOK-4", key+"conn|after-success", c.pos(e.Instr), name, fmt.Sprintf("same connection redeposited; all %d wire calls since acquisition returned nil on this path", len(s.wire)), true)
		}
	case t == tkWrite:
		// fresh connection: only from dialAndConnect with nil error and nil resends
		call, _ := v.(*ssa.Extract)
		good := false
		if call != nil {
			if cc, ok := call.Tuple.(*ssa.Call); ok && cc.Call.StaticCallee() == env.dial && env.dial != nil && call.Index == 0 {
				if rel, _, ok := p.Known(pathx.ErrResult(cc), 0, i); ok && rel == pathx.RNil {
					good = true
				}
			}
		}
		failed, unknown := wireState()
		switch {
		case !good:
			c.S.Bad("TOK-4", key+"foreign-value", c.pos(e.Instr), name, "value deposited into writeSem is neither a signal, nor the value taken, nor a connection from a successful dialAndConnect", c.Trace(p, i))
		case failed || unknown:
			c.S.Bad("TOK-4", key+"fresh-conn|resend-not-nil", c.pos(e.Instr), name, "the new connection is published although a resend on this path failed or was not checked", c.Trace(p, i))
		default:
			c.S.OK("TOK-4", key+"fresh-conn", c.pos(e.Instr), name, fmt.Sprintf("new connection published after nil dialAndConnect and %d nil wire calls", len(s.wire)), true)
		}
	case t == tkConn:
		switch {
		case v == s.val:
			c.S.OK("TOK-4", key+"previous", c.pos(e.Instr), name, "previous connection value put back", true)
		default:
			good := false
			if ex, ok := v.(*ssa.Extract); ok && ex.Index == 0 {
				if cc, ok := ex.Tuple.(*ssa.Call); ok && cc.Call.StaticCallee() == env.dial && env.dial != nil {
					if rel, _, ok := p.Known(pathx.ErrResult(cc), 0, i); ok && rel == pathx.RNil {
						good = true
					}
				}
			}
			if good {
				c.S.OK("TOK-4", key+"fresh-conn", c.pos(e.Instr), name, "new connection from a successful dialAndConnect", true)
			} else {
				c.S.Bad("TOK-4", key+"foreign-value", c.pos(e.Instr), name, "value deposited into connSem is neither the previous value nor a connection from a successful dialAndConnect", c.Trace(p, i))
			}
		}
	}
}

// tok8: signal flips happen under the write token; the opposite signal is
// blocked before this one is cleared.
func (c *Ctx) tok8(fn *ssa.Function, name string, p *pathx.Path, i int, e, last *pathx.Event, m tokMap, env tokEnv, which map[string]bool, res *tokResult) {
	if !which["TOK-8"] || len(e.Args) != 1 {
		return
	}
	sig := tokenOf(e.Args[0])
	kind := "block"
	if e.Callee == env.clearSig {
		kind = "clear"
	}
	key := "TOK-8|" + name + "|" + kind + "(" + sig + ")"
	ws := m[tkWrite]
	if ws == nil || (ws.k != tsHeld) {
		c.S.Bad("TOK-8", key+"|under(writeSem)", c.pos(e.Instr), name, "Online/Offline signal flipped without holding the write token: two flips can interleave and leave both released", c.Trace(p, i))
		return
	}
	if kind == "clear" {
		res.flipSites++
		opp := tkOff
		if sig == tkOff {
			opp = tkOn
		}
		if last == nil || last.Callee != env.blockSig || len(last.Args) != 1 || tokenOf(last.Args[0]) != opp {
			c.S.Bad("TOK-8", key+"|after-block("+opp+")", c.pos(e.Instr), name, "signal released before the opposite signal was blocked: Online and Offline are both released in between", c.Trace(p, i))
			return
		}
		c.S.OK("TOK-8", key+"|after-block("+opp+")", c.pos(e.Instr), name, "opposite signal blocked first, under the write token", true)
	}
}

// readRoutineOnly computes the functions whose every caller chain starts in
// ReadSlices (confinement to the read routine).
func (c *Ctx) readRoutineOnly() map[*ssa.Function]bool {
	callers := c.callers()
	rs := c.P.Func("(*Client).ReadSlices")
	memo := map[*ssa.Function]int{} // 1 yes, 2 no, 3 in progress
	var only func(f *ssa.Function) bool
	only = func(f *ssa.Function) bool {
		if f == rs {
			return true
		}
		switch memo[f] {
		case 1:
			return true
		case 2:
			return false
		case 3:
			return true // cycles do not add roots
		}
		memo[f] = 3
		cs := callers[f]
		ok := len(cs) > 0 && !isExported(f)
		for _, g := range cs {
			if !only(g) {
				ok = false
			}
		}
		if ok {
			memo[f] = 1
		} else {
			memo[f] = 2
		}
		return ok
	}
	out := map[*ssa.Function]bool{}
	for _, f := range c.funcs {
		if only(f) {
			out[f] = true
		}
	}
	return out
}
