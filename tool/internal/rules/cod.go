package rules

import (
	"fmt"
	"go/token"
	"sort"
	"strings"

	"golang.org/x/tools/go/ssa"

	"mqttverif/internal/load"
	"mqttverif/internal/pathx"
)

func init() {
	register("COD-1", []string{"COD-1", "COD-12"}, func(c *Ctx, w map[string]bool) { c.cod1(w) })
	register("COD-2", []string{"COD-2"}, func(c *Ctx, _ map[string]bool) { c.cod2() })
	register("COD-3", []string{"COD-3"}, func(c *Ctx, _ map[string]bool) { c.cod3() })
	register("COD-4", []string{"COD-4"}, func(c *Ctx, _ map[string]bool) { c.cod4() })
}

// ---- COD-1 / COD-12: identifier spaces and queue capacity ----

func (c *Ctx) cod1(which map[string]bool) {
	get := func(n string) int64 { return c.constInt(n) }
	pm, um := get("publishIDMask"), get("unorderedIDMask")
	spaces := []struct {
		name string
		base int64
		mask int64
	}{
		{"atLeastOnceIDSpace", get("atLeastOnceIDSpace"), pm},
		{"exactlyOnceIDSpace", get("exactlyOnceIDSpace"), pm},
		{"subscribeIDSpace", get("subscribeIDSpace"), um},
		{"unsubscribeIDSpace", get("unsubscribeIDSpace"), um},
	}
	if which["COD-1"] {
		for i, a := range spaces {
			key := "COD-1|space|" + a.name
			switch {
			case a.base&a.mask != 0:
				c.S.Bad("COD-1", key, "", "", fmt.Sprintf("%s %#x overlaps its own mask %#x: identifiers of different transactions collide", a.name, a.base, a.mask), nil)
			case a.base == 0:
				c.S.Bad("COD-1", key, "", "", a.name+" is zero: packet identifier 0 becomes reachable", nil)
			case a.base|a.mask > 0xffff:
				c.S.Bad("COD-1", key, "", "", a.name+" exceeds 16 bits", nil)
			case a.mask&(a.mask+1) != 0:
				c.S.Bad("COD-1", key, "", "", fmt.Sprintf("mask %#x of %s is not of the form 2^n-1", a.mask, a.name), nil)
			default:
				c.S.OK("COD-1", key, "", "", fmt.Sprintf("range %#x..%#x excludes 0 and fits 16 bits", a.base, a.base|a.mask), true)
			}
			for _, b := range spaces[i+1:] {
				k2 := "COD-1|disjoint|" + a.name + "/" + b.name
				if a.base <= b.base|b.mask && b.base <= a.base|a.mask {
					c.S.Bad("COD-1", k2, "", "", fmt.Sprintf("identifier ranges %#x..%#x and %#x..%#x overlap", a.base, a.base|a.mask, b.base, b.base|b.mask), nil)
				} else {
					c.S.OK("COD-1", k2, "", "", "ranges disjoint", true)
				}
			}
		}
		// wrap adjustments in AdoptSession: every "+= publishIDMask+1"
		if ad := c.Fn("COD-1", "AdoptSession"); ad != nil {
			n := 0
			for _, b := range c.regionBlocks(ad) {
				for _, ins := range b.Instrs {
					bo, ok := ins.(*ssa.BinOp)
					if !ok || bo.Op != token.ADD {
						continue
					}
					k, ok := intConst(bo.Y)
					if !ok || k < pm-16 || k > pm+16 || k < 256 {
						continue
					}
					n++
					key := fmt.Sprintf("COD-1|AdoptSession|wrap-adjust|%s", Expr(bo.X))
					if k == pm+1 {
						c.S.OK("COD-1", key, c.P.Pos(bo.Pos()), "AdoptSession", "wrap adjustment adds publishIDMask+1", true)
					} else {
						c.S.Bad("COD-1", key, c.P.Pos(bo.Pos()), "AdoptSession", fmt.Sprintf("wrap adjustment adds %#x, want publishIDMask+1 = %#x: the rebuilt counters are off by %d after a wrap-around", k, pm+1, pm+1-k), nil)
					}
				}
			}
			c.S.Floor("COD-1", "wrap adjustments in AdoptSession", n, 3)
		}
	}
	if which["COD-12"] {
		// newClient: both Max fields are clamped to <= publishIDMask+1 before the queues are made
		nc := c.Fn("COD-12", "newClient")
		if nc == nil {
			return
		}
		for _, fld := range []string{"AtLeastOnceMax", "ExactlyOnceMax"} {
			a := c.acc("COD-12", nc, "queue-capacity("+fld+")≤publishIDMask+1")
			for _, p := range c.Paths("COD-12", nc) {
				if p.End != pathx.KReturn {
					continue
				}
				// find make(chan, cap) whose size is a load of Config.<fld>
				found := false
				for _, b := range c.regionBlocks(nc) {
					for _, ins := range b.Instrs {
						mk, ok := ins.(*ssa.MakeChan)
						if !ok {
							continue
						}
						if roleKey(mk.Size) == "Config."+fld {
							found = true
						}
						// made by a helper introduced later: the capacity it is called with
						if pr, isP := stripConv(mk.Size).(*ssa.Parameter); isP && c.isNewHelper(pr.Parent()) {
							idx := -1
							for i, q := range pr.Parent().Params {
								if q == pr {
									idx = i
								}
							}
							for _, cb := range c.regionBlocks(nc) {
								for _, ci := range cb.Instrs {
									if call, isC := ci.(ssa.CallInstruction); isC && call.Common().StaticCallee() == pr.Parent() && idx >= 0 && idx < len(call.Common().Args) {
										if roleKey(call.Common().Args[idx]) == "Config."+fld {
											found = true
										}
									}
								}
							}
						}
					}
				}
				if !found {
					a.fail(p, len(p.Events)-1, "no queue is made with capacity Config.%s", fld)
					continue
				}
				// on this path: either stored a clamp value <= mask+1, or established 0 <= v <= mask
				stored, bounded := int64(-1), 0
				for i := range p.Events {
					e := &p.Events[i]
					if e.Kind == pathx.KStore && pathx.RoleOfAddr(e.Addr).Key() == "Config."+fld {
						if k, ok := intConst(e.Val); ok {
							stored = k
						} else {
							stored = -2
						}
					}
					if e.Kind == pathx.KAssume {
						if cm, ok := cmpOf(e.Val, e.Truth); ok && roleKey(cm.X) == "Config."+fld {
							if k, ok := intConst(cm.Y); ok {
								if cm.Op == token.GEQ && k == 0 {
									bounded |= 1
								}
								if cm.Op == token.LEQ && k <= pm+1 || cm.Op == token.LSS && k <= pm+2 {
									bounded |= 2
								}
							}
						}
					}
				}
				switch {
				case stored >= 0 && stored <= pm+1:
					a.pass()
				case stored == -1 && bounded == 3:
					a.pass()
				default:
					a.fail(p, len(p.Events)-1, "queue capacity from Config.%s is not bounded by publishIDMask+1 = %d on this path (clamp value %d, bounds seen %d): two in-flight transfers could share one packet identifier", fld, pm+1, stored, bounded)
				}
			}
			a.done(2, "clamped or proven within 0..publishIDMask+1 on every path")
			// the limit that results is exactly the documented one, decided on
			// representative settings: negative or beyond the identifier space
			// means all of it; anything in between is taken as it is (zero disables)
			ex := c.acc("COD-12", nc, "effective-"+fld+"-decided-on-representative-settings")
			classify := func(v ssa.Value) adjLeaf {
				if roleKey(v) == "Config."+fld {
					return leafN
				}
				return leafNone
			}
			for _, setting := range []int64{-1, -5, 0, 1, 2, pm, pm + 1, pm + 2, 1 << 20} {
				want := setting
				if setting < 0 || setting > pm+1 {
					want = pm + 1
				}
				seen := false
				for _, p := range c.Paths("COD-12", nc) {
					if p.End != pathx.KReturn || p.Start != nc.Blocks[0] {
						continue
					}
					sat, used := adjDecide(p, nc, classify, uint64(setting), 0, 0, len(p.Events))
					// (comparisons are on signed ints: re-evaluate those the unsigned evaluator got wrong)
					sat = true
					for _, cm := range assumed(p, 0, -1) {
						if roleKey(cm.X) != "Config."+fld {
							continue
						}
						if h, ok := cm.holds(setting); ok {
							used = true
							if !h {
								sat = false
							}
						}
					}
					if !used || !sat {
						continue
					}
					seen = true
					got := setting
					for i := range p.Events {
						e := &p.Events[i]
						if e.Kind == pathx.KStore && pathx.RoleOfAddr(e.Addr).Key() == "Config."+fld {
							if k, ok := intConst(e.Val); ok {
								got = k
							} else {
								got = -999
							}
						}
					}
					if got == want {
						ex.pass()
					} else {
						ex.fail(p, len(p.Events)-1, "with Config.%s = %d the limit in force becomes %d, want %d", fld, setting, got, want)
					}
				}
				if !seen {
					ex.failAt(c.P.Pos(nc.Pos()), "no path of newClient decides Config.%s = %d", fld, setting)
				}
			}
			ex.done(9, "negative and oversized settings give publishIDMask+1, others are kept")
		}
	}
}

// ---- COD-2: dispatch covers all sixteen types ----

func (c *Ctx) cod2() {
	rs := c.Fn("COD-2", "(*Client).readSlices")
	if rs == nil {
		return
	}
	ef := c.errflow()
	types := c.packetTypes()
	arms := c.dispatch(rs)
	byType := map[int64]dispatchArm{}
	for _, a := range arms {
		byType[a.Type] = a
	}
	server := map[string]bool{"typePUBLISH": true, "typePUBACK": true, "typePUBREC": true, "typePUBREL": true, "typePUBCOMP": true, "typeSUBACK": true, "typeUNSUBACK": true, "typePINGRESP": true}
	var names []string
	for n := range types {
		names = append(names, n)
	}
	sort.Strings(names)
	n := 0
	for _, name := range names {
		v := types[name]
		key := "COD-2|dispatch|" + name
		arm, ok := byType[v]
		switch {
		case !ok:
			c.S.Bad("COD-2", key, c.P.Pos(rs.Pos()), "(*Client).readSlices", fmt.Sprintf("packet type %s (%d) has no arm in the dispatch switch: such a packet is skipped in silence", name, v), nil)
		case server[name]:
			if arm.Handler == nil {
				c.S.Bad("COD-2", key, c.P.Pos(arm.Pos), "(*Client).readSlices", "a packet type the broker may send has no handler", nil)
			} else {
				n++
				c.S.OK("COD-2", key, c.P.Pos(arm.Pos), "(*Client).readSlices", "handled by "+load.FuncName(arm.Handler), true)
			}
		default:
			if arm.Handler != nil {
				c.S.Bad("COD-2", key, c.P.Pos(arm.Pos), "(*Client).readSlices", "a packet type no broker may send is passed to "+load.FuncName(arm.Handler)+" instead of being rejected", nil)
				continue
			}
			if arm.Sentinel == nil {
				c.S.Bad("COD-2", key, c.P.Pos(arm.Pos), "(*Client).readSlices", "forbidden packet type is not mapped to an error", nil)
				continue
			}
			cl := classes(ef.ofGlobal(arm.Sentinel))
			if cl["errProtoReset"] {
				n++
				c.S.OK("COD-2", key, c.P.Pos(arm.Pos), "(*Client).readSlices", "rejected with "+arm.Sentinel.Name()+" (wraps errProtoReset)", true)
			} else {
				c.S.Bad("COD-2", key, c.P.Pos(arm.Pos), "(*Client).readSlices", arm.Sentinel.Name()+" does not wrap errProtoReset", nil)
			}
		}
	}
	c.S.Floor("COD-2", "packet types dispatched", n, 16)
	if len(types) != 16 {
		c.S.Unknown("COD-2", "COD-2|types", "", "", fmt.Sprintf("found %d type constants, want 16", len(types)))
	}
}

// ---- COD-3: guard checklists of the packet handlers ----

type guard struct {
	name string
	ok   func(cm cmp) bool
}

func lenOf(v ssa.Value, key string) bool {
	x, ok := builtinCall(v, "len")
	return ok && roleKey(x) == key
}

func isK(v ssa.Value, k int64) bool {
	n, ok := intConst(v)
	return ok && n == k
}

// parsedID: a value derived (through conversions) from a Uint16 call.
func parsedID(v ssa.Value) bool {
	call, ok := strip(v).(*ssa.Call)
	if !ok {
		return false
	}
	f := call.Call.StaticCallee()
	// (MQTT integers are big-endian: the little-endian sibling parses another identifier)
	return f != nil && f.Name() == "Uint16" && strings.Contains(stdName(f), "bigEndian")
}

func either(cm cmp, f func(cmp) bool) bool { return f(cm) || f(cm.swapped()) }

func (c *Ctx) cod3() {
	hs := c.handlers("COD-3")
	pm, um := c.constInt("publishIDMask"), c.constInt("unorderedIDMask")
	gLen := func(op token.Token, k int64) guard {
		return guard{fmt.Sprintf("len(peek)%s%d", op, k), func(cm cmp) bool {
			return either(cm, func(x cmp) bool { return lenOf(x.X, "Client.peek") && isK(x.Y, k) && x.Op == op })
		}}
	}
	gNonZero := guard{"identifier≠0", func(cm cmp) bool {
		return either(cm, func(x cmp) bool { return x.Op == token.NEQ && parsedID(x.X) && isK(x.Y, 0) })
	}}
	gSpace := func(mask int64, spaceName string) guard {
		sp := c.constInt(spaceName)
		return guard{"identifier-space=" + spaceName, func(cm cmp) bool {
			return either(cm, func(x cmp) bool {
				if x.Op != token.EQL || !isK(x.Y, sp) {
					return false
				}
				b, ok := strip(x.X).(*ssa.BinOp)
				if !ok || !parsedID(b.X) {
					return false
				}
				k, ok := intConst(b.Y)
				if !ok {
					return false
				}
				// id &^ mask  or  id & ^mask
				return b.Op == token.AND_NOT && k == mask || b.Op == token.AND && (k == ^mask || k&0xffff == (^mask)&0xffff)
			})
		}}
	}
	gNext := func(counter, spaceName string) guard {
		sp := c.constInt(spaceName)
		return guard{"next-in-line(" + counter + ")", func(cm cmp) bool {
			return either(cm, func(x cmp) bool {
				if x.Op != token.EQL || !parsedID(x.X) {
					return false
				}
				or, ok := strip(x.Y).(*ssa.BinOp)
				if !ok || or.Op != token.OR || !isK(or.Y, sp) {
					return false
				}
				and, ok := strip(or.X).(*ssa.BinOp)
				return ok && and.Op == token.AND && isK(and.Y, pm) && roleKey(and.X) == counter
			})
		}}
	}
	gQueue := func(inst string) guard {
		return guard{"queue(" + inst + ")-not-empty", func(cm cmp) bool {
			return either(cm, func(x cmp) bool {
				q, ok := builtinCall(x.X, "len")
				if !ok {
					return false
				}
				r := pathx.RoleOfValue(strip(q))
				return r.Key() == "outbound.queue" && r.Has(inst) && (x.Op == token.NEQ && isK(x.Y, 0) || x.Op == token.GTR && isK(x.Y, 0))
			})
		}}
	}
	gRecDepth := guard{"Received-Completed<len(queue)", func(cm cmp) bool {
		return either(cm, func(x cmp) bool {
			if x.Op != token.LSS {
				return false
			}
			sub, ok := strip(x.X).(*ssa.BinOp)
			if !ok || sub.Op != token.SUB || roleKey(sub.X) != "orderedTxs.Received" || roleKey(sub.Y) != "orderedTxs.Completed" {
				return false
			}
			q, ok := builtinCall(x.Y, "len")
			return ok && pathx.RoleOfValue(strip(q)).Key() == "outbound.queue" && pathx.RoleOfValue(strip(q)).Has("exactlyOnce")
		})
	}}
	gCompBehind := guard{"Completed<Received", func(cm cmp) bool {
		return either(cm, func(x cmp) bool {
			return x.Op == token.LSS && roleKey(x.X) == "orderedTxs.Completed" && roleKey(x.Y) == "orderedTxs.Received"
		})
	}}

	type spec struct {
		typ    string
		guards []guard
		effect func(e *pathx.Event) bool
		what   string
	}
	persist := func(op string) func(e *pathx.Event) bool {
		return func(e *pathx.Event) bool { return persistenceOp(e) == op }
	}
	endTx := c.Fn("COD-3", "(*unorderedTxs).endTx")
	callsEnd := func(e *pathx.Event) bool { return isCallTo(e, endTx) }
	specs := []spec{
		{"typePUBACK", []guard{gLen(token.EQL, 2), gNonZero, gSpace(pm, "atLeastOnceIDSpace"), gNext("orderedTxs.Acked", "atLeastOnceIDSpace"), gQueue("atLeastOnce")}, persist("Delete"), "Delete"},
		{"typePUBREC", []guard{gLen(token.EQL, 2), gNonZero, gSpace(pm, "exactlyOnceIDSpace"), gNext("orderedTxs.Received", "exactlyOnceIDSpace"), gRecDepth}, persist("Save"), "Save"},
		{"typePUBCOMP", []guard{gLen(token.EQL, 2), gNonZero, gSpace(pm, "exactlyOnceIDSpace"), gNext("orderedTxs.Completed", "exactlyOnceIDSpace"), gCompBehind, gQueue("exactlyOnce")}, persist("Delete"), "Delete"},
		{"typePUBREL", []guard{gLen(token.EQL, 2), gNonZero}, persist("Delete"), "Delete"},
		{"typeSUBACK", []guard{gLen(token.GEQ, 3), gNonZero, gSpace(um, "subscribeIDSpace")}, callsEnd, "endTx"},
		{"typeUNSUBACK", []guard{gLen(token.EQL, 2), gNonZero, gSpace(um, "unsubscribeIDSpace")}, callsEnd, "endTx"},
		{"typePINGRESP", []guard{gLen(token.EQL, 0)}, func(e *pathx.Event) bool {
			return e.Kind == pathx.KSelect || e.Kind == pathx.KRecv && roleKey(e.Chan) == "Client.pingAck"
		}, "ping slot access"},
	}
	n := 0
	for _, sp := range specs {
		fn := hs[sp.typ]
		if fn == nil {
			c.S.Unknown("COD-3", "COD-3|anchor|"+sp.typ, "", "", "no handler in the dispatch switch for "+sp.typ)
			continue
		}
		n++
		accs := map[string]*acc{}
		for _, g := range sp.guards {
			accs[g.name] = c.acc("COD-3", fn, "guard("+g.name+")-dominates-"+sp.what)
		}
		eff := c.acc("COD-3", fn, "effect("+sp.what+")-reachable")
		for _, p := range c.Paths("COD-3", fn) {
			// Dominance over acyclic paths from the entry: segments that
			// start at a loop header carry no facts from before the loop,
			// and every path to the effect extends an acyclic entry path.
			if p.Start != fn.Blocks[0] {
				continue
			}
			i := p.Index(0, sp.effect)
			if i < 0 {
				continue
			}
			eff.pass()
			cms := assumed(p, 0, i)
			// x >= 3 also follows from !(x < 3)
			for _, g := range sp.guards {
				ok := false
				for _, cm := range cms {
					if g.ok(cm) {
						ok = true
					}
				}
				if ok {
					accs[g.name].pass()
				} else {
					accs[g.name].fail(p, i, "%s is reached on a path that has not established %s: a hostile or confused broker can forge progress or trigger an out-of-range access", sp.what, g.name)
				}
			}
		}
		// the converse: a handler that reports success has done what the packet
		// stands for — a guard that fails must not end in "nil" (the malformed
		// or unsolicited packet would pass without the reset it is due)
		conv := c.acc("COD-3", fn, "nil-return⇒"+sp.what+"-happened")
		effBlocks := map[*ssa.BasicBlock]bool{}
		for _, p := range c.Paths("COD-3", fn) {
			for i := range p.Events {
				if e := &p.Events[i]; sp.effect(e) && e.Instr != nil && e.Instr.Block() != nil {
					effBlocks[e.Instr.Block()] = true
				}
			}
		}
		for _, p := range c.Paths("COD-3", fn) {
			if p.End != pathx.KReturn || retErr(p, len(p.Events)-1) != triNil {
				continue
			}
			// (a segment that ends with the return of a helper expanded in place says nothing about the handler's)
			if lf := p.Events[len(p.Events)-1].Fn; lf != nil && lf != fn {
				continue
			}
			done := p.Index(0, sp.effect) >= 0
			if !done && p.Start != nil {
				// (a segment that starts at a loop inside a helper expanded in place is judged at the helper's call site)
				starts := []*ssa.BasicBlock{p.Start}
				if p.Start.Parent() != fn {
					for _, cb := range fn.Blocks {
						for _, ci := range cb.Instrs {
							if call, ok := ci.(ssa.CallInstruction); ok && call.Common().StaticCallee() == p.Start.Parent() {
								starts = append(starts, cb)
							}
						}
					}
				}
				for b := range effBlocks {
					for _, st := range starts {
						if b.Parent() == st.Parent() && b.Dominates(st) {
							done = true
						}
					}
				}
			}
			if done {
				conv.pass()
			} else {
				conv.fail(p, len(p.Events)-1, "the handler returns nil on a path without its %s: a packet that failed a check, or came unsolicited, is accepted in silence — no reset, and the exchange it belongs to stays open", sp.what)
			}
		}
		conv.done(1, "every success return lies behind the effect")
		eff.done(1, "the handler's first effect was located")
		for _, g := range sp.guards {
			accs[g.name].done(1, "established on every path to the first effect")
		}
	}
	c.S.Floor("COD-3", "handlers with guard checklists", n, 7)

	// SUBACK return codes: every code is one of 0,1,2,0x80 before endTx — the
	// loop's default arm must return an error wrapping errProtoReset.
	if fn := hs["typeSUBACK"]; fn != nil {
		a := c.acc("COD-3", fn, "illegal-return-code⇒protocol-error")
		ef := c.errflow()
		for _, p := range c.Paths("COD-3", fn) {
			if p.End != pathx.KReturn {
				continue
			}
			// a path that excluded all four legal codes for the same value must return errProtoReset
			ex := map[ssa.Value]map[string]bool{}
			for _, e := range p.Events {
				if e.Kind != pathx.KAssume {
					continue
				}
				for _, at := range e.Atoms {
					if at.Rel == pathx.RNe {
						if ex[at.V] == nil {
							ex[at.V] = map[string]bool{}
						}
						ex[at.V][at.C] = true
					}
				}
			}
			for _, m := range ex {
				if m["int:0"] && m["int:1"] && m["int:2"] && m["int:128"] {
					last := len(p.Events) - 1
					r := p.Events[last].Results[0]
					if cl := classes(ef.ofOn(p, r)); cl["errProtoReset"] {
						a.pass()
					} else {
						a.fail(p, last, "a SUBACK return code outside {0,1,2,0x80} does not lead to a protocol error")
					}
				}
			}
		}
		a.done(1, "an illegal return code returns an error wrapping errProtoReset")
	}

	c.cod3Suback(hs)

	// onPUBLISH: bounds of the slicing
	if fn := hs["typePUBLISH"]; fn != nil {
		a := c.acc("COD-3", fn, "delivery⇒lengths-checked,identifier≠0,QoS≠3")
		for _, p := range c.Paths("COD-3", fn) {
			if p.End != pathx.KReturn || retErr(p, len(p.Events)-1) != triNil {
				continue
			}
			last := len(p.Events) - 1
			cms := assumed(p, 0, last)
			has := func(f func(cmp) bool) bool {
				for _, cm := range cms {
					if either(cm, f) {
						return true
					}
				}
				return false
			}
			l2 := has(func(x cmp) bool { return lenOf(x.X, "Client.peek") && isK(x.Y, 2) && x.Op == token.GEQ })
			// the topic end, 2 + the 16-bit topic length, may equal the packet length (empty payload) but not exceed it
			topic := has(func(x cmp) bool {
				return lenOf(x.Y, "Client.peek") && x.Op == token.LEQ && fromUint16(x.X, 0) && !isPlus(x.X, 2, true)
			})
			q := qosOnPath(p)
			idLen, idNZ := true, true
			if q == 1 || q == 2 {
				// the two identifier bytes behind the topic fit exactly: len ≥ topic end + 2
				idLen = has(func(x cmp) bool { return lenOf(x.X, "Client.peek") && x.Op == token.GEQ && isPlus(x.Y, 2, true) })
				idNZ = has(func(x cmp) bool { return x.Op == token.NEQ && parsedID(x.X) && isK(x.Y, 0) })
			}
			switch {
			case q < 0 || q > 2:
				a.fail(p, last, "a message is delivered on a path without a legal quality-of-service arm")
			case !l2 || !topic:
				a.fail(p, last, "a message is delivered without the topic length having been checked against the packet (len>=2: %v, topic end<=len: %v)", l2, topic)
			case !idLen || !idNZ:
				a.fail(p, last, "a QoS %d message is delivered without identifier checks (length: %v, non-zero: %v)", q, idLen, idNZ)
			default:
				a.pass()
			}
		}
		a.done(3, "every delivering path checked both lengths, the identifier and the level")
	}
}

// fromUint16: v is computed (through conversions, + and constants) from a Uint16 read.
func fromUint16(v ssa.Value, d int) bool {
	if d > 8 {
		return false
	}
	switch x := stripConv(v).(type) {
	case *ssa.Call:
		return parsedID(x)
	case *ssa.BinOp:
		return fromUint16(x.X, d+1) || fromUint16(x.Y, d+1)
	case *ssa.Phi:
		for _, e := range x.Edges {
			if fromUint16(e, d+1) {
				return true
			}
		}
	}
	return false
}

// isPlus: v is (x + k) where, with topicEnd, x is itself derived from the topic length.
func isPlus(v ssa.Value, k int64, topicEnd bool) bool {
	bo, ok := stripConv(v).(*ssa.BinOp)
	if !ok || bo.Op != token.ADD || !isK(bo.Y, k) {
		return false
	}
	if !topicEnd {
		return true
	}
	// x must be the topic end: uint16 + 2 (possibly through a phi)
	return fromUint16(bo.X, 0) && func() bool {
		switch y := stripConv(bo.X).(type) {
		case *ssa.BinOp:
			return y.Op == token.ADD
		case *ssa.Phi:
			return true
		}
		return false
	}()
}

// ---- COD-4: remaining length decode reads at most four bytes ----

func (c *Ctx) cod4() {
	pp := c.Fn("COD-4", "(*Client).peekPacket")
	if pp == nil {
		return
	}
	a := c.acc("COD-4", pp, "remaining-length≤4-bytes")
	// find the shift induction variable: phi(0, shift+7)
	var shift *ssa.Phi
	for _, b := range pp.Blocks {
		for _, ins := range b.Instrs {
			phi, ok := ins.(*ssa.Phi)
			if !ok || len(phi.Edges) != 2 {
				continue
			}
			zero, inc := false, false
			for _, e := range phi.Edges {
				if isK(e, 0) {
					zero = true
				}
				if bo, ok := e.(*ssa.BinOp); ok && bo.Op == token.ADD && bo.X == phi && isK(bo.Y, 7) {
					inc = true
				}
			}
			if zero && inc {
				shift = phi
			}
		}
	}
	if shift == nil {
		a.failAt(c.P.Pos(pp.Pos()), "no induction variable (0; +7) found in the length decode")
		a.done(1, "")
		return
	}
	// The induction variable is only ever compared with constants, so the loop
	// is evaluated exactly for shift = 0, 7, 14, … : an iteration is entered
	// with shift s when the previous one could loop back; it reads a byte
	// when a path from the loop head reaches ReadByte under the guards that
	// hold for s; it can end the decode when such a path leaves the loop
	// and goes on.
	b4 := c.acc("COD-4", pp, "remaining-length-accepts-4-bytes")
	sat := func(p *pathx.Path, upto int, s int64) bool {
		for _, cm := range assumed(p, 0, upto) {
			for _, k := range []cmp{cm, cm.swapped()} {
				if strip(k.X) != shift {
					continue
				}
				if h, ok := k.holds(s); ok && !h {
					return false
				}
			}
		}
		return true
	}
	isRead := func(e *pathx.Event) bool {
		return e.Kind == pathx.KCall && e.Callee != nil && (stdName(e.Callee) == "(*bufio.Reader).ReadByte" || stdName(e.Callee) == "(*bufio.Reader).Read" || stdName(e.Callee) == "(*bufio.Reader).Peek")
	}
	var heads []*pathx.Path
	for _, p := range c.Paths("COD-4", pp) {
		if p.Start == shift.Block() {
			heads = append(heads, p)
		}
	}
	reads := func(s int64) bool {
		for _, p := range heads {
			if r := p.Index(0, isRead); r >= 0 && sat(p, r, s) {
				return true
			}
		}
		return false
	}
	cont := func(s int64) bool {
		for _, p := range heads {
			if p.End == pathx.KLoopBack && p.Events[len(p.Events)-1].Target == shift.Block() && sat(p, -1, s) {
				return true
			}
		}
		return false
	}
	leaves := func(s int64) bool {
		for _, p := range heads {
			r := p.Index(0, isRead)
			if r < 0 || !sat(p, -1, s) {
				continue
			}
			if p.End == pathx.KLoopBack && p.Events[len(p.Events)-1].Target == shift.Block() {
				continue
			}
			// goes on after the byte: some call other than building an error, or a nil return
			for i := r + 1; i < len(p.Events); i++ {
				e := &p.Events[i]
				if e.Kind == pathx.KCall && e.Callee != nil && stdName(e.Callee) != "fmt.Errorf" && stdName(e.Callee) != "errors.New" {
					return true
				}
				if e.Kind == pathx.KLoopBack {
					return true // into a later loop of the function
				}
			}
			if p.End == pathx.KReturn && retErr(p, len(p.Events)-1) == triNil {
				return true
			}
		}
		return false
	}
	if len(heads) == 0 {
		a.failAt(c.P.Pos(shift.Pos()), "no iteration path of the length decode found")
	} else {
		nRead, nLeave := 0, 0
		s := int64(0)
		for ; s <= 70; s += 7 {
			if !reads(s) {
				break
			}
			nRead++
			if leaves(s) {
				nLeave++
			}
			if !cont(s) {
				s += 7
				break
			}
		}
		switch {
		case s > 70:
			a.failAt(c.P.Pos(shift.Pos()), "the length decode can continue without any bound on the shift: unbounded read")
		case nRead > 4:
			a.failAt(c.P.Pos(shift.Pos()), "the length decode reads %d bytes: a 5-byte remaining length is accepted", nRead)
		default:
			a.pass()
		}
		if nRead >= 4 && nLeave >= 4 {
			b4.pass()
		} else {
			b4.failAt(c.P.Pos(shift.Pos()), "the length decode reads %d length bytes and can end after %d of them, want 4 and 4: a legal four-byte remaining length (packets from 2 MiB) is refused", nRead, nLeave)
		}
	}
	b4.done(1, "iterations with shift 0, 7, 14 and 21 read a byte and may end the decode")
	// the byte is split at bit 7: seven value bits, one continuation bit
	mk := c.acc("COD-4", pp, "length-byte=7-value-bits+continuation-bit")
	val7, contBit := false, false
	for _, b := range pp.Blocks {
		for _, ins := range b.Instrs {
			bo, ok := ins.(*ssa.BinOp)
			if !ok {
				continue
			}
			// (b & 0x7f) << shift
			if bo.Op == token.SHL && stripConv(bo.Y) == ssa.Value(shift) {
				if and, ok := stripConv(bo.X).(*ssa.BinOp); ok && and.Op == token.AND && isK(and.Y, 0x7f) {
					val7 = true
				}
			}
			// b & 0x80 == 0
			if (bo.Op == token.EQL || bo.Op == token.NEQ) && isK(bo.Y, 0) {
				if and, ok := stripConv(bo.X).(*ssa.BinOp); ok && and.Op == token.AND && isK(and.Y, 0x80) {
					contBit = true
				}
			}
			if bo.Op == token.AND {
				if k, ok := intConst(bo.Y); ok && k != 0x7f && k != 0x80 && bo.Block().Parent() == pp {
					if _, fromRead := stripConv(bo.X).(*ssa.Extract); fromRead {
						mk.failAt(c.P.Pos(bo.Pos()), "a length byte is masked with %#x: the remaining length is seven value bits (0x7f) and the continuation bit (0x80)", k)
					}
				}
			}
		}
	}
	if val7 && contBit {
		mk.pass()
	} else {
		mk.failAt(c.P.Pos(shift.Pos()), "the decode does not take (b & 0x7f) << shift as the value (%v) and b & 0x80 as the continuation test (%v)", val7, contBit)
	}
	mk.done(1, "value bits 0x7f shifted by the induction variable; continuation test on 0x80")
	// a PUBLISH is a BigMessage exactly when it does not fit the read buffer
	bg := c.acc("COD-4", pp, "BigMessage⇔size>buffer-size")
	nb := 0
	for _, b := range pp.Blocks {
		for _, ins := range b.Instrs {
			bo, ok := ins.(*ssa.BinOp)
			if !ok {
				continue
			}
			isSize := func(v ssa.Value) bool {
				call, ok := stripConv(v).(*ssa.Call)
				return ok && call.Call.StaticCallee() != nil && stdName(call.Call.StaticCallee()) == "(*bufio.Reader).Size"
			}
			switch {
			case isSize(bo.Y) && !isSize(bo.X):
				nb++
				if bo.Op == token.GTR {
					bg.pass()
				} else {
					bg.failAt(c.P.Pos(bo.Pos()), "the packet size is compared with the buffer size by %s, want >: a packet of exactly the buffer size fits and must be served whole", bo.Op)
				}
			case isSize(bo.X) && !isSize(bo.Y):
				nb++
				if bo.Op == token.LSS {
					bg.pass()
				} else {
					bg.failAt(c.P.Pos(bo.Pos()), "the buffer size is compared with the packet size by %s, want <", bo.Op)
				}
			}
		}
	}
	bg.done(1, "size > c.bufr.Size()")
	// what is waited for: the whole packet, or a full read buffer for a big
	// PUBLISH — nothing less (the handlers rely on the topic, the packet
	// identifier and, for the rest, the complete body being in c.peek)
	pk := c.acc("COD-4", pp, "Peek(size|buffer-size);buffer-size-only-when-big")
	isSizeCall := func(v ssa.Value) bool {
		call, ok := stripConv(v).(*ssa.Call)
		return ok && call.Call.StaticCallee() != nil && stdName(call.Call.StaticCallee()) == "(*bufio.Reader).Size"
	}
	var sizeVals []ssa.Value // the decoded remaining length: what is compared with Size()
	for _, b := range pp.Blocks {
		for _, ins := range b.Instrs {
			if bo, ok := ins.(*ssa.BinOp); ok {
				switch {
				case isSizeCall(bo.Y) && !isSizeCall(bo.X):
					sizeVals = append(sizeVals, stripConv(bo.X))
				case isSizeCall(bo.X) && !isSizeCall(bo.Y):
					sizeVals = append(sizeVals, stripConv(bo.Y))
				}
			}
		}
	}
	// (a size variable captured by a function literal lives in a cell: loads of that cell are the size, too)
	cellOf := func(v ssa.Value) ssa.Value {
		u, ok := stripConv(v).(*ssa.UnOp)
		if !ok || u.Op != token.MUL {
			return nil
		}
		switch a := u.X.(type) {
		case *ssa.Alloc:
			return a
		case *ssa.FreeVar:
			fn := a.Parent()
			for i, fv := range fn.FreeVars {
				if fv == a {
					for _, mc := range closureSites(fn) {
						if i < len(mc.Bindings) {
							return mc.Bindings[i]
						}
					}
				}
			}
		}
		return nil
	}
	kindOf := func(v ssa.Value) string {
		v = stripConv(v)
		if isSizeCall(v) {
			return "buffer"
		}
		for _, sv := range sizeVals {
			if v == sv {
				return "size"
			}
			if cs := cellOf(sv); cs != nil {
				if cellOf(v) == cs {
					return "size"
				}
				// the path engine reads a cell as the value last stored in it
				if refs := cs.Referrers(); refs != nil {
					for _, r := range *refs {
						if st, ok := r.(*ssa.Store); ok && st.Addr == cs && stripConv(st.Val) == v {
							return "size"
						}
					}
				}
			}
		}
		return ""
	}
	for _, p := range c.Paths("COD-4", pp) {
		choice := phiChoicesAll(p)
		binds := pathBindings(p)
		for i := range p.Events {
			e := &p.Events[i]
			if !isStd(e, "(*bufio.Reader).Peek") || e.Kind != pathx.KCall || len(e.Args) < 2 {
				continue
			}
			arg := stripConv(e.Args[1])
			for d := 0; d < 12; d++ {
				if phi, ok := arg.(*ssa.Phi); ok {
					if ch, ok := choice[phi]; ok {
						arg = stripConv(ch)
						continue
					}
				}
				// the result of a helper or literal expanded in place
				if b, ok := binds[arg]; ok && b != arg {
					arg = stripConv(b)
					continue
				}
				break
			}
			var kinds []string
			// min(size, buffer size): the decoded size when the packet fits, the buffer size when it does not — by construction
			kk := func(v ssa.Value) string {
				if call, ok := stripConv(v).(*ssa.Call); ok {
					if bl, isB := call.Call.Value.(*ssa.Builtin); isB && bl.Name() == "min" && len(call.Call.Args) == 2 {
						k0, k1 := kindOf(call.Call.Args[0]), kindOf(call.Call.Args[1])
						if (k0 == "size" && k1 == "buffer") || (k0 == "buffer" && k1 == "size") {
							return "min"
						}
					}
				}
				return kindOf(v)
			}
			if call, ok := arg.(*ssa.Call); ok && call.Call.StaticCallee() != nil && c.expandInPlace(pp, call.Call.StaticCallee()) {
				// computed by a literal or helper ahead of this segment: whatever it can return
				for _, b := range call.Call.StaticCallee().Blocks {
					for _, ins := range b.Instrs {
						if r, ok := ins.(*ssa.Return); ok && len(r.Results) == 1 {
							kinds = append(kinds, kk(r.Results[0]))
						}
					}
				}
			} else if phi, ok := arg.(*ssa.Phi); ok {
				for _, ed := range phi.Edges {
					if ed != ssa.Value(phi) { // (the loop carries the value unchanged)
						kinds = append(kinds, kk(ed))
					}
				}
			} else {
				kinds = []string{kk(arg)}
			}
			// is the packet known big / known to fit on this path?
			big := 0
			for _, cm := range assumed(p, 0, i) {
				for _, k := range []cmp{cm, cm.swapped()} {
					if isSizeCall(k.Y) && kindOf(k.X) == "size" {
						switch k.Op {
						case token.GTR:
							big = 1
						case token.LEQ:
							big = -1
						}
					}
				}
			}
			bad := ""
			for _, k := range kinds {
				switch {
				case k == "":
					bad = "neither the packet size nor the buffer size"
				case k == "buffer" && big == -1:
					bad = "the buffer size although the packet fits"
				case k == "size" && big == 1:
					bad = "the packet size although it exceeds the buffer (bufio reports ErrBufferFull)"
				}
			}
			if bad == "" {
				pk.pass()
			} else {
				pk.fail(p, i, "Peek waits for %s (%s): a handler can find less of the packet in c.peek than it is entitled to — the identifier behind a long topic, or the tail of a packet that fits", bad, Expr(arg))
			}
		}
	}
	pk.done(1, "every Peek asks for the decoded size, or for the buffer size on a path that found the packet bigger")
	// a big PUBLISH is announced with a full read buffer in c.peek, and
	// onPUBLISH takes the topic and the packet identifier from there: the
	// buffer holds at least 2 (topic length) + stringMax + 2 (identifier) bytes
	c.cod4BufSize()
	a.done(1, "the loop continues only while shift ≤ 14, so at most four length bytes are read")
}

var _ = strings.Join

// cod3Suback: what a SUBACK means for the waiting Subscribe.
//   - the callback taken from the registry is used (send, close) only when
//     it is not nil: nil means the request was abandoned, and a send on a nil
//     channel stops the read routine for good;
//   - a return code 0x80 is counted, the count decides whether a
//     SubscribeError is sent, and the error names exactly the filters whose
//     code is 0x80.
func (c *Ctx) cod3Suback(hs map[string]*ssa.Function) {
	endTx := c.P.Func("(*unorderedTxs).endTx")
	for _, name := range []string{"typeSUBACK", "typeUNSUBACK"} {
		fn := hs[name]
		if fn == nil || endTx == nil {
			continue
		}
		a := c.acc("COD-3", fn, "callback-from-the-registry-used-only-when-non-nil")
		for _, p := range c.Paths("COD-3", fn) {
			var cb ssa.Value
			at := -1
			for i := range p.Events {
				e := &p.Events[i]
				if isCallTo(e, endTx) {
					cb, at = pathx.ResultAt(e.Result, 0), i
					if cb == nil {
						cb = e.Result
					}
				}
				if cb == nil {
					continue
				}
				if (e.Kind == pathx.KSend || e.Kind == pathx.KClose) && e.Chan == cb {
					if rel, _, k := p.Known(cb, at, i); k && rel == pathx.RNotNil {
						a.pass()
					} else {
						a.fail(p, i, "the callback returned by endTx is used without a nil test: for an abandoned request it is nil, the send blocks forever (or close panics) and the read routine is lost")
					}
				}
			}
		}
		a.done(1, "every send and close on the callback lies behind callback != nil")
	}
	fn := hs["typeSUBACK"]
	if fn == nil {
		return
	}
	cnt := c.acc("COD-3", fn, "return-code-0x80⇒counted")
	rep := c.acc("COD-3", fn, "failures-counted⇒SubscribeError-sent;none⇒plain-close")
	each := c.acc("COD-3", fn, "SubscribeError-lists-exactly-the-filters-with-code-0x80")
	// the failure counter: an int phi (0; +1)
	var failN *ssa.Phi
	for _, b := range c.regionBlocks(fn) {
		for _, ins := range b.Instrs {
			phi, ok := ins.(*ssa.Phi)
			if !ok || phi.Type().String() != "int" {
				continue
			}
			zero, inc := false, false
			var walk func(v ssa.Value, d int)
			walk = func(v ssa.Value, d int) {
				if d > 4 {
					return
				}
				if isK(v, 0) {
					if _, isC := v.(*ssa.Const); isC {
						zero = true
					}
				}
				switch x := v.(type) {
				case *ssa.BinOp:
					if x.Op == token.ADD && isK(x.Y, 1) && (x.X == ssa.Value(phi) || func() bool { q, ok := x.X.(*ssa.Phi); return ok && q != phi }()) {
						inc = true
					}
				case *ssa.Phi:
					if x != phi {
						for _, e := range x.Edges {
							walk(e, d+1)
						}
					}
				}
			}
			for _, e := range phi.Edges {
				walk(e, 0)
			}
			if zero && inc && failN == nil {
				// not the loop index: a range index is compared with a length
				isIndex := false
				for _, r := range *phi.Referrers() {
					if bo, ok := r.(*ssa.BinOp); ok && bo.Op == token.LSS {
						isIndex = true
					}
				}
				if !isIndex {
					failN = phi
				}
			}
		}
	}
	if failN == nil {
		cnt.failAt(c.P.Pos(fn.Pos()), "no counter of refused filters found (an int that starts at 0 and is incremented for return code 0x80): a refused subscription is reported as granted")
		cnt.done(1, "")
		return
	}
	is80 := func(p *pathx.Path, upto int) (yes, no bool) {
		for i := 0; i < upto && i < len(p.Events); i++ {
			e := &p.Events[i]
			if e.Kind != pathx.KAssume {
				continue
			}
			for _, at := range e.Atoms {
				if at.C == "int:128" {
					if at.Rel == pathx.REq {
						yes = true
					}
					if at.Rel == pathx.RNe {
						no = true
					}
				}
			}
		}
		return
	}
	// (the collection may live in a helper introduced later: its paths are judged the same way)
	var helpers []*ssa.Function
	seenH := map[*ssa.Function]bool{fn: true}
	var walkH func(f *ssa.Function, d int)
	walkH = func(f *ssa.Function, d int) {
		if d > 3 {
			return
		}
		for _, g := range c.staticCallees(f) {
			if !seenH[g] && c.isNewHelper(g) {
				seenH[g] = true
				helpers = append(helpers, g)
				walkH(g, d+1)
			}
		}
	}
	walkH(fn, 0)
	isSubErrAppend := func(e *pathx.Event) bool {
		if e.Kind != pathx.KCall || e.Call == nil {
			return false
		}
		bl, ok := e.Call.Value.(*ssa.Builtin)
		return ok && bl.Name() == "append" && strings.HasSuffix(e.Call.Args[0].Type().String(), "SubscribeError")
	}
	for _, h := range helpers {
		hColl := map[*ssa.BasicBlock]bool{}
		for _, p := range c.Paths("COD-3", h) {
			if p.End == pathx.KLoopBack && p.Events[len(p.Events)-1].Target == p.Start && p.Index(0, isSubErrAppend) >= 0 {
				hColl[p.Start] = true
			}
		}
		for _, p := range c.Paths("COD-3", h) {
			for i := range p.Events {
				if isSubErrAppend(&p.Events[i]) {
					if yes, _ := is80(p, i); yes {
						each.pass()
					} else {
						each.fail(p, i, "a topic filter is added to the SubscribeError on a path that has not established that its return code is 0x80")
					}
				}
			}
			if p.End == pathx.KLoopBack && hColl[p.Start] && p.Events[len(p.Events)-1].Target == p.Start {
				yes, _ := is80(p, len(p.Events))
				if yes && p.Index(0, isSubErrAppend) < 0 {
					each.fail(p, len(p.Events)-1, "an iteration that saw return code 0x80 does not add the filter to the SubscribeError")
				} else if yes {
					each.pass()
				}
			}
		}
	}
	// the collection loop: the one whose iterations can append to the SubscribeError
	collHeaders := map[*ssa.BasicBlock]bool{}
	for _, p := range c.Paths("COD-3", fn) {
		if p.End == pathx.KLoopBack && p.Events[len(p.Events)-1].Target == p.Start && p.Index(0, isSubErrAppend) >= 0 {
			collHeaders[p.Start] = true
		}
	}
	for _, p := range c.Paths("COD-3", fn) {
		choice := phiChoicesAll(p)
		binds := pathBindings(p)
		isFailN := func(v ssa.Value) bool {
			v = stripConv(v)
			for d := 0; d < 6; d++ {
				if v == ssa.Value(failN) {
					return true
				}
				b, ok := binds[v]
				if !ok || b == v {
					break
				}
				v = stripConv(b)
			}
			return v == ssa.Value(failN)
		}
		// counting: an iteration of the validation loop (back edge into failN's block)
		if p.End == pathx.KLoopBack && p.Events[len(p.Events)-1].Target == failN.Block() && p.Start == failN.Block() {
			var latch *ssa.BasicBlock
			for _, ab := range p.AllBlocks {
				if ab.Parent() == failN.Parent() {
					latch = ab
				}
			}
			var next ssa.Value
			for i, pb := range failN.Block().Preds {
				if pb == latch {
					next = failN.Edges[i]
				}
			}
			for d := 0; d < 8; d++ {
				ph, ok := next.(*ssa.Phi)
				if !ok || ph == failN || choice[ph] == nil {
					break
				}
				next = choice[ph]
			}
			yes, _ := is80(p, len(p.Events))
			inc := false
			if bo, ok := next.(*ssa.BinOp); ok && bo.Op == token.ADD && isK(bo.Y, 1) {
				inc = true
			}
			switch {
			case yes && inc, !yes && !inc:
				cnt.pass()
			case yes:
				cnt.fail(p, len(p.Events)-1, "an iteration that saw return code 0x80 does not count it: the refusal goes unreported")
			default:
				cnt.fail(p, len(p.Events)-1, "an iteration that did not see return code 0x80 counts a failure")
			}
		}
		// reporting
		for i := range p.Events {
			e := &p.Events[i]
			if e.Kind == pathx.KSend && e.Val != nil && strings.HasSuffix(unwrapIface(e.Val).Type().String(), "SubscribeError") {
				nz := false
				for _, cm := range assumed(p, 0, i) {
					if isFailN(cm.X) && isK(cm.Y, 0) && cm.Op == token.NEQ {
						nz = true
					}
				}
				if nz || p.Start != fn.Blocks[0] && p.Start != failN.Block() && p.Start.Parent() == failN.Parent() {
					rep.pass()
				} else {
					rep.fail(p, i, "a SubscribeError is sent on a path that has not established a non-zero failure count")
				}
			}
			if e.Kind == pathx.KClose && p.End == pathx.KReturn {
				// closing without a SubscribeError: the count is zero, or the error was sent
				sent := false
				for j := 0; j < i; j++ {
					if s := &p.Events[j]; s.Kind == pathx.KSend && s.Chan == e.Chan {
						sent = true
					}
				}
				zero, decided := false, false
				for _, cm := range assumed(p, 0, i) {
					if isFailN(cm.X) && isK(cm.Y, 0) {
						decided = true
						zero = cm.Op == token.EQL
					}
				}
				if !decided {
					continue // a segment that starts behind the decision
				}
				if sent || zero {
					rep.pass()
				} else {
					rep.fail(p, i, "the Subscribe callback is closed without an error although refused filters were counted")
				}
			}
			// collection loop: appends to the SubscribeError
			if e.Kind == pathx.KCall && e.Call != nil {
				if bl, ok := e.Call.Value.(*ssa.Builtin); ok && bl.Name() == "append" && strings.HasSuffix(e.Call.Args[0].Type().String(), "SubscribeError") {
					yes, _ := is80(p, i)
					if yes {
						each.pass()
					} else {
						each.fail(p, i, "a topic filter is added to the SubscribeError on a path that has not established that its return code is 0x80")
					}
				}
			}
		}
		// an iteration of the collection loop that saw 0x80 appends
		if p.End == pathx.KLoopBack && collHeaders[p.Start] && p.Events[len(p.Events)-1].Target == p.Start {
			yes, _ := is80(p, len(p.Events))
			app := p.Index(0, func(e *pathx.Event) bool {
				if e.Kind != pathx.KCall || e.Call == nil {
					return false
				}
				bl, ok := e.Call.Value.(*ssa.Builtin)
				return ok && bl.Name() == "append" && strings.HasSuffix(e.Call.Args[0].Type().String(), "SubscribeError")
			}) >= 0
			if yes && !app {
				each.fail(p, len(p.Events)-1, "an iteration that saw return code 0x80 does not add the filter to the SubscribeError")
			} else if yes {
				each.pass()
			}
		}
	}
	cnt.done(2, "the counter is incremented exactly in iterations that saw 0x80")
	rep.done(2, "a SubscribeError goes out exactly when the count is non-zero")
	each.done(2, "filters are collected exactly for code 0x80")
}

func (c *Ctx) cod4BufSize() {
	a := c.accKeyless("COD-4", "readBufSize", "read-buffer≥2+stringMax+2(topic-and-identifier-of-a-big-PUBLISH-fit)")
	need := 2 + c.constInt("stringMax") + 2
	n := 0
	for _, fn := range c.analysed() {
		for _, b := range fn.Blocks {
			for _, ins := range b.Instrs {
				call, ok := ins.(*ssa.Call)
				if !ok || call.Call.StaticCallee() == nil {
					continue
				}
				var sizeArg ssa.Value
				switch stdName(call.Call.StaticCallee()) {
				case "bufio.NewReaderSize":
					sizeArg = call.Call.Args[1]
				case "bufio.NewReader":
					n++
					a.failAt(c.P.Pos(call.Pos()), "a connection is read through bufio.NewReader (4096 bytes): a big PUBLISH is announced before its topic and packet identifier are in c.peek")
					continue
				default:
					continue
				}
				n++
				size, known := int64(0), false
				if k, ok := intConst(sizeArg); ok {
					size, known = k, true
				} else if u, ok := stripConv(sizeArg).(*ssa.UnOp); ok && u.Op == token.MUL {
					if g, ok := u.X.(*ssa.Global); ok {
						// the initial value; assignments elsewhere (tests shrink the buffer) are not judged
						if init := g.Pkg.Func("init"); init != nil {
							for _, ib := range init.Blocks {
								for _, ii := range ib.Instrs {
									if st, ok := ii.(*ssa.Store); ok && st.Addr == ssa.Value(g) {
										if k, ok := intConst(st.Val); ok {
											size, known = k, true
										}
									}
								}
							}
						}
					}
				}
				switch {
				case !known:
					a.failAt(c.P.Pos(call.Pos()), "the size of the read buffer (%s) is not a constant or a package-level variable with a constant initial value", Expr(sizeArg))
				case size < need:
					a.failAt(c.P.Pos(call.Pos()), "the read buffer holds %d bytes, fewer than the %d a PUBLISH with a topic of stringMax bytes and a packet identifier needs ahead of its payload: such a message, when bigger than the buffer, is rejected as malformed on every delivery attempt — never returned, never acknowledged", size, need)
				default:
					a.pass()
				}
			}
		}
	}
	a.done(1, "bufio.NewReaderSize with at least 2+stringMax+2 bytes")
	_ = n
}
