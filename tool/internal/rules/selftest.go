package rules

import (
	"bufio"
	"encoding/json"
	"flag"
	"fmt"
	"hash/fnv"
	"os"
	"os/exec"
	"path/filepath"
	"sort"
	"strings"
	"sync"
)

// A selftest case is a variant of the repository that must make a given
// check fire: the revert of a fix: commit, a curated patch, or a seeded
// change recorded under /verif/seeded. Variants are built in scratch git
// worktrees outside /repo and /verif, one checker process per variant.

type stCase struct {
	ID        string `json:"id"`
	Kind      string `json:"kind"` // revert | patch
	Commit    string `json:"commit,omitempty"`
	Patch     string `json:"patch,omitempty"`
	Property  string `json:"property"`
	Rule      string `json:"rule,omitempty"`
	Construct string `json:"construct,omitempty"`
	What      string `json:"what,omitempty"`
	ExpectHit bool   `json:"expect_hit"`
	Silent    bool   `json:"must_stay_silent,omitempty"` // behaviour-preserving refactoring: any alarm is a false alarm
}

type stResult struct {
	Case   stCase   `json:"case"`
	Status string   `json:"status"` // killed | survived | skipped
	Detail string   `json:"detail,omitempty"`
	Fired  []string `json:"fired,omitempty"`
}

func loadCases(verif string) ([]stCase, error) {
	var out []stCase
	f, err := os.Open(filepath.Join(verif, "selftest", "cases.jsonl"))
	if err == nil {
		sc := bufio.NewScanner(f)
		sc.Buffer(make([]byte, 1<<20), 1<<20)
		for sc.Scan() {
			line := strings.TrimSpace(sc.Text())
			if line == "" || strings.HasPrefix(line, "#") {
				continue
			}
			var c stCase
			if err := json.Unmarshal([]byte(line), &c); err != nil {
				f.Close()
				return nil, fmt.Errorf("selftest/cases.jsonl: %w", err)
			}
			c.ExpectHit = true
			out = append(out, c)
		}
		f.Close()
	}
	metas, _ := filepath.Glob(filepath.Join(verif, "seeded", "*", "meta.json"))
	sort.Strings(metas)
	for _, m := range metas {
		b, err := os.ReadFile(m)
		if err != nil {
			continue
		}
		var meta struct {
			ID       string `json:"id"`
			Property string `json:"breaks_property"`
			Own      bool   `json:"caught_by_own_property"`
		}
		if json.Unmarshal(b, &meta) != nil {
			continue
		}
		out = append(out, stCase{ID: "seeded-" + meta.ID, Kind: "patch", Patch: filepath.Join(filepath.Dir(m), "patch.diff"), Property: meta.Property, ExpectHit: meta.Own, What: "independently seeded change " + meta.ID})
	}
	// behaviour-preserving refactorings: negative controls
	refs, _ := filepath.Glob(filepath.Join(verif, "refactors", "*", "patch.diff"))
	sort.Strings(refs)
	for _, r := range refs {
		id := filepath.Base(filepath.Dir(r))
		if known := expectedRefactorAlarms[id]; known != "" {
			continue // documented limitation, see DESIGN.md §7
		}
		out = append(out, stCase{ID: "refactor-" + id, Kind: "patch", Patch: r, Property: "*", Silent: true, What: "behaviour-preserving refactoring " + id})
	}
	return out, nil
}

// expectedRefactorAlarms lists refactorings on which a check is known to
// report "undecided" by design.
var expectedRefactorAlarms = map[string]string{
	// an anchor function is inlined into its callers and deleted: the rules that speak about it cannot be decided
	"U04-1": "inline of (*unorderedTxs).endTx", "U05-1": "inline of (*unorderedTxs).breakAll", "U06-1": "inline of applySeqNoAndEnqueue",
	"U08-1": "inline of fileSystem.file/spoolFile", "U09-1": "inline of clearSignalChan",
	// a switch replaced by a lookup in a map of pointers to the destination lists: the list classes are told apart by the guards of their appends
	// (the array of errors of U03-5 is read from its initialiser since the fifth round)
	"U07-5": "identifier space looked up in a map",
	// a mock rebuilt from closures over the constructor's locals into a struct with methods (counter, expectation list and testing.TB become fields)
	"W10-3": "NewPublishMock as a struct with methods",
	// round X, reorganisations of 30–100 lines (DESIGN §7): 30 of 50 are silent; what still alarms, by kind —
	// a loop, guard chain or size computation of an anchor function moved into sequential step functions whose results feed each other
	"X04-3": "peekPacket in four steps", "X05-2": "handshake in three steps", "X06-1": "onPUBLISH in three steps", "X09-1": "tail of AdoptSession in four methods",
	// near-duplicates unified behind a parameterised or generic helper that takes what used to be a constant, a field or a format
	"X03-1": "four write functions through a generic submitLocked", "X03-2": "writeTo/writeBuffersTo through closures", "X06-3": "identifier checks of three handlers in one helper", "X07-1": "subscribe/unsubscribe round trip in one helper",
	"X08-1": "four persisted publishes through one helper taking *outbound", "X09-2": "sorts, counter installs and placeholder loops behind helpers", "X01-2": "Max clamps through a pointer parameter", "X02-1": "termCallbacks goroutines as one method started twice",
	// a dispatch over the two connection signals as a table reached through a type assertion
	"X03-4": "lockWrite signals through a table of method expressions",
	// fields moved into a struct together with renames, or scan results of a function moved into a struct local
	"X07-4": "pingAck and unorderedTxs embedded in a new struct", "X07-5": "unorderedTxs moved to a file with type and field renamed", "X09-5": "five scan-result locals as fields of one local struct",
	// test doubles rebuilt around shared helper types
	"X10-4": "counters of the mocks as one callSequence type", "X10-5": "exchange stub as a struct with methods",
	// an error helper that formats through a verb the class analysis does not follow into a guard clause
	"X05-5": "handshake errors through formatting helpers",
	// a known function changes its signature (parameters bundled in a new struct)
	"U07-4": "cleanSequence takes a struct",
	// round Y, "how values reach their use" (DESIGN §7): 43 of 50 are silent; what still alarms, by kind —
	// a constant, a field or a buffer that a rule reads at its use now arrives through the parameter of a helper or of the anchor itself
	"Y01-2": "Max defaults through txMaxDefaults(n, idMask)", "Y06-1": "acknowledgements composed by appendAck(buf, type, id)",
	"Y08-1": "four persisted publishes through publishPersisted(idSpace, head, out)", "Y09-5": "cleanSequence receives the mask",
	"Y03-2": "writeBuffersTo becomes a method that loads PauseTimeout",
	// a condition hoisted into a bool local ahead of unrelated branches, or a decode loop driven by a flag
	"Y01-5": "Will condition hoisted into hasWill", "Y04-3": "remaining-length decode as for more := true; more; {…}",
	// round Z, error handling and exit structure (DESIGN §7): 47 of 50 are silent; what still alarms —
	// a validation or an integrity test moved into a helper that returns only an error (the bound it establishes is no longer on the caller's path)
	"Z01-3": "will topic validated by (*Config).willTopicCheck", "Z09-4": "size and checksum tests of decodeValue in valueIntegrity(buf) error",
	// the decode loop driven by a flag once more
	"Z04-5": "remaining-length decode with a more flag as loop condition",
	// round Q, configuration, construction and locking code (DESIGN §7): 45 of 50 are silent; what still alarms —
	// a default applied, a per-attempt Config built, or a sequence token taken and counters installed by a helper that gets the
	// target or the value as a parameter (different values per call site)
	"Q01-1": "Max clamps through limitTransactionMax(*int)", "Q05-5": "per-attempt Config built by connectConfig(reconnect)", "Q09-2": "sequence counters installed by installSeq(seqSem, n)",
	// the tail of dialAndConnect as a helper; the local names of the cleaned lists dropped
	"Q05-3": "abort watcher and handshake in handshakeOrAbort", "Q09-3": "AdoptSession reads the list variables directly",
}

func runCase(c stCase, repo, verif, self string) stResult {
	res := stResult{Case: c}
	wt, err := os.MkdirTemp("", "mqttverif-st-")
	if err != nil {
		res.Status, res.Detail = "skipped", err.Error()
		return res
	}
	os.Remove(wt)
	env := append(os.Environ(), "GOFLAGS=-mod=mod", "GOPROXY=off", "GOSUMDB=off", "GOTOOLCHAIN=local", "GOWORK=off")
	git := func(dir string, args ...string) (string, error) {
		cmd := exec.Command("git", args...)
		cmd.Dir = dir
		cmd.Env = env
		b, err := cmd.CombinedOutput()
		return string(b), err
	}
	if out, err := git(repo, "worktree", "add", "-q", "--detach", wt, "HEAD"); err != nil {
		res.Status, res.Detail = "skipped", "worktree: "+out
		return res
	}
	defer func() {
		git(repo, "worktree", "remove", "--force", wt)
		os.RemoveAll(wt)
	}()
	switch c.Kind {
	case "revert":
		if out, err := git(wt, "revert", "--no-commit", c.Commit); err != nil {
			res.Status, res.Detail = "skipped", "the fix can no longer be reverted cleanly (later changes build on it): "+firstLine(out)
			return res
		}
	case "patch":
		p := c.Patch
		if !filepath.IsAbs(p) {
			p = filepath.Join(verif, p)
		}
		if out, err := git(wt, "apply", "--3way", p); err != nil {
			if out2, err2 := git(wt, "apply", p); err2 != nil {
				res.Status, res.Detail = "skipped", "anchor gone, patch does not apply: "+firstLine(out+out2)
				return res
			}
		}
	}
	build := exec.Command("go", "build", "./...")
	build.Dir = wt
	build.Env = env
	if b, err := build.CombinedOutput(); err != nil {
		res.Status, res.Detail = "skipped", "variant does not build: "+firstLine(string(b))
		return res
	}
	chk := exec.Command(self, "check", "-p", c.Property, "-repo", wt, "-verif", verif, "-no-evidence")
	chk.Env = env
	out, _ := chk.CombinedOutput()
	rule := ""
	hit := false
	for _, line := range strings.Split(string(out), "\n") {
		t := strings.TrimSpace(line)
		if strings.HasPrefix(t, "rule ") {
			rule = strings.TrimSpace(strings.TrimPrefix(t, "rule"))
		}
		if strings.HasPrefix(t, "construct ") {
			cons := strings.TrimSpace(strings.TrimPrefix(t, "construct"))
			res.Fired = append(res.Fired, cons)
			if (c.Rule == "" || c.Rule == rule) && (c.Construct == "" || c.Construct == cons) {
				hit = true
			}
		}
	}
	// an analyser that gives up is an alarm as well, not silence
	if strings.Contains(string(out), "analyser-panic") || (strings.Contains(string(out), "VIOLATION property=") && len(res.Fired) == 0) {
		res.Fired = append(res.Fired, "ANALYSER PANIC or alarm without a construct")
	}
	if c.Silent {
		if len(res.Fired) == 0 {
			res.Status = "silent"
		} else {
			res.Status = "false-alarm"
			res.Detail = strings.Join(res.Fired, "; ")
		}
		return res
	}
	if hit {
		res.Status = "killed"
	} else {
		res.Status = "survived"
		if len(res.Fired) > 0 {
			res.Detail = "the check fired, but not the expected rule/construct"
		}
	}
	return res
}

func firstLine(s string) string {
	s = strings.TrimSpace(s)
	if i := strings.IndexByte(s, '\n'); i >= 0 {
		s = s[:i]
	}
	if len(s) > 200 {
		s = s[:200]
	}
	return s
}

// RunSelftest runs the cases of one property ("" for all), at most par at a time.
func RunSelftest(prop, repo, verif string, par int) ([]stResult, error) {
	cases, err := loadCases(verif)
	if err != nil {
		return nil, err
	}
	self, err := os.Executable()
	if err != nil {
		return nil, err
	}
	var sel []stCase
	for _, c := range cases {
		switch {
		case c.Property == "*" && prop != "":
			// one property's thorough check runs a third of the negative controls
			// (a fixed third: chosen by the control's name and the property's
			// number); `selftest` without a property runs all of them against the
			// union of all rules
			h := fnv.New32a()
			h.Write([]byte(c.ID))
			pn := 0
			fmt.Sscanf(strings.TrimPrefix(prop, "C"), "%d", &pn)
			if int(h.Sum32()%3) != pn%3 {
				continue
			}
			c.Property = prop
			sel = append(sel, c)
		case c.Property == "*":
			// without a property: run the refactoring against the union of all
			// rules in one process (every property's rule list is a subset of
			// it, and the property-scoped rules take their widest scope there)
			cc := c
			cc.Property = "ALL"
			cc.ID = c.ID + "@ALL"
			sel = append(sel, cc)
		case prop == "" || c.Property == prop:
			sel = append(sel, c)
		}
	}
	sort.SliceStable(sel, func(i, j int) bool { return sel[i].ID < sel[j].ID })
	res := make([]stResult, len(sel))
	sem := make(chan struct{}, par)
	var wg sync.WaitGroup
	for i := range sel {
		wg.Add(1)
		sem <- struct{}{}
		go func(i int) {
			defer wg.Done()
			defer func() { <-sem }()
			res[i] = runCase(sel[i], repo, verif, self)
		}(i)
	}
	wg.Wait()
	return res, nil
}

func summarise(res []stResult) map[string]any {
	killed, survived, skipped, gaps := 0, 0, 0, 0
	silent, falseAlarms := 0, 0
	var surv, skip, gap, fa []string
	for _, r := range res {
		switch {
		case r.Status == "silent":
			silent++
		case r.Status == "false-alarm":
			falseAlarms++
			fa = append(fa, r.Case.ID+": "+r.Detail)
		case r.Status == "killed":
			killed++
		case r.Status == "skipped":
			skipped++
			skip = append(skip, r.Case.ID+": "+r.Detail)
		case !r.Case.ExpectHit:
			gaps++
			gap = append(gap, r.Case.ID)
		default:
			survived++
			surv = append(surv, r.Case.ID)
		}
	}
	return map[string]any{
		"variants": len(res), "killed": killed, "survived_unexpectedly": survived, "known_gaps": gaps, "skipped": skipped,
		"survivors": surv, "known_gap_ids": gap, "skipped_detail": skip,
		"refactorings_silent": silent, "refactorings_false_alarm": falseAlarms, "false_alarm_detail": fa,
	}
}

func mainSelftest(args []string) int {
	fs := flag.NewFlagSet("selftest", flag.ExitOnError)
	prop := fs.String("p", "", "property (default all)")
	repo := fs.String("repo", "/repo", "repository")
	verif := fs.String("verif", "/verif", "verification directory")
	par := fs.Int("j", 8, "parallel variants")
	fs.Parse(args)
	res, err := RunSelftest(*prop, *repo, *verif, *par)
	if err != nil {
		fmt.Fprintln(os.Stderr, err)
		return 2
	}
	for _, r := range res {
		exp := ""
		if !r.Case.ExpectHit {
			exp = " (recorded as not caught by its own property)"
		}
		fmt.Printf("%-9s %-22s %-4s %s%s %s\n", r.Status, r.Case.ID, r.Case.Property, r.Case.Rule, exp, r.Detail)
	}
	b, _ := json.MarshalIndent(summarise(res), "", " ")
	fmt.Println(string(b))
	s := summarise(res)
	if s["survived_unexpectedly"].(int) > 0 || s["refactorings_false_alarm"].(int) > 0 {
		return 1
	}
	return 0
}
