package rules

import (
	"go/token"
	"go/types"
	"strings"

	"golang.org/x/tools/go/ssa"

	"mqttverif/internal/pathx"
)

func init() {
	register("ADP", []string{"ADP-1", "ADP-2", "ADP-3", "ADP-4", "ADP-5", "ADP-6", "ADP-7", "ADP-8", "ADP-10"}, (*Ctx).adp)
}

func isAppendTo(e *pathx.Event, elem string) bool {
	if e.Kind != pathx.KCall || e.Call == nil {
		return false
	}
	b, ok := e.Call.Value.(*ssa.Builtin)
	if !ok || b.Name() != "append" || len(e.Args) < 1 {
		return false
	}
	return e.Args[0].Type().String() == elem
}

// fromCall: does v (through phis, slices) come only from calls of fn (or nil)?
func fromCall(v ssa.Value, fn *ssa.Function, seen map[ssa.Value]bool) bool {
	if seen[v] {
		return true
	}
	seen[v] = true
	switch x := v.(type) {
	case *ssa.Const:
		return x.Value == nil
	case *ssa.Phi:
		for _, e := range x.Edges {
			if !fromCall(e, fn, seen) {
				return false
			}
		}
		return true
	case *ssa.Call:
		return x.Call.StaticCallee() == fn
	case *ssa.ChangeType:
		return fromCall(x.X, fn, seen)
	}
	return false
}

// indexedSlice finds the slices indexed inside expression v.
func indexedSlices(v ssa.Value, out *[]ssa.Value, depth int) {
	if v == nil || depth > 8 {
		return
	}
	switch x := v.(type) {
	case *ssa.UnOp:
		if x.Op == token.MUL {
			if ia, ok := x.X.(*ssa.IndexAddr); ok {
				*out = append(*out, ia.X)
				return
			}
		}
		indexedSlices(x.X, out, depth+1)
	case *ssa.BinOp:
		indexedSlices(x.X, out, depth+1)
		indexedSlices(x.Y, out, depth+1)
	case *ssa.Convert:
		indexedSlices(x.X, out, depth+1)
	case *ssa.Phi:
		for _, e := range x.Edges {
			indexedSlices(e, out, depth+1)
		}
	}
}

func (c *Ctx) adp(which map[string]bool) {
	ad := c.Fn("ADP-1", "AdoptSession")
	clean := c.Fn("ADP-4", "cleanSequence")
	dec := c.Fn("ADP-3", "decodeValue")
	nc := c.Fn("ADP-1", "newClient")
	if ad == nil || clean == nil || dec == nil || nc == nil {
		return
	}
	paths := c.Paths("ADP-1", ad)
	pm := c.constInt("publishIDMask")

	if which["ADP-1"] {
		a := c.acc("ADP-1", ad, "storage-sequence-continued(seqNo.Store(max-seen))-before-newClient")
		for _, p := range paths {
			in := p.Index(0, func(e *pathx.Event) bool { return isCallTo(e, nc) })
			if in < 0 {
				continue
			}
			// the persistence passed in
			per := p.Events[in].Args[0]
			mi, _ := per.(*ssa.MakeInterface)
			var al ssa.Value
			if mi != nil {
				al = mi.X
			}
			is := -1
			for i := 0; i < in; i++ {
				e := &p.Events[i]
				if isStd(e, "(*sync/atomic.Uint64).Store") {
					if fa, ok := e.Args[0].(*ssa.FieldAddr); ok && fa.X == al {
						is = i
					}
				}
			}
			if is < 0 {
				a.fail(p, in, "the adopted client's storage sequence restarts at one: records saved from now on sort before the adopted ones, and the next AdoptSession drops accepted messages as a gap")
				continue
			}
			// the stored value must depend on decodeValue's sequence result
			if c.dependsOnDecodeSeq(p.Events[is].Call.Args[1], dec, 0) {
				a.pass()
			} else {
				a.fail(p, is, "the storage sequence is seeded with %s, which does not derive from the sequence numbers decoded from the store", Expr(p.Events[is].Call.Args[1]))
			}
		}
		a.done(1, "seqNo is stored from the maximum decoded sequence number before the client is built")
		// … and it is the maximum: the running value only ever takes a decoded
		// number that is greater, and keeps its own otherwise
		mx := c.acc("ADP-1", ad, "storage-sequence-seed-is-the-running-maximum")
		var runMax *ssa.Phi
		for _, b := range ad.Blocks {
			for _, ins := range b.Instrs {
				phi, ok := ins.(*ssa.Phi)
				if !ok {
					continue
				}
				if b, isB := phi.Type().Underlying().(*types.Basic); !isB || b.Kind() != types.Uint64 {
					continue
				}
				for _, e := range phi.Edges {
					if isK(e, 0) && c.dependsOnDecodeSeq(phi, dec, 0) {
						runMax = phi
					}
				}
			}
		}
		if runMax == nil {
			mx.failAt(c.P.Pos(ad.Pos()), "no running maximum of the decoded sequence numbers found (a uint64 that starts at 0 and is updated from decodeValue's result in the record loop)")
		} else {
			for _, p := range paths {
				if p.End != pathx.KLoopBack || p.Events[len(p.Events)-1].Target != runMax.Block() {
					continue
				}
				// the value the running maximum takes at the next iteration
				latch := lastBlockOf(p)
				if latch == nil {
					continue
				}
				var next ssa.Value
				for i, pb := range runMax.Block().Preds {
					if pb == latch {
						next = runMax.Edges[i]
					}
				}
				choice := phiChoices(p, ad)
				for d := 0; d < 10 && next != nil; d++ {
					ph, ok := next.(*ssa.Phi)
					if !ok || ph == runMax || choice[ph] == nil {
						break
					}
					next = choice[ph]
				}
				id := p.Index(0, func(e *pathx.Event) bool { return isCallTo(e, dec) })
				if next == nil || id < 0 {
					continue
				}
				if n, k := nilResult(p, id, -1); !k || !n {
					continue // no number decoded in this iteration
				}
				greater, notGreater := false, false
				for _, cm := range assumed(p, id, -1) {
					for _, k := range []cmp{cm, cm.swapped()} {
						// (the number decoded in this iteration against the maximum so far — not the maximum against itself)
						if stripConv(k.Y) != ssa.Value(runMax) || stripConv(k.X) == ssa.Value(runMax) || !c.dependsOnDecodeSeq(k.X, dec, 0) {
							continue
						}
						switch k.Op {
						case token.GTR, token.GEQ:
							greater = true
						case token.LEQ, token.LSS:
							notGreater = true
						}
					}
				}
				isMaxCall := false
				if call, ok := next.(*ssa.Call); ok {
					if bl, ok := call.Call.Value.(*ssa.Builtin); ok && bl.Name() == "max" {
						isMaxCall = true
					}
				}
				switch {
				case isMaxCall:
					mx.pass()
				case next == ssa.Value(runMax) && notGreater:
					mx.pass()
				case next != ssa.Value(runMax) && c.dependsOnDecodeSeq(next, dec, 0) && greater:
					mx.pass()
				default:
					mx.fail(p, len(p.Events)-1, "the running maximum of the storage sequence is updated to %s on a path with (decoded > current: %v, decoded ≤ current: %v): the seed is not the maximum, and records saved after the adoption can sort before adopted ones", Expr(next), greater, notGreater)
				}
			}
		}
		mx.done(2, "updated exactly when the decoded number is greater")
	}

	if which["ADP-2"] || which["ADP-3"] || which["ADP-10"] {
		corrupt := c.acc("ADP-2", ad, "corrupt-record⇒deleted,warned,not-adopted")
		each := c.acc("ADP-3", ad, "every-listed-key-is-integrity-checked(except-clientIDKey)")
		marker := c.acc("ADP-2", ad, "inbound-marker-not-filed-as-outbound")
		var recHeader *ssa.BasicBlock
		for _, p := range paths {
			if p.End == pathx.KLoopBack && p.Index(0, func(e *pathx.Event) bool { return persistenceOp(e) == "Load" }) >= 0 {
				recHeader = p.Events[len(p.Events)-1].Target
			}
		}
		for _, p := range paths {
			if p.End != pathx.KLoopBack || p.Events[len(p.Events)-1].Target != recHeader {
				continue
			}
			il := p.Index(0, func(e *pathx.Event) bool { return persistenceOp(e) == "Load" })
			id := p.Index(0, func(e *pathx.Event) bool { return isCallTo(e, dec) })
			if which["ADP-3"] {
				skipID := false
				for _, cm := range assumed(p, 0, -1) {
					if cm.Op == token.EQL && isK(cm.Y, c.constInt("clientIDKey")) {
						if _, isAnd := stripConv(cm.X).(*ssa.BinOp); !isAnd {
							skipID = true
						}
					}
				}
				if skipID || (il >= 0 && id > il) {
					each.pass()
				} else {
					each.fail(p, len(p.Events)-1, "a listed key is passed over without Load and decodeValue: a damaged record under it stays in the store and fails later, at every use")
				}
			}
			if !which["ADP-2"] || id < 0 {
				continue
			}
			nl, known := nilResult(p, id, -1)
			filed := p.Index(id, func(e *pathx.Event) bool {
				return isAppendTo(e, "[]uint") || e.Kind == pathx.KMapUpdate
			})
			if known && !nl {
				del := p.Index(id, func(e *pathx.Event) bool { return persistenceOp(e) == "Delete" })
				wr := p.Index(id, func(e *pathx.Event) bool { return isAppendTo(e, "[]error") })
				switch {
				case del < 0 || wr < 0:
					corrupt.fail(p, len(p.Events)-1, "a record that failed the integrity check is neither deleted nor reported (delete: %v, warning: %v)", del >= 0, wr >= 0)
				case filed >= 0:
					corrupt.fail(p, filed, "a record that failed the integrity check is still filed for adoption")
				default:
					corrupt.pass()
				}
			}
			if known && nl {
				remote := false
				for _, cm := range assumed(p, id, -1) {
					if and, ok := stripConv(cm.X).(*ssa.BinOp); ok && and.Op == token.AND && isK(and.Y, c.constInt("remoteIDKeyFlag")) && cm.Op == token.NEQ && isK(cm.Y, 0) {
						remote = true
					}
				}
				if remote {
					if filed >= 0 {
						marker.fail(p, filed, "an inbound marker is filed among the outbound transfers")
					} else {
						marker.pass()
					}
				}
			}
		}
		if which["ADP-2"] {
			// the client identifier record is not a transfer: it is neither
			// deleted nor filed, whatever its bytes look like (an identifier
			// starting with a letter 'a'–'o' has the type nibble of PUBREL)
			cid := c.acc("ADP-2", ad, "client-identifier-record-neither-deleted-nor-filed")
			for _, p := range paths {
				if p.End != pathx.KLoopBack || p.Events[len(p.Events)-1].Target != recHeader {
					continue
				}
				for i := range p.Events {
					e := &p.Events[i]
					if persistenceOp(e) != "Delete" && !isAppendTo(e, "[]uint") && e.Kind != pathx.KMapUpdate {
						continue
					}
					notID := false
					for _, cm := range assumed(p, 0, i) {
						if cm.Op == token.NEQ && isK(cm.Y, c.constInt("clientIDKey")) {
							if _, isAnd := stripConv(cm.X).(*ssa.BinOp); !isAnd {
								notID = true
							}
						}
					}
					if notID {
						cid.pass()
					} else {
						cid.fail(p, i, "a record is deleted or filed on a path that has not excluded the client identifier key: a damaged identifier record is removed (the next connect presents an empty identifier), or the identifier's bytes are taken for a PUBLISH/PUBREL record")
					}
				}
			}
			cid.done(2, "every Delete and every filing lies behind key != clientIDKey")
			corrupt.done(2, "both corrupt-record paths delete, warn and continue before classification")
			marker.done(1, "markers are checked but not filed")
		}
		if which["ADP-3"] {
			each.done(3, "every iteration either is the client identifier key or loads and decodes the record")
		}
		if which["ADP-10"] {
			// C16 counts the client identifier record among what may be damaged:
			// adoption is the only place that can warn about it, and a client whose
			// identifier record does not decode fails every connect before the dial
			cidck := c.acc("ADP-10", ad, "client-identifier-record-integrity-checked-at-adoption")
			for _, p := range paths {
				if p.End != pathx.KLoopBack || p.Events[len(p.Events)-1].Target != recHeader {
					continue
				}
				isID := false
				for _, cm := range assumed(p, 0, -1) {
					if cm.Op == token.EQL && isK(cm.Y, c.constInt("clientIDKey")) {
						if _, isAnd := stripConv(cm.X).(*ssa.BinOp); !isAnd {
							isID = true
						}
					}
				}
				if !isID {
					continue
				}
				il := p.Index(0, func(e *pathx.Event) bool { return persistenceOp(e) == "Load" })
				id := p.Index(0, func(e *pathx.Event) bool { return isCallTo(e, dec) })
				if il >= 0 && id > il {
					cidck.pass()
				} else {
					cidck.fail(p, len(p.Events)-1, "the client identifier record is passed over at adoption without Load and decodeValue: when it is damaged AdoptSession reports nothing, and the adopted client fails every connect attempt before it even dials (record 0x0 unavailable)")
				}
			}
			cidck.done(1, "the identifier record is decoded like every other record")
		}
	}

	if which["ADP-2"] {
		// PUBREL-gap branch: the warning and the drop go together. The branch is
		// found structurally: a warning appended in AdoptSession outside the record
		// loop, i.e. in a block that comes after the cleanSequence calls.
		gap := c.acc("ADP-2", ad, "PUBREL-gap⇒warned∧dropped")
		found := false
		var cleanBlock *ssa.BasicBlock
		for _, b := range ad.Blocks {
			for _, ins := range b.Instrs {
				if call, ok := ins.(*ssa.Call); ok && call.Call.StaticCallee() == clean {
					cleanBlock = b
				}
			}
		}
		for _, b := range ad.Blocks {
			if cleanBlock == nil || b == cleanBlock || !cleanBlock.Dominates(b) {
				continue
			}
			warns := false
			for _, ins := range b.Instrs {
				if call, ok := ins.(*ssa.Call); ok {
					if bl, ok := call.Call.Value.(*ssa.Builtin); ok && bl.Name() == "append" && call.Type().String() == "[]error" {
						warns = true
					}
				}
			}
			if !warns {
				continue
			}
			found = true
			okDrop := false
			for _, bi := range b.Instrs {
				if st, ok := bi.(*ssa.Store); ok {
					if al, ok := st.Addr.(*ssa.Alloc); ok && al.Type().String() == "*[]uint" {
						if cst, ok := st.Val.(*ssa.Const); ok && cst.Value == nil {
							okDrop = true
						}
						if sl, ok := st.Val.(*ssa.Slice); ok {
							if hi, ok := intConst(sl.High); ok && hi == 0 {
								okDrop = true
							}
						}
					}
				}
			}
			// when the list is not captured by a closure it lives in a phi: the
			// edge leaving this block must carry nil / an empty slice
			for _, sb := range b.Succs {
				for _, si := range sb.Instrs {
					phi, ok := si.(*ssa.Phi)
					if !ok {
						break
					}
					if phi.Type().String() != "[]uint" {
						continue
					}
					for i, pb := range sb.Preds {
						if pb != b {
							continue
						}
						if cst, ok := phi.Edges[i].(*ssa.Const); ok && cst.Value == nil {
							okDrop = true
						}
						if sl, ok := phi.Edges[i].(*ssa.Slice); ok {
							if hi, ok := intConst(sl.High); ok && hi == 0 {
								okDrop = true
							}
						}
					}
				}
			}
			if okDrop {
				gap.pass()
			} else {
				gap.failAt(c.P.Pos(b.Instrs[0].Pos()), "a record range is reported as abandoned after the cleaning step but kept: the rebuilt counters span a hole and every connect fails on the missing key")
			}
		}
		if !found {
			gap.failAt(c.P.Pos(ad.Pos()), "the PUBREL-to-PUBLISH gap check (a warning after the cleaning step) was not found")
		}
		gap.done(1, "the branch that warns also empties the PUBREL list")
	}

	if which["ADP-4"] {
		a := c.acc("ADP-4", ad, "counters-and-placeholders-computed-from-cleanSequence-results")
		in0 := c.firstBlockOf(ad, nc)
		for _, p := range paths {
			if p.Start != ad.Blocks[0] {
				continue // locals are resolved along entry paths only
			}
			// what each load of a local slice variable yields on this path
			loaded := map[ssa.Value]ssa.Value{}
			for i := range p.Events {
				e := &p.Events[i]
				if e.Kind == pathx.KLoad && e.Val != nil {
					if _, ok := e.Addr.(*ssa.Alloc); ok {
						loaded[e.Result] = e.Val
					}
				}
				if e.Kind != pathx.KStore {
					continue
				}
				k := pathx.RoleOfAddr(e.Addr).Key()
				if !strings.HasPrefix(k, "orderedTxs.") && k != "seq.acceptN" {
					continue
				}
				st := e.Instr.(*ssa.Store)
				var sl []ssa.Value
				indexedSlices(st.Val, &sl, 0)
				bad := false
				binds := pathBindings(p)
				for _, s := range sl {
					v := s
					// (a helper introduced later receives the list as an argument)
					for d := 0; d < 4; d++ {
						b, bound := binds[v]
						if !bound || b == v {
							break
						}
						v = b
					}
					if r, ok := loaded[v]; ok {
						v = r
					}
					if !fromCall(v, clean, map[ssa.Value]bool{}) {
						bad = true
						a.fail(p, i, "%s is computed from %s, which on this path is not a cleanSequence result: a gap in the stored sequence makes resend fail on a missing key", k, Expr(v))
					}
				}
				if !bad {
					a.pass()
				}
			}
			// after the lists were cleaned, every use of a key list reads a cleanSequence result
			firstClean := p.Index(0, func(e *pathx.Event) bool { return isCallTo(e, clean) })
			if firstClean >= 0 {
				for i := firstClean; i < len(p.Events); i++ {
					e := &p.Events[i]
					if e.Kind != pathx.KLoad {
						continue
					}
					al, ok := e.Addr.(*ssa.Alloc)
					if !ok || al.Type().String() != "*[]uint" {
						continue
					}
					// operands of the cleaning calls themselves are the uncleaned lists, by definition
					usedByClean := false
					if refs := e.Result.Referrers(); refs != nil {
						for _, r := range *refs {
							if call, ok := r.(*ssa.Call); ok && call.Call.StaticCallee() == clean {
								usedByClean = true
							}
						}
					}
					if usedByClean {
						continue
					}
					if e.Val != nil && fromCall(e.Val, clean, map[ssa.Value]bool{}) {
						a.pass()
					} else {
						a.fail(p, i, "%s is read after the cleaning step although it does not hold a cleanSequence result on this path: a decision is taken on records that are dropped afterwards", al.Comment)
					}
				}
			}
			// placeholder loops: the ranged slices
			for i := range p.Events {
				e := &p.Events[i]
				if e.Kind != pathx.KCall || e.Instr == nil || e.Instr.Block().Index <= in0 {
					continue
				}
				if arg, isLen := builtinCall(e.Result, "len"); isLen && arg.Type().String() == "[]uint" {
					v := arg
					if r, ok := loaded[arg]; ok {
						v = r
					}
					if fromCall(v, clean, map[ssa.Value]bool{}) {
						a.pass()
					} else {
						a.fail(p, i, "after the client is built, %s is used although it is not a cleanSequence result on this path", Expr(v))
					}
				}
			}
		}
		a.done(4, "every counter store and placeholder loop uses a cleanSequence result")
	}

	if which["ADP-5"] {
		for _, t := range []struct{ fld, inst string }{{"AtLeastOnceMax", "atLeastOnce"}, {"ExactlyOnceMax", "exactlyOnce"}} {
			a := c.acc("ADP-5", ad, "pending≤"+t.fld+"-checked-before-placeholders")
			var chk *ssa.BinOp
			for _, b := range ad.Blocks {
				for _, ins := range b.Instrs {
					if bo, ok := ins.(*ssa.BinOp); ok && bo.Op == token.GTR && roleKey(bo.Y) == "Config."+t.fld {
						chk = bo
					}
				}
			}
			if chk == nil {
				a.failAt(c.P.Pos(ad.Pos()), "no comparison of the pending count with Config.%s: more placeholders than queue capacity block AdoptSession forever", t.fld)
				a.done(1, "")
				continue
			}
			for _, p := range paths {
				if p.Start != ad.Blocks[0] {
					continue
				}
				for i := range p.Events {
					e := &p.Events[i]
					if e.Kind != pathx.KSend {
						continue
					}
					r := pathx.RoleOfValue(e.Chan)
					if r.Key() != "outbound.queue" || !r.Has(t.inst) {
						continue
					}
					ok := false
					for _, cm := range assumed(p, 0, i) {
						if roleKey(cm.X) == "Config."+t.fld && cm.Op == token.LSS && isK(cm.Y, 0) {
							ok = true // negative: the limit becomes the full identifier space
						}
						if roleKey(cm.Y) == "Config."+t.fld && cm.Op == token.LEQ {
							ok = true
						}
					}
					if ok {
						a.pass()
					} else {
						a.fail(p, i, "a placeholder is queued on a path that has not established pending ≤ Config.%s (or a negative, i.e. default, limit): with more placeholders than queue capacity AdoptSession blocks forever", t.fld)
					}
				}
			}
			// what is compared is the number that will be queued: the lists are
			// not modified any more behind the comparison (gaps are dropped first)
			fin := c.acc("ADP-5", ad, "pending-count-for-"+t.fld+"-taken-after-the-last-list-update")
			cnt := c.acc("ADP-5", ad, "pending-count-for-"+t.fld+"-is-the-sum-of-its-lists")
			lcAd := c.listClassesOf(ad)
			for _, p := range paths {
				if p.Start != ad.Blocks[0] {
					continue
				}
				for i := range p.Events {
					e := &p.Events[i]
					if e.Kind != pathx.KAssume {
						continue
					}
					cm, ok := cmpOf(e.Val, e.Truth)
					if !ok || roleKey(cm.Y) != "Config."+t.fld || (cm.Op != token.LEQ && cm.Op != token.GTR) {
						continue
					}
					cells := map[ssa.Value]bool{}
					var walk func(v ssa.Value, d int)
					walk = func(v ssa.Value, d int) {
						if d > 6 {
							return
						}
						switch x := stripConv(v).(type) {
						case *ssa.BinOp:
							walk(x.X, d+1)
							walk(x.Y, d+1)
						case *ssa.Call:
							if arg, isLen := builtinCall(x, "len"); isLen && isUintList(arg.Type()) {
								cells[lcAd.find(arg)] = true
							}
						}
					}
					walk(cm.X, 0)
					if len(cells) == 0 {
						continue
					}
					// the count is that of this level: one list for at-least-once, the sum of two for exactly-once
					sum := 0
					var terms func(v ssa.Value, neg bool) bool
					terms = func(v ssa.Value, neg bool) bool {
						switch x := stripConv(v).(type) {
						case *ssa.BinOp:
							if x.Op == token.ADD {
								return terms(x.X, neg) && terms(x.Y, neg)
							}
							return false
						case *ssa.Call:
							if _, isLen := builtinCall(x, "len"); isLen && !neg {
								sum++
								return true
							}
						}
						return false
					}
					wantTerms := 1
					if t.fld == "ExactlyOnceMax" {
						wantTerms = 2
					}
					if okSum := terms(cm.X, false); !okSum || sum != wantTerms || len(cells) != wantTerms {
						cnt.fail(p, i, "Config.%s is compared with %s, want the sum of the lengths of %d pending list(s): the limit is applied to the wrong count", t.fld, Expr(cm.X), wantTerms)
					} else {
						cnt.pass()
					}
					late := -1
					for j := i + 1; j < len(p.Events); j++ {
						s := &p.Events[j]
						switch s.Kind {
						case pathx.KStore:
							if _, isCell := s.Addr.(*ssa.Alloc); isCell && isUintList(s.Addr.Type()) && cells[lcAd.find(s.Addr)] {
								late = j
							}
						case pathx.KCall:
							if s.Fn != ad || s.Call == nil || len(s.Call.Args) == 0 || !isUintList(s.Call.Args[0].Type()) || !cells[lcAd.find(s.Call.Args[0])] {
								continue
							}
							if call, isCall := s.Instr.(*ssa.Call); isCall && isUintList(call.Type()) {
								late = j // the list is rebuilt: append or a list-in/list-out helper such as cleanSequence
							}
						}
					}
					if late < 0 {
						fin.pass()
					} else {
						fin.fail(p, late, "a pending list is still modified after its length was compared with Config.%s: records that are dropped for a gap further down count against the limit, and a session that fits is refused (or one that does not fit is admitted)", t.fld)
					}
				}
			}
			fin.done(1, "no list in the comparison is stored to afterwards")
			cnt.done(1, "the compared value is len(list) or len(list)+len(list)")
			// the fatal return honours negative = default
			for _, p := range paths {
				if p.End != pathx.KReturn || retErr(p, len(p.Events)-1) == triNil {
					continue
				}
				hit := false
				for _, cm := range assumed(p, 0, -1) {
					if cm.Op == token.GTR && roleKey(cm.Y) == "Config."+t.fld {
						hit = true
					}
				}
				if !hit {
					continue
				}
				// is this the return of that check? (the path's last assume is the comparison)
				nonNeg := false
				for _, cm := range assumed(p, 0, -1) {
					if roleKey(cm.X) == "Config."+t.fld && cm.Op == token.GEQ && isK(cm.Y, 0) {
						nonNeg = true
					}
				}
				lastCmp := cmp{}
				as := assumed(p, 0, -1)
				if len(as) > 0 {
					lastCmp = as[len(as)-1]
				}
				if lastCmp.Op == token.GTR && roleKey(lastCmp.Y) == "Config."+t.fld {
					if nonNeg {
						a.pass()
					} else {
						a.fail(p, len(p.Events)-1, "AdoptSession fails on Config.%s without excluding negative values, which mean 'default limit': a fresh Config refuses every session", t.fld)
					}
				}
			}
			a.done(2, "the check dominates every placeholder send and treats negative limits as default")
		}
	}

	if which["ADP-6"] {
		ef := c.errflow()
		a := c.acc("ADP-6", ad, "fatal-only-from-Config,List,Load,Max")
		for _, p := range paths {
			if p.End != pathx.KReturn || p.Start != ad.Blocks[0] {
				continue
			}
			last := len(p.Events) - 1
			if retErr(p, last) == triNil {
				continue
			}
			r := p.Events[last].Results[2]
			ok := false
			why := ""
			for _, o := range ef.ofOn(p, r) {
				for k := range o.Classes {
					switch {
					case k == "external:Persistence.List" || k == "external:Persistence.Load":
						ok = true
					case strings.HasPrefix(k, "err") || k == "opaque:errors.New":
						// Config.valid: the value is the result of the valid() call
						if call, isCall := r.(*ssa.Call); isCall && call.Call.StaticCallee() != nil && call.Call.StaticCallee().Name() == "valid" {
							ok = true
						}
					case k == "opaque:Errorf":
						// only as the outcome of a capacity comparison
						for _, cm := range assumed(p, 0, last) {
							if cm.Op == token.GTR && (roleKey(cm.Y) == "Config.AtLeastOnceMax" || roleKey(cm.Y) == "Config.ExactlyOnceMax") {
								ok = true
							}
						}
					}
					why = classList(o.Classes) + " (" + o.What + ")"
				}
			}
			if ok {
				a.pass()
			} else {
				a.fail(p, last, "AdoptSession can fail with {%s}: damage to the store must yield warnings, never a fatal error", why)
			}
		}
		a.done(4, "no fatal return stems from a damaged record or a failed Delete")
	}

	if which["ADP-7"] {
		a := c.acc("ADP-7", ad, "wrap-test-compares-with-the-start-of-the-range")
		for _, b := range c.regionBlocks(ad) {
			for _, ins := range b.Instrs {
				bo, ok := ins.(*ssa.BinOp)
				if !ok || bo.Op != token.ADD || !isK(bo.Y, pm+1) {
					continue
				}
				// the guard: the nearest dominating If with cond X < Y where X is bo.X
				var guard *ssa.BinOp
				for d := bo.Block(); d != nil && guard == nil; d = d.Idom() {
					if iff, ok := d.Instrs[len(d.Instrs)-1].(*ssa.If); ok {
						if cnd, ok := iff.Cond.(*ssa.BinOp); ok && cnd.Op == token.LSS && sameValue(cnd.X, bo.X) {
							guard = cnd
						}
					}
				}
				if guard == nil {
					a.failAt(c.P.Pos(bo.Pos()), "a wrap adjustment without a '<' guard on the adjusted value")
					continue
				}
				start := roleKey(guard.Y)
				if start == "orderedTxs.Acked" || start == "orderedTxs.Completed" {
					a.pass()
				} else {
					a.failAt(c.P.Pos(guard.Pos()), "the wrap-around test compares with %s instead of the first sequence number of the range (Acked / Completed): with nothing but PUBREL records pending it always fires and the accept count ends up 16,384 too high", Expr(guard.Y))
				}
			}
		}
		a.done(3, "all three adjustments are guarded by value < range start")
	}

	if which["ADP-8"] {
		a := c.acc("ADP-8", clean, "gap⇒warn,drop-prefix,rescan-from-first-pair")
		// the index phi: edges {1, i+1, restart}
		var idx *ssa.Phi
		for _, b := range clean.Blocks {
			for _, ins := range b.Instrs {
				if phi, ok := ins.(*ssa.Phi); ok && phi.Type().String() == "int" {
					for _, e := range phi.Edges {
						if k, ok := intConst(e); ok && k == 1 && idx == nil {
							if _, isC := e.(*ssa.Const); isC {
								idx = phi
							}
						}
					}
				}
			}
		}
		if idx == nil {
			a.failAt(c.P.Pos(clean.Pos()), "loop index not found")
		} else {
			// idx = phi(1, next+1) where next is idx itself or, after a dropped
			// prefix, the constant 0 (so that the first pair is compared again)
			init, step := false, false
			consts := map[int64]bool{}
			var leaves func(v ssa.Value, seen map[ssa.Value]bool)
			leaves = func(v ssa.Value, seen map[ssa.Value]bool) {
				if seen[v] {
					return
				}
				seen[v] = true
				switch x := v.(type) {
				case *ssa.Phi:
					if x == idx {
						step = true
						return
					}
					for _, e := range x.Edges {
						leaves(e, seen)
					}
				case *ssa.Const:
					if k, ok := intConst(x); ok {
						consts[k] = true
					}
				default:
					consts[-999] = true
				}
			}
			for _, e := range idx.Edges {
				if k, ok := intConst(e); ok && k == 1 {
					init = true
					continue
				}
				if bo, ok := e.(*ssa.BinOp); ok && bo.Op == token.ADD && isK(bo.Y, 1) {
					leaves(bo.X, map[ssa.Value]bool{})
					continue
				}
				consts[-998] = true
			}
			switch {
			case !init || !step:
				a.failAt(c.P.Pos(idx.Pos()), "scan index is not of the form (1; i+1)")
			case len(consts) == 1 && consts[0]:
				a.pass()
			case len(consts) == 0:
				a.failAt(c.P.Pos(idx.Pos()), "no restart of the scan after a dropped prefix")
			default:
				a.failAt(c.P.Pos(idx.Pos()), "after dropping a prefix the scan does not restart at the first pair of the remainder (index reset to something other than 0 before the increment): a second gap right behind the first goes unnoticed")
			}
		}
		// each gap branch warns and truncates
		for _, p := range c.Paths("ADP-8", clean) {
			iw := p.Index(0, func(e *pathx.Event) bool { return isAppendTo(e, "[]error") })
			if iw < 0 {
				continue
			}
			// truncation keys[i:] exists in the function and is used on this path's back edge
			trunc := false
			for _, b := range p.Blocks {
				for _, ins := range b.Instrs {
					if sl, ok := ins.(*ssa.Slice); ok && sl.Low != nil && sl.High == nil && sl.Type().String() == "[]uint" {
						// keys[i:] with the scan index itself (not a constant: keys[0:] drops nothing and the scan never ends)
						if lo := stripConv(sl.Low); lo == ssa.Value(idx) && idx != nil {
							trunc = true
						} else if ph, isPhi := lo.(*ssa.Phi); isPhi && idx != nil {
							for _, e := range ph.Edges {
								if e == ssa.Value(idx) {
									trunc = true
								}
							}
						}
					}
				}
			}
			if trunc {
				a.pass()
			} else {
				a.fail(p, iw, "a gap is reported but the prefix before it is kept")
			}
		}
		// adjacency test: n-p == 1 || n == 0 && p == mask
		adj := false
		for _, b := range c.regionBlocks(clean) {
			for _, ins := range b.Instrs {
				if bo, ok := ins.(*ssa.BinOp); ok && (bo.Op == token.EQL || bo.Op == token.NEQ) && isK(bo.Y, 1) {
					if sub, ok := stripConv(bo.X).(*ssa.BinOp); ok && sub.Op == token.SUB {
						adj = true
					}
				}
			}
		}
		if adj {
			a.pass()
		} else {
			a.failAt(c.P.Pos(clean.Pos()), "the adjacency test n-p == 1 was not found")
		}
		// the PUBREL→PUBLISH continuity test of AdoptSession is the same predicate
		pred := func(fn *ssa.Function) (sub1, zero, mask bool) {
			for _, b := range c.regionBlocks(fn) {
				for _, ins := range b.Instrs {
					bo, ok := ins.(*ssa.BinOp)
					if !ok || (bo.Op != token.EQL && bo.Op != token.NEQ) {
						continue
					}
					if s, ok := stripConv(bo.X).(*ssa.BinOp); ok && s.Op == token.SUB && isK(bo.Y, 1) {
						sub1 = true
					}
					// an identifier: masked in place, or handed to a helper introduced later
					ident := false
					if and, ok := stripConv(bo.X).(*ssa.BinOp); ok && and.Op == token.AND && isK(and.Y, pm) {
						ident = true
					}
					if pr, ok := stripConv(bo.X).(*ssa.Parameter); ok && pr.Type().String() == "uint" && c.isNewHelper(pr.Parent()) {
						ident = true
					}
					if ident {
						if isK(bo.Y, 0) {
							zero = true
						}
						if isK(bo.Y, pm) {
							mask = true
						}
					}
				}
			}
			return
		}
		s1, z1, m1 := pred(clean)
		s2, z2, m2 := pred(ad)
		if s1 && z1 && m1 && s2 && z2 && m2 {
			a.pass()
		} else {
			a.failAt(c.P.Pos(ad.Pos()), "cleanSequence and the PUBREL→PUBLISH continuity test of AdoptSession disagree on what 'adjacent' means (n−p==1: %v/%v, n==0: %v/%v, p==publishIDMask: %v/%v): at the 14-bit roll-over one of them sees a gap the other does not", s1, s2, z1, z2, m1, m2)
		}
		// the warning leaves cleanSequence: it is appended to what a pointer
		// parameter points at (or handed back as a result), not to a copy of
		// the caller's slice
		wr := c.acc("ADP-8", clean, "gap-warning-reaches-the-caller")
		for _, b := range c.regionBlocks(clean) {
			for _, ins := range b.Instrs {
				call, ok := ins.(*ssa.Call)
				if !ok || call.Type().String() != "[]error" {
					continue
				}
				if bl, isB := call.Call.Value.(*ssa.Builtin); !isB || bl.Name() != "append" {
					continue
				}
				out := false
				var follow func(v ssa.Value, d int)
				follow = func(v ssa.Value, d int) {
					if d > 4 || v.Referrers() == nil {
						return
					}
					for _, r := range *v.Referrers() {
						switch x := r.(type) {
						case *ssa.Store:
							if x.Val != v {
								continue
							}
							addr := x.Addr
							if pr, isP := addr.(*ssa.Parameter); isP {
								if _, ptr := pr.Type().Underlying().(*types.Pointer); ptr {
									out = true
								}
							}
							// a result slot (named result, or spilled because of a defer)
							if al, isA := addr.(*ssa.Alloc); isA {
								for _, lr := range *al.Referrers() {
									if ld, isL := lr.(*ssa.UnOp); isL {
										follow(ld, d+1)
									}
								}
							}
						case *ssa.Return:
							out = true
						case *ssa.Phi:
							follow(x, d+1)
						}
					}
				}
				follow(call, 0)
				if out {
					wr.pass()
				} else {
					wr.failAt(c.P.Pos(call.Pos()), "the warning about a dropped prefix is appended to a slice that stays inside %s (its own copy of the caller's slice header): AdoptSession abandons the records without telling the application", call.Parent().Name())
				}
			}
		}
		wr.done(1, "every warning is stored through the pointer parameter or returned")
		// … and AdoptSession hands out what it collected on every exit, the fatal
		// ones included: the damaged records were deleted by then, a second call
		// has nothing left to report
		if ad := c.Fn("ADP-8", "AdoptSession"); ad != nil {
			rw := c.acc("ADP-8", ad, "every-return-carries-the-warnings-collected-so-far")
			for _, p := range c.Paths("ADP-8", ad) {
				if p.End != pathx.KReturn {
					continue
				}
				last := len(p.Events) - 1
				rs := p.Events[last].Results
				if len(rs) < 3 {
					continue
				}
				warned := false
				for i := range p.Events {
					if isAppendTo(&p.Events[i], "[]error") || (p.Events[i].Kind == pathx.KCall && p.Events[i].Callee == clean) {
						warned = true
					}
				}
				if !warned {
					continue
				}
				if pathx.IsNilConst(rs[1]) {
					rw.fail(p, last, "AdoptSession returns nil in place of the warnings on a path that may have collected some: records it deleted or dropped are never reported")
				} else {
					rw.pass()
				}
			}
			rw.done(1, "no return behind a possible warning replaces the list by nil")
		}
		adj2 := c.acc("ADP-8", clean, "scan-decides-adjacency-exactly(test-vectors)")
		c.adp8Adjacency(clean, adj2)
		adj2.done(12, "for each representative pair an iteration keeps adjacent records and reports a gap otherwise")
		a.done(3, "index restarts at 1 after truncation; each gap warns and truncates; adjacency is n-p==1 (or the wrap), in both places")
	}
}

func sameValue(a, b ssa.Value) bool {
	a, b = stripConv(a), stripConv(b)
	if a == b {
		return true
	}
	return Expr(a) == Expr(b)
}

func (c *Ctx) firstBlockOf(fn, callee *ssa.Function) int {
	for _, b := range fn.Blocks {
		for _, ins := range b.Instrs {
			if call, ok := ins.(*ssa.Call); ok && call.Call.StaticCallee() == callee {
				return b.Index
			}
		}
	}
	return 1 << 30
}

// dependsOnDecodeSeq: v is (a phi over) the sequence result of decodeValue.
func (c *Ctx) dependsOnDecodeSeq(v ssa.Value, dec *ssa.Function, depth int) bool {
	if depth > 6 {
		return false
	}
	switch x := v.(type) {
	case *ssa.ChangeType: // a named type for the sequence number
		return c.dependsOnDecodeSeq(x.X, dec, depth+1)
	case *ssa.Convert:
		if fb, ok1 := intBits(x.X.Type()); ok1 {
			if tb, ok2 := intBits(x.Type()); ok2 && tb >= fb {
				return c.dependsOnDecodeSeq(x.X, dec, depth+1)
			}
		}
	case *ssa.Phi:
		for _, e := range x.Edges {
			if c.dependsOnDecodeSeq(e, dec, depth+1) {
				return true
			}
		}
	case *ssa.Extract:
		if call, ok := x.Tuple.(*ssa.Call); ok && call.Call.StaticCallee() == dec && x.Index == 1 {
			return true
		}
	case *ssa.BinOp:
		return c.dependsOnDecodeSeq(x.X, dec, depth+1) || c.dependsOnDecodeSeq(x.Y, dec, depth+1)
	case *ssa.Call:
		if b, ok := x.Call.Value.(*ssa.Builtin); ok && b.Name() == "max" {
			for _, a := range x.Call.Args {
				if c.dependsOnDecodeSeq(a, dec, depth+1) {
					return true
				}
			}
		}
	}
	return false
}
