// Package oblig holds obligation records, known-finding matching and the
// evidence writer.
package oblig

import (
	"crypto/sha1"
	"encoding/json"
	"fmt"
	"os"
	"path/filepath"
	"sort"
	"strings"
	"time"
)

type Status string

const (
	Discharged Status = "discharged"
	Violated   Status = "violated"
	Known      Status = "known"
	Undecided  Status = "undecided"
)

// Obligation is one checked instance of a rule.
type Obligation struct {
	Rule      string   `json:"rule"`
	Construct string   `json:"construct"` // position independent key
	Pos       string   `json:"pos,omitempty"`
	Func      string   `json:"func,omitempty"`
	Status    Status   `json:"status"`
	Reason    string   `json:"reason,omitempty"`
	Path      []string `json:"path,omitempty"` // for path rules: decisions taken
	Flow      bool     `json:"flow,omitempty"` // needed a path/flow argument (non-trivial)
}

// Set collects the obligations of one run for one property.
type Set struct {
	Property string
	Obs      []*Obligation
	index    map[string]*Obligation
	Counters map[string]int // measured extras
	Floors   []Floor
}

type Floor struct {
	Rule string
	What string
	Got  int
	Min  int
}

func NewSet(prop string) *Set {
	return &Set{Property: prop, index: map[string]*Obligation{}, Counters: map[string]int{}}
}

// Add records an obligation. A violated or undecided record for the same
// rule+construct always wins over a discharged one.
func (s *Set) Add(o Obligation) {
	key := o.Rule + "\x00" + o.Construct
	if old, ok := s.index[key]; ok {
		if rank(o.Status) > rank(old.Status) {
			*old = o
		}
		return
	}
	c := o
	s.index[key] = &c
	s.Obs = append(s.Obs, &c)
}

func rank(s Status) int {
	switch s {
	case Violated:
		return 3
	case Undecided:
		return 2
	case Known:
		return 1
	}
	return 0
}

func (s *Set) OK(rule, construct, pos, fn, reason string, flow bool) {
	s.Add(Obligation{Rule: rule, Construct: construct, Pos: pos, Func: fn, Status: Discharged, Reason: reason, Flow: flow})
}

func (s *Set) Bad(rule, construct, pos, fn, reason string, path []string) {
	s.Add(Obligation{Rule: rule, Construct: construct, Pos: pos, Func: fn, Status: Violated, Reason: reason, Path: path, Flow: true})
}

func (s *Set) Unknown(rule, construct, pos, fn, reason string) {
	s.Add(Obligation{Rule: rule, Construct: construct, Pos: pos, Func: fn, Status: Undecided, Reason: reason, Flow: true})
}

// Floor asserts that a rule found at least min instances.
func (s *Set) Floor(rule, what string, got, min int) {
	s.Floors = append(s.Floors, Floor{rule, what, got, min})
	if got < min {
		s.Add(Obligation{Rule: rule, Construct: rule + "|floor|" + what, Status: Undecided,
			Reason: fmt.Sprintf("instance floor: found %d %s, confirmed by hand: at least %d; anchors moved or rule lost its targets", got, what, min), Flow: true})
	}
}

func (s *Set) Count(name string, n int) { s.Counters[name] += n }

// ---- known findings ----

type Finding struct {
	Property  string `json:"property"`
	Rule      string `json:"rule"`
	Construct string `json:"construct"`
	Status    string `json:"status"` // "known" or "fixed"
	Commit    string `json:"commit,omitempty"`
	What      string `json:"what"`
}

func LoadFindings(path string) ([]Finding, error) {
	b, err := os.ReadFile(path)
	if err != nil {
		if os.IsNotExist(err) {
			return nil, nil
		}
		return nil, err
	}
	var out []Finding
	for i, line := range strings.Split(string(b), "\n") {
		line = strings.TrimSpace(line)
		if line == "" || strings.HasPrefix(line, "#") {
			continue
		}
		var f Finding
		if err := json.Unmarshal([]byte(line), &f); err != nil {
			return nil, fmt.Errorf("%s:%d: %w", path, i+1, err)
		}
		out = append(out, f)
	}
	return out, nil
}

// ApplyFindings turns violated obligations that are listed as known into
// Known. Fixed entries suppress nothing.
func (s *Set) ApplyFindings(fs []Finding) (hit []Finding) {
	for _, o := range s.Obs {
		if o.Status != Violated {
			continue
		}
		for _, f := range fs {
			if f.Status == "known" && f.Property == s.Property && f.Rule == o.Rule && f.Construct == o.Construct {
				o.Status = Known
				hit = append(hit, f)
				break
			}
		}
	}
	return hit
}

// ---- evidence ----

type Evidence struct {
	PropertyID  string         `json:"property_id"`
	Tier        string         `json:"tier"`
	Seed        int            `json:"seed"`
	Level       string         `json:"level"`
	Coverage    map[string]any `json:"coverage"`
	Assumptions []string       `json:"assumptions"`
	WallS       float64        `json:"wall_s"`
	Violations  int            `json:"violations"`
}

type Meta struct {
	Tier        string
	Seed        int
	Explanation string
	CheckerCmd  string
	Trusted     []string
	Assumptions []string
	Start       time.Time
	Extra       map[string]any
}

func (s *Set) Summary() (total, discharged, violated, undecided, known, distinctFlow int) {
	seen := map[string]bool{}
	for _, o := range s.Obs {
		total++
		switch o.Status {
		case Discharged:
			discharged++
		case Violated:
			violated++
		case Undecided:
			undecided++
		case Known:
			known++
		}
		if o.Flow && !seen[o.Construct] {
			seen[o.Construct] = true
			distinctFlow++
		}
	}
	return
}

func (s *Set) WriteEvidence(path string, m Meta) error {
	total, discharged, violated, undecided, known, flow := s.Summary()
	perRule := map[string]int{}
	for _, o := range s.Obs {
		perRule[o.Rule]++
	}
	// samples: every non-discharged record, then up to 14 discharged ones spread over rules
	var samples []any
	for _, o := range s.Obs {
		if o.Status != Discharged {
			samples = append(samples, o)
		}
	}
	perRuleSeen := map[string]int{}
	for _, o := range s.Obs {
		if o.Status == Discharged && perRuleSeen[o.Rule] < 2 && len(samples) < 24 {
			perRuleSeen[o.Rule]++
			samples = append(samples, o)
		}
	}
	cov := map[string]any{
		"explanation":         m.Explanation,
		"obligations":         total,
		"discharged":          discharged,
		"known_findings":      known,
		"violated":            violated,
		"undecided":           undecided,
		"evaluations":         total,
		"distinct_nontrivial": flow,
		"rule":                "one evaluation per obligation (rule instance found in the current source); non-trivial = distinct construct keys whose discharge needed a path, flow or table argument rather than mere presence",
		"checker_cmd":         m.CheckerCmd,
		"trusted_base":        m.Trusted,
		"rule_instances":      perRule,
		"instance_floors":     s.Floors,
		"samples":             samples,
		"exhaustive":          true,
	}
	for k, v := range s.Counters {
		cov[k] = v
	}
	for k, v := range m.Extra {
		cov[k] = v
	}
	ev := Evidence{PropertyID: s.Property, Tier: m.Tier, Seed: m.Seed, Level: "other", Coverage: cov,
		Assumptions: m.Assumptions, WallS: time.Since(m.Start).Seconds(), Violations: violated + undecided}
	b, err := json.MarshalIndent(ev, "", " ")
	if err != nil {
		return err
	}
	if err := os.MkdirAll(filepath.Dir(path), 0o755); err != nil {
		return err
	}
	return os.WriteFile(path, append(b, '\n'), 0o644)
}

// WriteViolation stores a replay file and returns its path.
func WriteViolation(dir, prop string, o *Obligation, repo string) (string, error) {
	if err := os.MkdirAll(dir, 0o755); err != nil {
		return "", err
	}
	h := sha1.Sum([]byte(o.Rule + "|" + o.Construct))
	p := filepath.Join(dir, fmt.Sprintf("%s-%x.json", prop, h[:6]))
	b, _ := json.MarshalIndent(map[string]any{"property": prop, "repo": repo, "obligation": o}, "", " ")
	return p, os.WriteFile(p, append(b, '\n'), 0o644)
}

// Sorted returns obligations ordered by rule and construct.
func (s *Set) Sorted() []*Obligation {
	out := append([]*Obligation(nil), s.Obs...)
	sort.SliceStable(out, func(i, j int) bool {
		if out[i].Rule != out[j].Rule {
			return out[i].Rule < out[j].Rule
		}
		return out[i].Construct < out[j].Construct
	})
	return out
}
