package load

import (
	"fmt"
	"go/ast"
	"go/parser"
	"go/token"
	"go/types"
	"os"
	"path/filepath"
	"sort"
	"strings"

	"golang.org/x/tools/go/packages"
)

// The rules name their anchors: functions, methods and struct fields of the
// analysed packages. A plain rename (same signature or type, same place) is a
// harmless change, and must not turn every anchored rule into "undecided".
// KnownFuncs/KnownFields (known_gen.go) record the declarations of the tree
// the rules were written against. When a known name is gone and a new name
// with the same signature stands in its place, the new name is taken to be
// the old one: the sources are loaded through an overlay in which the new
// identifier is spelled the old way. The renamed body is analysed by the very
// same rules, so nothing is taken on trust but the identity.

type KnownFunc struct {
	Name string // "mqtttest." prefix for the mqtttest package; "(*T).m" for methods
	Sig  string // parameter and result types only
	Ord  int    // declaration order within the package (files sorted by name)
}

type KnownField struct {
	Struct string // with "mqtttest." prefix
	Name   string
	Type   string
	Ord    int
}

type KnownType struct {
	Name       string // with "mqtttest." prefix
	Underlying string
	Ord        int
}

// KnownTypeNames gives the set of known named types (bare names, both packages).
func KnownTypeNames() map[string]bool {
	m := map[string]bool{}
	for _, k := range KnownTypes {
		m[strings.TrimPrefix(k.Name, "mqtttest.")] = true
	}
	return m
}

// Rename is one assumed identity.
type Rename struct {
	Kind string // func | field
	Old  string
	New  string
}

func (r Rename) String() string {
	if strings.Contains(r.New, " now)") {
		return fmt.Sprintf("%s %s is taken to be %s (same parameters in the same positions)", r.Kind, r.New, r.Old)
	}
	if r.Kind == "moved-field" {
		return fmt.Sprintf("field %s is taken to be %s, moved into a struct introduced later (same type, same declaration order)", r.New, r.Old)
	}
	return fmt.Sprintf("%s %s is taken to be the renamed %s (same %s, same declaration order)", r.Kind, r.New, r.Old, map[string]string{"func": "signature", "field": "struct and type", "type": "underlying type"}[r.Kind])
}

// KnownFuncNames gives the set of known function names.
func KnownFuncNames() map[string]bool {
	m := map[string]bool{}
	for _, k := range KnownFuncs {
		m[k.Name] = true
	}
	return m
}

func pkgPrefix(path string) (string, bool) {
	switch path {
	case RootPath:
		return "", true
	case RootPath + "/mqtttest":
		return "mqtttest.", true
	}
	return "", false
}

func recvString(e ast.Expr) string {
	switch x := e.(type) {
	case *ast.StarExpr:
		return "*" + recvString(x.X)
	case *ast.Ident:
		return x.Name
	case *ast.IndexExpr:
		return recvString(x.X)
	case *ast.ParenExpr:
		return recvString(x.X)
	}
	return "?"
}

// declaredNames parses the non-test sources of dir and dir/mqtttest without
// type-checking and reports the function and field names declared.
func declaredNames(dir string) (funcs, fields map[string]bool, err error) {
	funcs, fields = map[string]bool{}, map[string]bool{}
	for _, sub := range []struct{ dir, prefix string }{{dir, ""}, {filepath.Join(dir, "mqtttest"), "mqtttest."}} {
		ents, err := os.ReadDir(sub.dir)
		if err != nil {
			return nil, nil, err
		}
		fset := token.NewFileSet()
		for _, e := range ents {
			n := e.Name()
			if e.IsDir() || !strings.HasSuffix(n, ".go") || strings.HasSuffix(n, "_test.go") {
				continue
			}
			f, err := parser.ParseFile(fset, filepath.Join(sub.dir, n), nil, parser.SkipObjectResolution)
			if err != nil {
				return nil, nil, err
			}
			for _, d := range f.Decls {
				switch x := d.(type) {
				case *ast.FuncDecl:
					name := x.Name.Name
					if x.Recv != nil && len(x.Recv.List) == 1 {
						name = "(" + recvString(x.Recv.List[0].Type) + ")." + name
					}
					funcs[sub.prefix+name] = true
				case *ast.GenDecl:
					for _, sp := range x.Specs {
						ts, ok := sp.(*ast.TypeSpec)
						if !ok {
							continue
						}
						fields["type "+sub.prefix+ts.Name.Name] = true
						st, ok := ts.Type.(*ast.StructType)
						if !ok {
							continue
						}
						for _, fl := range st.Fields.List {
							for _, id := range fl.Names {
								fields[sub.prefix+ts.Name.Name+"."+id.Name] = true
							}
						}
					}
				}
			}
		}
	}
	return funcs, fields, nil
}

// needRenameScan tells whether any known name is gone from dir.
func needRenameScan(dir string) bool {
	funcs, fields, err := declaredNames(dir)
	if err != nil {
		return false
	}
	for _, k := range KnownFuncs {
		if !funcs[k.Name] {
			return true
		}
	}
	for _, k := range KnownFields {
		if !fields[k.Struct+"."+k.Name] {
			return true
		}
	}
	for _, k := range KnownTypes {
		if !fields["type "+k.Name] {
			return true
		}
	}
	return false
}

// SigString renders parameter and result types of a signature.
func SigString(sig *types.Signature, pkg *types.Package) string {
	q := types.RelativeTo(pkg)
	var b strings.Builder
	b.WriteByte('(')
	for i := 0; i < sig.Params().Len(); i++ {
		if i > 0 {
			b.WriteByte(',')
		}
		if sig.Variadic() && i == sig.Params().Len()-1 {
			b.WriteString("...")
		}
		b.WriteString(types.TypeString(sig.Params().At(i).Type(), q))
	}
	b.WriteString(")(")
	for i := 0; i < sig.Results().Len(); i++ {
		if i > 0 {
			b.WriteByte(',')
		}
		b.WriteString(types.TypeString(sig.Results().At(i).Type(), q))
	}
	b.WriteByte(')')
	return b.String()
}

type curFunc struct {
	name string
	sig  string
	obj  types.Object
	pos  token.Position
}

type curField struct {
	strct, name, typ string
	obj              types.Object
	pos              token.Position
}

// Declared lists the functions and fields of one type-checked package in
// declaration order (files sorted by name, then by offset).
func Declared(pk *packages.Package) (fs []curFunc, flds []curField) {
	prefix, ok := pkgPrefix(pk.PkgPath)
	if !ok {
		return nil, nil
	}
	files := append([]*ast.File(nil), pk.Syntax...)
	sort.Slice(files, func(i, j int) bool {
		return pk.Fset.Position(files[i].Pos()).Filename < pk.Fset.Position(files[j].Pos()).Filename
	})
	for _, f := range files {
		if strings.HasSuffix(pk.Fset.Position(f.Pos()).Filename, "_test.go") {
			continue
		}
		for _, d := range f.Decls {
			switch x := d.(type) {
			case *ast.FuncDecl:
				obj, _ := pk.TypesInfo.Defs[x.Name].(*types.Func)
				if obj == nil {
					continue
				}
				name := x.Name.Name
				if x.Recv != nil && len(x.Recv.List) == 1 {
					name = "(" + recvString(x.Recv.List[0].Type) + ")." + name
				}
				fs = append(fs, curFunc{prefix + name, SigString(obj.Type().(*types.Signature), pk.Types), obj, pk.Fset.Position(x.Name.Pos())})
			case *ast.GenDecl:
				for _, sp := range x.Specs {
					ts, ok := sp.(*ast.TypeSpec)
					if !ok {
						continue
					}
					st, ok := ts.Type.(*ast.StructType)
					if !ok {
						continue
					}
					for _, fl := range st.Fields.List {
						for _, id := range fl.Names {
							obj := pk.TypesInfo.Defs[id]
							if obj == nil {
								continue
							}
							flds = append(flds, curField{prefix + ts.Name.Name, id.Name, types.TypeString(obj.Type(), types.RelativeTo(pk.Types)), obj, pk.Fset.Position(id.Pos())})
						}
					}
				}
			}
		}
	}
	return fs, flds
}

type curType struct {
	name, under string
	obj         types.Object
	pos         token.Position
}

// DeclaredTypes lists the named types of one package in declaration order.
// The underlying type is rendered with the type's own name blanked, so that a
// renamed type compares equal to its former self.
func DeclaredTypes(pk *packages.Package) []curType {
	prefix, ok := pkgPrefix(pk.PkgPath)
	if !ok {
		return nil
	}
	files := append([]*ast.File(nil), pk.Syntax...)
	sort.Slice(files, func(i, j int) bool {
		return pk.Fset.Position(files[i].Pos()).Filename < pk.Fset.Position(files[j].Pos()).Filename
	})
	var out []curType
	for _, f := range files {
		if strings.HasSuffix(pk.Fset.Position(f.Pos()).Filename, "_test.go") {
			continue
		}
		for _, d := range f.Decls {
			gd, ok := d.(*ast.GenDecl)
			if !ok {
				continue
			}
			for _, sp := range gd.Specs {
				ts, ok := sp.(*ast.TypeSpec)
				if !ok {
					continue
				}
				obj := pk.TypesInfo.Defs[ts.Name]
				if obj == nil {
					continue
				}
				self := obj.Name()
				u := types.TypeString(obj.Type().Underlying(), func(p *types.Package) string {
					if p == pk.Types {
						return ""
					}
					return p.Name()
				})
				u = strings.ReplaceAll(u, "."+self, ".·")
				out = append(out, curType{prefix + self, u, obj, pk.Fset.Position(ts.Name.Pos())})
			}
		}
	}
	return out
}

type posKey struct {
	file string
	off  int
}

// detectRenames pairs vanished known names with new names of the same
// signature (functions) or struct and type (fields), in declaration order;
// a group whose sizes differ is left alone.
func detectRenames(pkgs []*packages.Package) (map[posKey]string, []Rename) {
	byDecl := map[posKey]string{}
	var out []Rename
	for _, pk := range pkgs {
		if strings.Contains(pk.ID, "[") || strings.HasSuffix(pk.ID, ".test") || strings.HasSuffix(pk.PkgPath, "_test") {
			continue
		}
		prefix, ok := pkgPrefix(pk.PkgPath)
		if !ok {
			continue
		}
		// named types first: methods of a renamed type carry its new name in theirs
		typeNew := map[string]string{} // new bare name → old bare name
		{
			cur := DeclaredTypes(pk)
			haveT := map[string]bool{}
			for _, t := range cur {
				haveT[t.name] = true
			}
			knownT := map[string]bool{}
			type tgrp struct {
				old []KnownType
				new []curType
			}
			tg := map[string]*tgrp{}
			for _, k := range KnownTypes {
				if (prefix == "") != !strings.HasPrefix(k.Name, "mqtttest.") {
					continue
				}
				knownT[k.Name] = true
				if !haveT[k.Name] {
					if tg[k.Underlying] == nil {
						tg[k.Underlying] = &tgrp{}
					}
					tg[k.Underlying].old = append(tg[k.Underlying].old, k)
				}
			}
			for _, t := range cur {
				if knownT[t.name] || t.obj.Exported() {
					continue
				}
				if tg[t.under] == nil {
					tg[t.under] = &tgrp{}
				}
				tg[t.under].new = append(tg[t.under].new, t)
			}
			var tkeys []string
			for k := range tg {
				tkeys = append(tkeys, k)
			}
			sort.Strings(tkeys)
			for _, k := range tkeys {
				g := tg[k]
				if len(g.old) == 0 || len(g.old) != len(g.new) {
					continue
				}
				sort.Slice(g.old, func(i, j int) bool { return g.old[i].Ord < g.old[j].Ord })
				for i := range g.old {
					oldBare := strings.TrimPrefix(g.old[i].Name, prefix)
					byDecl[posKey{g.new[i].pos.Filename, g.new[i].pos.Offset}] = oldBare
					typeNew[strings.TrimPrefix(g.new[i].name, prefix)] = oldBare
					out = append(out, Rename{"type", g.old[i].Name, g.new[i].name})
				}
			}
		}
		respell := func(name string) string {
			// "(*newT).m" → "(*oldT).m"
			for nw, old := range typeNew {
				name = strings.Replace(name, "(*"+nw+").", "(*"+old+").", 1)
				name = strings.Replace(name, "("+nw+").", "("+old+").", 1)
			}
			return name
		}
		fs, flds := Declared(pk)
		for i := range fs {
			fs[i].name = respell(fs[i].name)
		}
		for i := range flds {
			if old, ok := typeNew[strings.TrimPrefix(flds[i].strct, prefix)]; ok {
				flds[i].strct = prefix + old
			}
		}
		have := map[string]bool{}
		for _, f := range fs {
			have[f.name] = true
		}
		known := map[string]bool{}
		type grp struct {
			old []KnownFunc
			new []curFunc
		}
		groups := map[string]*grp{}
		recvOf := func(name string) string {
			name = strings.TrimPrefix(name, prefix)
			if strings.HasPrefix(name, "(") {
				return name[:strings.Index(name, ").")+2]
			}
			return ""
		}
		for _, k := range KnownFuncs {
			if (prefix == "") != !strings.HasPrefix(k.Name, "mqtttest.") {
				continue
			}
			known[k.Name] = true
			if !have[k.Name] {
				key := recvOf(k.Name) + k.Sig
				if groups[key] == nil {
					groups[key] = &grp{}
				}
				groups[key].old = append(groups[key].old, k)
			}
		}
		for _, f := range fs {
			if known[f.name] || f.obj.Exported() {
				continue
			}
			key := recvOf(f.name) + f.sig
			if groups[key] == nil {
				groups[key] = &grp{}
			}
			groups[key].new = append(groups[key].new, f)
		}
		var keys []string
		for k := range groups {
			keys = append(keys, k)
		}
		sort.Strings(keys)
		for _, k := range keys {
			g := groups[k]
			if len(g.old) == 0 || len(g.old) != len(g.new) {
				continue
			}
			sort.Slice(g.old, func(i, j int) bool { return g.old[i].Ord < g.old[j].Ord })
			for i := range g.old {
				oldBare := g.old[i].Name[strings.LastIndex(g.old[i].Name, ".")+1:]
				byDecl[posKey{g.new[i].pos.Filename, g.new[i].pos.Offset}] = oldBare
				out = append(out, Rename{"func", g.old[i].Name, g.new[i].name})
			}
		}
		// fields
		paired := map[string]bool{}
		haveF := map[string]bool{}
		for _, f := range flds {
			haveF[f.strct+"."+f.name] = true
		}
		knownF := map[string]bool{}
		type fgrp struct {
			old []KnownField
			new []curField
		}
		fgroups := map[string]*fgrp{}
		for _, k := range KnownFields {
			if (prefix == "") != !strings.HasPrefix(k.Struct, "mqtttest.") {
				continue
			}
			knownF[k.Struct+"."+k.Name] = true
			if !haveF[k.Struct+"."+k.Name] {
				key := k.Struct + "|" + k.Type
				if fgroups[key] == nil {
					fgroups[key] = &fgrp{}
				}
				fgroups[key].old = append(fgroups[key].old, k)
			}
		}
		for _, f := range flds {
			if knownF[f.strct+"."+f.name] || f.obj.Exported() {
				continue
			}
			key := f.strct + "|" + f.typ
			if fgroups[key] == nil {
				fgroups[key] = &fgrp{}
			}
			fgroups[key].new = append(fgroups[key].new, f)
		}
		keys = keys[:0]
		for k := range fgroups {
			keys = append(keys, k)
		}
		sort.Strings(keys)
		for _, k := range keys {
			g := fgroups[k]
			if len(g.old) == 0 || len(g.old) != len(g.new) {
				continue
			}
			sort.Slice(g.old, func(i, j int) bool { return g.old[i].Ord < g.old[j].Ord })
			for i := range g.old {
				byDecl[posKey{g.new[i].pos.Filename, g.new[i].pos.Offset}] = g.old[i].Name
				out = append(out, Rename{"field", g.old[i].Struct + "." + g.old[i].Name, g.new[i].strct + "." + g.new[i].name})
				paired[g.old[i].Struct+"."+g.old[i].Name] = true
			}
		}
		// fields moved into a struct introduced later, held by value (or
		// embedded) in the place they came from: c.readConn → c.rd.conn. A
		// known field S.F of type T that is gone and has no renamed twin is
		// taken to be the field of type T of a new struct type U, when S has
		// a new field of type U; several of one type pair in declaration order.
		knownT := map[string]bool{}
		for _, k := range KnownTypes {
			knownT[k.Name] = true
		}
		fieldsOf := map[string][]curField{}
		for _, f := range flds {
			fieldsOf[f.strct] = append(fieldsOf[f.strct], f)
		}
		for _, holder := range flds {
			if knownF[holder.strct+"."+holder.name] {
				continue
			}
			u := prefix + strings.TrimPrefix(holder.typ, "*")
			if knownT[u] || len(fieldsOf[u]) == 0 || strings.HasPrefix(holder.typ, "*") {
				continue
			}
			// vanished, unpaired known fields of the holder's struct, by type
			byType := map[string][]KnownField{}
			for _, k := range KnownFields {
				if k.Struct != holder.strct || haveF[k.Struct+"."+k.Name] || paired[k.Struct+"."+k.Name] {
					continue
				}
				byType[k.Type] = append(byType[k.Type], k)
			}
			newByType := map[string][]curField{}
			for _, f := range fieldsOf[u] {
				newByType[f.typ] = append(newByType[f.typ], f)
			}
			var types_ []string
			for t := range byType {
				types_ = append(types_, t)
			}
			sort.Strings(types_)
			for _, t := range types_ {
				olds, news := byType[t], newByType[t]
				if len(news) == 0 || len(news) > len(olds) {
					continue
				}
				sort.Slice(olds, func(i, j int) bool { return olds[i].Ord < olds[j].Ord })
				if len(news) != len(olds) {
					continue
				}
				for i := range news {
					out = append(out, Rename{"moved-field", olds[i].Struct + "." + olds[i].Name, u + "." + news[i].name + " (held in " + holder.strct + "." + holder.name + ")"})
					paired[olds[i].Struct+"."+olds[i].Name] = true
				}
			}
		}
	}
	return byDecl, out
}

// renameOverlay spells every identifier that resolves to a renamed
// declaration the old way, in all package variants.
func renameOverlay(pkgs []*packages.Package, byDecl map[posKey]string) (map[string][]byte, error) {
	type edit struct {
		off, end int
		text     string
	}
	edits := map[string]map[int]edit{}
	add := func(fset *token.FileSet, id *ast.Ident, obj types.Object) {
		if obj == nil || !obj.Pos().IsValid() {
			return
		}
		dp := fset.Position(obj.Pos())
		old, ok := byDecl[posKey{dp.Filename, dp.Offset}]
		if !ok || id.Name == old {
			return
		}
		p := fset.Position(id.Pos())
		if edits[p.Filename] == nil {
			edits[p.Filename] = map[int]edit{}
		}
		edits[p.Filename][p.Offset] = edit{p.Offset, p.Offset + len(id.Name), old}
	}
	packages.Visit(pkgs, nil, func(pk *packages.Package) {
		if pk.TypesInfo == nil || !strings.HasPrefix(pk.PkgPath, RootPath) {
			return
		}
		for id, obj := range pk.TypesInfo.Defs {
			add(pk.Fset, id, obj)
		}
		for id, obj := range pk.TypesInfo.Uses {
			add(pk.Fset, id, obj)
		}
	})
	over := map[string][]byte{}
	for file, es := range edits {
		src, err := os.ReadFile(file)
		if err != nil {
			return nil, err
		}
		var list []edit
		for _, e := range es {
			list = append(list, e)
		}
		sort.Slice(list, func(i, j int) bool { return list[i].off > list[j].off })
		for _, e := range list {
			src = append(src[:e.off:e.off], append([]byte(e.text), src[e.end:]...)...)
		}
		over[file] = src
	}
	return over, nil
}
