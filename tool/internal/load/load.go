// Package load type-checks the repository under analysis and builds its SSA
// form. Everything the checker decides is derived from the Program returned
// here; nothing is cached between runs.
package load

import (
	"fmt"
	"go/token"
	"go/types"
	"os"
	"sort"
	"strings"

	"golang.org/x/tools/go/packages"
	"golang.org/x/tools/go/ssa"
	"golang.org/x/tools/go/ssa/ssautil"
)

const RootPath = "github.com/pascaldekloe/mqtt"

// Program is the resolved form of the repository.
type Program struct {
	Dir      string
	Fset     *token.FileSet
	Pkgs     []*packages.Package // initial packages (./...)
	SSA      *ssa.Program
	Root     *ssa.Package // the mqtt package
	RootPkg  *packages.Package
	Test     *ssa.Package // mqtttest
	TestPkg  *packages.Package
	AllFuncs map[*ssa.Function]bool
	WithTest bool
	Renames  []Rename // identities assumed for renamed declarations
}

func loadPkgs(dir string, tests bool, overlay map[string][]byte) ([]*packages.Package, error) {
	env := os.Environ()
	clean := env[:0:0]
	for _, kv := range env {
		if strings.HasPrefix(kv, "GOWORK=") || strings.HasPrefix(kv, "GOFLAGS=") {
			continue
		}
		clean = append(clean, kv)
	}
	clean = append(clean, "GOWORK=off", "GOFLAGS=-mod=mod", "GOPROXY=off", "GOSUMDB=off", "GOTOOLCHAIN=local")
	cfg := &packages.Config{
		Mode:       packages.LoadAllSyntax,
		Dir:        dir,
		Env:        clean,
		Tests:      tests,
		BuildFlags: []string{"-tags=verif"},
		Overlay:    overlay,
	}
	pkgs, err := packages.Load(cfg, "./...")
	if err != nil {
		return nil, fmt.Errorf("load: %w", err)
	}
	if len(pkgs) == 0 {
		return nil, fmt.Errorf("load: zero packages under %s", dir)
	}
	var errs []string
	packages.Visit(pkgs, nil, func(p *packages.Package) {
		for _, e := range p.Errors {
			errs = append(errs, e.Error())
		}
	})
	if len(errs) != 0 {
		sort.Strings(errs)
		return nil, fmt.Errorf("load: %d type/parse errors, first: %s", len(errs), errs[0])
	}
	return pkgs, nil
}

// Load loads ./... of dir. With tests, test variants are loaded too. Plain
// renames of known functions and fields are undone through an overlay first
// (see known.go); Program.Renames lists the identities assumed.
func Load(dir string, tests bool) (*Program, error) {
	var renames []Rename
	var overlay map[string][]byte
	if needRenameScan(dir) {
		pre, err := loadPkgs(dir, tests, nil)
		if err != nil {
			return nil, err
		}
		byDecl, rs := detectRenames(pre)
		if len(byDecl) != 0 {
			if overlay, err = renameOverlay(pre, byDecl); err != nil {
				return nil, fmt.Errorf("load: rename overlay: %w", err)
			}
		}
		renames = rs
	}
	pkgs, err := loadPkgs(dir, tests, overlay)
	if err != nil {
		if overlay != nil {
			return nil, fmt.Errorf("%w (with renames undone: %v)", err, renames)
		}
		return nil, err
	}
	prog, ssaPkgs := ssautil.AllPackages(pkgs, ssa.InstantiateGenerics)
	prog.Build()
	p := &Program{Dir: dir, Fset: pkgs[0].Fset, Pkgs: pkgs, SSA: prog, WithTest: tests, Renames: renames}
	for i, pk := range pkgs {
		switch {
		case pk.PkgPath == RootPath && !strings.Contains(pk.ID, "["):
			p.Root, p.RootPkg = ssaPkgs[i], pk
		case pk.PkgPath == RootPath+"/mqtttest" && !strings.Contains(pk.ID, "["):
			p.Test, p.TestPkg = ssaPkgs[i], pk
		}
	}
	if p.Root == nil {
		return nil, fmt.Errorf("load: package %s not found", RootPath)
	}
	if p.Test == nil {
		return nil, fmt.Errorf("load: package %s/mqtttest not found", RootPath)
	}
	p.AllFuncs = ssautil.AllFunctions(prog)
	p.aliasMethodsAndFunctions()
	return p, nil
}

// Pos renders a position relative to the repository directory.
func (p *Program) Pos(pos token.Pos) string {
	if !pos.IsValid() {
		return "-"
	}
	ps := p.Fset.Position(pos)
	f := strings.TrimPrefix(ps.Filename, p.Dir+"/")
	return fmt.Sprintf("%s:%d", f, ps.Line)
}

// Func resolves a function or method of the root package by name:
// "name" or "(*T).name" / "(T).name".
func (p *Program) Func(name string) *ssa.Function { return FuncIn(p.SSA, p.Root, name) }

// TestFunc resolves in mqtttest.
func (p *Program) TestFunc(name string) *ssa.Function { return FuncIn(p.SSA, p.Test, name) }

// A known method that has become a plain function taking the receiver as its
// first parameter (or the reverse) keeps its known name: the parameters are in
// the same positions either way, and the body is judged by the same rules.
var aliasName = map[*ssa.Function]string{}
var aliasFn = map[string]*ssa.Function{}

func (p *Program) aliasMethodsAndFunctions() {
	aliasName = map[*ssa.Function]string{}
	aliasFn = map[string]*ssa.Function{}
	for _, k := range KnownFuncs {
		pkg, prefix := p.Root, ""
		name := k.Name
		if strings.HasPrefix(name, "mqtttest.") {
			pkg, prefix, name = p.Test, "mqtttest.", strings.TrimPrefix(name, "mqtttest.")
		}
		if FuncIn(p.SSA, pkg, name) != nil {
			continue
		}
		if strings.HasPrefix(name, "(") {
			// method → function: (recv).m with (A)(R)  ⇒  m with (recv,A)(R)
			end := strings.Index(name, ").")
			recv, m := name[1:end], name[end+2:]
			f := pkg.Func(m)
			if f == nil || f.Signature.Recv() != nil {
				continue
			}
			want := "(" + recv
			if rest := strings.TrimPrefix(k.Sig, "("); !strings.HasPrefix(rest, ")") {
				want += "," + rest
			} else {
				want += rest
			}
			if SigString(f.Signature, pkg.Pkg) == want {
				aliasName[f] = k.Name
				aliasFn[k.Name] = f
				p.Renames = append(p.Renames, Rename{"func", k.Name, prefix + m + " (a plain function now)"})
			}
			continue
		}
		// function → method: f with (recv,A)(R)  ⇒  (recv).f with (A)(R)
		first := strings.TrimPrefix(k.Sig, "(")
		cut := strings.IndexAny(first, ",)")
		if cut <= 0 {
			continue
		}
		recv := first[:cut]
		m := FuncIn(p.SSA, pkg, "("+recv+")."+name)
		if m == nil {
			continue
		}
		rest := first[cut:]
		rest = strings.TrimPrefix(rest, ",")
		if SigString(m.Signature, pkg.Pkg) == "("+rest {
			aliasName[m] = k.Name
			aliasFn[k.Name] = m
			p.Renames = append(p.Renames, Rename{"func", k.Name, prefix + "(" + recv + ")." + name + " (a method now)"})
		}
	}
}

func FuncIn(prog *ssa.Program, pkg *ssa.Package, name string) *ssa.Function {
	if f, ok := aliasFn[name]; ok && f.Pkg == pkg {
		return f
	}
	if f, ok := aliasFn["mqtttest."+name]; ok && f.Pkg == pkg {
		return f
	}
	if strings.HasPrefix(name, "(") {
		end := strings.Index(name, ").")
		if end < 0 {
			return nil
		}
		recv, m := name[1:end], name[end+2:]
		ptr := strings.HasPrefix(recv, "*")
		recv = strings.TrimPrefix(recv, "*")
		obj := pkg.Pkg.Scope().Lookup(recv)
		if obj == nil {
			return nil
		}
		var t types.Type = obj.Type()
		if ptr {
			t = types.NewPointer(t)
		}
		sel := prog.MethodSets.MethodSet(t).Lookup(pkg.Pkg, m)
		if sel == nil {
			return nil
		}
		return prog.MethodValue(sel)
	}
	if f := pkg.Func(name); f != nil {
		return f
	}
	return nil
}

// SourceFuncs lists every function with a body that belongs to pkg,
// including anonymous functions, in a stable order.
func (p *Program) SourceFuncs(pkg *ssa.Package) []*ssa.Function {
	var out []*ssa.Function
	for f := range p.AllFuncs {
		if f.Blocks == nil || f.Synthetic != "" && !strings.HasPrefix(f.Name(), "init") {
			continue
		}
		if f.Package() == pkg || (f.Package() == nil && f.Pkg == pkg) {
			out = append(out, f)
		} else if top := TopLevel(f); top != f && top.Package() == pkg {
			out = append(out, f)
		}
	}
	sort.Slice(out, func(i, j int) bool {
		if out[i].Pos() != out[j].Pos() {
			return out[i].Pos() < out[j].Pos()
		}
		return out[i].String() < out[j].String()
	})
	// dedupe
	w := 0
	for i, f := range out {
		if i == 0 || out[i-1] != f {
			out[w] = f
			w++
		}
	}
	return out[:w]
}

// TopLevel returns the outermost enclosing function of f.
func TopLevel(f *ssa.Function) *ssa.Function {
	for f.Parent() != nil {
		f = f.Parent()
	}
	return f
}

// FuncName gives a stable display/construct name such as "(*Client).write"
// or "(*Client).termCallbacks$1".
func FuncName(f *ssa.Function) string {
	if f == nil {
		return "<nil>"
	}
	if a, ok := aliasName[f]; ok {
		return a
	}
	if f.Parent() != nil {
		return FuncName(f.Parent()) + strings.TrimPrefix(f.Name(), f.Parent().Name())
	}
	if recv := f.Signature.Recv(); recv != nil {
		t := recv.Type()
		s := types.TypeString(t, func(*types.Package) string { return "" })
		return "(" + s + ")." + f.Name()
	}
	return f.Name()
}
