// Command mutgen lists syntactic mutants of Go source files as byte-range
// replacements (JSON lines). It is a development aid for /verif: the sweep
// script applies each mutant in a scratch worktree, keeps those the test suite
// does not notice and asks every registered check about them. Survivors of
// both are read by hand: equivalent, outside the properties, or a gap.
package main

import (
	"encoding/json"
	"fmt"
	"go/ast"
	"go/parser"
	"go/token"
	"os"
	"strconv"
)

type mutant struct {
	File  string `json:"file"`
	Line  int    `json:"line"`
	Func  string `json:"func"`
	Kind  string `json:"kind"`
	Start int    `json:"start"`
	End   int    `json:"end"`
	Orig  string `json:"orig"`
	Repl  string `json:"repl"`
}

var swaps = map[token.Token][]string{
	token.LSS: {"<="}, token.LEQ: {"<"}, token.GTR: {">="}, token.GEQ: {">"},
	token.EQL: {"!="}, token.NEQ: {"=="},
	token.LAND: {"||"}, token.LOR: {"&&"},
	token.ADD: {"-"}, token.SUB: {"+"},
	token.AND: {"|"}, token.OR: {"&"},
	token.SHL: {">>"}, token.SHR: {"<<"},
}

func main() {
	enc := json.NewEncoder(os.Stdout)
	for _, path := range os.Args[1:] {
		src, err := os.ReadFile(path)
		if err != nil {
			fmt.Fprintln(os.Stderr, err)
			os.Exit(2)
		}
		fset := token.NewFileSet()
		f, err := parser.ParseFile(fset, path, src, parser.ParseComments)
		if err != nil {
			fmt.Fprintln(os.Stderr, err)
			os.Exit(2)
		}
		off := func(p token.Pos) int { return fset.Position(p).Offset }
		emit := func(fn, kind string, s, e token.Pos, repl string) {
			enc.Encode(mutant{File: path, Line: fset.Position(s).Line, Func: fn, Kind: kind, Start: off(s), End: off(e), Orig: string(src[off(s):off(e)]), Repl: repl})
		}
		for _, d := range f.Decls {
			fd, ok := d.(*ast.FuncDecl)
			if !ok || fd.Body == nil {
				continue
			}
			name := fd.Name.Name
			if fd.Recv != nil && len(fd.Recv.List) > 0 {
				t := fd.Recv.List[0].Type
				if s, ok := t.(*ast.StarExpr); ok {
					if id, ok := s.X.(*ast.Ident); ok {
						name = "(*" + id.Name + ")." + name
					}
				} else if id, ok := t.(*ast.Ident); ok {
					name = "(" + id.Name + ")." + name
				}
			}
			ast.Inspect(fd.Body, func(n ast.Node) bool {
				switch x := n.(type) {
				case *ast.BinaryExpr:
					for _, r := range swaps[x.Op] {
						emit(name, "op "+x.Op.String()+"→"+r, x.OpPos, x.OpPos+token.Pos(len(x.Op.String())), r)
					}
				case *ast.BasicLit:
					if x.Kind == token.INT {
						if v, err := strconv.ParseInt(x.Value, 0, 64); err == nil {
							emit(name, "lit+1", x.Pos(), x.End(), strconv.FormatInt(v+1, 10))
							if v > 0 {
								emit(name, "lit-1", x.Pos(), x.End(), strconv.FormatInt(v-1, 10))
							}
						}
					}
				case *ast.IfStmt:
					emit(name, "negate-if", x.Cond.Pos(), x.Cond.End(), "!("+string(src[off(x.Cond.Pos()):off(x.Cond.End())])+")")
					if x.Else != nil {
						if blk, ok := x.Else.(*ast.BlockStmt); ok && len(blk.List) > 0 {
							emit(name, "empty-else", blk.Lbrace+1, blk.Rbrace, "")
						}
					}
				case *ast.BlockStmt:
					stmts(x.List, name, emit, src, off)
				case *ast.CaseClause:
					stmts(x.Body, name, emit, src, off)
				case *ast.CommClause:
					stmts(x.Body, name, emit, src, off)
				}
				return true
			})
		}
	}
}

func simple(s ast.Stmt) bool {
	switch x := s.(type) {
	case *ast.ExprStmt, *ast.IncDecStmt, *ast.SendStmt, *ast.DeferStmt, *ast.GoStmt:
		return true
	case *ast.AssignStmt:
		return x.Tok != token.DEFINE
	case *ast.BranchStmt:
		return x.Tok == token.BREAK || x.Tok == token.CONTINUE
	}
	return false
}

func stmts(list []ast.Stmt, fn string, emit func(fn, kind string, s, e token.Pos, repl string), src []byte, off func(token.Pos) int) {
	for i, s := range list {
		if simple(s) {
			emit(fn, "delete-stmt", s.Pos(), s.End(), "")
		}
		if _, ok := s.(*ast.ReturnStmt); ok && i == 0 {
			continue
		}
		// an if without else whose body is only a return/assignment: drop the whole guard
		if is, ok := s.(*ast.IfStmt); ok && is.Else == nil && is.Init == nil {
			emit(fn, "delete-if", s.Pos(), s.End(), "")
		}
		if i+1 < len(list) && simple(s) && simple(list[i+1]) {
			a := string(src[off(s.Pos()):off(s.End())])
			b := string(src[off(list[i+1].Pos()):off(list[i+1].End())])
			emit(fn, "swap-stmts", s.Pos(), list[i+1].End(), b+"\n"+a)
		}
	}
}
