// Command mutgen2 lists type-aware mutants of the non-test sources of the
// package in the current directory (and ./mqtttest): an identifier replaced by
// another variable, field or constant of the identical type that is visible at
// that place, and adjacent call arguments of identical type swapped. Output
// format as mutgen (JSON lines of byte-range replacements). Development aid.
package main

import (
	"encoding/json"
	"fmt"
	"go/ast"
	"go/token"
	"go/types"
	"os"
	"path/filepath"
	"sort"
	"strings"

	"golang.org/x/tools/go/packages"
)

type mutant struct {
	File  string `json:"file"`
	Line  int    `json:"line"`
	Func  string `json:"func"`
	Kind  string `json:"kind"`
	Start int    `json:"start"`
	End   int    `json:"end"`
	Orig  string `json:"orig"`
	Repl  string `json:"repl"`
}

func main() {
	cfg := &packages.Config{Mode: packages.LoadSyntax, Dir: ".", Tests: false}
	pkgs, err := packages.Load(cfg, ".", "./mqtttest")
	if err != nil || packages.PrintErrors(pkgs) > 0 {
		fmt.Fprintln(os.Stderr, "load failed", err)
		os.Exit(2)
	}
	enc := json.NewEncoder(os.Stdout)
	cwd, _ := os.Getwd()
	for _, pk := range pkgs {
		info := pk.TypesInfo
		for _, f := range pk.Syntax {
			fname := pk.Fset.Position(f.Pos()).Filename
			if strings.HasSuffix(fname, "_test.go") {
				continue
			}
			rel, _ := filepath.Rel(cwd, fname)
			src, _ := os.ReadFile(fname)
			off := func(p token.Pos) int { return pk.Fset.Position(p).Offset }
			emit := func(fn, kind string, s, e token.Pos, repl string) {
				// (a shadowed variable of the same name: the text does not change)
				if string(src[off(s):off(e)]) == repl {
					return
				}
				enc.Encode(mutant{File: rel, Line: pk.Fset.Position(s).Line, Func: fn, Kind: kind, Start: off(s), End: off(e), Orig: string(src[off(s):off(e)]), Repl: repl})
			}
			for _, d := range f.Decls {
				fd, ok := d.(*ast.FuncDecl)
				if !ok || fd.Body == nil {
					continue
				}
				name := fd.Name.Name
				if fd.Recv != nil && len(fd.Recv.List) > 0 {
					t := fd.Recv.List[0].Type
					if s, ok := t.(*ast.StarExpr); ok {
						if id, ok := s.X.(*ast.Ident); ok {
							name = "(*" + id.Name + ")." + name
						}
					} else if id, ok := t.(*ast.Ident); ok {
						name = "(" + id.Name + ")." + name
					}
				}
				// left-hand sides of := and = are not uses to replace
				lhs := map[*ast.Ident]bool{}
				ast.Inspect(fd.Body, func(n ast.Node) bool {
					if as, ok := n.(*ast.AssignStmt); ok {
						for _, l := range as.Lhs {
							if id, ok := l.(*ast.Ident); ok {
								lhs[id] = true
							}
						}
					}
					return true
				})
				selSel := map[*ast.Ident]*ast.SelectorExpr{}
				ast.Inspect(fd.Body, func(n ast.Node) bool {
					if se, ok := n.(*ast.SelectorExpr); ok {
						selSel[se.Sel] = se
					}
					return true
				})
				ast.Inspect(fd.Body, func(n ast.Node) bool {
					switch x := n.(type) {
					case *ast.Ident:
						if lhs[x] || x.Name == "_" {
							return true
						}
						obj := info.Uses[x]
						switch o := obj.(type) {
						case *types.Var:
							if se, isSel := selSel[x]; isSel && o.IsField() {
								// sibling field of the identical type
								sel := info.Selections[se]
								if sel == nil {
									return true
								}
								st, ok := deref(sel.Recv()).Underlying().(*types.Struct)
								if !ok {
									return true
								}
								for i := 0; i < st.NumFields(); i++ {
									g := st.Field(i)
									if g != o && !g.Embedded() && types.Identical(g.Type(), o.Type()) {
										emit(name, "field "+o.Name()+"→"+g.Name(), x.Pos(), x.End(), g.Name())
									}
								}
								return true
							}
							if o.IsField() || o.Parent() == pk.Types.Scope() || o.Pkg() != pk.Types {
								return true
							}
							// another local or parameter of the identical type, visible here
							var cands []string
							for sc := pk.Types.Scope().Innermost(x.Pos()); sc != nil && sc != pk.Types.Scope(); sc = sc.Parent() {
								for _, nm := range sc.Names() {
									v, ok := sc.Lookup(nm).(*types.Var)
									if !ok || v == o || nm == "_" || v.Pos() >= x.Pos() || !types.Identical(v.Type(), o.Type()) {
										continue
									}
									cands = append(cands, nm)
								}
							}
							sort.Strings(cands)
							for _, cnd := range cands {
								emit(name, "var "+o.Name()+"→"+cnd, x.Pos(), x.End(), cnd)
							}
						case *types.Const:
							if o.Pkg() != pk.Types || o.Parent() != pk.Types.Scope() {
								return true
							}
							for _, nm := range pk.Types.Scope().Names() {
								k, ok := pk.Types.Scope().Lookup(nm).(*types.Const)
								if !ok || k == o || !types.Identical(k.Type(), o.Type()) || k.Val().ExactString() == o.Val().ExactString() {
									continue
								}
								if similar(nm, o.Name()) {
									emit(name, "const "+o.Name()+"→"+nm, x.Pos(), x.End(), nm)
								}
							}
						}
					case *ast.ReturnStmt:
						// an error result returned as nil (the failure swallowed at this exit)
						for _, r := range x.Results {
							t := info.TypeOf(r)
							if t == nil || !types.Identical(t, errType) {
								continue
							}
							if id, isID := r.(*ast.Ident); isID && id.Name == "nil" {
								continue
							}
							emit(name, "ret-nil", r.Pos(), r.End(), "nil")
						}
					case *ast.BranchStmt:
						if x.Label == nil {
							switch x.Tok {
							case token.BREAK:
								emit(name, "break→continue", x.Pos(), x.End(), "continue")
							case token.CONTINUE:
								emit(name, "continue→break", x.Pos(), x.End(), "break")
							}
						}
					case *ast.AssignStmt:
						// `x, err = f()` in a nested block turned into a declaration: the outer variable keeps its value
						if x.Tok == token.ASSIGN && len(x.Lhs) >= 1 {
							all := true
							for _, l := range x.Lhs {
								if _, isID := l.(*ast.Ident); !isID {
									all = false
								}
							}
							if all {
								emit(name, "shadow =→:=", x.TokPos, x.TokPos+1, ":=")
							}
						}
					case *ast.CallExpr:
						for i := 0; i+1 < len(x.Args); i++ {
							a, b := x.Args[i], x.Args[i+1]
							ta, tb := info.TypeOf(a), info.TypeOf(b)
							if ta == nil || tb == nil || !types.Identical(ta, tb) {
								continue
							}
							sa, sb := string(src[off(a.Pos()):off(a.End())]), string(src[off(b.Pos()):off(b.End())])
							if sa == sb {
								continue
							}
							emit(name, "swap-args", a.Pos(), b.End(), sb+", "+sa)
						}
					}
					return true
				})
			}
		}
	}
}

var errType = types.Universe.Lookup("error").Type()

func deref(t types.Type) types.Type {
	if p, ok := t.(*types.Pointer); ok {
		return p.Elem()
	}
	return t
}

// similar: the names share a prefix or a suffix of four letters (typePUBREC /
// typePUBREL, atLeastOnceIDSpace / exactlyOnceIDSpace).
func similar(a, b string) bool {
	if len(a) >= 4 && len(b) >= 4 && (a[:4] == b[:4] || a[len(a)-4:] == b[len(b)-4:]) {
		return true
	}
	return false
}
