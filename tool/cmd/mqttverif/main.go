package main

import (
	"flag"
	"fmt"
	"os"

	"mqttverif/internal/load"
	"mqttverif/internal/pathx"
	"mqttverif/internal/rules"
)

func main() {
	if len(os.Args) < 2 {
		fmt.Fprintln(os.Stderr, "usage: mqttverif check|paths|list ...")
		os.Exit(2)
	}
	switch os.Args[1] {
	case "paths":
		fs := flag.NewFlagSet("paths", flag.ExitOnError)
		repo := fs.String("repo", "/repo", "repository under analysis")
		fn := fs.String("f", "", "function, e.g. (*Client).write")
		pkg := fs.String("pkg", "root", "root|mqtttest")
		loads := fs.Bool("loads", false, "emit field loads")
		fs.Parse(os.Args[2:])
		p, err := load.Load(*repo, false)
		if err != nil {
			fmt.Fprintln(os.Stderr, err)
			os.Exit(2)
		}
		f := p.Func(*fn)
		if *pkg == "mqtttest" {
			f = p.TestFunc(*fn)
		}
		if f == nil {
			// try anonymous functions by display name
			for g := range p.AllFuncs {
				if load.FuncName(g) == *fn {
					f = g
				}
			}
		}
		if f == nil {
			fmt.Fprintln(os.Stderr, "no such function")
			os.Exit(2)
		}
		if err := rules.DumpPaths(os.Stdout, p, f, pathx.Config{Loads: *loads}); err != nil {
			fmt.Fprintln(os.Stderr, err)
			os.Exit(2)
		}
	case "bce":
		p, err := load.Load("/repo", false)
		if err != nil {
			fmt.Fprintln(os.Stderr, err)
			os.Exit(2)
		}
		rules.DumpBCE(rules.NewCtx(p, "debug", "quick"))
	case "narrow":
		p, err := load.Load("/repo", false)
		if err != nil {
			fmt.Fprintln(os.Stderr, err)
			os.Exit(2)
		}
		rules.DumpNarrow(os.Stdout, p)
		rules.DumpNarrowArith(os.Stdout, p)
	case "errors":
		p, err := load.Load("/repo", false)
		if err != nil {
			fmt.Fprintln(os.Stderr, err)
			os.Exit(2)
		}
		rules.DumpErrors(os.Stdout, p)
	default:
		os.Exit(rules.Main(os.Args[1:]))
	}
}
